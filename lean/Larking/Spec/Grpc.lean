import Larking.Model.Timeout
/-
  Specification data written from the gRPC protocol documents, independently of the
  larking source.
-/
namespace Larking.Spec
open Larking.Timeout

/-- gRPC spec: TimeoutUnit → "H" / "M" / "S" / "m" / "u" / "n", in nanoseconds. -/
def unitNs (c : UInt8) : Int :=
  if c = 72 then 3600000000000 else if c = 77 then 60000000000 else if c = 83 then 1000000000
  else if c = 109 then 1000000 else if c = 117 then 1000 else if c = 110 then 1 else 0

/-- gRPC spec: Timeout → TimeoutValue TimeoutUnit, TimeoutValue → {positive integer as
ASCII string of at most 8 digits}. -/
def InTimeoutLanguage (s : Bytes) : Prop :=
  ∃ ds u, s = ds ++ [u] ∧ 1 ≤ ds.length ∧ ds.length ≤ 8 ∧ ds.all isDigit = true ∧ unitNs u ≠ 0

/-- keys the gRPC-over-HTTP/2 protocol reserves for itself. -/
def protocolKeys : List String :=
  ["content-type", "grpc-status", "grpc-message", "grpc-status-details-bin", "grpc-encoding",
   "grpc-timeout", "te", "user-agent", "grpc-message-type"]

end Larking.Spec
