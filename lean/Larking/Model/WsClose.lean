import Larking.Model.Basic
/-
  http.go (WebSocket branch of serveHTTP): the close frame sent for a failed RPC.  A control
  frame carries at most 125 bytes — the close code (2 bytes) and a reason that must be valid
  UTF-8 (RFC 6455 5.5, 5.5.1).  `strings.ToValidUTF8(cut, "")` on a cut of a valid UTF-8
  string only removes the incomplete sequence at its end: that is what `trimTail` computes.
-/
namespace Larking.WsClose

/-- bytes a UTF-8 sequence starting with `c` has; 0 for a continuation byte. -/
def seqLen (c : UInt8) : Nat :=
  if c.toNat < 128 then 1 else if c.toNat ≥ 240 then 4 else if c.toNat ≥ 224 then 3 else if c.toNat ≥ 192 then 2 else 0

/-- drop an incomplete UTF-8 sequence at the end (looking at the last three bytes). -/
def trimTail (b : Bytes) : Bytes :=
  let n := b.length
  let lead (k : Nat) : Option Nat := if k ≤ n then (b[n - k]?).map seqLen else none
  match lead 1 with
  | some l1 => if l1 > 1 then b.take (n - 1) else if l1 == 1 then b else
    match lead 2 with
    | some l2 => if l2 > 2 then b.take (n - 2) else if l2 ≥ 1 then b else
      match lead 3 with
      | some l3 => if l3 > 3 then b.take (n - 3) else b
      | none => b
    | none => b
  | none => b

/-- the reason of the close frame: the status message, cut to `max` bytes on a rune boundary
(`runeSafe`) or wherever byte `max` falls. -/
def reason (max : Nat) (runeSafe : Bool) (msg : Bytes) : Bytes :=
  if msg.length > max then (if runeSafe then trimTail (msg.take max) else msg.take max) else msg

/-- payload of the close frame. -/
def body (code : Nat) (r : Bytes) : Bytes := [UInt8.ofNat (code / 256), UInt8.ofNat (code % 256)] ++ r

end Larking.WsClose
