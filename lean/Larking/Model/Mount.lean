import Larking.Model.Basic
/-
  server.go NewServer: where the mux is mounted, next to the handlers of HTTPHandlerOption.
  net/http.ServeMux is modelled for the patterns used here (no host, no method, no
  wildcards): a pattern ending in '/' patMatches every path below it, any other pattern patMatches
  exactly; the most specific (here: longest) matching pattern wins.  Paths are clean
  (ServeMux redirects the others before any handler runs).
-/
namespace Larking.Mount

abbrev Path := List Char

inductive Target where
  | mux (strip : Path)     -- http.StripPrefix(strip, mux); strip = [] for the bare mux
  | extra (i : Nat)        -- the i-th HTTPHandlerOption
deriving Repr, DecidableEq

def trimSlash (p : Path) : Path :=
  match p.reverse with
  | '/' :: r => r.reverse
  | _ => p

/-- the patterns NewServer registers for the mux, in order. `stripRaw`: strip the pattern as
given instead of the trimmed prefix (the seeded slip). -/
def muxEntries (stripRaw : Bool) (patterns : List Path) : List (Path × Target) :=
  (if patterns.isEmpty then [['/']] else patterns).map fun pattern =>
    let prefix_ := trimSlash pattern
    if prefix_.length > 0 then (prefix_ ++ ['/'], .mux (if stripRaw then pattern else prefix_))
    else (['/'], .mux [])

/-- HTTPHandlerOption adds to one ServeMux (`keepAll`); the seeded variant starts a new one
each time, so only the last survives. -/
def extraEntries (keepAll : Bool) (extras : List Path) : List (Path × Target) :=
  let all := extras.zipIdx.map fun (p, i) => (p, Target.extra i)
  if keepAll then all else all.drop (all.length - 1)

def patMatches (pattern path : Path) : Bool :=
  if pattern.getLast? = some '/' then pattern.isPrefixOf path else pattern == path

/-- the longest matching pattern (ServeMux's precedence for these pattern shapes). -/
def pick : List (Path × Target) → Path → Option (Path × Target)
  | [], _ => none
  | e :: rest, path =>
    let r := pick rest path
    if patMatches e.1 path then
      match r with
      | some e' => if e'.1.length > e.1.length then some e' else some e
      | none => some e
    else r

inductive Served where
  | byMux (seen : Path)      -- the mux serves it and sees this path
  | byExtra (i : Nat)
  | notFound                 -- ServeMux's own 404 (also StripPrefix's when the prefix is not there)
deriving Repr, DecidableEq

def serve (table : List (Path × Target)) (path : Path) : Served :=
  match pick table path with
  | none => .notFound
  | some (_, .extra i) => .byExtra i
  | some (_, .mux strip) =>
    if strip.isPrefixOf path then .byMux (path.drop strip.length) else .notFound

def table (stripRaw keepAll : Bool) (patterns extras : List Path) : List (Path × Target) :=
  extraEntries keepAll extras ++ muxEntries stripRaw patterns

end Larking.Mount
