import Larking.Model.Base64
/-
  C05: status tables and guards (code.go), grpc-message percent encoding (grpc.go),
  Twirp code names (http.go), base64 text-mode writer and trailer frame (web.go).
-/
namespace Larking.Status

/-- comparison used by the bounds guard in `HTTPStatusCode` / `WSStatusCode`
(regenerated from the AST). -/
inductive GuardOp where | gt | ge
deriving Repr, DecidableEq

def GuardOp.eval : GuardOp → Nat → Nat → Bool
  | .gt, c, n => decide (c > n)
  | .ge, c, n => decide (c ≥ n)

/-- `if int(c) <op> len(<guardTable>) { return dflt }; return table[c]` with Go's
bounds check made explicit. `c` is a `codes.Code` (uint32) so `int(c) ≥ 0`. -/
def lookup (op : GuardOp) (guardLen : Nat) (table : List Nat) (dflt : Nat) (c : Nat) : Outcome Nat :=
  if op.eval c guardLen then .ok dflt
  else match table[c]? with
    | some v => .ok v
    | none => .panic "index out of range"

/-- `fmt.Sprintf("%%%02x", c)` -/
def pct (c : UInt8) : Bytes := [37, hexDigit (c.toNat / 16), hexDigit (c.toNat % 16)]

/-- The loop of `encodeGrpcMessage` with its state made explicit:
`pending` = `msg[pos:i]`, `sb` = builder contents, `escaped` = (`pos ≠ 0`). -/
def encLoop (needsEsc : UInt8 → Bool) : Bytes → Bytes → Bytes → Bool → Bytes × Bytes × Bool
  | [], pending, sb, escaped => (pending, sb, escaped)
  | c :: rest, pending, sb, escaped =>
      if needsEsc c then encLoop needsEsc rest [] (sb ++ pending ++ pct c) true
      else encLoop needsEsc rest (pending ++ [c]) sb escaped

/-- `encodeGrpcMessage`: after the loop, `pos == 0` returns the input unchanged,
otherwise the builder plus the unescaped tail `msg[pos:]`. -/
def encodeGrpcMessage (needsEsc : UInt8 → Bool) (msg : Bytes) : Bytes :=
  match encLoop needsEsc msg [] [] false with
  | (pending, sb, escaped) => if escaped then sb ++ pending else msg

/-- What a gRPC client does with grpc-message (grpc-go `decodeGrpcMessageUnchecked`,
the gRPC spec's percent-decoding): `%XY` with two hex digits is one byte, anything
else is literal. -/
def decodeGrpcMessage : Bytes → Bytes
  | [] => []
  | [a] => [a]
  | [a, b] => [a, b]
  | a :: b :: c :: rest =>
      if a == 37 then
        match unhex b, unhex c with
        | some x, some y => UInt8.ofNat (x * 16 + y) :: decodeGrpcMessage rest
        | _, _ => a :: decodeGrpcMessage (b :: c :: rest)
      else a :: decodeGrpcMessage (b :: c :: rest)

/-- Twirp error-code string for a gRPC code, as the code computes it from the
lower-cased protobuf enum names given in `names` (regenerated). -/
def twirpName (names : List String) (c : Nat) : String := names.getD c ""

/-! ### grpc-web-text: streaming base64 writer (`base64.NewEncoder`) -/

structure B64Writer where
  pending : Bytes    -- 0..2 bytes buffered by the encoder
  out : Bytes        -- everything written to the underlying ResponseWriter
deriving Repr

/-- take whole 3-byte groups, return (encoded groups, leftover < 3 bytes) -/
def encGroups : Bytes → Bytes × Bytes
  | a :: b :: c :: rest =>
      let (o, l) := encGroups rest
      (Base64.encode false true [a, b, c] ++ o, l)
  | l => ([], l)

def B64Writer.write (w : B64Writer) (p : Bytes) : B64Writer :=
  let (o, l) := encGroups (w.pending ++ p)
  { pending := l, out := w.out ++ o }

/-- `Close()` flushes the partial quantum with padding. -/
def B64Writer.close (w : B64Writer) : B64Writer :=
  { pending := [], out := w.out ++ Base64.encode false true w.pending }

/-- bytes the client finally sees in text mode for the given sequence of writes;
`closed` says whether the handler closes the encoder at the end. -/
def textModeOutput (closed : Bool) (writes : List Bytes) : Bytes :=
  let w := writes.foldl B64Writer.write { pending := [], out := [] }
  if closed then w.close.out else w.out

/-- big-endian 4-byte length. -/
def be32 (n : Nat) : Bytes :=
  [UInt8.ofNat (n / 16777216 % 256), UInt8.ofNat (n / 65536 % 256),
   UInt8.ofNat (n / 256 % 256), UInt8.ofNat (n % 256)]

def unbe32 : Bytes → Option Nat
  | [a, b, c, d] => some (a.toNat * 16777216 + b.toNat * 65536 + c.toNat * 256 + d.toNat)
  | _ => none

/-- gRPC / gRPC-web frame: flag byte, big-endian length, payload. -/
def frame (flag : UInt8) (payload : Bytes) : Bytes := flag :: be32 payload.length ++ payload

/-- client-side deframer: splits a byte stream into (flag, payload) frames;
`none` if the stream ends inside a frame. -/
def deframe : Nat → Bytes → Option (List (UInt8 × Bytes))
  | _, [] => some []
  | 0, _ => none
  | fuel + 1, flag :: rest =>
      match unbe32 (rest.take 4) with
      | none => none
      | some n =>
        let body := rest.drop 4
        if body.length < n then none
        else (deframe fuel (body.drop n)).map (fun fs => (flag, body.take n) :: fs)

end Larking.Status
