import Larking.Model.Registry
/-
  The writer protocol of RegisterService / RegisterConn / DropConn under concurrency:
  `m.mu.Lock(); defer m.mu.Unlock(); s := m.loadState().clone(); <modify s>; m.storeState(s)`.
  Threads interleave at statement granularity in any order (`sched`); readers are a single
  atomic load and need no modelling beyond "they see some published state".
  The order of the five statements is regenerated from the AST of each function
  (`Gen.writerOrder`, a deferred unlock placed at the end) and compared with `canon`.
-/
namespace Larking.Writers
open Larking.Registry

inductive Stmt where
  | lock | load | modify | store | unlock
deriving DecidableEq, Repr

def canon : List Stmt := [.lock, .load, .modify, .store, .unlock]

structure Th where
  op : Op
  pc : Nat
  loc : St
  held : Bool

structure Sys where
  pub : St
  locked : Bool
  ths : Nat → Th
  log : List Op     -- ghost: the calls whose result was stored, in store order

def Sys.init (ops : Nat → Op) : Sys :=
  { pub := St.init, locked := false, ths := fun i => ⟨ops i, 0, St.init, false⟩, log := [] }

/-- thread `i` executes its next statement (a blocked `Lock` and a finished thread do nothing). -/
def stepTh (order : List Stmt) (ch : Chooser) (s : Sys) (i : Nat) : Sys :=
  let t := s.ths i
  match order[t.pc]? with
  | none => s
  | some .lock =>
    if s.locked then s
    else { s with locked := true, ths := put s.ths i { t with pc := t.pc + 1, held := true } }
  | some .load => { s with ths := put s.ths i { t with pc := t.pc + 1, loc := s.pub } }
  | some .modify => { s with ths := put s.ths i { t with pc := t.pc + 1, loc := (step ch t.loc t.op).1 } }
  | some .store => { s with pub := t.loc, log := s.log ++ [t.op], ths := put s.ths i { t with pc := t.pc + 1 } }
  | some .unlock =>
    { s with locked := if t.held then false else s.locked, ths := put s.ths i { t with pc := t.pc + 1, held := false } }

def runSched (order : List Stmt) (ch : Chooser) (s : Sys) (sched : List Nat) : Sys :=
  sched.foldl (stepTh order ch) s

end Larking.Writers
