import Larking.Model.Basic
/-
  Base64 as Go's encoding/base64 implements it (std / url alphabets, padded / raw),
  non-strict decoding, '\r' and '\n' ignored.  Used by grpc `-bin` headers (C14),
  grpc-web-text (C05/C06) and bytes-typed URL parameters (C03).
-/
namespace Larking.Base64

/-- character for 6-bit value `n` (`n < 64`). -/
def encChar (url : Bool) (n : Nat) : UInt8 :=
  if n < 26 then UInt8.ofNat (65 + n)
  else if n < 52 then UInt8.ofNat (71 + n)        -- 'a' = 97 = 71 + 26
  else if n < 62 then UInt8.ofNat (n - 4)         -- '0' = 48 = 52 - 4
  else if n = 62 then (if url then 45 else 43)    -- '-' / '+'
  else (if url then 95 else 47)                   -- '_' / '/'

/-- 6-bit value of an alphabet character; `none` for anything else (incl. '='). -/
def decChar (url : Bool) (c : UInt8) : Option Nat :=
  let n := c.toNat
  if 65 ≤ n ∧ n ≤ 90 then some (n - 65)
  else if 97 ≤ n ∧ n ≤ 122 then some (n - 71)
  else if 48 ≤ n ∧ n ≤ 57 then some (n + 4)
  else if n = (if url then 45 else 43) then some 62
  else if n = (if url then 95 else 47) then some 63
  else none

def padByte : UInt8 := 61

def q0 (a : UInt8) : Nat := a.toNat / 4
def q1 (a b : UInt8) : Nat := (a.toNat % 4) * 16 + b.toNat / 16
def q2 (b c : UInt8) : Nat := (b.toNat % 16) * 4 + c.toNat / 64
def q3 (c : UInt8) : Nat := c.toNat % 64

def encode (url pad : Bool) : Bytes → Bytes
  | [] => []
  | [a] => encChar url (q0 a) :: encChar url (q1 a 0) :: (if pad then [padByte, padByte] else [])
  | [a, b] => encChar url (q0 a) :: encChar url (q1 a b) :: encChar url (q2 b 0) ::
      (if pad then [padByte] else [])
  | a :: b :: c :: rest =>
      encChar url (q0 a) :: encChar url (q1 a b) :: encChar url (q2 b c) :: encChar url (q3 c) ::
        encode url pad rest

def b0 (d0 d1 : Nat) : UInt8 := UInt8.ofNat ((d0 * 4 + d1 / 16) % 256)
def b1 (d1 d2 : Nat) : UInt8 := UInt8.ofNat (((d1 % 16) * 16 + d2 / 4) % 256)
def b2 (d2 d3 : Nat) : UInt8 := UInt8.ofNat (((d2 % 4) * 64 + d3) % 256)

/-- Decoder over input from which '\r' and '\n' were already removed. -/
def decodeCore (url pad : Bool) : Bytes → Option Bytes
  | [] => some []
  | [_] => none
  | [c0, c1] =>
      if pad then none else do
        let d0 ← decChar url c0; let d1 ← decChar url c1
        pure [b0 d0 d1]
  | [c0, c1, c2] =>
      if pad then none else do
        let d0 ← decChar url c0; let d1 ← decChar url c1; let d2 ← decChar url c2
        pure [b0 d0 d1, b1 d1 d2]
  | c0 :: c1 :: c2 :: c3 :: rest =>
      if pad && c2 == padByte then
        (if c3 == padByte && rest.isEmpty then do
          let d0 ← decChar url c0; let d1 ← decChar url c1
          pure [b0 d0 d1]
        else none)
      else if pad && c3 == padByte then
        (if rest.isEmpty then do
          let d0 ← decChar url c0; let d1 ← decChar url c1; let d2 ← decChar url c2
          pure [b0 d0 d1, b1 d1 d2]
        else none)
      else do
        let d0 ← decChar url c0; let d1 ← decChar url c1
        let d2 ← decChar url c2; let d3 ← decChar url c3
        let r ← decodeCore url pad rest
        pure (b0 d0 d1 :: b1 d1 d2 :: b2 d2 d3 :: r)

def isNewline (c : UInt8) : Bool := c == 10 || c == 13

/-- Go's `Encoding.DecodeString` (non-strict): `none` = CorruptInputError. -/
def decode (url pad : Bool) (src : Bytes) : Option Bytes :=
  decodeCore url pad (src.filter (fun c => !isNewline c))

end Larking.Base64
