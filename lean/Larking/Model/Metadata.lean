import Larking.Model.Base64
/-
  C14: HTTP headers ⇄ gRPC metadata (grpc.go): reserved / whitelisted keys, `-bin`
  values, canonical header keys; trailer delivery rule of net/http as a parameter.
  Keys are ASCII tokens (what net/http and grpc's metadata package produce).
-/
namespace Larking.Metadata

def lowerByte (c : UInt8) : UInt8 := if 65 ≤ c.toNat ∧ c.toNat ≤ 90 then c + 32 else c
def upperByte (c : UInt8) : UInt8 := if 97 ≤ c.toNat ∧ c.toNat ≤ 122 then c - 32 else c
def lower (k : Bytes) : Bytes := k.map lowerByte

/-- `textproto.CanonicalMIMEHeaderKey` on a valid token: upper-case the first letter
and every letter after '-', lower-case the rest. -/
def canonAux : Bool → Bytes → Bytes
  | _, [] => []
  | up, c :: rest => (if up then upperByte c else lowerByte c) :: canonAux (c == 45) rest
def canonical (k : Bytes) : Bytes := canonAux true k

def binSuffix : Bytes := [45, 98, 105, 110]   -- "-bin"
def hasBinSuffix (k : Bytes) : Bool := binSuffix.isSuffixOf k

def encodeBin (b : Bytes) : Bytes := Base64.encode false false b

/-- `decodeBinHeader`: `paddedWhenMul4` says which decoder the `len(v)%4 == 0` branch uses
(regenerated: true = `StdEncoding`, false = `RawStdEncoding`). -/
def decodeBin (paddedWhenMul4 : Bool) (v : Bytes) : Option Bytes :=
  if v.length % 4 == 0 then Base64.decode false paddedWhenMul4 v
  else Base64.decode false false v

abbrev MD := List (Bytes × List Bytes)

/-- one header entry → one metadata entry (or none if filtered). -/
def incomingEntry (reserved whitelisted : List Bytes) (paddedWhenMul4 : Bool)
    (kv : Bytes × List Bytes) : Option (Bytes × List Bytes) :=
  let k := lower kv.1
  if reserved.contains k && !whitelisted.contains k then none
  else if hasBinSuffix k then
    some (k, kv.2.map fun v => (decodeBin paddedWhenMul4 v).getD [])
  else some (k, kv.2)

/-- `newIncomingContext` over a header whose keys are distinct after lower-casing. -/
def incoming (reserved whitelisted : List Bytes) (paddedWhenMul4 : Bool) (hdr : MD) : MD :=
  hdr.filterMap (incomingEntry reserved whitelisted paddedWhenMul4)

def outgoingEntry (reserved : List Bytes) (kv : Bytes × List Bytes) : Option (Bytes × List Bytes) :=
  if reserved.contains kv.1 then none
  else if hasBinSuffix kv.1 then some (canonical kv.1, kv.2.map encodeBin)
  else some (canonical kv.1, kv.2)

/-- entries `setOutgoingHeader` assigns (each replaces the header's previous value). -/
def outgoing (reserved : List Bytes) (md : MD) : MD := md.filterMap (outgoingEntry reserved)

/-- `http.TrailerPrefix` = "Trailer:" -/
def trailerPrefix : Bytes := [84, 114, 97, 105, 108, 101, 114, 58]

/-- net/http's rule (parameter, validated against the real h2 server by the harness): a
header key set after the header block was flushed reaches the client as a trailer iff it
was announced in `Trailer` beforehand or carries the `Trailer:` prefix (which is stripped). -/
def deliveredTrailers (announced : List Bytes) (lateHeaders : MD) : MD :=
  lateHeaders.filterMap fun kv =>
    if trailerPrefix.isPrefixOf kv.1 then some (kv.1.drop trailerPrefix.length, kv.2)
    else if announced.contains kv.1 then some kv
    else none

/-- keys under which `serveGRPC` publishes handler trailers: `prefixed` = with
`http.TrailerPrefix` (regenerated). -/
def grpcTrailerEntries (reserved : List Bytes) (prefixed : Bool) (trailer : MD) : MD :=
  (outgoing reserved trailer).map fun kv => (if prefixed then trailerPrefix ++ kv.1 else kv.1, kv.2)

end Larking.Metadata
