import Larking.Model.Basic
/-
  mux.go createConnHandler: the forwarders of RegisterConn, at the level of what each side
  observes.  A backend is ANY function from what it has received (messages, half-close or
  not) to what it has produced (replies, final status if it has finished); the front client
  sends `ms` and half-closes.  Interleavings are not observable in the transcripts the
  property compares (message lists and the final status), so the model is sequential.
-/
namespace Larking.Proxy

/-- a final status: code and an opaque payload standing for message + details. -/
structure Status where
  code : Nat
  payload : Nat
deriving Repr, DecidableEq

def Status.ok : Status := ⟨0, 0⟩

/-- errors as the forwarder sees them. -/
inductive Err where
  | none                    -- nil
  | eof                     -- io.EOF
  | ctxCanceled             -- the raw context.Canceled value
  | status (s : Status)     -- a status error (whatever its code)
  | transport (id : Nat)    -- any other error
deriving Repr, DecidableEq

/-- grpc.go isStreamError: `switch err { case nil, io.EOF, context.Canceled: false }; true`.
`exempt` is the regenerated case list. -/
def isStreamError (exemptNil exemptEOF exemptCtx : Bool) (exemptCode : Option Nat := none) : Err → Bool
  | .none => !exemptNil
  | .eof => !exemptEOF
  | .ctxCanceled => !exemptCtx
  | .status s => some s.code != exemptCode
  | _ => true

/-- what a backend has produced given what it has received so far. `none` = still running
(it waits for more input). -/
abbrev Backend (Msg Rep : Type) := List Msg → Bool → List Rep × Option Status

structure Seen (Msg Rep : Type) where
  backendGot : List Msg
  backendHalfClosed : Bool
  clientGot : List Rep
  clientStatus : Option Status     -- none = the call never finishes
deriving Repr

/-- what a grpc-go client hands to its caller: every reply of a server stream; for a single
response call the one reply, and nothing when the final status is an error. -/
def clientView {Rep : Type} (ss : Bool) (reps : List Rep) (st : Option Status) : List Rep :=
  if ss then reps else
    match st with
    | some s => if s.code = 0 then reps.take 1 else []
    | none => reps.take 1

/-- the client calls the backend directly. -/
def direct {Msg Rep : Type} (ss : Bool) (B : Backend Msg Rep) (ms : List Msg) : Seen Msg Rep :=
  let r := B ms true
  ⟨ms, true, clientView ss r.1 r.2, r.2⟩

/-- the status error a client sees for a backend result: grpc-go turns a non-OK final status
into the error returned by RecvMsg / Invoke, OK into io.EOF / nil. -/
def asErr (s : Status) : Err := if s.code = 0 then .eof else .status s

/-- the stream forwarder as written.
`cs`/`ss`: the method's streaming flags. `closeOnEmpty`: whether CloseSend is reached when the
very first front RecvMsg already returned io.EOF (it sits after the pump's loop, which is then
not entered). -/
def streamProxy {Msg Rep : Type} (ex : Bool × Bool × Bool × Option Nat) (closeOnEmpty : Bool) (cs ss : Bool)
    (B : Backend Msg Rep) (ms : List Msg) : Seen Msg Rep :=
  match ms with
  | [] =>
    -- inErr = io.EOF from the first RecvMsg
    if !cs then ⟨[], false, [], some ⟨13, 0⟩⟩   -- returned as the call's error (never happens for a conforming client)
    else
      let hc := closeOnEmpty
      let r := B [] hc
      match r.2 with
      | none => ⟨[], hc, clientView ss r.1 none, none⟩
      | some st =>
        let outErr := asErr st
        let reps := clientView ss r.1 r.2
        if isStreamError ex.1 ex.2.1 ex.2.2.1 ex.2.2.2 outErr then ⟨[], hc, reps, some st⟩
        else ⟨[], hc, reps, some Status.ok⟩
  | first :: rest =>
    -- first message forwarded synchronously; the pump forwards the rest and half-closes at EOF;
    -- grpc-go half-closes by itself after the only message of a non-client-streaming call
    let sent := if cs then first :: rest else [first]
    let r := B sent true
    match r.2 with
    | none => ⟨sent, true, clientView ss r.1 none, none⟩
    | some st =>
      let outErr := asErr st
      let reps := clientView ss r.1 r.2
      if isStreamError ex.1 ex.2.1 ex.2.2.1 ex.2.2.2 outErr then ⟨sent, true, reps, some st⟩
      else ⟨sent, true, reps, some Status.ok⟩

/-- the backend has ALREADY ended the call (status `st`) when the forwarder sends the first message:
grpc-go's `ClientStream.SendMsg` then returns io.EOF and the status is to be discovered with
`RecvMsg`. `eofIsFinal` = the forwarder returns that io.EOF as the call's error (a client then
sees Unknown "EOF": io.EOF is not a status) instead of going on to `RecvMsg`. -/
def earlyEnd (ex : Bool × Bool × Bool × Option Nat) (eofIsFinal : Bool) (st : Status) : Status :=
  if eofIsFinal then ⟨2, 0⟩
  else if isStreamError ex.1 ex.2.1 ex.2.2.1 ex.2.2.2 (asErr st) then st else Status.ok

/-- the unary forwarder: `cc.Invoke`, its error returned as is. -/
def unaryProxy {Msg Rep : Type} (B : Backend Msg Rep) (m : Msg) : Seen Msg Rep :=
  let r := B [m] true
  match r.2 with
  | none => ⟨[m], true, clientView false r.1 none, none⟩
  | some st => ⟨[m], true, clientView false r.1 (some st), some st⟩

end Larking.Proxy
