import Larking.Model.Metadata
/-
  web.go `webWriter`: which header entries are "seen" when the header block goes out and
  which entries the trailer frame of a gRPC-web response is built from.  `http.Header` is a
  map: it is modelled as an association list with distinct keys; the order of the list is
  the order in which Go happens to range over the map, so theorems that hold for every list
  hold for every iteration order.
-/
namespace Larking.Web
open Larking.Metadata

/-- `m[k] = vs` on a map kept as an association list. -/
def setKey (m : MD) (k : Bytes) (vs : List Bytes) : MD :=
  if m.any (fun kv => kv.1 == k) then m.map (fun kv => if kv.1 == k then (k, vs) else kv)
  else m ++ [(k, vs)]

def lookup (m : MD) (k : Bytes) : Option (List Bytes) := (m.find? (fun kv => kv.1 == k)).map (·.2)

structure W where
  hdr : MD                -- the underlying ResponseWriter's header map
  seen : List Bytes       -- `seenHeaders`
  wroteHeader : Bool
deriving Repr

def init : W := ⟨[], [], false⟩

/-- "Content-Type" -/
def contentTypeKey : Bytes := [67, 111, 110, 116, 101, 110, 116, 45, 84, 121, 112, 101]

/-- `seeHeaders`: override the content type, remember every key that is not a trailer key. -/
def seeHeaders (ct : Bytes) (w : W) : W :=
  let hdr := setKey w.hdr contentTypeKey [ct]
  { hdr := hdr,
    seen := (hdr.map (·.1)).filter (fun k => !trailerPrefix.isPrefixOf k),
    wroteHeader := true }

inductive Op where
  | set (k : Bytes) (vs : List Bytes)   -- anybody assigns a header entry (`w.Header()[k] = vs`)
  | del (k : Bytes)
  | write                               -- `Write`: sees the headers the first time
  | writeHeader                         -- `WriteHeader`: always sees the headers
deriving Repr

def step (ct : Bytes) (w : W) : Op → W
  | .set k vs => { w with hdr := setKey w.hdr k vs }
  | .del k => { w with hdr := w.hdr.filter (fun kv => !(kv.1 == k)) }
  | .write => if w.wroteHeader then w else seeHeaders ct w
  | .writeHeader => seeHeaders ct w

def run (ct : Bytes) (ops : List Op) : W := ops.foldl (step ct) init

/-- the key under which an unseen header entry travels in the trailer frame:
`strings.ToLower(strings.TrimPrefix(key, http.TrailerPrefix))`. -/
def trailerKey (k : Bytes) : Bytes :=
  lower (if trailerPrefix.isPrefixOf k then k.drop trailerPrefix.length else k)

/-- the map `writeTrailer` builds, ranging over the header map in the order `order`
(`seen` is looked up under the *untrimmed* key). -/
def trailerMapOf (seen : List Bytes) (order : MD) : MD :=
  order.foldl (fun tr kv => if seen.contains kv.1 then tr else setKey tr (trailerKey kv.1) kv.2) []

def trailerMap (w : W) : MD := trailerMapOf w.seen w.hdr

/-- `flushWithTrailer`: the trailer frame is written only if the header block went out through
this writer; a response without any write is a headers-only ("trailers-only") response whose
status travels in the HTTP header block. -/
def flush (w : W) : Option MD := if w.wroteHeader then some (trailerMap w) else none

/-- what `http.Header.Write` emits for the trailer map, one line per value (net/http sorts
the keys; the harness compares as sets of lines). -/
def trailerLines (tr : MD) : List Bytes :=
  tr.flatMap fun kv => kv.2.map fun v => kv.1 ++ [58, 32] ++ v ++ [13, 10]

/-- contrast (seeded change C14-m4): `seen` looked up under the trimmed key. -/
def trailerMapTrimFirst (seen : List Bytes) (order : MD) : MD :=
  order.foldl (fun tr kv =>
    let k := if trailerPrefix.isPrefixOf kv.1 then kv.1.drop trailerPrefix.length else kv.1
    if seen.contains k then tr else setKey tr (lower k) kv.2) []

end Larking.Web
