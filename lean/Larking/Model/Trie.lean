import Larking.Model.Lexer
/-
  rules.go: the routing trie (`path`), `addRule`, `variable.index`, `search`, `match`,
  `delRule`, `clone`.  Go maps are association lists (keys unique by construction); the
  `variables` slice is kept sorted by name (Go's bytewise string order) as `sort.Sort` does.
  Field paths are resolved by the caller: `resolve keys = some id` stands for
  `fieldPath(...) != nil`, and `conv id capture` for `parseParam` succeeding.
-/
namespace Larking.Trie
open Larking.Lexer

/-- what `addRule` stores for a binding. -/
structure Meth where
  mid : Nat                    -- identity of the gRPC method (desc.FullName / handler name)
  vars : List (Option Nat)     -- per variable edge on the way: field-path id, `none` for a bare wildcard
  rule : Nat                   -- identity of the binding (for tracing)
deriving Repr, DecidableEq, Inhabited

structure Var where
  name : Bytes
  toks : List Tok
deriving Repr, DecidableEq, Inhabited

inductive Node where
  | mk (segs : List (Bytes × Node)) (methods : List (Bytes × Meth)) (all : Option Meth)
       (vars : List (Var × Node))
deriving Repr, Inhabited

def Node.empty : Node := .mk [] [] none []
def Node.segs : Node → List (Bytes × Node) | .mk s _ _ _ => s
def Node.methods : Node → List (Bytes × Meth) | .mk _ m _ _ => m
def Node.all : Node → Option Meth | .mk _ _ a _ => a
def Node.vars : Node → List (Var × Node) | .mk _ _ _ v => v

/-- Go's `<` on strings (bytewise). -/
def bytesLt : Bytes → Bytes → Bool
  | [], [] => false
  | [], _ :: _ => true
  | _ :: _, [] => false
  | a :: as, b :: bs => if a.toNat < b.toNat then true else if a.toNat > b.toNat then false else bytesLt as bs

def toksString (ts : List Tok) : Bytes := ts.flatMap (·.val)

def isSep (t : Tok) : Bool := t.typ == .slash || t.typ == .verb

/-- `variable.index(toks)`: the capture length, `none` for Go's -1.  `i` counts the tokens
consumed so far, `rem = toks[i:]`. -/
def varIndex : List Tok → List Tok → Nat → Outcome (Option Nat)
  | [], _, i => .ok (some i)
  | p :: ps, rem, i =>
    match rem with
    | [] => .ok none
    | t :: ts =>
      match p.typ with
      | .slash => if t.typ != .slash then .ok none else varIndex ps ts (i + 1)
      | .star =>
        let j := (rem.takeWhile fun x => !isSep x).length
        varIndex ps (rem.drop j) (i + j)
      | .starstar =>
        let j := (rem.takeWhile fun x => x.typ != .verb).length
        varIndex ps (rem.drop j) (i + j)
      | .literal => if t.typ != .path || p.val != t.val then .ok none else varIndex ps ts (i + 1)
      | _ => .panic "variable.index: unexpected token"

def lookupMeth (ms : List (Bytes × Meth)) (verb : Bytes) : Option Meth :=
  match ms with
  | [] => none
  | (k, m) :: rest => if k == verb then some m else lookupMeth rest verb

inductive SErr where
  | notFound | method | conv
deriving Repr, DecidableEq

def SErr.name : SErr → String
  | .notFound => "not-found" | .method => "method-not-allowed" | .conv => "bad-capture"

abbrev Caps := List (Option Nat × Bytes)     -- (field path, captured text), deepest first

inductive SRes where
  | found (m : Meth) (caps : Caps)
  | fail (e : SErr)
  | panic (site : String)
deriving Repr

mutual
  /-- `path.search(toks, verb)`; `conv fp text` = `parseParam` succeeds. -/
  def search (conv : Nat → Bytes → Bool) (verb : Bytes) : Node → List Tok → SRes
    | .mk segs methods all vars, toks =>
      match toks with
      | [] | [_] =>
        (match lookupMeth methods verb with
         | some m => .found m []
         | none => match all with
           | some m => .found m []
           | none => .fail .method)
      | t0 :: t1 :: rest =>
        match searchSegs conv verb segs (t0.val ++ t1.val) rest with
        | some (.found m caps) => .found m caps
        | some (.panic s) => .panic s
        | _ => if t0.typ == .slash then searchVars conv verb vars (t1 :: rest) else .fail .notFound

  /-- `p.segments[segment]` lookup followed by the recursive search. -/
  def searchSegs (conv : Nat → Bytes → Bool) (verb : Bytes) :
      List (Bytes × Node) → Bytes → List Tok → Option SRes
    | [], _, _ => none
    | (k, child) :: more, key, rest =>
      if k == key then some (search conv verb child rest) else searchSegs conv verb more key rest

  /-- the `for _, v := range p.variables` loop; `toks1 = toks[1:]`. -/
  def searchVars (conv : Nat → Bytes → Bool) (verb : Bytes) :
      List (Var × Node) → List Tok → SRes
    | [], _ => .fail .notFound
    | (v, child) :: more, toks1 =>
      match varIndex v.toks toks1 0 with
      | .panic s => .panic s
      | .err _ => .panic "unreachable"
      | .ok none => searchVars conv verb more toks1
      | .ok (some i) =>
        match search conv verb child (toks1.drop i) with
        | .panic s => .panic s
        | .fail _ => searchVars conv verb more toks1
        | .found m caps =>
          -- fds := m.vars[len(m.vars)-len(ps)-1]
          if m.vars.length < caps.length + 1 then .panic "index out of range m.vars"
          else match m.vars[m.vars.length - caps.length - 1]? with
            | none => .panic "index out of range m.vars"
            | some none => .found m (caps ++ [(none, [])])
            | some (some fp) =>
              let capture := toksString (toks1.take i)
              if conv fp capture then .found m (caps ++ [(some fp, capture)]) else .fail .conv
end

/-- `path.match(route, verb)`; a lexing error is NotFound. -/
def matchPath (cap : Nat) (conv : Nat → Bytes → Bool) (n : Node) (route : List Rune) (verb : Bytes) : SRes :=
  match lexPath cap route with
  | .ok toks => search conv verb n toks
  | .err _ => .fail .notFound
  | .panic s => .panic s

/-! ### building the trie -/

/-- one step of a rule's way through the trie. -/
inductive Edge where
  | seg (key : Bytes)          -- "/literal" or ":verb"
  | var (v : Var)
deriving Repr, DecidableEq, Inhabited

def lookupSeg (cs : List (Bytes × Node)) (k : Bytes) : Option Node :=
  match cs with
  | [] => none
  | (k', v) :: rest => if k' == k then some v else lookupSeg rest k

/-- Go maps (`p.segments`, `p.methods`) have no order: they are kept as association lists
sorted by key (Go's bytewise string order), a canonical form — lookups are by key only, and
`delRule`'s theorems quantify over all lists. Insert-or-replace. -/
def upsertKV {α : Type} (cs : List (Bytes × α)) (k : Bytes) (v : α) : List (Bytes × α) :=
  match cs with
  | [] => [(k, v)]
  | (k', v') :: rest =>
    if k' == k then (k, v) :: rest
    else if bytesLt k k' then (k, v) :: (k', v') :: rest
    else (k', v') :: upsertKV rest k v

def upsertSeg (cs : List (Bytes × Node)) (k : Bytes) (v : Node) : List (Bytes × Node) := upsertKV cs k v

def lookupVar (vs : List (Var × Node)) (name : Bytes) : Option (Var × Node) :=
  match vs with
  | [] => none
  | (v, n) :: rest => if v.name == name then some (v, n) else lookupVar rest name

/-- replace the node of an existing variable, or insert a new one keeping the slice sorted
by name. -/
def upsertVar (vs : List (Var × Node)) (v : Var) (n : Node) : List (Var × Node) :=
  match vs with
  | [] => [(v, n)]
  | (v', n') :: rest =>
    if v'.name == v.name then (v', n) :: rest
    else if bytesLt v.name v'.name then (v, n) :: (v', n') :: rest
    else (v', n') :: upsertVar rest v n

def upsertMeth (ms : List (Bytes × Meth)) (k : Bytes) (m : Meth) : List (Bytes × Meth) := upsertKV ms k m

def starVerb : Bytes := [42]

/-- the conflict check and the store at the end of the rule's way. -/
def registerCore (n : Node) (verb : Bytes) (mid : Nat) (mk : Unit → Outcome Meth) : Outcome Node :=
  match n with
  | .mk segs methods all vars =>
    let existing := if verb == starVerb then all else lookupMeth methods verb
    match existing with
    | some e => if e.mid != mid then .err "duplicate-rule" else .ok n
    | none =>
      match mk () with
      | .ok m =>
        if verb == starVerb then .ok (.mk segs methods (some m) vars)
        else .ok (.mk segs (upsertMeth methods verb m) all vars)
      | .err k => .err k
      | .panic s => .panic s

/-- registration at the end of the rule's way: `mk` builds the method record first (and may
fail: an unresolvable body / response_body selector is an error even when the pattern is
already bound), then the conflict check, then the store. -/
def register (n : Node) (verb : Bytes) (mid : Nat) (mk : Unit → Outcome Meth) : Outcome Node :=
  match mk () with
  | .ok m => registerCore n verb mid (fun _ => .ok m)
  | .err k => .err k
  | .panic s => .panic s

/-- the node below variable `name`, or a fresh one (`addVariable`). -/
def varChild (vars : List (Var × Node)) (name : Bytes) : Node :=
  match lookupVar vars name with
  | some (_, c) => c
  | none => .empty

/-- walk / create the way `edges` from `n` and apply `f` at its end. -/
def insertAt : Node → List Edge → (Node → Outcome Node) → Outcome Node
  | n, [], f => f n
  | .mk segs methods all vars, .seg k :: more, f =>
    match insertAt ((lookupSeg segs k).getD .empty) more f with
    | .ok c => .ok (.mk (upsertSeg segs k c) methods all vars)
    | .err e => .err e
    | .panic s => .panic s
  | .mk segs methods all vars, .var v :: more, f =>
    match insertAt (varChild vars v.name) more f with
    | .ok c => .ok (.mk segs methods all (upsertVar vars v c))
    | .err e => .err e
    | .panic s => .panic s

/-- tokens of one template (after `lexTemplate`) → edges, verb key, variable field paths.
`resolve keys` is `fieldPath(fieldDescs, keys...)`. -/
structure Parsed where
  edges : List Edge
  varfds : List (Option Nat)
deriving Repr

def slashB : Bytes := [47]
def colonB : Bytes := [58]

/-- collect `ident (dot ident)*` -/
def fieldKeys : List Tok → List Bytes × List Tok
  | t :: rest =>
    if t.typ == .ident then
      match rest with
      | d :: rest2 => if d.typ == .dot then let (ks, r) := fieldKeys rest2; (t.val :: ks, r) else ([t.val], rest)
      | [] => ([t.val], [])
    else ([], t :: rest)
  | [] => ([], [])

def okPatTok (t : Tok) : Bool :=
  t.typ == .slash || t.typ == .star || t.typ == .starstar || t.typ == .literal

/-- pattern tokens up to the closing `}`; `none` = a nested variable (rejected). -/
def patToks : List Tok → Option (List Tok × List Tok)
  | [] => none
  | t :: rest =>
    if t.typ == .varEnd then some ([], rest)
    else if okPatTok t then (patToks rest).map fun p => (t :: p.1, p.2)
    else none

/-- the `for ; tok.typ == tokenSlash; tok = next()` loop and the tail `switch` of `addRule`.
fuel = number of tokens. -/
def parseToks (resolve : List Bytes → Option Nat) : Nat → List Tok → Outcome Parsed
  | 0, _ => .panic "invalid token"
  | fuel + 1, toks =>
    match toks with
    | [] => .panic "invalid token"
    | t :: rest =>
      if t.typ == .eof then .ok ⟨[], []⟩
      else if t.typ == .verb then
        (match rest with
         | lit :: _ => .ok ⟨[.seg (colonB ++ lit.val)], []⟩
         | [] => .panic "index out of range")
      else if t.typ == .slash then
        (match rest with
         | [] => .panic "index out of range"
         | v :: rest2 =>
           let cont (e : Edge) (fd : List (Option Nat)) (rest3 : List Tok) : Outcome Parsed :=
             match parseToks resolve fuel rest3 with
             | .ok p => .ok ⟨e :: p.edges, fd ++ p.varfds⟩
             | .err k => .err k
             | .panic s => .panic s
           if v.typ == .star || v.typ == .starstar then cont (.var ⟨v.val, [v]⟩) [none] rest2
           else if v.typ == .literal then
             (match parseToks resolve fuel rest2 with
              | .ok p => .ok ⟨.seg (slashB ++ v.val) :: p.edges, p.varfds⟩
              | .err k => .err k
              | .panic s => .panic s)
           else if v.typ == .varStart then
             let (keys, after) := fieldKeys rest2
             (match after with
              | [] => .panic "invalid token"
              | nxt :: after2 =>
                let withPat (pat : List Tok) (rest3 : List Tok) : Outcome Parsed :=
                  match resolve keys with
                  | none => .err "field-not-found"
                  | some fp => cont (.var ⟨toksString pat, pat⟩) [some fp] rest3
                if nxt.typ == .equal then
                  (match patToks after2 with
                   | none => .err "nested-variable"
                   | some (pat, rest3) => withPat pat rest3)
                else if nxt.typ == .varEnd then withPat [⟨.star, [42]⟩] after2
                else .panic "invalid token")
           else .panic "invalid token")
      else .panic "invalid token"

/-- one binding (no additional bindings): lex, walk, register. -/
structure Binding where
  verb : Bytes
  tmpl : List Rune
  bodyOk : Bool          -- body selector resolves (or is "" / "*")
  respOk : Bool          -- response_body selector resolves (or is "")
  rule : Nat
deriving Repr

def addBinding (cap : Nat) (resolve : List Bytes → Option Nat) (n : Node) (b : Binding) (mid : Nat) :
    Outcome Node :=
  match lexTemplate cap b.tmpl with
  | .err k => .err k
  | .panic s => .panic s
  | .ok toks =>
    match parseToks resolve (toks.length + 1) toks with
    | .err k => .err k
    | .panic s => .panic s
    | .ok p =>
      insertAt n p.edges fun node =>
        register node b.verb mid fun _ =>
          if !b.bodyOk then .err "body-field"
          else if !b.respOk then .err "response-body-field"
          else .ok ⟨mid, p.varfds, b.rule⟩

/-- a rule with its additional bindings (`nested` = some additional binding has its own). -/
structure Rule where
  primary : Binding
  additional : List (Binding × Bool)     -- (binding, has nested additional bindings)
deriving Repr

def addAdditional (cap : Nat) (resolve : List Bytes → Option Nat) (mid : Nat) :
    Node → List (Binding × Bool) → Outcome Node
  | n, [] => .ok n
  | n, (b, nested) :: more =>
    if nested then .err "nested-rules"
    else match addBinding cap resolve n b mid with
      | .ok n' => addAdditional cap resolve mid n' more
      | .err k => .err k
      | .panic s => .panic s

def addRule (cap : Nat) (resolve : List Bytes → Option Nat) (n : Node) (r : Rule) (mid : Nat) : Outcome Node :=
  match addBinding cap resolve n r.primary mid with
  | .ok n' => addAdditional cap resolve mid n' r.additional
  | .err k => .err k
  | .panic s => .panic s

end Larking.Trie
