import Larking.Model.Basic
/-
  mux.go `Mux.ServeHTTP`: which serving function a request enters (by Content-Type prefix and
  HTTP version, tests in the regenerated source order), the path normalisation in front of
  `serveHTTP`, and web.go `isWebRequest` (type and codec of a gRPC-web request).
-/
namespace Larking.Dispatch

def hasPrefix : Bytes → Bytes → Bool
  | [], _ => true
  | _ :: _, [] => false
  | p :: ps, c :: cs => p == c && hasPrefix ps cs

inductive Target where
  | web | grpc | http
deriving Repr, DecidableEq

def Target.name : Target → String
  | .web => "web" | .grpc => "grpc" | .http => "http"

structure Test where
  pfx : Bytes
  needsH2 : Bool
  target : Target
deriving Repr, DecidableEq

/-- the `if … { m.serveX(w, r); return }` chain; whatever passes every test is transcoded. -/
def dispatch (tests : List Test) (protoMajor : Nat) (ct : Bytes) : Target :=
  match tests with
  | [] => .http
  | t :: rest =>
    if (!t.needsH2 || protoMajor == 2) && hasPrefix t.pfx ct then t.target
    else dispatch rest protoMajor ct

def ofGen (g : List (List Nat × Bool × String)) : List Test :=
  g.map fun e => ⟨e.1.map UInt8.ofNat, e.2.1, if e.2.2 == "web" then .web else if e.2.2 == "grpc" then .grpc else .http⟩

/-- `if !HasPrefix(p, "/") { p = "/" + p }; p = TrimSuffix(p, "/")` -/
def normPath (p : Bytes) : Bytes :=
  let q := if hasPrefix [47] p then p else 47 :: p
  match q.reverse with
  | 47 :: r => r.reverse
  | _ => q

def grpcWeb : Bytes := [97, 112, 112, 108, 105, 99, 97, 116, 105, 111, 110, 47, 103, 114, 112, 99, 45, 119, 101, 98]            -- "application/grpc-web"
def grpcWebText : Bytes := [97, 112, 112, 108, 105, 99, 97, 116, 105, 111, 110, 47, 103, 114, 112, 99, 45, 119, 101, 98, 45, 116, 101, 120, 116]   -- "application/grpc-web-text"
def grpcB : Bytes := [97, 112, 112, 108, 105, 99, 97, 116, 105, 111, 110, 47, 103, 114, 112, 99]   -- "application/grpc"
def postB : Bytes := [80, 79, 83, 84]   -- "POST"
def protoB : Bytes := [112, 114, 111, 116, 111]   -- "proto"

/-- `strings.Cut(s, "+")` -/
def cutPlus : Bytes → Bytes × Option Bytes
  | [] => ([], none)
  | c :: rest =>
    if c == 43 then ([], some rest)
    else let r := cutPlus rest; (c :: r.1, r.2)

/-- `isWebRequest`: `none` = not a gRPC-web request. -/
def isWebRequest (ct method : Bytes) : Option (Bytes × Bytes) :=
  if !hasPrefix grpcWeb ct || method != postB then none
  else
    let c := cutPlus ct
    let enc := c.2.getD protoB
    if c.1 == grpcWeb || c.1 == grpcWebText then some (c.1, enc) else none

end Larking.Dispatch
