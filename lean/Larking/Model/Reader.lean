import Larking.Model.Basic
/-
  io.Reader as an adversarial schedule, Go byte slices with capacity, and the read
  loops of codec.go / mux.go.  Everything the environment chooses (how many bytes each
  `Read` delivers, whether EOF comes with the last data, how much `append` grows a full
  slice) lives in `Env`; theorems quantify over every `Env`.
-/
namespace Larking

inductive RErr where
  | eof | unexpectedEOF | tooLarge | parse | unbalanced | other
deriving Repr, DecidableEq, Inhabited

def RErr.name : RErr → String
  | .eof => "eof" | .unexpectedEOF => "unexpected-eof" | .tooLarge => "too-large"
  | .parse => "parse" | .unbalanced => "unbalanced" | .other => "other"

/-- a Go `[]byte`: contents and spare capacity (`cap = len + spare`, so `len ≤ cap` holds
by construction). -/
structure Buf where
  data : Bytes
  spare : Nat
deriving Repr, Inhabited

def Buf.cap (b : Buf) : Nat := b.data.length + b.spare

/-- what the environment decides. -/
structure Env where
  data : Bytes          -- bytes not yet delivered by the reader
  sched : List Nat      -- per `Read` call: how many bytes the reader is willing to deliver (0 ↦ 1)
  eofWithData : Bool    -- deliver io.EOF together with the last bytes (net/http does) or on a separate call
  grows : List Nat      -- per `Read` call: the extra capacity `append` picks if the slice is full then (0 ↦ 1)
deriving Repr, Inhabited

/-- `if len(b) == cap(b) { b = append(b, 0)[:len(b)] }` -/
def growIfFull (e : Env) (b : Buf) : Buf × Env :=
  if b.spare == 0 then
    ({ b with spare := max 1 (e.grows.headD 1) }, e)
  else (b, e)

/-- number of bytes one `r.Read(p)` with `len(p) = room` delivers. -/
def Env.chunk (e : Env) (room : Nat) : Nat :=
  min room (min (max 1 (e.sched.headD e.data.length)) e.data.length)

/-- one `r.Read(p)` with `len(p) = room`: delivered bytes, whether io.EOF is returned, new env. -/
def Env.read (e : Env) (room : Nat) : Bytes × Bool × Env :=
  if e.data.isEmpty then ([], true, { e with sched := e.sched.tail, grows := e.grows.tail })
  else
    let k := e.chunk room
    (e.data.take k, e.eofWithData && k == e.data.length,
     { e with data := e.data.drop k, sched := e.sched.tail, grows := e.grows.tail })

/-- `n, err := r.Read(b[len(b):cap(b)]); b = b[:len(b)+n]` after growing a full slice. -/
def readMore (e : Env) (b : Buf) : Buf × Bool × Env :=
  let (b1, e1) := growIfFull e b
  let (got, eof, e2) := e1.read b1.spare
  ({ data := b1.data ++ got, spare := b1.spare - got.length }, eof, e2)

theorem readMore_decreases (e : Env) (b : Buf) (h : e.data.isEmpty = false) :
    (readMore e b).2.2.data.length < e.data.length := by
  have hpos : 0 < e.data.length := by
    cases hd : e.data with
    | nil => simp [hd] at h
    | cons _ _ => simp
  simp only [readMore, growIfFull, Env.read, Env.chunk]
  split <;> simp_all <;> omega

/-- `for i >= len(b) { …Read…; if err != nil && !(err == io.EOF && n > 0) { return err } }`:
returns `some .eof` when the reader is exhausted before `len(b) > i`. -/
def fill (e : Env) (b : Buf) (i : Nat) : Buf × Option RErr × Env :=
  if i < b.data.length then (b, none, e)
  else if h : e.data.isEmpty then
    let r := readMore e b
    (r.1, some .eof, r.2.2)
  else
    let r := readMore e b
    fill r.2.2 r.1 i
termination_by e.data.length
decreasing_by exact readMore_decreases e b (by simpa using h)

theorem read_decreases (e : Env) (room : Nat) (hr : 0 < room) (h : e.data.isEmpty = false) :
    (e.read room).2.2.data.length < e.data.length := by
  have hpos : 0 < e.data.length := by
    cases hd : e.data with
    | nil => simp [hd] at h
    | cons _ _ => simp
  simp only [Env.read, Env.chunk, h]
  simp; omega

/-- `io.ReadFull(r, b[len(b):n])` followed by `b = b[:n]` (requires `n ≤ cap`); `none` = filled.
Larking maps a plain io.EOF to io.ErrUnexpectedEOF, which is what a short read yields anyway. -/
def readFull (e : Env) (b : Buf) (n : Nat) : Buf × Option RErr × Env :=
  if hn : n ≤ b.data.length then (b, none, e)
  else if h : e.data.isEmpty then
    (b, some .unexpectedEOF, { e with sched := e.sched.tail, grows := e.grows.tail })
  else
    let r := e.read (n - b.data.length)
    readFull r.2.2 { data := b.data ++ r.1, spare := b.spare - r.1.length } n
termination_by e.data.length
decreasing_by exact read_decreases e _ (by omega) (by simpa using h)

end Larking
