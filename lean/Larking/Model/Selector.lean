import Larking.Model.Basic
/-
  C19: `ruleSelector` (mux.go).  A trie over the '.'-separated components of a selector;
  rules are identified by their index in the list given to `setRules`.  `strings.Cut(s, ".")`
  is modelled on the component list `s.splitOn "."`: the remaining string is empty iff the
  remaining components are `[]` (nothing left) or `[""]` (a trailing '.').
-/
namespace Larking.Selector

inductive Sel where
  | mk (children : List (String × Sel)) (wild : List Nat) (exact : List Nat)
deriving Repr, Inhabited

def Sel.empty : Sel := .mk [] [] []

def lookup (cs : List (String × Sel)) (k : String) : Option Sel :=
  match cs with
  | [] => none
  | (k', v) :: rest => if k' == k then some v else lookup rest k

/-- Go map assignment `r.path[tag] = rs`. -/
def upsert (cs : List (String × Sel)) (k : String) (v : Sel) : List (String × Sel) :=
  match cs with
  | [] => [(k, v)]
  | (k', v') :: rest => if k' == k then (k, v) :: rest else (k', v') :: upsert rest k v

def restEmpty (rest : List String) : Bool := rest == [] || rest == [""]

/-- the recursive closure `set` of `setRules` for one rule. -/
def Sel.insert : Sel → List String → Nat → Outcome Sel
  | .mk cs w x, [], i => .ok (.mk cs w (x ++ [i]))
  | .mk cs w x, tag :: rest, i =>
    if tag == "*" then
      (if restEmpty rest then .ok (.mk cs (w ++ [i]) x) else .panic "invalid selector")
    else if tag == "" then .ok (.mk cs w (x ++ [i]))
    else
      match ((lookup cs tag).getD .empty).insert rest i with
      | .ok c' => .ok (.mk (upsert cs tag c') w x)
      | .err k => .err k
      | .panic s => .panic s

/-- `getRules(name)`: wildcard rules of every node strictly above the end of the name, then
the rules whose selector ends exactly there. -/
def Sel.get : Sel → List String → List Nat
  | .mk _ _ x, [] => x
  | .mk cs w x, tag :: rest =>
    if tag == "" && rest == [] then x
    else w ++ (match lookup cs tag with
               | some c => c.get rest
               | none => [])

/-- `setRules`: insert every rule in order (a panic aborts, as in Go). -/
def build : List (List String) → Nat → Sel → Outcome Sel
  | [], _, t => .ok t
  | s :: rest, i, t =>
    match t.insert s i with
    | .ok t' => build rest (i + 1) t'
    | .err k => .err k
    | .panic p => .panic p

def setRules (sels : List (List String)) : Outcome Sel := build sels 0 .empty

end Larking.Selector
