import Larking.Model.StreamCodec
import Larking.Model.Status
/-
  http.go `streamHTTP.readMsg` (client-streaming branch) over the stream codecs, and
  grpc.go `streamGRPC.RecvMsg / SendMsg` framing with the size checks.  Unmarshalling,
  gzip and the pooled buffers' capacities are parameters.
-/
namespace Larking.Streams
open Larking.Codec

inductive CodecK where | proto | json | body
deriving Repr, DecidableEq

def readNextK (k : CodecK) (e : Env) (b : Buf) (limit : Nat) : Outcome Result × Env :=
  match k with
  | .proto => protoReadNext e b limit
  | .json => let r := jsonReadNext e b limit; (.ok r.1, r.2)
  | .body => let r := bodyReadNext e b limit; (.ok r.1, r.2)

/-- per-stream read state of `streamHTTP`. -/
structure HS where
  rbuf : Bytes
  rEOF : Bool
  recvCount : Nat
  env : Env
deriving Repr

inductive Recv where
  | msg (b : Bytes)
  | eof
  | err (e : RErr)
  | panic
deriving Repr, DecidableEq

/-- the tail of `readMsg`: io.EOF latching, carry-over, the message slice `b[:n]`. -/
def finishRead (s1 : HS) (r : Result) (e' : Env) : Recv × HS :=
  if r.n > r.dst.data.length then (.panic, { s1 with env := e' })     -- b[:n] out of range
  else
    let s2 := { s1 with env := e', rbuf := r.dst.data.drop r.n }
    match r.err with
    | none => (.msg (r.dst.data.take r.n), s2)
    | some .eof =>
      let s3 := { s2 with rEOF := true }
      if r.n > 0 then (.msg (r.dst.data.take r.n), s3)
      else if r.dst.data.length > 0 then (.err .unexpectedEOF, s3)
      else (.eof, s3)
    | some x => (.err x, s2)

/-- `readMsg` for a client-streaming method. `spare` = spare capacity of the pooled buffer the
carry-over is appended to. -/
def readMsg (k : CodecK) (limit : Nat) (spare : Nat) (s : HS) : Recv × HS :=
  if s.rEOF then (.eof, s)
  else
    let s1 := { s with recvCount := s.recvCount + 1 }
    match readNextK k s.env ⟨s.rbuf, spare⟩ limit with
    | (.panic _, e') => (.panic, { s1 with env := e' })
    | (.err _, e') => (.err .other, { s1 with env := e' })
    | (.ok r, e') => finishRead s1 r e'

/-- `decodeRequestArgs` on top of `readMsg`: an empty HttpBody upload still delivers its first
(empty) message, so that content type and URL parameters reach the handler. -/
def recvMsgHttp (k : CodecK) (limit : Nat) (spare : Nat) (s : HS) : Recv × HS :=
  match readMsg k limit spare s with
  | (.eof, s') => if k == .body && s.recvCount == 0 && !s.rEOF then (.msg [], s') else (.eof, s')
  | r => r

/-- the handler's receive loop: up to `fuel` calls, stopping at the first non-message. -/
def recvAll (k : CodecK) (limit : Nat) : Nat → List Nat → HS → List Recv
  | 0, _, _ => []
  | fuel + 1, spares, s =>
    match recvMsgHttp k limit (spares.headD 0) s with
    | (.msg b, s') => .msg b :: recvAll k limit fuel spares.tail s'
    | (r, _) => [r]

/-! ### gRPC frames -/

/-- `io.ReadFull(r, buf)` into a fresh buffer of `n` bytes: `eof` if nothing at all could be read. -/
def readExactly (e : Env) (n : Nat) : Option Bytes × Option RErr × Env :=
  if n == 0 then (some [], none, e)
  else if e.data.isEmpty then (none, some .eof, { e with sched := e.sched.tail, grows := e.grows.tail })
  else
    let r := readFull e ⟨[], n⟩ n
    match r.2.1 with
    | none => (some r.1.data, none, r.2.2)
    | some x => (none, some x, r.2.2)

/-- `streamGRPC.RecvMsg` up to unmarshalling. `gunzip` = the negotiated decompressor (`none` if
no Grpc-Encoding), `maxRecv` the receive limit. -/
def grpcRecv (gunzip : Option (Bytes → Option Bytes)) (maxRecv : Nat) (e : Env) : Recv × Env :=
  match readExactly e 5 with
  | (none, some .eof, e1) => (.eof, e1)
  | (none, _, e1) => (.err .unexpectedEOF, e1)            -- status Canceled
  | (some hdr, _, e1) =>
    match hdr with
    | [flag, a, b, c, d] =>
      let size := a.toNat * 16777216 + b.toNat * 65536 + c.toNat * 256 + d.toNat
      if size > maxRecv then (.err .tooLarge, e1)
      else match readExactly e1 size with
        | (none, _, e2) => (.err .unexpectedEOF, e2)     -- also when no payload byte arrived
        | (some payload, _, e2) =>
          if flag == 1 then
            match gunzip with
            | none => (.err .other, e2)                  -- "Decompressor is not installed"
            | some gz =>
              match gz payload with
              | none => (.err .other, e2)
              | some plain => if plain.length > maxRecv then (.err .tooLarge, e2) else (.msg plain, e2)
          else (.msg payload, e2)
    | _ => (.panic, e1)

def grpcRecvAll (gunzip : Option (Bytes → Option Bytes)) (maxRecv : Nat) : Nat → Env → List Recv
  | 0, _ => []
  | fuel + 1, e =>
    match grpcRecv gunzip maxRecv e with
    | (.msg b, e') => .msg b :: grpcRecvAll gunzip maxRecv fuel e'
    | (r, _) => [r]

/-- `streamGRPC.SendMsg`: the frame written for an encoded reply, or the size error. -/
def grpcSend (gzip : Option (Bytes → Bytes)) (maxSend : Nat) (payload : Bytes) : Option Bytes :=
  if payload.length > maxSend then none
  else match gzip with
    | none => some (Status.frame 0 payload)
    | some gz => some (Status.frame 1 (gz payload))

end Larking.Streams
