import Larking.Model.Basic
/-
  grpc.go `streamGRPC.begin / close`: the hand-over between the stream calls (RecvMsg, SendMsg,
  SendHeader — possibly issued by goroutines the handler left behind, e.g. the RegisterConn
  forwarder's upload pump) and the end of `serveGRPC` (deferred `cancel(); stream.close()`).
  sync.Mutex makes `begin`'s check-and-Add one atomic step; sync.WaitGroup.Wait returns only
  while the counter is zero.  Both are assumptions about the Go runtime (trusted base).
-/
namespace Larking.Lifecycle

structure St where
  closed : Bool      -- `s.closed`
  count : Nat        -- the WaitGroup counter = stream calls in flight
  waited : Bool      -- `close()` has returned: serveGRPC is over, the ResponseWriter and body are gone
  refused : Nat      -- calls that were refused
deriving Repr, DecidableEq

def init : St := ⟨false, 0, false, 0⟩

inductive Step where
  | begin      -- some goroutine enters a stream call
  | done       -- a stream call in flight returns (`defer s.wg.Done()`)
  | mark       -- close(): `s.closed = true` under the mutex
  | wait       -- close(): `s.wg.Wait()` returns
deriving Repr, DecidableEq

/-- one atomic step; a step that is not enabled leaves the state unchanged (`guarded` = the
code as written: `begin` looks at `closed` under the mutex; `false` = the earlier code, a bare
`wg.Add(1)`). -/
def step (guarded : Bool) (s : St) : Step → St
  | .begin => if guarded && s.closed then { s with refused := s.refused + 1 } else { s with count := s.count + 1 }
  | .done => if s.count > 0 then { s with count := s.count - 1 } else s
  | .mark => { s with closed := true }
  | .wait => if s.closed && s.count == 0 then { s with waited := true } else s

def run (guarded : Bool) (steps : List Step) (s : St) : St := steps.foldl (step guarded) s

end Larking.Lifecycle
