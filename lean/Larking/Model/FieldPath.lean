import Larking.Model.Basic
/-
  rules.go: `fieldPath(fieldDescs, names...)` — the resolution of a dotted `body` /
  `response_body` selector (and of a path variable's field path) against a message descriptor —
  and `mutablePath(msg, fds)`, the walk down a message along the resolved fields.
  Descriptors and messages are trees; a field is found by its JSON name first, then by its
  proto name; only singular message fields can be traversed.
-/
namespace Larking.FieldPath

inductive Desc where
  | mk (fields : List (Bytes × Bytes × Nat × Bool × Option Desc))   -- name, jsonName, number, list/map, message type
deriving Repr, Inhabited

abbrev Field := Bytes × Bytes × Nat × Bool × Option Desc

def Desc.fields : Desc → List Field
  | .mk fs => fs

/-- `fieldDescs.ByJSONName(name)`, then `fieldDescs.ByName(name)`. -/
def findField (fs : List Field) (name : Bytes) : Option Field :=
  match fs.find? (fun f => f.2.1 == name) with
  | some f => some f
  | none => fs.find? (fun f => f.1 == name)

/-- `fieldPath`: the field numbers along the way, `none` = the function returned nil. -/
def fieldPath : List Field → List Bytes → Option (List Nat)
  | _, [] => some []
  | fs, [name] => (findField fs name).map fun f => [f.2.2.1]
  | fs, name :: n2 :: rest =>
    match findField fs name with
    | none => none
    | some (_, _, num, rep, sub) =>
      match sub with
      | none => none
      | some d => if rep then none else (fieldPath d.fields (n2 :: rest)).map (num :: ·)

/-- a message value: fields by number. -/
inductive Val where
  | scalar (b : Bytes)
  | msg (fields : List (Nat × Val))
deriving Repr, Inhabited

def Val.field (v : Val) (num : Nat) : Val :=
  match v with
  | .msg fs => match fs.find? (fun p => p.1 == num) with
    | some (_, x) => x
    | none => .msg []          -- `Mutable` of an unset message field: the empty message
  | .scalar _ => .msg []

/-- `mutablePath`: down the message along the resolved fields. -/
def mutablePath (v : Val) (path : List Nat) : Val := path.foldl Val.field v

/-- `strings.Split(sel, ".")`. -/
def splitDots (sel : Bytes) : List Bytes :=
  let step (acc : List Bytes × Bytes) (c : UInt8) : List Bytes × Bytes :=
    if c == 46 then (acc.1 ++ [acc.2], []) else (acc.1, acc.2 ++ [c])
  let r := sel.foldl step ([], [])
  r.1 ++ [r.2]

/-- how `addRule` resolves a selector: with ALL its dot-separated components (`all`, regenerated)
or — the slip — with the first one only. -/
def resolve (all : Bool) (fs : List Field) (sel : Bytes) : Option (List Nat) :=
  if all then fieldPath fs (splitDots sel) else fieldPath fs ((splitDots sel).take 1)

/-- the specification: the field named by the components, one level per component. -/
def select (fs : List Field) (v : Val) : List Bytes → Option Val
  | [] => some v
  | [name] => (findField fs name).map fun f => v.field f.2.2.1
  | name :: n2 :: rest =>
    match findField fs name with
    | some (_, _, num, false, some d) => select d.fields (v.field num) (n2 :: rest)
    | _ => none

end Larking.FieldPath
