/-
  Basic vocabulary of the larking model: byte strings, outcomes (Go panics are
  outcomes, never totalised away), hex I/O for the driver protocol.
  Core Lean only.
-/
namespace Larking

abbrev Bytes := List UInt8

/-- Result of a modelled Go function. `err` carries a small error-kind tag, `panic`
the site that would crash the goroutine. -/
inductive Outcome (α : Type) where
  | ok (a : α)
  | err (kind : String)
  | panic (site : String)
deriving Repr, DecidableEq, Inhabited

namespace Outcome
def isPanic {α} : Outcome α → Bool
  | .panic _ => true
  | _ => false
def isOk {α} : Outcome α → Bool
  | .ok _ => true
  | _ => false
def bind {α β} (o : Outcome α) (f : α → Outcome β) : Outcome β :=
  match o with
  | .ok a => f a
  | .err k => .err k
  | .panic s => .panic s
def map {α β} (f : α → β) (o : Outcome α) : Outcome β := o.bind (fun a => .ok (f a))
instance : Monad Outcome where
  pure := .ok
  bind := Outcome.bind
end Outcome

/-- lower-case hex digit of a nibble (`n < 16`). -/
def hexDigit (n : Nat) : UInt8 :=
  if n < 10 then UInt8.ofNat (48 + n) else UInt8.ofNat (87 + n)

/-- value of a hex digit, either case. -/
def unhex (c : UInt8) : Option Nat :=
  if 48 ≤ c.toNat ∧ c.toNat ≤ 57 then some (c.toNat - 48)
  else if 97 ≤ c.toNat ∧ c.toNat ≤ 102 then some (c.toNat - 87)
  else if 65 ≤ c.toNat ∧ c.toNat ≤ 70 then some (c.toNat - 55)
  else none

def toHex : Bytes → String
  | bs => String.ofList (bs.flatMap fun b =>
      [Char.ofNat (hexDigit (b.toNat / 16)).toNat, Char.ofNat (hexDigit (b.toNat % 16)).toNat])

def fromHexChars : List Char → Option Bytes
  | [] => some []
  | [_] => none
  | a :: b :: rest => do
      let x ← unhex (UInt8.ofNat a.toNat)
      let y ← unhex (UInt8.ofNat b.toNat)
      let r ← fromHexChars rest
      pure (UInt8.ofNat (x * 16 + y) :: r)

def fromHex (s : String) : Option Bytes := fromHexChars s.toList

def strBytes (s : String) : Bytes := s.toUTF8.toList

/-- best-effort rendering of bytes as a String (driver output only). -/
def bytesStr (b : Bytes) : String := String.ofList (b.map fun c => Char.ofNat c.toNat)

/-- Quantifying over all 256 byte values by kernel `decide`. -/
theorem u8_forall {P : UInt8 → Prop} (h : ∀ i : Fin 256, P (UInt8.ofNat i.val)) : ∀ c, P c := by
  intro c
  have := h ⟨c.toNat, c.toNat_lt⟩
  simpa using this

theorem toNat_ofNat_of_lt {k : Nat} (h : k < 256) : (UInt8.ofNat k).toNat = k := by
  simp [UInt8.toNat_ofNat']; omega

end Larking
