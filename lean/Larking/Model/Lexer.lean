import Larking.Model.Basic
/-
  lexer.go over *classified runes*: UTF-8 decoding and the Unicode tables are Go's; the
  harness attaches to every rune what Go's own `isIdent / isLiteral / isPath /
  unicode.IsLetter` say about it.  Token values are the runes' bytes.
-/
namespace Larking.Lexer

structure Rune where
  bytes : Bytes
  ch : Nat                 -- code point (0xFFFD for invalid UTF-8)
  letter : Bool            -- unicode.IsLetter
  ident : Bool             -- isIdent
  literal : Bool           -- isLiteral
  path : Bool              -- isPath
deriving Repr, DecidableEq, Inhabited

inductive TokTy where
  | error | slash | star | starstar | varStart | varEnd | equal | ident | literal | dot | verb
  | path | eof
deriving Repr, DecidableEq, Inhabited

def TokTy.name : TokTy → String
  | .error => "error" | .slash => "slash" | .star => "star" | .starstar => "starstar"
  | .varStart => "varstart" | .varEnd => "varend" | .equal => "equal" | .ident => "ident"
  | .literal => "literal" | .dot => "dot" | .verb => "verb" | .path => "path" | .eof => "eof"

structure Tok where
  typ : TokTy
  val : Bytes
deriving Repr, DecidableEq, Inhabited

def cSlash : Nat := 47
def cColon : Nat := 58
def cStar : Nat := 42
def cLBrace : Nat := 123
def cRBrace : Nat := 125
def cEq : Nat := 61
def cDot : Nat := 46

def runesBytes (rs : List Rune) : Bytes := rs.flatMap (·.bytes)

/-- lexer state: tokens emitted so far (in order) and the runes still to read. -/
structure St where
  toks : List Tok
  rest : List Rune
deriving Repr

/-- `emit`: fails with the token-limit error when the fixed array is full. -/
def emit (cap : Nat) (toks : List Tok) (t : Tok) : Outcome (List Tok) :=
  if toks.length ≥ cap then .err "token-limit" else .ok (toks ++ [t])

/-- `errUnexpected` / `errShort`: emit an error token (which may itself hit the limit). -/
def fail (cap : Nat) (toks : List Tok) (kind : String) : Outcome St :=
  match emit cap toks ⟨.error, []⟩ with
  | .ok _ => .err kind
  | .err k => .err k
  | .panic s => .panic s

/-- `acceptRun` + `backup`: the maximal run of runes satisfying `p`. -/
def span (p : Rune → Bool) : List Rune → List Rune × List Rune
  | [] => ([], [])
  | r :: rest => if p r then let (a, b) := span p rest; (r :: a, b) else ([], r :: rest)

/-- `lexIdent`, `lexLiteral`, `lexPathSegment`: a non-empty run, one token. -/
def lexRun (cap : Nat) (p : Rune → Bool) (ty : TokTy) (s : St) : Outcome St :=
  let (run, rest) := span p s.rest
  if run.isEmpty then fail cap s.toks "short"
  else match emit cap s.toks ⟨ty, runesBytes run⟩ with
    | .ok toks => .ok ⟨toks, rest⟩
    | .err k => .err k
    | .panic x => .panic x

def emitOne (cap : Nat) (ty : TokTy) (r : Rune) (s : St) (rest : List Rune) : Outcome St :=
  match emit cap s.toks ⟨ty, r.bytes⟩ with
  | .ok toks => .ok ⟨toks, rest⟩
  | .err k => .err k
  | .panic x => .panic x

/-- `lexFieldPath` after the first identifier: `{ "." IDENT }`. fuel = remaining runes. -/
def lexFieldPathTail (cap : Nat) : Nat → St → Outcome St
  | 0, s => .ok s
  | fuel + 1, s =>
    match s.rest with
    | r :: rest =>
      if r.ch == cDot then
        match emitOne cap .dot r s rest with
        | .ok s1 =>
          (match lexRun cap (·.ident) .ident s1 with
           | .ok s2 => lexFieldPathTail cap fuel s2
           | e => e)
        | e => e
      else .ok s
    | [] => .ok s

def lexFieldPath (cap : Nat) (s : St) : Outcome St :=
  match lexRun cap (·.ident) .ident s with
  | .ok s1 => lexFieldPathTail cap s1.rest.length s1
  | e => e

/-- the closing `}` of a variable. -/
def lexClose (cap : Nat) (s3 : St) : Outcome St :=
  match s3.rest with
  | r3 :: rest3 =>
    if r3.ch == cRBrace then emitOne cap .varEnd r3 s3 rest3
    else fail cap s3.toks "unexpected"
  | [] => fail cap s3.toks "unexpected"

mutual
  /-- `lexSegment` -/
  def lexSegment (cap : Nat) : Nat → St → Outcome St
    | 0, s => fail cap s.toks "unexpected"
    | fuel + 1, s =>
      match s.rest with
      | [] => fail cap s.toks "unexpected"
      | r :: rest =>
        if r.letter then lexRun cap (·.literal) .literal s
        else if r.ch == cStar then
          (match rest with
           | r2 :: rest2 =>
             if r2.ch == cStar then
               (match emit cap s.toks ⟨.starstar, r.bytes ++ r2.bytes⟩ with
                | .ok toks => .ok ⟨toks, rest2⟩
                | .err k => .err k
                | .panic x => .panic x)
             else emitOne cap .star r s rest
           | [] => emitOne cap .star r s rest)
        else if r.ch == cLBrace then lexVariable cap fuel s
        else fail cap s.toks "unexpected"

  /-- `lexSegments`: `Segment { "/" Segment }` -/
  def lexSegments (cap : Nat) : Nat → St → Outcome St
    | 0, s => fail cap s.toks "unexpected"
    | fuel + 1, s =>
      match lexSegment cap fuel s with
      | .ok s1 =>
        (match s1.rest with
         | r :: rest =>
           if r.ch == cSlash then
             (match emitOne cap .slash r s1 rest with
              | .ok s2 => lexSegments cap fuel s2
              | e => e)
           else .ok s1
         | [] => .ok s1)
      | e => e

  /-- `lexVariable`: `"{" FieldPath [ "=" Segments ] "}"` (the first rune is '{'). -/
  def lexVariable (cap : Nat) : Nat → St → Outcome St
    | 0, s => fail cap s.toks "unexpected"
    | fuel + 1, s =>
      match s.rest with
      | [] => fail cap s.toks "unexpected"
      | r :: rest =>
        if r.ch != cLBrace then fail cap s.toks "unexpected"
        else match emitOne cap .varStart r s rest with
          | .ok s1 =>
            (match lexFieldPath cap s1 with
             | .ok s2 =>
               (match s2.rest with
                | r2 :: rest2 =>
                  if r2.ch == cEq then
                    (match emitOne cap .equal r2 s2 rest2 with
                     | .ok s3 =>
                       (match lexSegments cap fuel s3 with
                        | .ok s4 => lexClose cap s4
                        | e => e)
                     | e => e)
                  else lexClose cap s2
                | [] => lexClose cap s2)
             | e => e)
          | e => e
end

/-- `lexTemplate` -/
def lexTemplate (cap : Nat) (input : List Rune) : Outcome (List Tok) :=
  let s0 : St := ⟨[], input⟩
  match input with
  | [] => (fail cap [] "unexpected").map (·.toks)
  | r :: rest =>
    if r.ch != cSlash then (fail cap [] "unexpected").map (·.toks)
    else match emitOne cap .slash r s0 rest with
      | .ok s1 =>
        (match lexSegments cap (2 * input.length + 2) s1 with
         | .ok s2 =>
           (match s2.rest with
            | [] => emit cap s2.toks ⟨.eof, []⟩
            | r2 :: rest2 =>
              if r2.ch == cColon then
                (match emitOne cap .verb r2 s2 rest2 with
                 | .ok s3 =>
                   (match lexRun cap (·.literal) .literal s3 with
                    | .ok s4 =>
                      (match s4.rest with
                       | [] => emit cap s4.toks ⟨.eof, []⟩
                       | _ :: _ => (fail cap s4.toks "unexpected").map (·.toks))
                    | .err k => .err k
                    | .panic x => .panic x)
                 | .err k => .err k
                 | .panic x => .panic x)
              else (fail cap s2.toks "unexpected").map (·.toks))
         | .err k => .err k
         | .panic x => .panic x)
      | .err k => .err k
      | .panic x => .panic x

/-- `lexPath`: `{ ("/" | ":") PathSegment } EOF` -/
def lexPathLoop (cap : Nat) : Nat → St → Outcome (List Tok)
  | 0, s => emit cap s.toks ⟨.eof, []⟩
  | fuel + 1, s =>
    match s.rest with
    | [] => emit cap s.toks ⟨.eof, []⟩
    | r :: rest =>
      if r.ch == cSlash || r.ch == cColon then
        match emitOne cap (if r.ch == cSlash then .slash else .verb) r s rest with
        | .ok s1 =>
          (match lexRun cap (·.path) .path s1 with
           | .ok s2 => lexPathLoop cap fuel s2
           | .err k => .err k
           | .panic x => .panic x)
        | .err k => .err k
        | .panic x => .panic x
      else (fail cap s.toks "unexpected").map (·.toks)

def lexPath (cap : Nat) (input : List Rune) : Outcome (List Tok) :=
  lexPathLoop cap (input.length + 1) ⟨[], input⟩

end Larking.Lexer
