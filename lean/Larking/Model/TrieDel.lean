import Larking.Model.Trie
/-
  rules.go: `path.delRule(name)` and `path.alive()` on the routing trie itself.
  `delRule` removes ONE verb binding of the method `name` — the first one its depth-first walk
  finds (segments, then variables, then this node's `methods`) — and on the way back up deletes
  every child that is no longer `alive`.  Go ranges over maps in an arbitrary order: the lists
  here are the entries in the order that particular `range` visits them, and every theorem
  holds for every list, hence for every iteration order.  `methodAll` (kind `*`) is never visited.
  `counts` is the regenerated list of node fields `alive` tests (`Gen.aliveCounts`).
-/
namespace Larking.Trie

def aliveWith (counts : List String) : Node → Bool
  | .mk segs methods all vars =>
    (counts.contains "methodAll" && all.isSome) || (counts.contains "methods" && !methods.isEmpty) ||
    (counts.contains "variables" && !vars.isEmpty) || (counts.contains "segments" && !segs.isEmpty)

/-- `for k, m := range p.methods { if m.name == name { delete(p.methods, k); return true } }` -/
def delMeth (ms : List (Bytes × Meth)) (name : Nat) : Option (List (Bytes × Meth)) :=
  match ms with
  | [] => none
  | (k, m) :: rest => if m.mid == name then some rest else (delMeth rest name).map ((k, m) :: ·)

mutual
  /-- `none` = `delRule` returned false (and changed nothing). -/
  def delRule (counts : List String) (name : Nat) : Node → Option Node
    | .mk segs methods all vars =>
      match delSegs counts name segs with
      | some segs' => some (.mk segs' methods all vars)
      | none =>
        match delVars counts name vars with
        | some vars' => some (.mk segs methods all vars')
        | none => (delMeth methods name).map fun ms => .mk segs ms all vars
  def delSegs (counts : List String) (name : Nat) : List (Bytes × Node) → Option (List (Bytes × Node))
    | [] => none
    | (k, c) :: rest =>
      match delRule counts name c with
      | some c' => some (if aliveWith counts c' then (k, c') :: rest else rest)
      | none => (delSegs counts name rest).map ((k, c) :: ·)
  def delVars (counts : List String) (name : Nat) : List (Var × Node) → Option (List (Var × Node))
    | [] => none
    | (v, c) :: rest =>
      match delRule counts name c with
      | some c' => some (if aliveWith counts c' then (v, c') :: rest else rest)
      | none => (delVars counts name rest).map ((v, c) :: ·)
end

/-- `removeHandler` calls `delRule` once; the harness also calls it until it reports false. -/
def delAll (counts : List String) (name : Nat) : Nat → Node → Node
  | 0, n => n
  | fuel + 1, n => match delRule counts name n with
    | some n' => delAll counts name fuel n'
    | none => n

end Larking.Trie
