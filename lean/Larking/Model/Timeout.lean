import Larking.Model.Basic
/-
  C15: `decodeTimeout` (grpc.go) with Go's int64 arithmetic made explicit.
  What the translator supplies: the unit table (evaluated), the two length bounds and
  whether the digits are parsed with a sign-accepting parser (`strconv.ParseInt`)
  or a sign-rejecting one (`strconv.ParseUint`).
-/
namespace Larking.Timeout

def maxInt64 : Int := 9223372036854775807
def minInt64 : Int := -9223372036854775808

def isDigit (c : UInt8) : Bool := 48 ≤ c.toNat && c.toNat ≤ 57

/-- value of a non-empty all-digit string -/
def digitsVal : Bytes → Nat := fun ds => ds.foldl (fun acc c => acc * 10 + (c.toNat - 48)) 0

/-- `strconv.ParseInt(s, 10, 64)` / `strconv.ParseUint(s, 10, 63)` restricted to inputs of at
most 8 bytes (which is all `decodeTimeout` passes): no range error is possible. -/
def parseNum (acceptsSign : Bool) (s : Bytes) : Option Int :=
  match s with
  | [] => none
  | c :: rest =>
    if acceptsSign && (c == 43 || c == 45) then
      if rest.isEmpty || !rest.all isDigit then none
      else some (if c == 45 then - (digitsVal rest : Int) else (digitsVal rest : Int))
    else if s.all isDigit then some (digitsVal s : Int) else none

def unitOf (units : List (Nat × Int)) (c : UInt8) : Int :=
  match units.find? (fun p => p.1 == c.toNat) with
  | some p => p.2
  | none => 0

/-- wrap to int64 (Go's `d * time.Duration(t)` wraps silently). -/
def wrap64 (x : Int) : Int := (x + 9223372036854775808) % 18446744073709551616 - 9223372036854775808

def hourNs : Int := 3600000000000

def decodeTimeout (units : List (Nat × Int)) (minLen maxLen : Nat) (acceptsSign : Bool)
    (s : Bytes) : Outcome Int :=
  if s.length < minLen then .err "too-short"
  else if s.length > maxLen then .err "too-long"
  else
    let d := unitOf units (s.getLast?.getD 0)
    if d == 0 then .err "unit"
    else match parseNum acceptsSign s.dropLast with
      | none => .err "digits"
      | some t =>
        if d == hourNs && t > maxInt64 / hourNs then .ok maxInt64
        else .ok (wrap64 (d * t))


/-! ### what `serveGRPC` does with the header -/

/-- the fate of a gRPC request as far as its `grpc-timeout` header decides it. -/
inductive Gate where
  | refused                        -- answered 400 before any handler is picked
  | run (deadline : Option Int)    -- the handler runs under `context.WithTimeout(ctx, d)` (ns), or without a deadline
deriving Repr, DecidableEq

/-- `if v := r.Header.Get("grpc-timeout"); v != "" { to, err := decodeTimeout(v); if err != nil { 400; return }; ctx = WithTimeout(ctx, to) }`.
`hdr = none`: no such header. -/
def timeoutGate (decode : Bytes → Outcome Int) (hdr : Option Bytes) : Gate :=
  match hdr with
  | none => .run none
  | some v =>
    if v.isEmpty then .run none
    else match decode v with
      | .ok d => .run (some d)
      | _ => .refused

/-! ### cancellation fence of `streamGRPC` (transition system) -/

inductive Op where | sendHeader | sendMsg | recvMsg
deriving Repr, DecidableEq

structure StreamState where
  cancelled : Bool
  inFlight : Nat      -- ops between wg.Add and wg.Done
deriving Repr

/-- every op: `wg.Add(1); defer wg.Done(); if isDone() { return err }`; `fenced` says
whether the op consults `isDone` first (regenerated per method). Returns `true` if the op
proceeds to touch the transport. -/
def opProceeds (fenced : Bool) (st : StreamState) : Bool := !(fenced && st.cancelled)

end Larking.Timeout
