import Larking.Model.Basic
/-
  websocket.go `streamWS.RecvMsg`: one call reads one client data message (gobwas
  `wsutil.ReadClientData`: a complete, reassembled text / binary message, or an error —
  close frame, broken connection), refuses it when it is longer than the receive limit
  (0 = no limit) and decodes it as JSON into the body field; a binding WITHOUT a body reads
  nothing: the message is built from the URL alone.
-/
namespace Larking.Ws

structure Cfg where
  hasBody : Bool
  maxRecv : Nat
deriving Repr

/-- what the connection delivers next. -/
inductive Frame where
  | data (b : Bytes)
  | closed
deriving Repr, DecidableEq

inductive Recv where
  | msg (b : Bytes)       -- decoded from this client message
  | fromURL               -- a binding without a body: nothing was read
  | tooLarge              -- ResourceExhausted
  | err                   -- read error / close frame / undecodable JSON
deriving Repr, DecidableEq

/-- one `RecvMsg`; `decodes b` = `protojson.Unmarshal` accepts `b`. -/
def recv (cfg : Cfg) (decodes : Bytes → Bool) (frames : List Frame) : Recv × List Frame :=
  if !cfg.hasBody then (.fromURL, frames)
  else match frames with
    | [] => (.err, [])
    | .closed :: rest => (.err, rest)
    | .data b :: rest =>
      if cfg.maxRecv > 0 && b.length > cfg.maxRecv then (.tooLarge, rest)
      else if decodes b then (.msg b, rest) else (.err, rest)

/-- a handler that receives until the first failure (`fuel` calls at most). -/
def recvAll (cfg : Cfg) (decodes : Bytes → Bool) : Nat → List Frame → List Recv
  | 0, _ => []
  | fuel + 1, frames =>
    let r := recv cfg decodes frames
    match r.1 with
    | .msg b => .msg b :: recvAll cfg decodes fuel r.2
    | .fromURL => .fromURL :: recvAll cfg decodes fuel r.2
    | other => [other]

end Larking.Ws
