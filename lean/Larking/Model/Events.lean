import Larking.Model.Basic
/-
  What a stats handler is shown for one RPC, as the serving paths emit it:
  http.go serveHTTP / streamHTTP, grpc.go serveGRPC / streamGRPC (gRPC and gRPC-web),
  websocket.go streamWS.  The handler is an arbitrary script of stream operations.
-/
namespace Larking.Events

inductive Ev where
  | tag | inHeader | begin | inPayload | outHeader | outPayload | outTrailer | fin (err : Bool)
deriving Repr, DecidableEq

/-- one stream operation of the handler (or interceptor), by its outcome. -/
inductive Act where
  | recvOk       -- RecvMsg returned a message
  | recvEnd      -- RecvMsg returned io.EOF or an error
  | sendOk       -- SendMsg wrote the message
  | sendFail     -- SendMsg failed after the headers were prepared (marshal / limit / write error)
  | sendHeader   -- an explicit grpc.SendHeader
deriving Repr, DecidableEq

inductive Proto where
  | http | grpc | ws
deriving Repr, DecidableEq

/-- events of the handler's operations; the state is `sentHeader`. -/
def ops (p : Proto) : List Act → Bool → List Ev × Bool
  | [], sent => ([], sent)
  | a :: rest, sent =>
    let here : List Ev × Bool :=
      match p, a with
      | _, .recvOk => ([.inPayload], sent)
      | _, .recvEnd => ([], sent)
      | .ws, .sendOk => ([.outPayload], sent)
      | .ws, _ => ([], sent)
      | _, .sendOk => ((if sent then [] else [.outHeader]) ++ [.outPayload], true)
      | _, .sendFail => (if sent then [] else [.outHeader], true)
      | _, .sendHeader => (if sent then [] else [.outHeader], true)
    let r := ops p rest here.2
    (here.1 ++ r.1, r.2)

/-- how the call leaves the serving function. -/
inductive Exit where
  | normal            -- the handler ran and returned
  | beforeHandler     -- serveHTTP returned early after Begin (decompress / compress / upgrade error)
  | ctxDone           -- serveGRPC: the context was cancelled before any header went out
deriving Repr, DecidableEq

/-- the whole event sequence of one RPC; `failed` = the handler (or interceptor) returned an error. -/
def serve (p : Proto) (acts : List Act) (failed : Bool) (ex : Exit) : List Ev :=
  [.tag, .inHeader, .begin] ++
  match ex with
  | .beforeHandler => [.fin true]
  | _ =>
    let r := ops p acts false
    r.1 ++
    match p with
    | .ws => [.fin failed]
    | .http => [.outTrailer, .fin failed]
    | .grpc =>
      if r.2 then [.outTrailer, .fin failed]
      else if ex == .ctxDone then [.fin failed]
      else [.outHeader, .outTrailer, .fin failed]

def isFin : Ev → Bool | .fin _ => true | _ => false

end Larking.Events
