import Larking.Model.Registry
/-
  Copy-on-write as mux.go does it, with the sharing made explicit.

  `state.clone()` copies the `handlers` map but shares every `[]*handler` value with the
  published state; writers then `append` to / rebuild those slices.  Whether a published
  snapshot can change under a reader depends on Go's slice semantics, so they are modelled:
  a heap of backing arrays, slice headers (array, len, cap), `append` writing in place when
  `len < cap` and reallocating otherwise (any growth policy).

  `owner` is a ghost tag (which method's lineage allocated the array).
-/
namespace Larking.Cow
open Larking.Registry (put)

structure Slice where
  arr : Nat
  len : Nat
  cap : Nat
deriving DecidableEq, Repr

def nilSlice : Slice := ⟨0, 0, 0⟩

structure Heap where
  arrs : Nat → List Nat
  owner : Nat → Nat
  next : Nat

def Heap.init : Heap := { arrs := fun _ => [], owner := fun _ => 0, next := 0 }

/-- what a reader holding the header sees. -/
def view (h : Heap) (s : Slice) : List Nat := (h.arrs s.arr).take s.len

/-- Go `append(s, x)`; `grow` is the runtime's growth policy (only `grow c > c` matters,
and even that is forced here by `max`). -/
def append (grow : Nat → Nat) (m : Nat) (h : Heap) (s : Slice) (x : Nat) : Heap × Slice :=
  if s.len < s.cap then
    ({ h with arrs := put h.arrs s.arr ((h.arrs s.arr).set s.len x) }, { s with len := s.len + 1 })
  else
    let cap' := max (grow s.cap) (s.len + 1)
    ({ arrs := put h.arrs h.next (view h s ++ x :: List.replicate (cap' - (s.len + 1)) 0),
       owner := put h.owner h.next m, next := h.next + 1 },
     ⟨h.next, s.len + 1, cap'⟩)

/-- `var hds []*handler; for … { hds = append(hds, mhd) }` -/
def build (grow : Nat → Nat) (m : Nat) (h : Heap) (s : Slice) : List Nat → Heap × Slice
  | [] => (h, s)
  | x :: rest => build grow m (append grow m h s x).1 (append grow m h s x).2 rest

inductive Micro where
  | app (m x : Nat)   -- s.handlers[m] = append(s.handlers[m], x)          (appendHandler)
  | rem (m x : Nat)   -- one iteration of removeHandler's loop for handler x of method m
deriving Repr

abbrev HMap := Nat → Slice

def micro (grow : Nat → Nat) (h : Heap) (W : HMap) : Micro → Heap × HMap
  | .app m x =>
    let r := append grow m h (W m) x
    (r.1, put W m r.2)
  | .rem m x =>
    let r := build grow m h nilSlice ((view h (W m)).filter (fun y => y ≠ x))
    (r.1, put W m (if r.2.len = 0 then nilSlice else r.2))   -- delete(s.handlers, name) / store

def micros (grow : Nat → Nat) (h : Heap) (W : HMap) : List Micro → Heap × HMap
  | [] => (h, W)
  | μ :: rest => micros grow (micro grow h W μ).1 (micro grow h W μ).2 rest

/-- the heap and every map ever published (newest first). -/
structure Sys where
  heap : Heap
  pubs : List HMap

def Sys.init : Sys := { heap := Heap.init, pubs := [] }

def latest (s : Sys) : HMap := s.pubs.headD (fun _ => nilSlice)

/-- one writer call under the mutex: clone the latest map (sharing its slices), run the
call's appends / removals on the clone, and publish it only on success.  A failed call's
heap writes stay — only its map is dropped. -/
def call (grow : Nat → Nat) (s : Sys) (c : List Micro × Bool) : Sys :=
  let r := micros grow s.heap (latest s) c.1
  { heap := r.1, pubs := if c.2 then r.2 :: s.pubs else s.pubs }

def calls (grow : Nat → Nat) (s : Sys) (cs : List (List Micro × Bool)) : Sys := cs.foldl (call grow) s

/-- the seeded "filter without allocating" variant of removeHandler, for contrast:
`hds := s.handlers[name][:0]`. -/
def microInPlace (grow : Nat → Nat) (h : Heap) (W : HMap) (m x : Nat) : Heap × HMap :=
  let r := build grow m h { W m with len := 0 } ((view h (W m)).filter (fun y => y ≠ x))
  (r.1, put W m r.2)

end Larking.Cow
