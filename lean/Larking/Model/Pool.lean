import Larking.Model.Registry
/-
  sync.Pool as larking uses it (bytesPool, bufPool, the gzip writer / reader pools): a shared
  bag of objects; `Get` hands out ANY free object (or a new one) with whatever content it was
  left with; `Put` makes the object available to every other request immediately.
  Requests interleave at event granularity in any order.

  An event sequence is what one execution path of a function does to its pooled objects
  (`Gen.Pool.paths`, enumerated from the AST on every run).
-/
namespace Larking.Pool
open Larking.Registry (put)

inductive Ev where
  | get (slot : Nat)                -- x := pool.Get()
  | write (slot : Nat) (v : Nat)    -- fill / reset the object
  | read (slot : Nat)               -- use its content (unmarshal, copy out, write to the wire)
  | put (slot : Nat)                -- pool.Put(x); the variable is dead afterwards
  | putKeep (slot : Nat)            -- pool.Put(x) while an alias stays in use (a discipline violation)
  | drop (slot : Nat)               -- the object is abandoned to the GC (oversized buffer), never pooled again
deriving Repr, DecidableEq

/-- discipline of one path: an object is used only between its Get and its single Put, it is
reset / filled before its content is used (a pooled object comes with whatever the previous
user left in it), and no alias outlives the Put.  `st k`: 0 = slot `k` holds nothing,
1 = holds an object not yet reset, 2 = holds an object this request has written. -/
def disc : List Ev → (Nat → Nat) → Bool
  | [], _ => true
  | .get k :: r, st => st k == 0 && disc r (put st k 1)
  | .write k _ :: r, st => st k != 0 && disc r (put st k 2)
  | .read k :: r, st => st k == 2 && disc r st
  | .put k :: r, st => st k != 0 && disc r (put st k 0)
  | .putKeep _ :: _, _ => false
  | .drop k :: r, st => st k != 0 && disc r (put st k 0)

structure Sys where
  objs : Nat → Nat                       -- content of every object
  free : Nat → Bool                      -- in the pool
  next : Nat                             -- objects allocated so far
  prog : Nat → List Ev                   -- what each request still has to do
  slot : Nat → Nat → Option Nat          -- request → variable → object
  view : Nat → Nat → Option Nat          -- ghost: what the request itself last wrote there
  log : Nat → List (Nat × Option Nat)    -- ghost: every read (value seen, value expected)

def Sys.init (progs : Nat → List Ev) : Sys :=
  { objs := fun _ => 0, free := fun _ => false, next := 0, prog := progs,
    slot := fun _ _ => none, view := fun _ _ => none, log := fun _ => [] }

def put2 {α : Type} (f : Nat → Nat → α) (i k : Nat) (v : α) : Nat → Nat → α :=
  fun a b => if a = i ∧ b = k then v else f a b

/-- request `i` performs its next event; `choice` is the pool's pick for a Get. -/
def step (s : Sys) (i choice : Nat) : Sys :=
  match s.prog i with
  | [] => s
  | .get k :: r =>
    if choice < s.next ∧ s.free choice = true then
      { s with prog := put s.prog i r, free := put s.free choice false,
               slot := put2 s.slot i k (some choice), view := put2 s.view i k none }
    else
      { s with prog := put s.prog i r, free := put s.free s.next false, next := s.next + 1,
               slot := put2 s.slot i k (some s.next), view := put2 s.view i k none }
  | .write k v :: r =>
    match s.slot i k with
    | some o => { s with prog := put s.prog i r, objs := put s.objs o v, view := put2 s.view i k (some v) }
    | none => { s with prog := put s.prog i r }
  | .read k :: r =>
    match s.slot i k with
    | some o => { s with prog := put s.prog i r, log := put s.log i (s.log i ++ [(s.objs o, s.view i k)]) }
    | none => { s with prog := put s.prog i r }
  | .put k :: r =>
    match s.slot i k with
    | some o => { s with prog := put s.prog i r, free := put s.free o true, slot := put2 s.slot i k none }
    | none => { s with prog := put s.prog i r }
  | .putKeep k :: r =>
    match s.slot i k with
    | some o => { s with prog := put s.prog i r, free := put s.free o true }
    | none => { s with prog := put s.prog i r }
  | .drop k :: r => { s with prog := put s.prog i r, slot := put2 s.slot i k none }

/-- the discipline state after a path. -/
def final : List Ev → (Nat → Nat) → (Nat → Nat)
  | [], st => st
  | .get k :: r, st => final r (put st k 1)
  | .write k _ :: r, st => final r (put st k 2)
  | .read _ :: r, st => final r st
  | .put k :: r, st => final r (put st k 0)
  | .putKeep k :: r, st => final r (put st k 0)
  | .drop k :: r, st => final r (put st k 0)

/-- compress.go `gzipReader.Read`: `held` = `z.zr != nil`; at io.EOF the reader goes back to the
pool and the field is cleared, every later Read answers io.EOF without touching it. -/
def gzRead (held eof : Bool) : Bool × List Ev :=
  if !held then (false, []) else if eof then (false, [.read 0, .put 0]) else (true, [.read 0])

def gzReads (held : Bool) : List Bool → List Ev
  | [] => []
  | e :: r => (gzRead held e).2 ++ gzReads (gzRead held e).1 r

def run (s : Sys) (sched : List (Nat × Nat)) : Sys := sched.foldl (fun s p => step s p.1 p.2) s

end Larking.Pool
