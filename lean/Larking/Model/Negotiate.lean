import Larking.Model.Basic
/-
  C04: negotiate.go (borrowed from gddo/httputil): parseAccept and the two negotiators.
  q-values are exact rationals `num/den` (Go uses float64; identical ordering for up to 15
  fractional digits, which is what the correspondence generates — longer digit strings
  overflow Go's int and are junk on both sides).
-/
namespace Larking.Negotiate

/-- RFC 2616 separators, as in the `init` table. -/
def isSeparator (c : UInt8) : Bool :=
  [32, 9, 34, 40, 41, 44, 47, 58, 59, 60, 61, 62, 63, 64, 91, 93, 92, 123, 125].contains c.toNat
def isToken (c : UInt8) : Bool := c.toNat ≤ 127 && !(c.toNat ≤ 31 || c.toNat == 127) && !isSeparator c
def isSpace (c : UInt8) : Bool := c == 32 || c == 9 || c == 13 || c == 10

structure Q where
  num : Int
  den : Nat      -- > 0
deriving Repr, DecidableEq, Inhabited

def Q.lt (a b : Q) : Bool := a.num * b.den < b.num * a.den
def Q.isZero (a : Q) : Bool := a.num == 0
def Q.neg (a : Q) : Bool := a.num < 0

structure Spec where
  value : Bytes
  q : Q
deriving Repr, DecidableEq, Inhabited

def skipSpace : Bytes → Bytes
  | [] => []
  | c :: rest => if isSpace c then skipSpace rest else c :: rest

def expectTokenSlash : Bytes → Bytes × Bytes
  | [] => ([], [])
  | c :: rest =>
    if isToken c || c == 47 then
      let (t, r) := expectTokenSlash rest
      (c :: t, r)
    else ([], c :: rest)

/-- digits of the fraction: (n, d, rest) with `d = 10^digits`. -/
def fracDigits : Bytes → Nat → Nat → Nat × Nat × Bytes
  | [], n, d => (n, d, [])
  | c :: rest, n, d =>
    if 48 ≤ c.toNat && c.toNat ≤ 57 then fracDigits rest (n * 10 + (c.toNat - 48)) (d * 10)
    else (n, d, c :: rest)

/-- `expectQuality`: `none` = the `-1` result. -/
def expectQuality : Bytes → Option (Q × Bytes)
  | [] => none
  | c :: s =>
    if c == 48 || c == 49 then
      let q0 : Nat := if c == 49 then 1 else 0
      match s with
      | 46 :: s' =>
        let r := fracDigits s' 0 1
        some (⟨(q0 * r.2.1 + r.1 : Nat), r.2.1⟩, r.2.2)
      | _ => some (⟨q0, 1⟩, s)
    else none

def hasPrefix (p s : Bytes) : Bool := p.isPrefixOf s

/-- the inner `for` of `parseAccept` over one header line; fuel = remaining length + 1. -/
def parseLine : Nat → Bytes → List Spec
  | 0, _ => []
  | fuel + 1, s =>
    let (value, s1) := expectTokenSlash s
    if value.isEmpty then []
    else
      let s2 := skipSpace s1
      let cont (q : Q) (s3 : Bytes) : List Spec :=
        let s4 := skipSpace s3
        match s4 with
        | 44 :: s5 => ⟨value, q⟩ :: parseLine fuel (skipSpace s5)
        | _ => [⟨value, q⟩]
      match s2 with
      | 59 :: s3 =>
        let s4 := skipSpace s3
        (match s4 with
         | 113 :: 61 :: s5 =>
           (match expectQuality s5 with
            | none => []
            | some (q, s6) => cont q s6)
         | _ => [])
      | _ => cont ⟨1, 1⟩ s2

def parseAccept (values : List Bytes) : List Spec :=
  values.flatMap fun s => parseLine (s.length + 1) s

/-! ### negotiateContentType -/

structure Best where
  offer : Bytes
  q : Q
  wild : Nat
deriving Repr, DecidableEq

def starSlashStar : Bytes := [42, 47, 42]
def slashStar : Bytes := [47, 42]

/-- does an Accept range admit a media type (the three `case`s of the switch). -/
def rangeMatches (value offer : Bytes) : Bool :=
  if value == starSlashStar then true
  else if slashStar.isSuffixOf value then hasPrefix (value.take (value.length - 1)) offer
  else value == offer

def wildOf (value : Bytes) : Nat :=
  if value == starSlashStar then 2 else if slashStar.isSuffixOf value then 1 else 0

/-- one iteration of the inner loop. -/
def stepType (b : Best) (offer : Bytes) (s : Spec) : Best :=
  if s.q.isZero then b
  else if s.q.lt b.q then b
  else if rangeMatches s.value offer && (b.q.lt s.q || b.wild > wildOf s.value) then
    ⟨offer, s.q, wildOf s.value⟩
  else b

def negotiateContentType (specs : List Spec) (offers : List Bytes) (dflt : Bytes) : Bytes :=
  (offers.foldl (fun b offer => specs.foldl (fun b s => stepType b offer s) b) ⟨dflt, ⟨-1, 1⟩, 3⟩).offer

/-! ### negotiateContentEncoding -/

def identity : Bytes := [105, 100, 101, 110, 116, 105, 116, 121]

def stepEnc (b : Bytes × Q) (offer : Bytes) (s : Spec) : Bytes × Q :=
  if b.2.lt s.q && (s.value == [42] || s.value == offer) then (offer, s.q) else b

def negotiateContentEncoding (specs : List Spec) (offers : List Bytes) : Bytes :=
  let r := offers.foldl (fun b offer => specs.foldl (fun b s => stepEnc b offer s) b) (identity, ⟨-1, 1⟩)
  if r.2.isZero then [] else r.1

end Larking.Negotiate
