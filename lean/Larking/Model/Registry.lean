import Larking.Model.Basic
/-
  mux.go / handler.go: the registry state machine behind RegisterService, RegisterConn and
  DropConn, as written: `state{path, conns, handlers}`, `clone` + modify + publish,
  `appendHandler`, `removeHandler`, `addConnHandler`, `processFile`, `pickMethodHandler`.

  * Go pointers to `handler` are identities `H.id` (fresh per `&handler{}` / createConnHandler);
    `owner` and `keys` are ghost fields (never branched on) recording who created the handler
    and which route keys its registration bound.
  * Go maps are total functions (`delete` = the zero value; `len(hds) > 0` is all that the
    code asks of an entry).
  * the routing trie is abstracted to a route table `key ↦ method` here (a key stands for one
    `(kind, template)` end node); the trie-level facts this abstraction uses are theorems of
    the trie model (`addRule` stores at the end node or reports a duplicate; `delRule` removes
    only entries of the named method) — see Lemmas/DelRule.
  * `path.delRule` removes ONE rule of the method, found by ranging over Go maps: which one is
    not determined.  `Chooser` is that nondeterminism; every theorem is for all choosers.
  * `rand.Intn(n)` is `r % n` for an arbitrary `r`.
-/
namespace Larking.Registry

structure H where
  id : Nat
  method : Nat
  owner : Option Nat
  keys : List Nat
deriving DecidableEq, Repr

structure Conn where
  handlers : List H
  hash : Nat
deriving Repr

structure St where
  handlers : Nat → List H
  conns : Nat → Option Conn
  routes : List (Nat × Nat)
  next : Nat

def put {α : Type} (f : Nat → α) (k : Nat) (v : α) : Nat → α := fun x => if x = k then v else f x

/-- `(*state)(nil).clone()` -/
def St.init : St := { handlers := fun _ => [], conns := fun _ => none, routes := [], next := 0 }

/-- what a registration brings for one method: its name and the route keys of its implicit
rule, service-config rules and annotation (with additional bindings). -/
structure MSpec where
  method : Nat
  keys : List Nat
deriving Repr

abbrev Chooser := List (Nat × Nat) → Nat → Option Nat

def routeOf (routes : List (Nat × Nat)) (key : Nat) : Option Nat :=
  match routes with
  | [] => none
  | (k, m) :: rest => if k = key then some m else routeOf rest key

/-- `path.addRule` at the end node: bound to another method → "duplicate rule"; bound to the
same method → nothing to do; free → stored. -/
def addRule (routes : List (Nat × Nat)) (key m : Nat) : Option (List (Nat × Nat)) :=
  match routeOf routes key with
  | some m' => if m' = m then some routes else none
  | none => some (routes ++ [(key, m)])

def addRules (routes : List (Nat × Nat)) (keys : List Nat) (m : Nat) : Option (List (Nat × Nat)) :=
  match keys with
  | [] => some routes
  | k :: rest =>
    match addRule routes k m with
    | none => none
    | some r => addRules r rest m

/-- `path.delRule(name)`: at most one entry goes, and only one of that method. -/
def delRule (ch : Chooser) (routes : List (Nat × Nat)) (name : Nat) : List (Nat × Nat) :=
  match ch routes name with
  | none => routes
  | some i =>
    match routes[i]? with
    | some e => if e.2 = name then routes.eraseIdx i else routes
    | none => routes

/-- `state.appendHandler` (error = `none`; the caller then discards the clone). -/
def appendHandler (s : St) (ms : MSpec) (owner : Option Nat) : Option (St × H) :=
  match addRules s.routes ms.keys ms.method with
  | none => none
  | some r =>
    let h : H := ⟨s.next, ms.method, owner, ms.keys⟩
    some ({ s with routes := r, handlers := put s.handlers ms.method (s.handlers ms.method ++ [h]),
                   next := s.next + 1 }, h)

/-- `registerService`'s two loops / `processFile`: one fresh handler per method, in order. -/
def processAll (s : St) (owner : Option Nat) : List MSpec → Option (St × List H)
  | [] => some (s, [])
  | ms :: rest =>
    match appendHandler s ms owner with
    | none => none
    | some (s1, h) =>
      match processAll s1 owner rest with
      | none => none
      | some (s2, hs) => some (s2, h :: hs)

/-- one iteration of `removeHandler`'s loop. -/
def removeOne (ch : Chooser) (s : St) (hd : H) : St :=
  let hds := (s.handlers hd.method).filter (fun mhd => mhd ≠ hd)
  if hds = [] then
    { s with handlers := put s.handlers hd.method [], routes := delRule ch s.routes hd.method }
  else
    { s with handlers := put s.handlers hd.method hds }

/-- `state.removeHandler(cc)` -/
def removeHandler (ch : Chooser) (s : St) (c : Nat) : St × Bool :=
  match s.conns c with
  | none => (s, false)
  | some cl =>
    let s' := cl.handlers.foldl (removeOne ch) s
    ({ s' with conns := put s'.conns c none }, true)

/-- `state.addConnHandler` after the reflection fetch produced `hash` and the methods. -/
def addConnHandler (ch : Chooser) (s : St) (c hash : Nat) (mss : List MSpec) : Option St :=
  let fresh (s : St) : Option St :=
    match processAll s (some c) mss with
    | none => none
    | some (s2, hs) => some { s2 with conns := put s2.conns c (some ⟨hs, hash⟩) }
  match s.conns c with
  | some cl => if cl.hash = hash then some s else fresh (removeHandler ch s c).1
  | none => fresh s

/-- `state.pickMethodHandler` (`none` = Unimplemented). -/
def pick (s : St) (name r : Nat) : Option H :=
  let hds := s.handlers name
  if hds.length > 0 then hds[r % hds.length]? else none

inductive Op where
  | regService (mss : List MSpec)
  | regConn (c hash : Nat) (mss : List MSpec)
  | dropConn (c : Nat)
deriving Repr

inductive Res where
  | ok | err | dropped (b : Bool)
deriving Repr, DecidableEq

/-- the published state after one call: clone, modify, and `storeState` only on success. -/
def step (ch : Chooser) (s : St) : Op → St × Res
  | .regService mss =>
    match processAll s none mss with
    | none => (s, .err)
    | some (s', _) => (s', .ok)
  | .regConn c hash mss =>
    match addConnHandler ch s c hash mss with
    | none => (s, .err)
    | some s' => (s', .ok)
  | .dropConn c =>
    let r := removeHandler ch s c
    if r.2 then (r.1, .dropped true) else (s, .dropped false)

def run (ch : Chooser) (s : St) (ops : List Op) : St := ops.foldl (fun s op => (step ch s op).1) s

/-- the chooser the driver uses.  Rules of kind "*" (every implicit `/Service/Method` rule)
live in `path.methodAll`, which `delRule` never visits: by the driver's convention their keys
are ≥ 100, and the first other entry of the method is the one that goes (the harness gives
no method two deletable rules where the choice could be observed). -/
def firstOf : Chooser := fun routes name => routes.findIdx? (fun e => e.2 == name && e.1 < 100)

end Larking.Registry
