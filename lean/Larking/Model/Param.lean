import Larking.Model.Base64
/-
  rules.go `parseParam` for the kinds whose text form is decided by larking + encoding/json
  (bool, the integer families, enum numbers, string, bytes), `params.set` on an abstract
  message, and the order in which `serveHTTP` / `RecvMsg` apply body, query and path values.
  float/double and the protojson-parsed well-known types are parameters (see C03's note).
-/
namespace Larking.Param

def isWS (c : UInt8) : Bool := c == 32 || c == 9 || c == 10 || c == 13

def trimLeft : Bytes → Bytes
  | [] => []
  | c :: rest => if isWS c then trimLeft rest else c :: rest

/-- JSON insignificant whitespace on both sides is accepted by `json.Unmarshal`. -/
def trimWS (b : Bytes) : Bytes := (trimLeft (trimLeft b).reverse).reverse

def isDigit (c : UInt8) : Bool := 48 ≤ c.toNat && c.toNat ≤ 57

def digitsVal (ds : Bytes) : Nat := ds.foldl (fun acc c => acc * 10 + (c.toNat - 48)) 0

/-- `0 | [1-9][0-9]*` -/
def isNatLit (ds : Bytes) : Bool :=
  !ds.isEmpty && ds.all isDigit && (ds.length == 1 || ds.head? != some 48)

def nullLit : Bytes := [110, 117, 108, 108]

structure IntKind where
  signed : Bool
  bits : Nat
deriving Repr, DecidableEq

def IntKind.min (k : IntKind) : Int := if k.signed then -(2 ^ (k.bits - 1) : Nat) else 0
def IntKind.max (k : IntKind) : Int := if k.signed then (2 ^ (k.bits - 1) : Nat) - 1 else (2 ^ k.bits : Nat) - 1

/-- optional leading '-' -/
def splitSign (core : Bytes) : Bool × Bytes :=
  match core with
  | 45 :: r => (true, r)
  | r => (false, r)

/-- `json.Unmarshal(raw, &x)` for an integer `x`: `none` = error. `null` leaves the zero value. -/
def parseInt (k : IntKind) (raw : Bytes) : Option Int :=
  let core := trimWS raw
  if core == nullLit then some 0
  else
    let neg := (splitSign core).1
    let ds := (splitSign core).2
    if !isNatLit ds then none
    else if neg && !k.signed then none   -- strconv.ParseUint refuses a sign, "-0" included
    else
      let v : Int := if neg then -(digitsVal ds : Int) else (digitsVal ds : Int)
      if k.min ≤ v ∧ v ≤ k.max then some v else none

def parseBool (raw : Bytes) : Option Bool :=
  let core := trimWS raw
  if core == [116, 114, 117, 101] then some true
  else if core == [102, 97, 108, 115, 101] then some false
  else if core == nullLit then some false
  else none

/-- bytes: alphabet and padding are chosen from the text, then `encoding/base64` decodes. -/
def parseBytes (raw : Bytes) : Option Bytes :=
  let url := raw.any fun c => c == 45 || c == 95
  let pad := raw.length % 4 == 0
  Base64.decode url pad raw

/-- enum: a number is tried first (`json.Unmarshal` into an int32 — so `null` is the zero value
for every enum, and proto3's open enums accept a number without a declared value), then the
text is looked up among the declared value names (`names`, in declaration order). -/
def lookupName (names : List (Bytes × Int)) (raw : Bytes) : Option Int :=
  match names with
  | [] => none
  | (n, v) :: rest => if n == raw then some v else lookupName rest raw

def parseEnum (names : List (Bytes × Int)) (raw : Bytes) : Option Int :=
  match parseInt ⟨true, 32⟩ raw with
  | some x => some x
  | none => lookupName names raw

/-- string: the text itself, byte for byte. -/
def parseString (raw : Bytes) : Bytes := raw

/-- decimal text of a natural number (`strconv.FormatUint`). -/
def printNatAux : Nat → Nat → Bytes → Bytes
  | 0, _, acc => acc
  | fuel + 1, n, acc =>
    let acc' := UInt8.ofNat (48 + n % 10) :: acc
    if n < 10 then acc' else printNatAux fuel (n / 10) acc'
def printNat (n : Nat) : Bytes := printNatAux (n + 1) n []

def printInt (v : Int) : Bytes :=
  if v < 0 then 45 :: printNat v.natAbs else printNat v.natAbs

/-! ### params.set and the order of application -/

/-- an abstract request message: singular fields hold one value, repeated ones a list. Field
paths are opaque and independent (variables' paths are pairwise non-prefix). -/
abbrev Msg := List (Nat × List Bytes)

def Msg.get (m : Msg) (fp : Nat) : List Bytes :=
  match m with
  | [] => []
  | (k, v) :: rest => if k == fp then v else Msg.get rest fp

def Msg.put (m : Msg) (fp : Nat) (v : List Bytes) : Msg :=
  match m with
  | [] => [(fp, v)]
  | (k, v') :: rest => if k == fp then (k, v) :: rest else (k, v') :: Msg.put rest fp v

structure P where
  fp : Nat
  repeated : Bool
  val : Bytes
deriving Repr, DecidableEq

/-- one `param` of `params.set`: `cur.Set` for singular fields, `List().Append` for repeated. -/
def setOne (m : Msg) (p : P) : Msg :=
  if p.repeated then m.put p.fp (m.get p.fp ++ [p.val]) else m.put p.fp [p.val]

def setAll (m : Msg) (ps : List P) : Msg := ps.foldl setOne m

/-- `serveHTTP` + `RecvMsg` on the first message: the body is decoded first, then the
parameters are applied in the order `serveHTTP` concatenated them (`pathLast` regenerated). -/
def decodeRequest (pathLast : Bool) (body : Msg) (query path : List P) : Msg :=
  setAll body (if pathLast then query ++ path else path ++ query)

/-- the FIRST `RecvMsg` of a stream transport (`streamWS`, `streamHTTP`): with a body mapping the
frame / request body is decoded into the message, without one nothing is read; then the URL
parameters are applied — `outside` = that application is not nested in the `hasBody` block
(regenerated per transport: `Gen.wsParamsOutsideBody`, `Gen.httpParamsOutsideBody`). -/
def recvFirst (outside pathLast hasBody : Bool) (frame : Msg) (query path : List P) : Msg :=
  if hasBody then decodeRequest pathLast frame query path
  else if outside then decodeRequest pathLast [] query path
  else []

end Larking.Param
