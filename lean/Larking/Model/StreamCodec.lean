import Larking.Model.Reader
/-
  codec.go: growcap, CodecProto / CodecJSON / codecHTTPBody ReadNext + WriteNext, and
  muxOptions.readAll (mux.go).  `limit` is a Go `int`; the mux always passes a positive one.
-/
namespace Larking.Codec

/-! ### LEB128 (protowire.AppendVarint / ConsumeVarint) -/

/-- `protowire.AppendVarint(nil, v)`; fuel 10 suffices for `v < 2^64`. -/
def putVarintAux : Nat → Nat → Bytes
  | 0, _ => []
  | fuel + 1, v => if v < 128 then [UInt8.ofNat v] else UInt8.ofNat (v % 128 + 128) :: putVarintAux fuel (v / 128)
def putVarint (v : Nat) : Bytes := putVarintAux 10 v

/-- `protowire.ConsumeVarint`: `some (value, length)`; `none` = truncated or overflowing input.
At most 10 bytes; the 10th byte must be 0 or 1. -/
def getVarintAux : Nat → Nat → Nat → Bytes → Option (Nat × Nat)
  | 0, _, _, _ => none
  | _, _, _, [] => none
  | fuel + 1, shift, idx, c :: rest =>
      if c.toNat < 128 then
        (if idx == 9 && c.toNat > 1 then none else some (c.toNat * 2 ^ shift, idx + 1))
      else
        (getVarintAux fuel (shift + 7) (idx + 1) rest).map fun p => ((c.toNat - 128) * 2 ^ shift + p.1, p.2)
def getVarint (b : Bytes) : Option (Nat × Nat) := getVarintAux 10 0 0 b

/-! ### growcap -/

def growLoop (want : Nat) : Nat → Nat → Nat
  | 0, nc => nc
  | fuel + 1, nc => if 0 < nc ∧ nc < want then growLoop want fuel (nc + nc / 4) else nc

/-- `growcap(oldcap, wantcap)` over unbounded naturals (Go's `newcap <= 0` overflow branch
cannot fire). -/
def growcap (old want : Nat) : Nat :=
  if want > old * 2 then want
  else if old < 1024 then old * 2
  else growLoop want want old

structure Result where
  dst : Buf
  n : Nat
  err : Option RErr
deriving Repr, Inhabited

/-! ### CodecProto -/

/-- prefix scan: `for i := 0; i < MaxVarintLen64; i++ { fill; if b[i] < 0x80 { break } }` -/
def scanPrefix : Nat → Nat → Env → Buf → Buf × Option RErr × Env
  | 0, _, e, b => (b, none, e)
  | fuel + 1, i, e, b =>
      match fill e b i with
      | (b1, some err, e1) => (b1, some err, e1)
      | (b1, none, e1) =>
        match b1.data[i]? with
        | some c => if c.toNat < 128 then (b1, none, e1) else scanPrefix fuel (i + 1) e1 b1
        | none => (b1, some .other, e1)    -- unreachable: fill guarantees i < len

def maxInt : Nat := 9223372036854775807

/-- `CodecProto.ReadNext(b, r, limit)` with `limit > 0`. The size check is on the unsigned
value (no wrap for prefixes ≥ 2^63). -/
def protoReadNext (e : Env) (b : Buf) (limit : Nat) : Outcome Result × Env :=
  match scanPrefix 10 0 e b with
  | (b1, some err, e1) => (.ok ⟨b1, 0, some err⟩, e1)
  | (b1, none, e1) =>
    match getVarint b1.data with
    | none => (.ok ⟨b1, 0, some .parse⟩, e1)
    | some (size, k) =>
      if size > maxInt ∨ size > limit then (.ok ⟨b1, 0, some .tooLarge⟩, e1)
      else
        -- b = b[n:]: the prefix is consumed, capacity shrinks with it
        let b2 : Buf := { data := b1.data.drop k, spare := b1.spare }
        if b2.data.length < size then
          let b3 : Buf := if b2.cap < size then { data := b2.data, spare := growcap b2.cap size - b2.data.length } else b2
          if size > b3.cap then (.panic "slice bounds out of range [:n] with capacity", e1)
          else match readFull e1 b3 size with
            | (_, some err, e2) => (.ok ⟨b3, 0, some err⟩, e2)   -- `b` is only resliced on success
            | (b4, none, e2) => (.ok ⟨b4, size, none⟩, e2)
        else (.ok ⟨b2, size, none⟩, e1)

def protoWriteNext (m : Bytes) : Bytes := putVarint m.length ++ m

/-! ### CodecJSON -/

structure Scan where
  depth : Nat
  inStr : Bool
  esc : Bool
deriving Repr, DecidableEq, Inhabited

inductive ScanStep where
  | cont (s : Scan)
  | done          -- closing brace of the top-level object
  | unbalanced    -- '}' at depth 0

/-- one iteration of the scanner `switch`. -/
def scanByte (s : Scan) (c : UInt8) : ScanStep :=
  if s.esc then .cont { s with esc := false }
  else if s.inStr then
    (if c == 92 then .cont { s with esc := true }
     else if c == 34 then .cont { s with inStr := false }
     else .cont s)
  else
    (if c == 123 then .cont { s with depth := s.depth + 1 }
     else if c == 125 then
       (if s.depth == 1 then .done else if s.depth == 0 then .unbalanced
        else .cont { s with depth := s.depth - 1 })
     else if c == 34 then .cont { s with inStr := true }
     else .cont s)

/-- `for i := 0; i < limit; i++ { fill; scan b[i] }` — `fuel = limit - i`. -/
def jsonLoop : Nat → Nat → Scan → Env → Buf → Result × Env
  | 0, _, _, e, b => (⟨b, 0, some .tooLarge⟩, e)
  | fuel + 1, i, s, e, b =>
      match fill e b i with
      | (b1, some err, e1) => (⟨b1, 0, some err⟩, e1)
      | (b1, none, e1) =>
        match b1.data[i]? with
        | none => (⟨b1, 0, some .other⟩, e1)   -- unreachable
        | some c =>
          match scanByte s c with
          | .done => (⟨b1, i + 1, none⟩, e1)
          | .unbalanced => (⟨b1, 0, some .unbalanced⟩, e1)
          | .cont s' => jsonLoop fuel (i + 1) s' e1 b1

def jsonReadNext (e : Env) (b : Buf) (limit : Nat) : Result × Env :=
  jsonLoop limit 0 ⟨0, false, false⟩ e b

def jsonWriteNext (m : Bytes) : Bytes := m

/-! ### codecHTTPBody -/

/-- `total := len(b); for total < limit { read; if err … }; return b, limit, nil` -/
def bodyLoop (e : Env) (b : Buf) (limit : Nat) : Result × Env :=
  if limit ≤ b.data.length then (⟨b, limit, none⟩, e)
  else if h : e.data.isEmpty then
    let r := readMore e b
    (⟨r.1, r.1.data.length, some .eof⟩, r.2.2)
  else
    let r := readMore e b
    if r.2.1 then
      -- io.EOF together with data
      (if r.1.data.length > limit then (⟨r.1, limit, none⟩, r.2.2)
       else (⟨r.1, r.1.data.length, some .eof⟩, r.2.2))
    else bodyLoop r.2.2 r.1 limit
termination_by e.data.length
decreasing_by exact readMore_decreases e b (by simpa using h)

def bodyReadNext (e : Env) (b : Buf) (limit : Nat) : Result × Env := bodyLoop e b limit

/-! ### muxOptions.readAll -/

/-- `readAll(b, r)`: `err = none` means the loop ended with io.EOF (the normal end). -/
def readAllLoop (e : Env) (b : Buf) (total limit : Nat) : Buf × Option RErr × Env :=
  if h : e.data.isEmpty then
    let r := readMore e b
    (r.1, none, r.2.2)
  else
    let r := readMore e b
    let total' := total + (r.1.data.length - b.data.length)
    if total' > limit then (⟨[], 0⟩, some .tooLarge, r.2.2)   -- `return nil, err`
    else if r.2.1 then (r.1, none, r.2.2)
    else readAllLoop r.2.2 r.1 total' limit
termination_by e.data.length
decreasing_by exact readMore_decreases e b (by simpa using h)

def readAll (e : Env) (b : Buf) (limit : Nat) : Buf × Option RErr × Env := readAllLoop e b 0 limit

end Larking.Codec
