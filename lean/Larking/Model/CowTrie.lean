import Larking.Model.Basic
/-
  `path.clone()` with the sharing made explicit.  Every `*path` node carries a ghost tag
  `gen`: the clone call that allocated it.  Two tries share a heap node exactly when they
  contain a node allocated by the same call, so "no shared mutable node" is "no common tag".
  `*method` values and `variable.name/toks` are shared read-only by the real clone and are
  plain data here (never written after creation: tied by the regenerated write-site list).
-/
namespace Larking.CowTrie

inductive GNode where
  | mk (gen : Nat) (segs : List (Nat × GNode)) (vars : List (Nat × GNode))
       (methods : List (Nat × Nat)) (all : Option Nat)
deriving Repr, Inhabited

mutual
  /-- all allocation tags reachable from a root. -/
  def gens : GNode → List Nat
    | .mk g segs vars _ _ => g :: (gensL segs ++ gensL vars)
  def gensL : List (Nat × GNode) → List Nat
    | [] => []
    | (_, c) :: rest => gens c ++ gensL rest
end

mutual
  /-- `path.clone()`: a fresh node (`newPath()`), every segment child cloned, a fresh
  variable struct per variable with `next` cloned, the method map copied. -/
  def clone (g : Nat) : GNode → GNode
    | .mk _ segs vars methods all => .mk g (cloneL g segs) (cloneL g vars) methods all
  def cloneL (g : Nat) : List (Nat × GNode) → List (Nat × GNode)
    | [] => []
    | (k, c) :: rest => (k, clone g c) :: cloneL g rest
end

mutual
  /-- the seeded shallow variant for contrast: `copy(pc.variables, p.variables)`. -/
  def cloneShallowVars (g : Nat) : GNode → GNode
    | .mk _ segs vars methods all => .mk g (cloneShallowVarsL g segs) vars methods all
  def cloneShallowVarsL (g : Nat) : List (Nat × GNode) → List (Nat × GNode)
    | [] => []
    | (k, c) :: rest => (k, cloneShallowVars g c) :: cloneShallowVarsL g rest
end

/-- one step of a route through the trie: a segment key or a variable key. -/
inductive Edge where
  | seg (k : Nat) | var (k : Nat)
deriving Repr, DecidableEq

def lookupL (l : List (Nat × GNode)) (k : Nat) : Option GNode :=
  match l with
  | [] => none
  | (k', c) :: rest => if k' = k then some c else lookupL rest k

def setL (l : List (Nat × GNode)) (k : Nat) (c : GNode) : List (Nat × GNode) :=
  match l with
  | [] => [(k, c)]
  | (k', c') :: rest => if k' = k then (k, c) :: rest else (k', c') :: setL rest k c

/-- `addRule` walking / creating nodes along `route` in the working trie (allocation tag
`g` for new nodes) and binding `(verb ↦ m)` at the end; returns the tags of the nodes it
WRITES (the node whose map or slice gets a new child, and the end node). -/
def addRoute (g : Nat) : GNode → List Edge → Nat → Nat → GNode × List Nat
  | .mk gen segs vars methods all, [], verb, m =>
    (.mk gen segs vars ((verb, m) :: methods) all, [gen])
  | .mk gen segs vars methods all, .seg k :: rest, verb, m =>
    match lookupL segs k with
    | some c =>
      let r := addRoute g c rest verb m
      (.mk gen (setL segs k r.1) vars methods all, r.2)
    | none =>
      let r := addRoute g (.mk g [] [] [] none) rest verb m
      (.mk gen (setL segs k r.1) vars methods all, gen :: r.2)
  | .mk gen segs vars methods all, .var k :: rest, verb, m =>
    match lookupL vars k with
    | some c =>
      let r := addRoute g c rest verb m
      (.mk gen segs (setL vars k r.1) methods all, r.2)
    | none =>
      let r := addRoute g (.mk g [] [] [] none) rest verb m
      (.mk gen segs (setL vars k r.1) methods all, gen :: r.2)

def aliveG : GNode → Bool
  | .mk _ segs vars methods all => all.isSome || !methods.isEmpty || !vars.isEmpty || !segs.isEmpty

mutual
  /-- `delRule(name)` on the working trie: the first verb binding of `name` the walk finds goes,
  children that are no longer alive are unlinked; returns the tags of the nodes it WRITES (the
  node whose method map loses the entry and every node on the way up, whose child map / slice
  may lose a child). `none` = nothing found, nothing written. -/
  def delRoute (name : Nat) : GNode → Option (GNode × List Nat)
    | .mk gen segs vars methods all =>
      match delRouteL name segs with
      | some r => some (.mk gen r.1 vars methods all, gen :: r.2)
      | none =>
        match delRouteL name vars with
        | some r => some (.mk gen segs r.1 methods all, gen :: r.2)
        | none =>
          if methods.any (fun p => p.2 == name) then
            some (.mk gen segs vars (methods.eraseP fun p => p.2 == name) all, [gen])
          else none
  def delRouteL (name : Nat) : List (Nat × GNode) → Option (List (Nat × GNode) × List Nat)
    | [] => none
    | (k, c) :: rest =>
      match delRoute name c with
      | some r => some (if aliveG r.1 then (k, r.1) :: rest else rest, r.2)
      | none =>
        match delRouteL name rest with
        | some r => some ((k, c) :: r.1, r.2)
        | none => none
end

end Larking.CowTrie
