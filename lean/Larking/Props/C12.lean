import Larking.Gen.Skel
import Larking.Gen.Missing
import Larking.Expected.C12
import Larking.Lemmas.Cow
import Larking.Lemmas.CowTrie
import Larking.Lemmas.Writers
/-
  C12 — Registration is atomic with respect to concurrent serving.
  Three models with the sharing and the interleaving made explicit:
   * Cow      — the handler lists: Go slices on a heap of backing arrays, shared by `clone()`;
   * CowTrie  — the routing trie: nodes tagged by the clone call that allocated them;
   * Writers  — the mutex protocol: threads interleaving at statement granularity.
  The statement order of the writer calls, every simple statement of clone / removeHandler /
  appendHandler and the number of `loadState` calls per function are regenerated from the AST.
-/
namespace Larking.Props.C12
open Larking Larking.Registry

theorem translator_complete : Gen.missing = [] := by decide

theorem skeleton_unchanged :
    (Gen.Skel.conds_state_clone,
     Gen.Skel.stmts_state_clone,
     Gen.Skel.conds_path_clone,
     Gen.Skel.stmts_path_clone,
     Gen.Skel.conds_state_removeHandler,
     Gen.Skel.stmts_state_removeHandler,
     Gen.Skel.conds_state_appendHandler,
     Gen.Skel.stmts_state_appendHandler,
     Gen.Skel.conds_Mux_registerService,
     Gen.Skel.stmts_Mux_registerService,
     Gen.Skel.conds_Mux_RegisterConn,
     Gen.Skel.stmts_Mux_RegisterConn,
     Gen.Skel.conds_Mux_DropConn,
     Gen.Skel.stmts_Mux_DropConn,
     Gen.Skel.conds_Mux_loadState,
     Gen.Skel.stmts_Mux_loadState,
     Gen.Skel.conds_Mux_storeState,
     Gen.Skel.stmts_Mux_storeState,
     Gen.Skel.conds_state_pickMethodHandler,
     Gen.Skel.stmts_state_pickMethodHandler)
  = (Expected.C12.conds_state_clone,
     Expected.C12.stmts_state_clone,
     Expected.C12.conds_path_clone,
     Expected.C12.stmts_path_clone,
     Expected.C12.conds_state_removeHandler,
     Expected.C12.stmts_state_removeHandler,
     Expected.C12.conds_state_appendHandler,
     Expected.C12.stmts_state_appendHandler,
     Expected.C12.conds_Mux_registerService,
     Expected.C12.stmts_Mux_registerService,
     Expected.C12.conds_Mux_RegisterConn,
     Expected.C12.stmts_Mux_RegisterConn,
     Expected.C12.conds_Mux_DropConn,
     Expected.C12.stmts_Mux_DropConn,
     Expected.C12.conds_Mux_loadState,
     Expected.C12.stmts_Mux_loadState,
     Expected.C12.conds_Mux_storeState,
     Expected.C12.stmts_Mux_storeState,
     Expected.C12.conds_state_pickMethodHandler,
     Expected.C12.stmts_state_pickMethodHandler) := rfl

/-- the three writer calls take the lock before loading and release it after storing. -/
theorem writer_order : ∀ p ∈ Gen.Skel.writerOrder, p.2 = ["lock", "load", "modify", "store", "unlock"] := by decide

/-- every function that reads the published state loads it exactly once (one consistent
snapshot per request / per writer call). -/
theorem one_load_each : ∀ p ∈ Gen.Skel.stateLoads, p.2 = 1 := by decide
theorem readers_listed : Gen.Skel.stateLoads.map (·.1) =
    ["Mux.DropConn", "Mux.RegisterConn", "Mux.registerService", "Mux.serveGRPC", "Mux.serveHTTP"] := by decide

/-- **published handler lists are immutable**: for every history of writer calls (any
appends and removals, succeeding or failing, any slice growth policy), what a reader sees
through any map that was ever published never changes — although `clone()` shares every
slice with the published state and `append` writes in place whenever there is capacity. -/
theorem published_lists_immutable (grow : Nat → Nat) (before after : List (List Cow.Micro × Bool)) :
    let s := Cow.calls grow Cow.Sys.init before
    ∀ P ∈ s.pubs, ∀ m, Cow.view (Cow.calls grow s after).heap (P m) = Cow.view s.heap (P m) :=
  (Cow.calls_spec grow after _ (Cow.calls_spec grow before _ Cow.inv_init).1).2

/-- the slices are the registry model's lists: an append shows `old ++ [x]`, a removal the
filtered list, every other method's list is untouched (so C11's theorems speak about what
readers see). -/
theorem lists_refine (grow : Nat → Nat) (h : Cow.Heap) (W : Cow.HMap) (pubs : List Cow.HMap) (μ : Cow.Micro)
    (hi : Cow.WInv h W pubs) (m : Nat) :
    Cow.view (Cow.micro grow h W μ).1 ((Cow.micro grow h W μ).2 m) =
      match μ with
      | .app m' x => if m = m' then Cow.view h (W m) ++ [x] else Cow.view h (W m)
      | .rem m' x => if m = m' then (Cow.view h (W m)).filter (fun y => y ≠ x) else Cow.view h (W m) :=
  (Cow.micro_spec grow h W pubs μ hi).2.2 m

/-- contrast (the seeded in-place filter): with `hds := s.handlers[name][:0]` the published
list [1, 2] turns into [2, 2] under the reader. -/
theorem in_place_filter_corrupts :
    let s := Cow.calls (fun c => 2 * c) Cow.Sys.init [([.app 7 1, .app 7 2], true)]
    let r := Cow.microInPlace (fun c => 2 * c) s.heap (Cow.latest s) 7 1
    Cow.view s.heap (Cow.latest s 7) = [1, 2] ∧ Cow.view r.1 (Cow.latest s 7) = [2, 2] := by decide

/-- **the routing trie of a published state is never written**: `clone()` re-allocates every
node (tag `g`), so whatever a registration then adds, every node it writes carries `g` — and
no published trie contains a node with that tag. -/
theorem published_trie_untouched (g : Nat) (pubs : List CowTrie.GNode) (latest : CowTrie.GNode)
    (rules : List (List CowTrie.Edge × Nat × Nat))
    (hfresh : ∀ P ∈ pubs, ∀ x ∈ CowTrie.gens P, x < g) :
    ∀ w ∈ (CowTrie.addRoutes g (CowTrie.clone g latest) rules).2, ∀ P ∈ pubs, w ∉ CowTrie.gens P := by
  intro w hw P hP hin
  have h1 := (CowTrie.addRoutes_spec g rules (CowTrie.clone g latest) (CowTrie.clone_gens g latest)).1 w hw
  have h2 := hfresh P hP w hin
  omega

/-- and the working trie stays private after any number of rules (so `delRule`, which only
unlinks nodes of the working trie, cannot reach a published node either). -/
theorem working_trie_private (g : Nat) (latest : CowTrie.GNode) (rules : List (List CowTrie.Edge × Nat × Nat)) :
    ∀ x ∈ CowTrie.gens (CowTrie.addRoutes g (CowTrie.clone g latest) rules).1, x = g :=
  (CowTrie.addRoutes_spec g rules (CowTrie.clone g latest) (CowTrie.clone_gens g latest)).2

/-- **`delRule` on the working copy never writes a published node**: after the deep clone and any
number of added rules, whatever `delRule` writes (the node that loses the binding, every node on
the way up that may lose a child) is a node of the working copy, and what is left of the
working copy is still private — for any number of `delRule` calls in a row. -/
theorem delRule_writes_only_the_working_copy (g : Nat) (pubs : List CowTrie.GNode) (latest : CowTrie.GNode)
    (rules : List (List CowTrie.Edge × Nat × Nat)) (name : Nat) (r : CowTrie.GNode × List Nat)
    (hfresh : ∀ P ∈ pubs, ∀ x ∈ CowTrie.gens P, x < g)
    (h : CowTrie.delRoute name (CowTrie.addRoutes g (CowTrie.clone g latest) rules).1 = some r) :
    (∀ w ∈ r.2, ∀ P ∈ pubs, w ∉ CowTrie.gens P) ∧ (∀ x ∈ CowTrie.gens r.1, x = g) := by
  have hp := working_trie_private g latest rules
  obtain ⟨h1, h2⟩ := CowTrie.delRoute_spec name _ r h
  constructor
  · intro w hw P hP hin
    have := hp w (h1 w hw)
    have := hfresh P hP w hin
    omega
  · intro x hx; exact hp x (h2 x hx)

/-- contrast (the seeded shallow variable copy): a rule through an existing variable writes a
node of the published trie. -/
theorem shallow_clone_writes_published :
    let pub : CowTrie.GNode := .mk 0 [] [(5, .mk 0 [] [] [] none)] [] none
    (CowTrie.addRoute 1 (CowTrie.cloneShallowVars 1 pub) [.var 5] 9 3).2 = [0] := by decide

/-- **no lost update, no torn state**: for every interleaving of any number of concurrent
writer calls, the published state is the sequential result of the calls stored so far (in
store order), at most one thread is between Lock and Unlock, and a thread that has loaded
works on the state that is still the published one. -/
theorem serializable (ch : Chooser) (ops : Nat → Op) (sched : List Nat) :
    let s := Writers.runSched Writers.canon ch (Writers.Sys.init ops) sched
    s.pub = run ch St.init s.log ∧
    (∀ i j, (s.ths i).held = true → (s.ths j).held = true → i = j) ∧
    (∀ i, (s.ths i).pc = 2 → (s.ths i).loc = s.pub) := by
  have h := Writers.sched_inv ch sched _ (Writers.inv_init ch ops)
  exact ⟨h.serial, h.mutex, h.loaded⟩

/-- **all together or not at all**: a step of any thread either leaves the published state
alone or replaces it with the complete result of one call — work in progress is never
published; a failing call (C11.failed_changes_nothing) therefore changes nothing. -/
theorem visible_atomically (ch : Chooser) (ops : Nat → Op) (sched : List Nat) (i : Nat) :
    let s := Writers.runSched Writers.canon ch (Writers.Sys.init ops) sched
    (Writers.stepTh Writers.canon ch s i).pub = s.pub ∨
    (Writers.stepTh Writers.canon ch s i).pub = (step ch s.pub (s.ths i).op).1 :=
  Writers.pub_atomic ch _ i (Writers.sched_inv ch sched _ (Writers.inv_init ch ops))

/-- contrast (the seeded lock move): with load and modify before Lock, two overlapping
registrations lose one: both stored, only one visible. -/
theorem unlocked_load_loses_update :
    let bad : List Writers.Stmt := [.load, .modify, .lock, .store, .unlock]
    let ops : Nat → Op := fun i => if i = 0 then .regService [⟨7, [70]⟩] else .regService [⟨8, [80]⟩]
    let s := Writers.runSched bad firstOf (Writers.Sys.init ops) [0, 0, 1, 1, 0, 0, 0, 1, 1, 1]
    s.log.length = 2 ∧ ((s.pub.handlers 7).length, (s.pub.handlers 8).length) = (0, 1) := by decide

end Larking.Props.C12

#print axioms Larking.Props.C12.translator_complete
#print axioms Larking.Props.C12.skeleton_unchanged
#print axioms Larking.Props.C12.writer_order
#print axioms Larking.Props.C12.one_load_each
#print axioms Larking.Props.C12.readers_listed
#print axioms Larking.Props.C12.published_lists_immutable
#print axioms Larking.Props.C12.lists_refine
#print axioms Larking.Props.C12.in_place_filter_corrupts
#print axioms Larking.Props.C12.published_trie_untouched
#print axioms Larking.Props.C12.working_trie_private
#print axioms Larking.Props.C12.shallow_clone_writes_published
#print axioms Larking.Props.C12.serializable
#print axioms Larking.Props.C12.visible_atomically
#print axioms Larking.Props.C12.unlocked_load_loses_update
#print axioms Larking.Props.C12.delRule_writes_only_the_working_copy
