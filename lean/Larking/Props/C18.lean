import Larking.Gen.Skel
import Larking.Gen.Missing
import Larking.Expected.C18
import Larking.Lemmas.Events
/-
  C18 — Interceptors and stats handlers see every RPC exactly once.
  `Events.serve` is what the three serving paths (HTTP transcoding, gRPC / gRPC-web,
  WebSocket) emit for a handler that performs an ARBITRARY script of stream operations and
  leaves in any of the three ways the code can leave.  Every simple statement and condition
  of the serving functions is part of the regenerated tie.
-/
namespace Larking.Props.C18
open Larking Larking.Events

theorem translator_complete : Gen.missing = [] := by decide

theorem skeleton_unchanged :
    (Gen.Skel.conds_Mux_serveHTTP,
     Gen.Skel.stmts_Mux_serveHTTP,
     Gen.Skel.conds_Mux_serveGRPC,
     Gen.Skel.stmts_Mux_serveGRPC,
     Gen.Skel.conds_streamHTTP_RecvMsg,
     Gen.Skel.stmts_streamHTTP_RecvMsg,
     Gen.Skel.conds_streamHTTP_SendMsg,
     Gen.Skel.stmts_streamHTTP_SendMsg,
     Gen.Skel.conds_streamHTTP_SendHeader,
     Gen.Skel.stmts_streamHTTP_SendHeader,
     Gen.Skel.conds_streamGRPC_RecvMsg,
     Gen.Skel.stmts_streamGRPC_RecvMsg,
     Gen.Skel.conds_streamGRPC_SendMsg,
     Gen.Skel.stmts_streamGRPC_SendMsg,
     Gen.Skel.conds_streamGRPC_SendHeader,
     Gen.Skel.stmts_streamGRPC_SendHeader,
     Gen.Skel.conds_streamWS_RecvMsg,
     Gen.Skel.stmts_streamWS_RecvMsg,
     Gen.Skel.conds_streamWS_SendMsg,
     Gen.Skel.stmts_streamWS_SendMsg,
     Gen.Skel.conds_muxOptions_unary,
     Gen.Skel.stmts_muxOptions_unary,
     Gen.Skel.conds_muxOptions_stream,
     Gen.Skel.stmts_muxOptions_stream,
     Gen.Skel.conds_Mux_registerService,
     Gen.Skel.stmts_Mux_registerService,
     Gen.Skel.conds_createConnHandler,
     Gen.Skel.stmts_createConnHandler,
     Gen.Skel.conds_inPayload,
     Gen.Skel.stmts_inPayload,
     Gen.Skel.conds_outPayload,
     Gen.Skel.stmts_outPayload)
  = (Expected.C18.conds_Mux_serveHTTP,
     Expected.C18.stmts_Mux_serveHTTP,
     Expected.C18.conds_Mux_serveGRPC,
     Expected.C18.stmts_Mux_serveGRPC,
     Expected.C18.conds_streamHTTP_RecvMsg,
     Expected.C18.stmts_streamHTTP_RecvMsg,
     Expected.C18.conds_streamHTTP_SendMsg,
     Expected.C18.stmts_streamHTTP_SendMsg,
     Expected.C18.conds_streamHTTP_SendHeader,
     Expected.C18.stmts_streamHTTP_SendHeader,
     Expected.C18.conds_streamGRPC_RecvMsg,
     Expected.C18.stmts_streamGRPC_RecvMsg,
     Expected.C18.conds_streamGRPC_SendMsg,
     Expected.C18.stmts_streamGRPC_SendMsg,
     Expected.C18.conds_streamGRPC_SendHeader,
     Expected.C18.stmts_streamGRPC_SendHeader,
     Expected.C18.conds_streamWS_RecvMsg,
     Expected.C18.stmts_streamWS_RecvMsg,
     Expected.C18.conds_streamWS_SendMsg,
     Expected.C18.stmts_streamWS_SendMsg,
     Expected.C18.conds_muxOptions_unary,
     Expected.C18.stmts_muxOptions_unary,
     Expected.C18.conds_muxOptions_stream,
     Expected.C18.stmts_muxOptions_stream,
     Expected.C18.conds_Mux_registerService,
     Expected.C18.stmts_Mux_registerService,
     Expected.C18.conds_createConnHandler,
     Expected.C18.stmts_createConnHandler,
     Expected.C18.conds_inPayload,
     Expected.C18.stmts_inPayload,
     Expected.C18.conds_outPayload,
     Expected.C18.stmts_outPayload) := rfl

/-- every handler is entered through exactly one nil-safe interceptor call: the two kinds of
local handlers (generated unary handler receiving `opts.unaryInterceptor`, `opts.stream`), the
two kinds of proxied handlers, and the two nil-safe wrappers themselves — nothing else in
the package invokes an interceptor. -/
theorem interceptor_sites : Gen.Skel.interceptorSites =
    [("Mux.registerService", "d.Handler(ss, ctx, stream.RecvMsg, opts.unaryInterceptor)"),
     ("Mux.registerService", "opts.stream(ss, stream, info, d.Handler)"),
     ("createConnHandler", "opts.stream(nil, stream, info, fn)"),
     ("createConnHandler", "opts.unary(ctx, args, info, fn)"),
     ("muxOptions.stream", "si(srv, ss, info, handler)"),
     ("muxOptions.unary", "ui(ctx, req, info, handler)")] := by decide

/-- the nil-safe wrappers: with an interceptor installed the call IS the interceptor's call
(once, and its result is the result); without, it is the handler's. -/
def nilSafe {Req Res : Type} (ic : Option (Req → (Req → Res) → Res)) (h : Req → Res) (r : Req) : Res :=
  match ic with
  | some f => f r h
  | none => h r
theorem interceptor_result_is_result {Req Res : Type} (f : Req → (Req → Res) → Res) (h : Req → Res) (r : Req) :
    nilSafe (some f) h r = f r h := rfl
theorem no_interceptor_is_handler {Req Res : Type} (h : Req → Res) (r : Req) : nilSafe none h r = h r := rfl

/-- **well-formed**: for every protocol, every handler script and every way of leaving, the
events are tag, in-header, begin, then only payload / out-header / out-trailer events, then
exactly one end — last — carrying the handler's error (or the early error). -/
theorem sequence_wellformed (p : Proto) (acts : List Act) (failed : Bool) (ex : Exit) :
    ∃ mid err, serve p acts failed ex = [.tag, .inHeader, .begin] ++ mid ++ [.fin err] ∧
      (∀ e ∈ mid, e = .inPayload ∨ e = .outHeader ∨ e = .outPayload ∨ e = .outTrailer) ∧
      (ex ≠ .beforeHandler → err = failed) := by
  have hops := ops_no_ctl p acts false
  have lift : ∀ e ∈ (ops p acts false).1, e = .inPayload ∨ e = .outHeader ∨ e = .outPayload ∨ e = .outTrailer := by
    intro e he; rcases hops e he with h | h | h <;> simp [h]
  cases ex with
  | beforeHandler => exact ⟨[], true, by simp [serve], by simp, by simp⟩
  | normal =>
    cases p with
    | ws => exact ⟨(ops .ws acts false).1, failed, by simp [serve], lift, fun _ => rfl⟩
    | http =>
      refine ⟨(ops .http acts false).1 ++ [.outTrailer], failed, by simp [serve], ?_, fun _ => rfl⟩
      intro e he; simp only [List.mem_append, List.mem_singleton] at he
      rcases he with he | he
      · exact lift e he
      · simp [he]
    | grpc =>
      cases hs : (ops .grpc acts false).2 with
      | true =>
        refine ⟨(ops .grpc acts false).1 ++ [.outTrailer], failed, by simp [serve, hs], ?_, fun _ => rfl⟩
        intro e he; simp only [List.mem_append, List.mem_singleton] at he
        rcases he with he | he
        · exact lift e he
        · simp [he]
      | false =>
        refine ⟨(ops .grpc acts false).1 ++ [.outHeader, .outTrailer], failed, by simp [serve, hs], ?_, fun _ => rfl⟩
        intro e he; simp only [List.mem_append, List.mem_cons, List.mem_singleton] at he
        rcases he with he | he | he
        · exact lift e he
        · simp [he]
        · simp at he; simp [he]
  | ctxDone =>
    cases p with
    | ws => exact ⟨(ops .ws acts false).1, failed, by simp [serve], lift, fun _ => rfl⟩
    | http =>
      refine ⟨(ops .http acts false).1 ++ [.outTrailer], failed, by simp [serve], ?_, fun _ => rfl⟩
      intro e he; simp only [List.mem_append, List.mem_singleton] at he
      rcases he with he | he
      · exact lift e he
      · simp [he]
    | grpc =>
      cases hs : (ops .grpc acts false).2 with
      | true =>
        refine ⟨(ops .grpc acts false).1 ++ [.outTrailer], failed, by simp [serve, hs], ?_, fun _ => rfl⟩
        intro e he; simp only [List.mem_append, List.mem_singleton] at he
        rcases he with he | he
        · exact lift e he
        · simp [he]
      | false =>
        exact ⟨(ops .grpc acts false).1, failed, by simp [serve, hs], lift, fun _ => rfl⟩

def count (e : Ev) (l : List Ev) : Nat := (l.filter (· == e)).length

/-- **one in-payload per received message, one out-payload per sent message**, whatever the
interleaving, on every protocol. -/
theorem payload_counts (p : Proto) (acts : List Act) (failed : Bool) (ex : Exit) (h : ex ≠ .beforeHandler) :
    count .inPayload (serve p acts failed ex) = (acts.filter (· == .recvOk)).length ∧
    count .outPayload (serve p acts failed ex) = (acts.filter (· == .sendOk)).length := by
  have hi := ops_in_count p acts false
  have ho := ops_out_count p acts false
  cases ex with
  | beforeHandler => exact absurd rfl h
  | normal =>
    cases p <;> simp only [serve, count] <;> (try split) <;> (try split) <;>
      simp [List.filter_append, List.filter_cons, hi, ho]
  | ctxDone =>
    cases p <;> simp only [serve, count] <;> (try split) <;> (try split) <;>
      simp [List.filter_append, List.filter_cons, hi, ho]

private theorem count_append (e : Ev) (a b : List Ev) : count e (a ++ b) = count e a + count e b := by
  simp [count, List.filter_append]

/-- the out-header is reported at most once per RPC. -/
theorem out_header_once (p : Proto) (acts : List Act) (failed : Bool) (ex : Exit) :
    count .outHeader (serve p acts failed ex) ≤ 1 := by
  have ⟨h1, h2⟩ := ops_header_count p acts
  have hc : ∀ l, cntH l = count .outHeader l := fun _ => rfl
  rw [hc] at h1 h2
  have hpre : count .outHeader [.tag, .inHeader, .begin] = 0 := rfl
  have ht1 : ∀ f, count .outHeader [.outTrailer, .fin f] = 0 := fun _ => rfl
  have ht2 : ∀ f, count .outHeader [.fin f] = 0 := fun _ => rfl
  have ht3 : ∀ f, count .outHeader [.outHeader, .outTrailer, .fin f] = 1 := fun _ => rfl
  cases ex with
  | beforeHandler => simp only [serve, count_append, hpre, ht2]; omega
  | normal =>
    cases p with
    | ws => simp only [serve, count_append, hpre, ht2]; omega
    | http => simp only [serve, count_append, hpre, ht1]; omega
    | grpc =>
      cases hs : (ops .grpc acts false).2 with
      | true => simp only [serve, hs, if_true, count_append, hpre, ht1]; omega
      | false =>
        have := h2 hs
        simp only [serve, hs, Bool.false_eq_true, if_false, count_append, hpre,
          show (Exit.normal == Exit.ctxDone) = false from rfl]
        rw [ht3 failed, this]; omega
  | ctxDone =>
    cases p with
    | ws => simp only [serve, count_append, hpre, ht2]; omega
    | http => simp only [serve, count_append, hpre, ht1]; omega
    | grpc =>
      cases hs : (ops .grpc acts false).2 with
      | true => simp only [serve, hs, if_true, count_append, hpre, ht1]; omega
      | false =>
        have := h2 hs
        simp only [serve, hs, Bool.false_eq_true, if_false, count_append, hpre,
          show (Exit.ctxDone == Exit.ctxDone) = true from rfl, if_true]
        rw [ht2 failed, this]; omega

-- non-vacuity: a bidi handler over gRPC that fails after two echoes
example : serve .grpc [.recvOk, .sendOk, .recvOk, .sendOk] true .normal =
    [.tag, .inHeader, .begin, .inPayload, .outHeader, .outPayload, .inPayload, .outPayload, .outTrailer, .fin true] := by decide
example : serve .http [.recvOk] true .normal = [.tag, .inHeader, .begin, .inPayload, .outTrailer, .fin true] := by decide
example : serve .grpc [.recvOk] true .ctxDone = [.tag, .inHeader, .begin, .inPayload, .fin true] := by decide

end Larking.Props.C18

#print axioms Larking.Props.C18.translator_complete
#print axioms Larking.Props.C18.skeleton_unchanged
#print axioms Larking.Props.C18.interceptor_sites
#print axioms Larking.Props.C18.interceptor_result_is_result
#print axioms Larking.Props.C18.no_interceptor_is_handler
#print axioms Larking.Props.C18.sequence_wellformed
#print axioms Larking.Props.C18.payload_counts
#print axioms Larking.Props.C18.out_header_once
