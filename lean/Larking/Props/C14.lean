import Larking.Gen.Grpc
import Larking.Gen.Missing
import Larking.Spec.Grpc
import Larking.Lemmas.Metadata
import Larking.Lemmas.WebWriter
import Larking.Gen.Skel
import Larking.Expected.C14
/-
  C14 — Metadata fidelity between HTTP headers and gRPC metadata.
-/
namespace Larking.Props.C14
open Larking Larking.Metadata

def reserved := Gen.reservedHeaders
def whitelisted := Gen.whitelistedHeaders
def incomingMD (hdr : MD) : MD := incoming reserved whitelisted Gen.binPaddedWhenMul4 hdr
def outgoingHdr (md : MD) : MD := outgoing reserved md

theorem translator_complete : Gen.missing = [] := by decide

/-- the functions the metadata and gRPC-web trailer models were written against. -/
theorem skeleton_unchanged :
    (Gen.Skel.conds_webWriter_seeHeaders,
     Gen.Skel.stmts_webWriter_seeHeaders,
     Gen.Skel.conds_webWriter_writeTrailer,
     Gen.Skel.stmts_webWriter_writeTrailer,
     Gen.Skel.conds_webWriter_flushWithTrailer,
     Gen.Skel.stmts_webWriter_flushWithTrailer,
     Gen.Skel.conds_webWriter_Write,
     Gen.Skel.stmts_webWriter_Write,
     Gen.Skel.conds_webWriter_WriteHeader,
     Gen.Skel.stmts_webWriter_WriteHeader,
     Gen.Skel.conds_webWriter_Flush,
     Gen.Skel.stmts_webWriter_Flush,
     Gen.Skel.conds_newWebWriter,
     Gen.Skel.stmts_newWebWriter,
     Gen.Skel.conds_setOutgoingHeader,
     Gen.Skel.stmts_setOutgoingHeader,
     Gen.Skel.conds_setOutgoingTrailer,
     Gen.Skel.stmts_setOutgoingTrailer,
     Gen.Skel.conds_newIncomingContext,
     Gen.Skel.stmts_newIncomingContext,
     Gen.Skel.conds_decodeBinHeader,
     Gen.Skel.stmts_decodeBinHeader,
     Gen.Skel.conds_AsHTTPBodyWriter,
     Gen.Skel.stmts_AsHTTPBodyWriter)
  = (Expected.C14.conds_webWriter_seeHeaders,
     Expected.C14.stmts_webWriter_seeHeaders,
     Expected.C14.conds_webWriter_writeTrailer,
     Expected.C14.stmts_webWriter_writeTrailer,
     Expected.C14.conds_webWriter_flushWithTrailer,
     Expected.C14.stmts_webWriter_flushWithTrailer,
     Expected.C14.conds_webWriter_Write,
     Expected.C14.stmts_webWriter_Write,
     Expected.C14.conds_webWriter_WriteHeader,
     Expected.C14.stmts_webWriter_WriteHeader,
     Expected.C14.conds_webWriter_Flush,
     Expected.C14.stmts_webWriter_Flush,
     Expected.C14.conds_newWebWriter,
     Expected.C14.stmts_newWebWriter,
     Expected.C14.conds_setOutgoingHeader,
     Expected.C14.stmts_setOutgoingHeader,
     Expected.C14.conds_setOutgoingTrailer,
     Expected.C14.stmts_setOutgoingTrailer,
     Expected.C14.conds_newIncomingContext,
     Expected.C14.stmts_newIncomingContext,
     Expected.C14.conds_decodeBinHeader,
     Expected.C14.stmts_decodeBinHeader,
     Expected.C14.conds_AsHTTPBodyWriter,
     Expected.C14.stmts_AsHTTPBodyWriter) := rfl

/-- '-bin' request values are decoded whether or not they are padded, for every byte string. -/
theorem bin_accepts_padded_and_raw (b : Bytes) :
    decodeBin Gen.binPaddedWhenMul4 (Base64.encode false true b) = some b ∧
    decodeBin Gen.binPaddedWhenMul4 (Base64.encode false false b) = some b :=
  ⟨decodeBin_padded b, decodeBin_raw b⟩

/-- response '-bin' values are byte-exact: what a client decodes is what the handler set. -/
theorem outgoing_bin_exact (b : Bytes) :
    decodeBin Gen.binPaddedWhenMul4 (encodeBin b) = some b := decodeBin_raw b

/-- every custom request header (not protocol-reserved, or whitelisted) reaches the handler
under its lower-cased key with all values in order; '-bin' values are decoded. -/
theorem incoming_custom (hdr : MD) (kv : Bytes × List Bytes) (hkv : kv ∈ hdr)
    (hcustom : reserved.contains (lower kv.1) = false ∨ whitelisted.contains (lower kv.1) = true) :
    (lower kv.1,
      if hasBinSuffix (lower kv.1)
      then kv.2.map (fun v => (decodeBin Gen.binPaddedWhenMul4 v).getD [])
      else kv.2) ∈ incomingMD hdr := by
  simp only [incomingMD, incoming, List.mem_filterMap]
  refine ⟨kv, hkv, ?_⟩
  unfold incomingEntry
  have : (reserved.contains (lower kv.1) && !whitelisted.contains (lower kv.1)) = false := by
    rcases hcustom with h | h
    · rw [h]; rfl
    · rw [h]; simp
  simp only [this, Bool.false_eq_true, if_false]
  cases hb : hasBinSuffix (lower kv.1) <;> simp

/-- … and a '-bin' header whose values are base64 (padded or not) of `bs` is seen as `bs`. -/
theorem incoming_bin_values (bs : List Bytes) (pads : List Bool) (hl : pads.length = bs.length) :
    (List.zipWith (fun b p => Base64.encode false p b) bs pads).map
      (fun v => (decodeBin Gen.binPaddedWhenMul4 v).getD []) = bs := by
  induction bs generalizing pads with
  | nil => simp
  | cons b bs ih =>
    cases pads with
    | nil => simp at hl
    | cons p ps =>
      simp only [List.zipWith_cons_cons, List.map_cons, List.length_cons, Nat.add_right_cancel_iff] at hl ⊢
      rw [ih ps hl]
      cases p
      · rw [show decodeBin Gen.binPaddedWhenMul4 (Base64.encode false false b) = some b from decodeBin_raw b]; rfl
      · rw [show decodeBin Gen.binPaddedWhenMul4 (Base64.encode false true b) = some b from decodeBin_padded b]; rfl

/-- the code's reserved list covers the protocol's own keys (written from the gRPC spec). -/
theorem reserved_covers_protocol :
    ∀ k ∈ Spec.protocolKeys, (reserved.map bytesStr).contains k = true := by decide

/-- handler metadata (lower-case keys) can never write a protocol-reserved response key. -/
theorem reserved_not_forged (md : MD) (e : Bytes × List Bytes) (he : e ∈ outgoingHdr md)
    (hlow : ∀ kv ∈ md, lower kv.1 = kv.1) : reserved.contains (lower e.1) = false := by
  obtain ⟨kv, hkv, hr, hk, _⟩ := mem_outgoing reserved md e he
  rw [hk, lower_canonical, hlow kv hkv]; exact hr

/-- every non-reserved handler key is written, under its canonical header name, with its
values in order ('-bin' values base64-encoded). -/
theorem handler_headers_written (md : MD) (kv : Bytes × List Bytes) (hkv : kv ∈ md)
    (hr : reserved.contains kv.1 = false) :
    (canonical kv.1, if hasBinSuffix kv.1 then kv.2.map encodeBin else kv.2) ∈ outgoingHdr md :=
  outgoing_complete reserved md kv hkv hr

/-- gRPC: handler trailers set after the header flush reach the client (net/http's trailer
rule is the stated parameter `deliveredTrailers`). -/
theorem handler_trailers_reach_client (announced : List Bytes) (trailer : MD) :
    deliveredTrailers announced (grpcTrailerEntries reserved Gen.grpcTrailersPrefixed trailer)
      = outgoingHdr trailer := by
  have : Gen.grpcTrailersPrefixed = true := rfl
  simp only [grpcTrailerEntries, this, if_true, outgoingHdr]
  exact delivered_prefixed announced _

/-! ### gRPC-web: the trailer frame (`webWriter`) -/

/-- after any sequence of header assignments, deletions, `Write` and `WriteHeader` calls, no
trailer key (`Trailer:` prefix) is ever counted among the headers already seen. -/
theorem web_trailer_keys_never_seen (ct : Bytes) (ops : List Web.Op) :
    ∀ k ∈ (Web.run ct ops).seen, trailerPrefix.isPrefixOf k = false :=
  Web.run_ok ct ops

/-- gRPC-web: a trailer the handler set (published by `serveGRPC` under `Trailer:`+name) is in
the trailer frame under its lower-cased name with all its values — whatever was assigned,
seen or written before, **including a header of the same name that already went out**, and
for every order in which Go ranges over the header map — provided no other unseen entry
maps to the same trailer name. -/
theorem web_trailers_reach_client (ct : Bytes) (ops : List Web.Op) (k0 : Bytes) (vs : List Bytes)
    (hmem : (trailerPrefix ++ k0, vs) ∈ (Web.run ct ops).hdr)
    (huniq : ∀ kv' ∈ (Web.run ct ops).hdr, (Web.run ct ops).seen.contains kv'.1 = false →
      Web.trailerKey kv'.1 = lower k0 → kv' = (trailerPrefix ++ k0, vs)) :
    Web.lookup (Web.trailerMap (Web.run ct ops)) (lower k0) = some vs := by
  have ht : trailerPrefix.isPrefixOf (trailerPrefix ++ k0) = true :=
    List.isPrefixOf_iff_prefix.mpr (List.prefix_append _ _)
  have hk : Web.trailerKey (trailerPrefix ++ k0) = lower k0 := by
    unfold Web.trailerKey
    rw [if_pos ht, List.drop_left]
  have hunseen : (Web.run ct ops).seen.contains (trailerPrefix ++ k0) = false := by
    cases hc : (Web.run ct ops).seen.contains (trailerPrefix ++ k0) with
    | false => rfl
    | true =>
      have hm : (trailerPrefix ++ k0) ∈ (Web.run ct ops).seen := by simpa using hc
      have := Web.run_ok ct ops _ hm
      rw [ht] at this; cases this
  have := Web.trailerMapOf_lookup (Web.run ct ops).seen (Web.run ct ops).hdr (trailerPrefix ++ k0, vs)
    hmem hunseen (by intro kv' h1 h2 h3; exact huniq kv' h1 h2 (by rw [h3, hk]))
  rw [hk] at this
  exact this

/-- nothing is invented: every entry of the trailer frame is an unseen header entry. -/
theorem web_trailers_not_invented (w : Web.W) (k : Bytes) (vs : List Bytes)
    (h : Web.lookup (Web.trailerMap w) k = some vs) :
    ∃ kv ∈ w.hdr, w.seen.contains kv.1 = false ∧ Web.trailerKey kv.1 = k ∧ kv.2 = vs :=
  Web.trailerMapOf_sound w.seen w.hdr k vs h

/-- contrast (seeded change C14-m4): looking `seen` up under the trimmed key loses a trailer
that shares its name with a header already sent. -/
theorem trim_first_loses_same_key_trailer :
    -- header "X-A" already sent; trailer "Trailer:X-A"
    Web.lookup (Web.trailerMapTrimFirst [[88, 45, 65]] [([88, 45, 65], [[1]]), (trailerPrefix ++ [88, 45, 65], [[2]])])
      [120, 45, 97] = none ∧
    Web.lookup (Web.trailerMapOf [[88, 45, 65]] [([88, 45, 65], [[1]]), (trailerPrefix ++ [88, 45, 65], [[2]])])
      [120, 45, 97] = some [[2]] := by decide

-- non-vacuity
example : incomingMD [([88, 45, 65], [[97]]), ([84, 69], [[98]])] = [([120, 45, 97], [[97]])] := by decide
example : outgoingHdr [([120, 45, 98, 105, 110], [[1]]), ([116, 101], [[97]])]
    = [([88, 45, 66, 105, 110], [[65, 81]])] := by decide

example : Web.trailerMap (Web.run [97]
    [.set [88, 45, 65] [[49]], .write, .set (trailerPrefix ++ [88, 45, 65]) [[50]], .set (trailerPrefix ++ [71, 45, 83]) [[48]]])
    = [([120, 45, 97], [[50]]), ([103, 45, 115], [[48]])] := by decide

end Larking.Props.C14

#print axioms Larking.Props.C14.translator_complete
#print axioms Larking.Props.C14.skeleton_unchanged
#print axioms Larking.Props.C14.web_trailer_keys_never_seen
#print axioms Larking.Props.C14.web_trailers_reach_client
#print axioms Larking.Props.C14.web_trailers_not_invented
#print axioms Larking.Props.C14.trim_first_loses_same_key_trailer
#print axioms Larking.Props.C14.bin_accepts_padded_and_raw
#print axioms Larking.Props.C14.outgoing_bin_exact
#print axioms Larking.Props.C14.incoming_custom
#print axioms Larking.Props.C14.incoming_bin_values
#print axioms Larking.Props.C14.reserved_covers_protocol
#print axioms Larking.Props.C14.reserved_not_forged
#print axioms Larking.Props.C14.handler_headers_written
#print axioms Larking.Props.C14.handler_trailers_reach_client
