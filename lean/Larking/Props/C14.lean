import Larking.Gen.Grpc
import Larking.Gen.Missing
import Larking.Spec.Grpc
import Larking.Lemmas.Metadata
/-
  C14 — Metadata fidelity between HTTP headers and gRPC metadata.
-/
namespace Larking.Props.C14
open Larking Larking.Metadata

def reserved := Gen.reservedHeaders
def whitelisted := Gen.whitelistedHeaders
def incomingMD (hdr : MD) : MD := incoming reserved whitelisted Gen.binPaddedWhenMul4 hdr
def outgoingHdr (md : MD) : MD := outgoing reserved md

theorem translator_complete : Gen.missing = [] := by decide

/-- '-bin' request values are decoded whether or not they are padded, for every byte string. -/
theorem bin_accepts_padded_and_raw (b : Bytes) :
    decodeBin Gen.binPaddedWhenMul4 (Base64.encode false true b) = some b ∧
    decodeBin Gen.binPaddedWhenMul4 (Base64.encode false false b) = some b :=
  ⟨decodeBin_padded b, decodeBin_raw b⟩

/-- response '-bin' values are byte-exact: what a client decodes is what the handler set. -/
theorem outgoing_bin_exact (b : Bytes) :
    decodeBin Gen.binPaddedWhenMul4 (encodeBin b) = some b := decodeBin_raw b

/-- every custom request header (not protocol-reserved, or whitelisted) reaches the handler
under its lower-cased key with all values in order; '-bin' values are decoded. -/
theorem incoming_custom (hdr : MD) (kv : Bytes × List Bytes) (hkv : kv ∈ hdr)
    (hcustom : reserved.contains (lower kv.1) = false ∨ whitelisted.contains (lower kv.1) = true) :
    (lower kv.1,
      if hasBinSuffix (lower kv.1)
      then kv.2.map (fun v => (decodeBin Gen.binPaddedWhenMul4 v).getD [])
      else kv.2) ∈ incomingMD hdr := by
  simp only [incomingMD, incoming, List.mem_filterMap]
  refine ⟨kv, hkv, ?_⟩
  unfold incomingEntry
  have : (reserved.contains (lower kv.1) && !whitelisted.contains (lower kv.1)) = false := by
    rcases hcustom with h | h
    · rw [h]; rfl
    · rw [h]; simp
  simp only [this, Bool.false_eq_true, if_false]
  cases hb : hasBinSuffix (lower kv.1) <;> simp

/-- … and a '-bin' header whose values are base64 (padded or not) of `bs` is seen as `bs`. -/
theorem incoming_bin_values (bs : List Bytes) (pads : List Bool) (hl : pads.length = bs.length) :
    (List.zipWith (fun b p => Base64.encode false p b) bs pads).map
      (fun v => (decodeBin Gen.binPaddedWhenMul4 v).getD []) = bs := by
  induction bs generalizing pads with
  | nil => simp
  | cons b bs ih =>
    cases pads with
    | nil => simp at hl
    | cons p ps =>
      simp only [List.zipWith_cons_cons, List.map_cons, List.length_cons, Nat.add_right_cancel_iff] at hl ⊢
      rw [ih ps hl]
      cases p
      · rw [show decodeBin Gen.binPaddedWhenMul4 (Base64.encode false false b) = some b from decodeBin_raw b]; rfl
      · rw [show decodeBin Gen.binPaddedWhenMul4 (Base64.encode false true b) = some b from decodeBin_padded b]; rfl

/-- the code's reserved list covers the protocol's own keys (written from the gRPC spec). -/
theorem reserved_covers_protocol :
    ∀ k ∈ Spec.protocolKeys, (reserved.map bytesStr).contains k = true := by decide

/-- handler metadata (lower-case keys) can never write a protocol-reserved response key. -/
theorem reserved_not_forged (md : MD) (e : Bytes × List Bytes) (he : e ∈ outgoingHdr md)
    (hlow : ∀ kv ∈ md, lower kv.1 = kv.1) : reserved.contains (lower e.1) = false := by
  obtain ⟨kv, hkv, hr, hk, _⟩ := mem_outgoing reserved md e he
  rw [hk, lower_canonical, hlow kv hkv]; exact hr

/-- every non-reserved handler key is written, under its canonical header name, with its
values in order ('-bin' values base64-encoded). -/
theorem handler_headers_written (md : MD) (kv : Bytes × List Bytes) (hkv : kv ∈ md)
    (hr : reserved.contains kv.1 = false) :
    (canonical kv.1, if hasBinSuffix kv.1 then kv.2.map encodeBin else kv.2) ∈ outgoingHdr md :=
  outgoing_complete reserved md kv hkv hr

/-- gRPC: handler trailers set after the header flush reach the client (net/http's trailer
rule is the stated parameter `deliveredTrailers`). -/
theorem handler_trailers_reach_client (announced : List Bytes) (trailer : MD) :
    deliveredTrailers announced (grpcTrailerEntries reserved Gen.grpcTrailersPrefixed trailer)
      = outgoingHdr trailer := by
  have : Gen.grpcTrailersPrefixed = true := rfl
  simp only [grpcTrailerEntries, this, if_true, outgoingHdr]
  exact delivered_prefixed announced _

-- non-vacuity
example : incomingMD [([88, 45, 65], [[97]]), ([84, 69], [[98]])] = [([120, 45, 97], [[97]])] := by decide
example : outgoingHdr [([120, 45, 98, 105, 110], [[1]]), ([116, 101], [[97]])]
    = [([88, 45, 66, 105, 110], [[65, 81]])] := by decide

end Larking.Props.C14

#print axioms Larking.Props.C14.translator_complete
#print axioms Larking.Props.C14.bin_accepts_padded_and_raw
#print axioms Larking.Props.C14.outgoing_bin_exact
#print axioms Larking.Props.C14.incoming_custom
#print axioms Larking.Props.C14.incoming_bin_values
#print axioms Larking.Props.C14.reserved_covers_protocol
#print axioms Larking.Props.C14.reserved_not_forged
#print axioms Larking.Props.C14.handler_headers_written
#print axioms Larking.Props.C14.handler_trailers_reach_client
