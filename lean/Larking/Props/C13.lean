import Larking.Gen.Skel
import Larking.Gen.Pool
import Larking.Gen.Missing
import Larking.Expected.C13
import Larking.Lemmas.Pool
import Larking.Lemmas.Lifecycle
/-
  C13 — Concurrent requests are isolated.  sync.Pool is a shared bag whose Get returns ANY
  free object with whatever content it was left with; requests interleave at event
  granularity in every order.  What each function does with its pooled objects along every
  execution path is enumerated from the AST on every run (`Gen.Pool.all`) and the discipline
  is decided by the kernel; the isolation theorem is for all disciplined programs.
-/
namespace Larking.Props.C13
open Larking Larking.Pool

theorem translator_complete : Gen.missing = [] := by decide

theorem skeleton_unchanged :
    (Gen.Skel.conds_streamGRPC_RecvMsg,
     Gen.Skel.stmts_streamGRPC_RecvMsg,
     Gen.Skel.conds_streamGRPC_SendMsg,
     Gen.Skel.stmts_streamGRPC_SendMsg,
     Gen.Skel.conds_streamHTTP_readMsg,
     Gen.Skel.stmts_streamHTTP_readMsg,
     Gen.Skel.conds_streamHTTP_decodeRequestArgs,
     Gen.Skel.stmts_streamHTTP_decodeRequestArgs,
     Gen.Skel.conds_streamHTTP_SendMsg,
     Gen.Skel.stmts_streamHTTP_SendMsg,
     Gen.Skel.conds_gzipReader_Read,
     Gen.Skel.stmts_gzipReader_Read,
     Gen.Skel.conds_gzipWriter_Close,
     Gen.Skel.stmts_gzipWriter_Close,
     Gen.Skel.conds_CompressorGzip_Compress,
     Gen.Skel.stmts_CompressorGzip_Compress,
     Gen.Skel.conds_CompressorGzip_Decompress,
     Gen.Skel.stmts_CompressorGzip_Decompress,
     Gen.Skel.conds_streamGRPC_compress,
     Gen.Skel.stmts_streamGRPC_compress,
     Gen.Skel.conds_streamGRPC_decompress,
     Gen.Skel.stmts_streamGRPC_decompress,
     Gen.Skel.conds_createConnHandler,
     Gen.Skel.stmts_createConnHandler,
     Gen.Skel.conds_streamGRPC_begin,
     Gen.Skel.stmts_streamGRPC_begin,
     Gen.Skel.conds_streamGRPC_close,
     Gen.Skel.stmts_streamGRPC_close,
     Gen.Skel.conds_streamGRPC_SendHeader,
     Gen.Skel.stmts_streamGRPC_SendHeader,
     Gen.Skel.conds_streamGRPC_isDone,
     Gen.Skel.stmts_streamGRPC_isDone,
     Gen.Skel.conds_Mux_serveGRPC,
     Gen.Skel.stmts_Mux_serveGRPC,
     Gen.Skel.conds_webWriter_writeTrailer,
     Gen.Skel.stmts_webWriter_writeTrailer)
  = (Expected.C13.conds_streamGRPC_RecvMsg,
     Expected.C13.stmts_streamGRPC_RecvMsg,
     Expected.C13.conds_streamGRPC_SendMsg,
     Expected.C13.stmts_streamGRPC_SendMsg,
     Expected.C13.conds_streamHTTP_readMsg,
     Expected.C13.stmts_streamHTTP_readMsg,
     Expected.C13.conds_streamHTTP_decodeRequestArgs,
     Expected.C13.stmts_streamHTTP_decodeRequestArgs,
     Expected.C13.conds_streamHTTP_SendMsg,
     Expected.C13.stmts_streamHTTP_SendMsg,
     Expected.C13.conds_gzipReader_Read,
     Expected.C13.stmts_gzipReader_Read,
     Expected.C13.conds_gzipWriter_Close,
     Expected.C13.stmts_gzipWriter_Close,
     Expected.C13.conds_CompressorGzip_Compress,
     Expected.C13.stmts_CompressorGzip_Compress,
     Expected.C13.conds_CompressorGzip_Decompress,
     Expected.C13.stmts_CompressorGzip_Decompress,
     Expected.C13.conds_streamGRPC_compress,
     Expected.C13.stmts_streamGRPC_compress,
     Expected.C13.conds_streamGRPC_decompress,
     Expected.C13.stmts_streamGRPC_decompress,
     Expected.C13.conds_createConnHandler,
     Expected.C13.stmts_createConnHandler,
     Expected.C13.conds_streamGRPC_begin,
     Expected.C13.stmts_streamGRPC_begin,
     Expected.C13.conds_streamGRPC_close,
     Expected.C13.stmts_streamGRPC_close,
     Expected.C13.conds_streamGRPC_SendHeader,
     Expected.C13.stmts_streamGRPC_SendHeader,
     Expected.C13.conds_streamGRPC_isDone,
     Expected.C13.stmts_streamGRPC_isDone,
     Expected.C13.conds_Mux_serveGRPC,
     Expected.C13.stmts_Mux_serveGRPC,
     Expected.C13.conds_webWriter_writeTrailer,
     Expected.C13.stmts_webWriter_writeTrailer) := rfl

def zero : Nat → Nat := fun _ => 0

/-- **every path of every function that touches a pool is disciplined**: the object is
reset before its content is used, used only between Get and the single Put (or abandoned),
never Put twice, never referenced from a longer-lived place when it is Put — and every
path ends holding nothing. -/
theorem all_paths_disciplined :
    ∀ f ∈ Gen.Pool.all, ∀ p ∈ f.2, disc p zero = true ∧ final p zero 0 = 0 ∧ final p zero 1 = 0 := by decide

theorem functions_covered : Gen.Pool.all.map (·.1) =
    ["streamGRPC.SendMsg", "streamGRPC.RecvMsg", "streamHTTP.SendMsg", "streamHTTP.decodeRequestArgs",
     "streamHTTP.readMsg"] := by decide

/-- the proxy handler reads the pump's `inErr` only after `wg.Wait()`. -/
theorem proxy_fence : Gen.Pool.proxyFence = ["go", "wait", "inErr"] := by decide

/-- **isolation**: let every request run any sequence of disciplined paths, let the requests
interleave in any order and let the pool hand out any free object at every Get: every use of
a pooled object by a request sees exactly what that same request last wrote into it — never
another request's bytes. -/
theorem isolation (seqs : Nat → List (List Ev))
    (hd : ∀ i, ∀ p ∈ seqs i, disc p zero = true ∧ final p zero = zero)
    (sched : List (Nat × Nat)) (i : Nat) :
    ∀ r ∈ (run (Sys.init fun j => (seqs j).flatten) sched).log i, r.2 = some r.1 :=
  (run_inv sched _ (inv_init _ (fun j => disc_flatten (seqs j) zero (hd j)))).reads i

/-- exclusive ownership at every moment: no pooled object is held by two requests, and a
held object is not in the pool. -/
theorem exclusive_ownership (seqs : Nat → List (List Ev))
    (hd : ∀ i, ∀ p ∈ seqs i, disc p zero = true ∧ final p zero = zero)
    (sched : List (Nat × Nat)) :
    let s := run (Sys.init fun j => (seqs j).flatten) sched
    (∀ i k j k' o, s.slot i k = some o → s.slot j k' = some o → i = j ∧ k = k') ∧
    (∀ i k o, s.slot i k = some o → s.free o = false) := by
  have h := run_inv sched _ (inv_init _ (fun j => disc_flatten (seqs j) zero (hd j)))
  exact ⟨h.excl, fun i k o hs => (h.alloc i k o hs).2⟩

/-- the pooled gzip reader: whatever Reads follow — any number of them after io.EOF — it is
used only while held and goes back to the pool at most once. -/
theorem gzip_reader_returned_once (eofs : List Bool) :
    disc (.get 0 :: .write 0 0 :: gzReads true eofs) zero = true := by
  have h := gz_disciplined eofs (Registry.put (Registry.put zero 0 1) 0 2) (by simp [Registry.put])
  simp only [disc, h, Bool.and_true]
  simp [zero, Registry.put]

/-- contrast (seeded): Put on the error path plus a deferred Put is rejected … -/
theorem double_put_rejected : disc [.get 0, .write 0 0, .read 0, .put 0, .put 0] zero = false := by decide
/-- … and an object that is in the pool while still referenced really is shared: request 0
reads request 1's bytes. -/
theorem early_put_leaks :
    let progs : Nat → List Ev := fun i =>
      if i = 0 then [.get 0, .write 0 7, .putKeep 0, .read 0] else [.get 0, .write 0 9]
    ((run (Sys.init progs) [(0, 0), (0, 0), (0, 0), (1, 0), (1, 0), (0, 0)]).log 0) = [(9, some 7)] := by decide
/-- contrast (seeded): keeping an alias of the pooled buffer across the Put. -/
theorem alias_after_put_rejected : disc [.get 0, .write 0 0, .read 0, .putKeep 0] zero = false := by decide

/-! ### stream calls and the end of the RPC (`streamGRPC.begin` / `close`) -/

/-- **No stream call outlives the RPC.** For every interleaving of stream calls beginning and
returning (from the handler's goroutine or from goroutines it left behind, e.g. the
RegisterConn forwarder's upload pump when the backend fails first) with the two halves of
`close()`: once `close()` has returned — `serveGRPC` is about to give the ResponseWriter
and the request body back — no call is in flight, and it stays so. -/
theorem no_stream_call_after_close (steps more : List Lifecycle.Step) :
    let s := Lifecycle.run true steps Lifecycle.init
    s.waited = true → (Lifecycle.run true more s).count = 0 ∧ (Lifecycle.run true more s).waited = true := by
  intro s hw
  have hinv : Lifecycle.Inv (Lifecycle.run true more s) :=
    Lifecycle.run_inv more s (Lifecycle.run_inv steps Lifecycle.init (by intro h; cases h))
  have hw' : (Lifecycle.run true more s).waited = true := Lifecycle.run_waited_stays true more s hw
  exact ⟨(hinv hw').2, hw'⟩

/-- contrast (the code before the repair, a bare `wg.Add(1)`): a call can begin after `Wait`
has returned — the WaitGroup misuse the race detector reported. -/
theorem bare_add_can_follow_wait :
    (Lifecycle.run false [.mark, .wait, .begin] Lifecycle.init).waited = true ∧
    (Lifecycle.run false [.mark, .wait, .begin] Lifecycle.init).count = 1 := by decide

example : Lifecycle.run true [.begin, .mark, .begin, .wait, .done, .wait, .begin] Lifecycle.init
    = ⟨true, 0, true, 2⟩ := by decide

end Larking.Props.C13

#print axioms Larking.Props.C13.translator_complete
#print axioms Larking.Props.C13.skeleton_unchanged
#print axioms Larking.Props.C13.all_paths_disciplined
#print axioms Larking.Props.C13.functions_covered
#print axioms Larking.Props.C13.proxy_fence
#print axioms Larking.Props.C13.isolation
#print axioms Larking.Props.C13.exclusive_ownership
#print axioms Larking.Props.C13.gzip_reader_returned_once
#print axioms Larking.Props.C13.double_put_rejected
#print axioms Larking.Props.C13.early_put_leaks
#print axioms Larking.Props.C13.alias_after_put_rejected
#print axioms Larking.Props.C13.no_stream_call_after_close
#print axioms Larking.Props.C13.bare_add_can_follow_wait
