import Larking.Gen.Skel
import Larking.Gen.Missing
import Larking.Expected.C17
import Larking.Lemmas.JsonBody
/-
  C17 — Stream codec framing is fragmentation-invariant and limit-safe.
  `Env` holds everything the environment chooses: how the reader splits the bytes, whether
  io.EOF comes with the last data, how slices grow; `Buf` is the look-ahead carried into the
  call with any spare capacity.  Every theorem is for all `Env` and `Buf`.
-/
namespace Larking.Props.C17
open Larking Larking.Codec

theorem translator_complete : Gen.missing = [] := by decide

/-- the control skeletons of the modelled functions are the ones the model was written
against (regenerated from /repo on every run). -/
theorem skeleton_unchanged :
    (Gen.Skel.conds_CodecProto_ReadNext,
     Gen.Skel.stmts_CodecProto_ReadNext,
     Gen.Skel.conds_CodecProto_WriteNext,
     Gen.Skel.stmts_CodecProto_WriteNext,
     Gen.Skel.conds_CodecJSON_ReadNext,
     Gen.Skel.stmts_CodecJSON_ReadNext,
     Gen.Skel.conds_CodecJSON_WriteNext,
     Gen.Skel.stmts_CodecJSON_WriteNext,
     Gen.Skel.conds_codecHTTPBody_ReadNext,
     Gen.Skel.stmts_codecHTTPBody_ReadNext,
     Gen.Skel.conds_growcap,
     Gen.Skel.stmts_growcap,
     Gen.Skel.conds_muxOptions_readAll,
     Gen.Skel.stmts_muxOptions_readAll,
     Gen.Skel.conds_streamHTTP_readMsg,
     Gen.Skel.stmts_streamHTTP_readMsg)
  = (Expected.C17.conds_CodecProto_ReadNext,
     Expected.C17.stmts_CodecProto_ReadNext,
     Expected.C17.conds_CodecProto_WriteNext,
     Expected.C17.stmts_CodecProto_WriteNext,
     Expected.C17.conds_CodecJSON_ReadNext,
     Expected.C17.stmts_CodecJSON_ReadNext,
     Expected.C17.conds_CodecJSON_WriteNext,
     Expected.C17.stmts_CodecJSON_WriteNext,
     Expected.C17.conds_codecHTTPBody_ReadNext,
     Expected.C17.stmts_codecHTTPBody_ReadNext,
     Expected.C17.conds_growcap,
     Expected.C17.stmts_growcap,
     Expected.C17.conds_muxOptions_readAll,
     Expected.C17.stmts_muxOptions_readAll,
     Expected.C17.conds_streamHTTP_readMsg,
     Expected.C17.stmts_streamHTTP_readMsg) := rfl

/-- CodecProto frame law: the message written is the message read, the bytes after the
reported length plus the unread bytes are exactly the remainder. -/
theorem readNext_frame_proto (e : Env) (b : Buf) (limit : Nat) (m rest : Bytes)
    (hW : b.data ++ e.data = protoWriteNext m ++ rest)
    (hlim : m.length ≤ limit) (hint : m.length ≤ maxInt) :
    ∃ dst e', protoReadNext e b limit = (.ok ⟨dst, m.length, none⟩, e') ∧
      dst.data.take m.length = m ∧ dst.data.drop m.length ++ e'.data = rest :=
  proto_frame e b limit m rest hW hlim hint

/-- CodecProto sequence law. -/
theorem readNext_sequence_proto (limit : Nat) (ms : List Bytes) (spares : List Nat) (e : Env) (b : Buf)
    (hall : ∀ m ∈ ms, m.length ≤ limit ∧ m.length ≤ maxInt)
    (hW : b.data ++ e.data = (ms.map protoWriteNext).flatten) :
    protoSeq limit (ms.length + 1) spares e b = (ms, some .eof) :=
  proto_sequence limit ms spares e b hall hW

/-- a message longer than the limit — including a prefix too large for the platform
integer, up to 2^64-1 — is an error. -/
theorem readNext_over_limit_proto (e : Env) (b : Buf) (limit size : Nat) (tail : Bytes)
    (hsz : size < 2 ^ 64) (hW : b.data ++ e.data = putVarint size ++ tail)
    (hbig : size > limit ∨ size > maxInt) :
    ∃ dst e', protoReadNext e b limit = (.ok ⟨dst, 0, some .tooLarge⟩, e') :=
  proto_over_limit e b limit size tail hsz hW hbig

/-- never a crash, never a length outside the returned buffer or above the limit, for any
bytes at all. -/
theorem readNext_safe_proto (e : Env) (b : Buf) (limit : Nat) :
    ∃ r e', protoReadNext e b limit = (.ok r, e') ∧ r.n ≤ r.dst.data.length ∧
      (r.err ≠ none → r.n = 0) ∧ (r.err = none → r.n ≤ limit) :=
  proto_safe e b limit

/-- CodecJSON frame and sequence laws (messages the brace scanner closes at their last byte). -/
theorem readNext_frame_json (e : Env) (b : Buf) (limit : Nat) (m rest : Bytes)
    (hW : b.data ++ e.data = jsonWriteNext m ++ rest) (hm : JsonFrame m) (hlim : m.length ≤ limit) :
    ∃ dst e', jsonReadNext e b limit = (⟨dst, m.length, none⟩, e') ∧
      dst.data.take m.length = m ∧ dst.data.drop m.length ++ e'.data = rest :=
  json_frame e b limit m rest hW hm hlim

theorem readNext_sequence_json (limit : Nat) (hl : 0 < limit) (ms : List Bytes) (spares : List Nat)
    (e : Env) (b : Buf) (hall : ∀ m ∈ ms, m.length ≤ limit ∧ JsonFrame m)
    (hW : b.data ++ e.data = (ms.map jsonWriteNext).flatten) :
    jsonSeq limit (ms.length + 1) spares e b = (ms, some .eof) :=
  json_sequence limit hl ms spares e b hall hW

/-- the JSON reader never returns more than `limit` bytes as a message, nor a length outside
the buffer; an error never comes with a message. -/
theorem readNext_safe_json (e : Env) (b : Buf) (limit : Nat) :
    (jsonReadNext e b limit).1.n ≤ (jsonReadNext e b limit).1.dst.data.length ∧
    (jsonReadNext e b limit).1.n ≤ limit ∧
    ((jsonReadNext e b limit).1.err ≠ none → (jsonReadNext e b limit).1.n = 0) :=
  json_safe e b limit

/-- HttpBody chunker: each call returns the next `min limit available` bytes of the stream,
loses nothing, and reports io.EOF only with the final chunk. -/
theorem readNext_chunk_body (e : Env) (b : Buf) (limit : Nat) :
    let r := bodyReadNext e b limit
    r.1.dst.data ++ r.2.data = b.data ++ e.data ∧
    r.1.n ≤ limit ∧ r.1.n ≤ r.1.dst.data.length ∧
    (r.1.err = none → r.1.n = limit) ∧
    (r.1.err ≠ none → r.1.err = some .eof ∧ r.2.data = [] ∧ r.1.n = r.1.dst.data.length) :=
  body_chunk e b limit

-- non-vacuity: the hypotheses are met by a concrete fragmented stream with carry-over
example : ∃ dst e', protoReadNext ⟨[98, 99, 2, 120, 121], [1, 1, 3], true, [4, 4, 4]⟩ ⟨[3, 97], 0⟩ 16
      = (.ok ⟨dst, 3, none⟩, e') ∧ dst.data.take 3 = [97, 98, 99] ∧ dst.data.drop 3 ++ e'.data = [2, 120, 121] :=
  readNext_frame_proto _ _ 16 [97, 98, 99] [2, 120, 121] (by decide) (by decide) (by decide)
example : JsonFrame [123, 34, 125, 34, 58, 123, 125, 125] := by   -- {"}":{}}
  show scanPure scanInit _ 0 = some 8; decide
example : (putVarint 300 : Bytes) = [172, 2] := by decide

end Larking.Props.C17

#print axioms Larking.Props.C17.translator_complete
#print axioms Larking.Props.C17.skeleton_unchanged
#print axioms Larking.Props.C17.readNext_frame_proto
#print axioms Larking.Props.C17.readNext_sequence_proto
#print axioms Larking.Props.C17.readNext_over_limit_proto
#print axioms Larking.Props.C17.readNext_safe_proto
#print axioms Larking.Props.C17.readNext_frame_json
#print axioms Larking.Props.C17.readNext_sequence_json
#print axioms Larking.Props.C17.readNext_safe_json
#print axioms Larking.Props.C17.readNext_chunk_body
