import Larking.Gen.Skel
import Larking.Gen.Missing
import Larking.Expected.C06
import Larking.Lemmas.Streams
import Larking.Lemmas.Status
/-
  C06 — Stream sequence fidelity.  `Env` is the adversarial reader (every fragmentation of
  the body into reads, io.EOF with or after the last data, every capacity behaviour); the
  theorems are for all of them.  Unmarshalling, gzip and WebSocket framing are parameters.
-/
namespace Larking.Props.C06
open Larking Larking.Codec Larking.Streams Larking.Status

theorem translator_complete : Gen.missing = [] := by decide

theorem skeleton_unchanged :
    (Gen.Skel.conds_streamHTTP_readMsg,
     Gen.Skel.stmts_streamHTTP_readMsg,
     Gen.Skel.conds_streamHTTP_RecvMsg,
     Gen.Skel.stmts_streamHTTP_RecvMsg,
     Gen.Skel.conds_streamHTTP_decodeRequestArgs,
     Gen.Skel.stmts_streamHTTP_decodeRequestArgs,
     Gen.Skel.conds_streamGRPC_RecvMsg,
     Gen.Skel.stmts_streamGRPC_RecvMsg,
     Gen.Skel.conds_streamGRPC_SendMsg,
     Gen.Skel.stmts_streamGRPC_SendMsg,
     Gen.Skel.conds_webWriter_writeTrailer,
     Gen.Skel.stmts_webWriter_writeTrailer,
     Gen.Skel.conds_webWriter_flushWithTrailer,
     Gen.Skel.stmts_webWriter_flushWithTrailer,
     Gen.Skel.conds_streamWS_RecvMsg,
     Gen.Skel.stmts_streamWS_RecvMsg,
     Gen.Skel.conds_streamWS_SendMsg,
     Gen.Skel.stmts_streamWS_SendMsg,
     Gen.Skel.conds_CodecProto_ReadNext,
     Gen.Skel.stmts_CodecProto_ReadNext,
     Gen.Skel.conds_CodecJSON_ReadNext,
     Gen.Skel.stmts_CodecJSON_ReadNext,
     Gen.Skel.conds_codecHTTPBody_ReadNext,
     Gen.Skel.stmts_codecHTTPBody_ReadNext,
     Gen.Skel.conds_createConnHandler,
     Gen.Skel.stmts_createConnHandler)
  = (Expected.C06.conds_streamHTTP_readMsg,
     Expected.C06.stmts_streamHTTP_readMsg,
     Expected.C06.conds_streamHTTP_RecvMsg,
     Expected.C06.stmts_streamHTTP_RecvMsg,
     Expected.C06.conds_streamHTTP_decodeRequestArgs,
     Expected.C06.stmts_streamHTTP_decodeRequestArgs,
     Expected.C06.conds_streamGRPC_RecvMsg,
     Expected.C06.stmts_streamGRPC_RecvMsg,
     Expected.C06.conds_streamGRPC_SendMsg,
     Expected.C06.stmts_streamGRPC_SendMsg,
     Expected.C06.conds_webWriter_writeTrailer,
     Expected.C06.stmts_webWriter_writeTrailer,
     Expected.C06.conds_webWriter_flushWithTrailer,
     Expected.C06.stmts_webWriter_flushWithTrailer,
     Expected.C06.conds_streamWS_RecvMsg,
     Expected.C06.stmts_streamWS_RecvMsg,
     Expected.C06.conds_streamWS_SendMsg,
     Expected.C06.stmts_streamWS_SendMsg,
     Expected.C06.conds_CodecProto_ReadNext,
     Expected.C06.stmts_CodecProto_ReadNext,
     Expected.C06.conds_CodecJSON_ReadNext,
     Expected.C06.stmts_CodecJSON_ReadNext,
     Expected.C06.conds_codecHTTPBody_ReadNext,
     Expected.C06.stmts_codecHTTPBody_ReadNext,
     Expected.C06.conds_createConnHandler,
     Expected.C06.stmts_createConnHandler) := rfl

/-- HTTP, length-delimited protobuf: exactly the client's messages in order, then a clean end. -/
theorem http_recv_sequence_proto (limit : Nat) (ms : List Bytes) (spares : List Nat) (s : HS)
    (hE : s.rEOF = false) (hall : ∀ m ∈ ms, m.length ≤ limit ∧ m.length ≤ maxInt)
    (hW : s.rbuf ++ s.env.data = (ms.map protoWriteNext).flatten) :
    recvAll .proto limit (ms.length + 1) spares s = ms.map .msg ++ [.eof] :=
  Streams.http_recv_sequence_proto limit ms spares s hE hall hW

/-- HTTP, JSON objects. -/
theorem http_recv_sequence_json (limit : Nat) (hl : 0 < limit) (ms : List Bytes) (spares : List Nat) (s : HS)
    (hE : s.rEOF = false) (hall : ∀ m ∈ ms, m.length ≤ limit ∧ JsonFrame m)
    (hW : s.rbuf ++ s.env.data = (ms.map jsonWriteNext).flatten) :
    recvAll .json limit (ms.length + 1) spares s = ms.map .msg ++ [.eof] :=
  Streams.http_recv_sequence_json limit hl ms spares s hE hall hW

/-- HttpBody chunks: every call hands over the next bytes of the body, nothing lost or
reordered, at most `limit` at a time, io.EOF only with the final chunk. -/
theorem http_body_chunk (e : Env) (b : Buf) (limit : Nat) :
    let r := bodyReadNext e b limit
    r.1.dst.data ++ r.2.data = b.data ++ e.data ∧ r.1.n ≤ limit ∧ r.1.n ≤ r.1.dst.data.length ∧
    (r.1.err = none → r.1.n = limit) ∧
    (r.1.err ≠ none → r.1.err = some .eof ∧ r.2.data = [] ∧ r.1.n = r.1.dst.data.length) :=
  body_chunk e b limit

/-- once io.EOF was seen every further receive reports the end of the stream; no receive
panics; no message exceeds the limit. -/
theorem http_recv_safe (k : CodecK) (limit spare : Nat) (s : HS) :
    (readMsg k limit spare s).1 ≠ .panic ∧
    (∀ b, (readMsg k limit spare s).1 = .msg b → b.length ≤ limit) ∧
    (s.rEOF = true → (readMsg k limit spare s).1 = .eof) :=
  readMsg_safe k limit spare s

/-- gRPC / gRPC-web frames: exactly the client's messages in order, then a clean end. -/
theorem grpc_recv_sequence (gunzip) (maxRecv : Nat) (ms : List Bytes) (e : Env)
    (hall : ∀ m ∈ ms, m.length ≤ maxRecv ∧ m.length < 4294967296)
    (hW : e.data = (ms.map (frame 0)).flatten) :
    grpcRecvAll gunzip maxRecv (ms.length + 1) e = ms.map .msg ++ [.eof] :=
  grpc_sequence gunzip maxRecv ms e hall hW

/-- a gRPC / gRPC-web body that ends inside a frame (header or payload) yields the preceding
complete messages, in order, followed by an error — never the partial message, never a
clean end. -/
theorem grpc_recv_truncated (gunzip) (maxRecv : Nat) (ms : List Bytes) (e : Env) (flag : UInt8) (m : Bytes) (k : Nat)
    (hk1 : 0 < k) (hk2 : k < (frame flag m).length)
    (hall : ∀ m ∈ ms, m.length ≤ maxRecv ∧ m.length < 4294967296)
    (hW : e.data = (ms.map (frame 0)).flatten ++ (frame flag m).take k)
    (hlim : m.length ≤ maxRecv) (h32 : m.length < 4294967296) :
    ∃ x, grpcRecvAll gunzip maxRecv (ms.length + 1) e = ms.map .msg ++ [.err x] :=
  grpc_sequence_truncated gunzip maxRecv flag m k hk1 hk2 hlim h32 ms e hall hW

/-- HTTP, length-delimited protobuf: a body that ends in the middle of a message (inside its
length prefix or inside its bytes) yields the preceding complete messages followed by an
error, for every fragmentation. -/
theorem http_recv_truncated_proto (limit : Nat) (ms : List Bytes) (m : Bytes) (k : Nat) (spares : List Nat) (s : HS)
    (hk1 : 0 < k) (hk2 : k < (protoWriteNext m).length) (hlim : m.length ≤ limit) (hint : m.length ≤ maxInt)
    (hE : s.rEOF = false) (hall : ∀ m ∈ ms, m.length ≤ limit ∧ m.length ≤ maxInt)
    (hW : s.rbuf ++ s.env.data = (ms.map protoWriteNext).flatten ++ (protoWriteNext m).take k) :
    ∃ x, recvAll .proto limit (ms.length + 1) spares s = ms.map .msg ++ [.err x] :=
  Streams.http_recv_truncated_proto limit m k hk1 hk2 hlim hint ms spares s hE hall hW

/-- HTTP, JSON objects: same law. -/
theorem http_recv_truncated_json (limit : Nat) (ms : List Bytes) (m : Bytes) (k : Nat) (spares : List Nat) (s : HS)
    (hm : JsonFrame m) (hk1 : 0 < k) (hk2 : k < m.length)
    (hE : s.rEOF = false) (hall : ∀ m ∈ ms, m.length ≤ limit ∧ JsonFrame m)
    (hW : s.rbuf ++ s.env.data = (ms.map jsonWriteNext).flatten ++ (jsonWriteNext m).take k) :
    ∃ x, recvAll .json limit (ms.length + 1) spares s = ms.map .msg ++ [.err x] :=
  Streams.http_recv_truncated_json limit m k hm hk1 hk2 ms spares s hE hall hW

/-- gRPC, server to client: a peer reading what `SendMsg` wrote for the handler's replies
receives exactly those replies in order, then the end of the data (the trailers carry the
final status). -/
theorem grpc_reply_sequence (maxSend clientMax : Nat) (ms : List Bytes) (e : Env)
    (hall : ∀ m ∈ ms, m.length ≤ maxSend ∧ m.length ≤ clientMax ∧ m.length < 4294967296)
    (hW : e.data = grpcSendAll maxSend ms) :
    grpcRecvAll none clientMax (ms.length + 1) e = ms.map .msg ++ [.eof] :=
  Streams.grpc_reply_sequence maxSend clientMax ms e hall hW

/-- gRPC-web, server to client: the body (reply frames, then the trailer frame with flag 0x80)
splits on the client into exactly the handler's replies in order followed by the trailer
block that carries the final status. -/
theorem web_reply_sequence (maxSend : Nat) (ms : List Bytes) (trailer : Bytes)
    (hall : ∀ m ∈ ms, m.length ≤ maxSend ∧ m.length < 4294967296) (ht : trailer.length < 4294967296) :
    deframe (ms.length + 1) (grpcSendAll maxSend ms ++ frame 128 trailer)
      = some (ms.map (fun m => (0, m)) ++ [(128, trailer)]) :=
  Streams.web_reply_sequence maxSend ms trailer hall ht

/-- HTTP server streams: what `WriteNext` wrote for the handler's replies comes back from the
same stream codec message by message, in order, then a clean end — for every fragmentation. -/
theorem http_reply_sequence_proto (limit : Nat) (ms : List Bytes) (spares : List Nat) (e : Env) (b : Buf)
    (hall : ∀ m ∈ ms, m.length ≤ limit ∧ m.length ≤ maxInt)
    (hW : b.data ++ e.data = (ms.map protoWriteNext).flatten) :
    protoSeq limit (ms.length + 1) spares e b = (ms, some .eof) :=
  proto_sequence limit ms spares e b hall hW

theorem http_reply_sequence_json (limit : Nat) (hl : 0 < limit) (ms : List Bytes) (spares : List Nat) (e : Env) (b : Buf)
    (hall : ∀ m ∈ ms, m.length ≤ limit ∧ JsonFrame m)
    (hW : b.data ++ e.data = (ms.map jsonWriteNext).flatten) :
    jsonSeq limit (ms.length + 1) spares e b = (ms, some .eof) :=
  json_sequence limit hl ms spares e b hall hW

/-- gRPC-web-text: the base64 layer loses nothing however the writes are split (the encoder
is closed after the trailer frame). -/
theorem web_text_lossless (writes : List Bytes) :
    Base64.decode false true (textModeOutput true writes) = some writes.flatten :=
  textMode_closed writes

-- non-vacuity
example : grpcRecvAll none 100 3 ⟨frame 0 [1, 2] ++ frame 0 [], [3, 1, 1], true, []⟩
    = [.msg [1, 2], .msg [], .eof] :=
  grpc_recv_sequence none 100 [[1, 2], []] _ (by decide) (by decide)

-- a stream cut inside its second message: the first message, then an error
example : ∃ x, grpcRecvAll none 100 2 ⟨frame 0 [1, 2] ++ (frame 0 [3, 4, 5]).take 6, [], false, []⟩
    = [.msg [1, 2], .err x] :=
  grpc_recv_truncated none 100 [[1, 2]] _ 0 [3, 4, 5] 6 (by decide) (by decide) (by decide) (by decide)
    (by decide) (by decide)
example : deframe 3 (grpcSendAll 10 [[7], [8, 9]] ++ frame 128 [1]) = some [(0, [7]), (0, [8, 9]), (128, [1])] := by
  decide

end Larking.Props.C06

#print axioms Larking.Props.C06.translator_complete
#print axioms Larking.Props.C06.skeleton_unchanged
#print axioms Larking.Props.C06.http_recv_sequence_proto
#print axioms Larking.Props.C06.http_recv_sequence_json
#print axioms Larking.Props.C06.http_body_chunk
#print axioms Larking.Props.C06.http_recv_safe
#print axioms Larking.Props.C06.grpc_recv_sequence
#print axioms Larking.Props.C06.grpc_recv_truncated
#print axioms Larking.Props.C06.http_recv_truncated_proto
#print axioms Larking.Props.C06.http_recv_truncated_json
#print axioms Larking.Props.C06.grpc_reply_sequence
#print axioms Larking.Props.C06.web_reply_sequence
#print axioms Larking.Props.C06.http_reply_sequence_proto
#print axioms Larking.Props.C06.http_reply_sequence_json
#print axioms Larking.Props.C06.web_text_lossless
