import Larking.Gen.Skel
import Larking.Gen.Proxy
import Larking.Gen.Missing
import Larking.Expected.C10
import Larking.Model.Proxy
/-
  C10 — Proxying through RegisterConn is transparent.  `Backend` is ANY function from what the
  backend has received to what it has produced (replies, and its final status once it has
  finished): succeeding, failing before / during / after the stream with any code and
  payload, or never finishing.  The forwarders are modelled as written; `isStreamError`'s
  case list and the place of the pump's CloseSend are regenerated from the AST.
-/
namespace Larking.Props.C10
open Larking Larking.Proxy

theorem translator_complete : Gen.missing = [] := by decide

theorem skeleton_unchanged :
    (Gen.Skel.conds_createConnHandler,
     Gen.Skel.stmts_createConnHandler,
     Gen.Skel.conds_isStreamError,
     Gen.Skel.stmts_isStreamError,
     Gen.Skel.conds_streamHTTP_RecvMsg,
     Gen.Skel.stmts_streamHTTP_RecvMsg,
     Gen.Skel.conds_Mux_serveHTTP,
     Gen.Skel.stmts_Mux_serveHTTP)
  = (Expected.C10.conds_createConnHandler,
     Expected.C10.stmts_createConnHandler,
     Expected.C10.conds_isStreamError,
     Expected.C10.stmts_isStreamError,
     Expected.C10.conds_streamHTTP_RecvMsg,
     Expected.C10.stmts_streamHTTP_RecvMsg,
     Expected.C10.conds_Mux_serveHTTP,
     Expected.C10.stmts_Mux_serveHTTP) := rfl

/-- the regenerated `isStreamError`: exactly nil, io.EOF and the raw context.Canceled are
"no error"; every status error — whatever its code — is one. -/
def exempt : Bool × Bool × Bool × Option Nat :=
  (Gen.Proxy.streamErrorCases.contains "nil" && Gen.Proxy.streamErrorCaseResult == "false",
   Gen.Proxy.streamErrorCases.contains "io.EOF" && Gen.Proxy.streamErrorCaseResult == "false",
   Gen.Proxy.streamErrorCases.contains "context.Canceled" && Gen.Proxy.streamErrorCaseResult == "false",
   none)

theorem stream_error_as_modelled :
    Gen.Proxy.streamErrorCases = ["nil", "io.EOF", "context.Canceled"] ∧
    Gen.Proxy.streamErrorCaseResult = "false" ∧ Gen.Proxy.streamErrorDefault = "true" ∧
    exempt = (true, true, true, none) := by decide

theorem pump_half_closes_after_loop :
    Gen.Proxy.closeSendAfterLoop = true ∧ Gen.Proxy.closeSendInLoop = false := by decide

/-- **streaming calls**: for every backend behaviour, every client message list (empty
included) and every streaming shape, the backend receives the same messages and half-close
and the client receives the same replies and the same final status (code and payload) as in
the direct call — also when the backend never finishes. A non-client-streaming call carries
exactly one request message; an OK status is the OK status. -/
theorem stream_transparent {Msg Rep : Type} (B : Backend Msg Rep) (ms : List Msg) (cs ss : Bool)
    (hshape : cs = false → ms.length = 1)
    (hok : ∀ l hc st, (B l hc).2 = some st → st.code = 0 → st = Status.ok) :
    let p := streamProxy exempt Gen.Proxy.closeSendAfterLoop cs ss B ms
    let d := direct ss B ms
    p.backendGot = d.backendGot ∧ p.backendHalfClosed = d.backendHalfClosed ∧
    p.clientGot = d.clientGot ∧ p.clientStatus = d.clientStatus := by
  have hex : exempt = (true, true, true, none) := stream_error_as_modelled.2.2.2
  have hcl : Gen.Proxy.closeSendAfterLoop = true := rfl
  rw [hex, hcl]
  cases ms with
  | nil =>
    cases cs with
    | false => simp at hshape
    | true =>
      simp only [streamProxy, direct, Bool.not_true, Bool.false_eq_true, if_false]
      cases hr : (B [] true).2 with
      | none => simp [hr]
      | some st =>
        simp only [hr]
        by_cases hc : st.code = 0
        · have := hok [] true st hr hc
          subst this
          simp [asErr, isStreamError, Status.ok, hr]
        · simp [asErr, isStreamError, hc, hr]
  | cons first rest =>
    have hsent : (if cs = true then first :: rest else [first]) = first :: rest := by
      cases cs with
      | true => rfl
      | false =>
        have := hshape rfl
        simp at this; subst this; rfl
    simp only [streamProxy, direct, hsent]
    cases hr : (B (first :: rest) true).2 with
    | none => simp [hr]
    | some st =>
      simp only [hr]
      by_cases hc : st.code = 0
      · have := hok (first :: rest) true st hr hc
        subst this
        simp [asErr, isStreamError, Status.ok, hr]
      · simp [asErr, isStreamError, hc, hr]

/-- **unary calls**: same messages to the backend, same reply and same status to the client. -/
theorem unary_transparent {Msg Rep : Type} (B : Backend Msg Rep) (m : Msg) :
    let p := unaryProxy B m
    let d := direct false B [m]
    p.backendGot = d.backendGot ∧ p.backendHalfClosed = d.backendHalfClosed ∧
    p.clientGot = d.clientGot ∧ p.clientStatus = d.clientStatus := by
  simp only [unaryProxy, direct]
  cases hr : (B [m] true).2 <;> simp [hr]

/-- contrast (seeded): with the CloseSend inside the loop an empty client stream is never
half-closed, and a backend that answers at half-close never answers. -/
theorem empty_stream_needs_half_close :
    let B : Backend Nat Nat := fun ms hc => if hc then ([ms.length], some Status.ok) else ([], none)
    (streamProxy (true, true, true, none) false true false B []).clientStatus = none ∧
    (direct false B []).clientStatus = some Status.ok := by decide

/-- contrast (seeded): exempting status code Canceled turns the backend's Canceled into OK. -/
theorem canceled_status_must_not_be_exempt :
    let B : Backend Nat Nat := fun _ _ => ([], some ⟨1, 42⟩)
    (streamProxy (true, true, true, some 1) true true true B [5]).clientStatus = some Status.ok ∧
    (direct true B [5]).clientStatus = some ⟨1, 42⟩ := by decide

-- non-vacuity: a backend that fails with DataLoss after two replies of a bidi stream
example : (streamProxy exempt true true true (fun (ms : List Nat) _ => (ms.take 2, some ⟨15, 7⟩)) [1, 2, 3]).clientGot = [1, 2] ∧
    (streamProxy exempt true true true (fun (ms : List Nat) _ => (ms.take 2, some ⟨15, 7⟩)) [1, 2, 3]).clientStatus = some ⟨15, 7⟩ := by decide

/-- the forwarder lets the io.EOF of its first `SendMsg` fall through to `RecvMsg` (regenerated
condition of that `if`). -/
theorem first_send_eof_is_not_final : Gen.Proxy.firstSendErrorCond = "err != nil && err != io.EOF" := by decide

/-- **a backend that ends the call before the first message is forwarded**: the client still gets
the backend's own status (an OK status being the OK status) — for every status. -/
theorem early_backend_status_reaches_client (st : Status) (hok : st.code = 0 → st = Status.ok) :
    earlyEnd exempt false st = st := by
  unfold earlyEnd
  simp only [Bool.false_eq_true, if_false]
  by_cases h : st.code = 0
  · rw [hok h]; decide
  · have : asErr st = .status st := by simp [asErr, h]
    simp [this, exempt, isStreamError]

/-- contrast — the code before fix `0aba31b` returned that io.EOF: every early status became Unknown. -/
theorem eof_as_final_loses_the_status : earlyEnd exempt true ⟨9, 7⟩ ≠ ⟨9, 7⟩ := by decide

end Larking.Props.C10

#print axioms Larking.Props.C10.translator_complete
#print axioms Larking.Props.C10.skeleton_unchanged
#print axioms Larking.Props.C10.stream_error_as_modelled
#print axioms Larking.Props.C10.pump_half_closes_after_loop
#print axioms Larking.Props.C10.stream_transparent
#print axioms Larking.Props.C10.unary_transparent
#print axioms Larking.Props.C10.empty_stream_needs_half_close
#print axioms Larking.Props.C10.canceled_status_must_not_be_exempt
#print axioms Larking.Props.C10.first_send_eof_is_not_final
#print axioms Larking.Props.C10.early_backend_status_reaches_client
#print axioms Larking.Props.C10.eof_as_final_loses_the_status
