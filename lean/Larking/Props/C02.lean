import Larking.Gen.Skel
import Larking.Gen.Lexer
import Larking.Gen.Missing
import Larking.Expected.C02
import Larking.Lemmas.Complete
import Larking.Lemmas.LexerComplete
import Larking.Lemmas.Routes
import Larking.Lemmas.VarIndexComplete
import Larking.Lemmas.LiteralRoute
import Larking.Lemmas.Commute
import Larking.Lemmas.PatternText
import Larking.Gen.TrieDel
import Larking.Lemmas.TrieDelReach
/-
  C02 — Routing completeness, literal-over-wildcard precedence, order independence.
-/
namespace Larking.Props.C02
open Larking Larking.Lexer Larking.Trie

theorem translator_complete : Gen.missing = [] := by decide

theorem skeleton_unchanged :
    (Gen.Skel.conds_variable_index,
     Gen.Skel.stmts_variable_index,
     Gen.Skel.conds_path_search,
     Gen.Skel.stmts_path_search,
     Gen.Skel.conds_path_match,
     Gen.Skel.stmts_path_match,
     Gen.Skel.conds_path_addVariable,
     Gen.Skel.stmts_path_addVariable,
     Gen.Skel.conds_path_addPath,
     Gen.Skel.stmts_path_addPath,
     Gen.Skel.conds_lexTemplate,
     Gen.Skel.stmts_lexTemplate,
     Gen.Skel.conds_lexSegments,
     Gen.Skel.stmts_lexSegments,
     Gen.Skel.conds_lexSegment,
     Gen.Skel.stmts_lexSegment,
     Gen.Skel.conds_lexVariable,
     Gen.Skel.stmts_lexVariable,
     Gen.Skel.conds_lexFieldPath,
     Gen.Skel.stmts_lexFieldPath,
     Gen.Skel.conds_lexVerb,
     Gen.Skel.stmts_lexVerb,
     Gen.Skel.conds_lexIdent,
     Gen.Skel.stmts_lexIdent,
     Gen.Skel.conds_lexLiteral,
     Gen.Skel.stmts_lexLiteral,
     Gen.Skel.conds_isIdent,
     Gen.Skel.stmts_isIdent,
     Gen.Skel.conds_isLiteral,
     Gen.Skel.stmts_isLiteral,
     Gen.Skel.conds_isPath,
     Gen.Skel.stmts_isPath,
     Gen.Skel.conds_Mux_match,
     Gen.Skel.stmts_Mux_match,
     Gen.Skel.conds_Mux_ServeHTTP,
     Gen.Skel.stmts_Mux_ServeHTTP,
     Gen.Skel.conds_path_clone,
     Gen.Skel.stmts_path_clone,
     Gen.Skel.conds_lexPath,
     Gen.Skel.stmts_lexPath,
     Gen.Skel.conds_lexPathSegment,
     Gen.Skel.stmts_lexPathSegment,
     Gen.Skel.conds_path_delRule,
     Gen.Skel.stmts_path_delRule,
     Gen.Skel.conds_path_alive,
     Gen.Skel.stmts_path_alive)
  = (Expected.C02.conds_variable_index,
     Expected.C02.stmts_variable_index,
     Expected.C02.conds_path_search,
     Expected.C02.stmts_path_search,
     Expected.C02.conds_path_match,
     Expected.C02.stmts_path_match,
     Expected.C02.conds_path_addVariable,
     Expected.C02.stmts_path_addVariable,
     Expected.C02.conds_path_addPath,
     Expected.C02.stmts_path_addPath,
     Expected.C02.conds_lexTemplate,
     Expected.C02.stmts_lexTemplate,
     Expected.C02.conds_lexSegments,
     Expected.C02.stmts_lexSegments,
     Expected.C02.conds_lexSegment,
     Expected.C02.stmts_lexSegment,
     Expected.C02.conds_lexVariable,
     Expected.C02.stmts_lexVariable,
     Expected.C02.conds_lexFieldPath,
     Expected.C02.stmts_lexFieldPath,
     Expected.C02.conds_lexVerb,
     Expected.C02.stmts_lexVerb,
     Expected.C02.conds_lexIdent,
     Expected.C02.stmts_lexIdent,
     Expected.C02.conds_lexLiteral,
     Expected.C02.stmts_lexLiteral,
     Expected.C02.conds_isIdent,
     Expected.C02.stmts_isIdent,
     Expected.C02.conds_isLiteral,
     Expected.C02.stmts_isLiteral,
     Expected.C02.conds_isPath,
     Expected.C02.stmts_isPath,
     Expected.C02.conds_Mux_match,
     Expected.C02.stmts_Mux_match,
     Expected.C02.conds_Mux_ServeHTTP,
     Expected.C02.stmts_Mux_ServeHTTP,
     Expected.C02.conds_path_clone,
     Expected.C02.stmts_path_clone,
     Expected.C02.conds_lexPath,
     Expected.C02.stmts_lexPath,
     Expected.C02.conds_lexPathSegment,
     Expected.C02.stmts_lexPathSegment,
     Expected.C02.conds_path_delRule,
     Expected.C02.stmts_path_delRule,
     Expected.C02.conds_path_alive,
     Expected.C02.stmts_path_alive) := rfl

/-- **Completeness.** For every accepted list of rules: whenever some way through the trie
matches the request's tokens for the request's verb (that is what a registered rule matching
verb and path amounts to, `route_sound` being the converse), the request is dispatched — it is
never answered 404 / 405 — provided the captures convert. -/
theorem route_complete (conv) (hconv : ∀ f t, conv f t = true)
    (rs : List (Rule × Nat × (List Bytes → Option Nat))) (t : Node)
    (hb : buildAll Gen.tokenCap rs .empty = .ok t) (verb : Bytes) (toks : List Tok)
    (m : Meth) (caps : Caps) (es : List Edge) (hway : Reach conv verb t toks m caps es) :
    ∃ m' caps', search conv verb t toks = .found m' caps' :=
  search_complete conv verb hconv t toks m caps es hway 0
    (buildAll_WF Gen.tokenCap rs .empty t (WF_empty 0) hb)

/-- **Literal over wildcard.** If the child that spells the next segment literally leads to a
match, that match is the result: variables and wildcards of the same node are not consulted. -/
theorem literal_beats_variable (conv) (verb) (segs : List (Bytes × Node)) (methods) (all) (vars)
    (t0 t1 : Tok) (rest : List Tok) (child : Node) (m : Meth) (caps : Caps)
    (hl : lookupSeg segs (t0.val ++ t1.val) = some child)
    (hs : search conv verb child rest = .found m caps) :
    search conv verb (.mk segs methods all vars) (t0 :: t1 :: rest) = .found m caps :=
  literal_first conv verb segs methods all vars t0 t1 rest child m caps hl hs

/-- a literal-child *failure* never hides a matching variable sibling (backtracking). -/
theorem variable_after_failed_literal (conv) (verb) (hconv : ∀ f t, conv f t = true) (k : Nat)
    (segs : List (Bytes × Node)) (methods) (all) (vars : List (Var × Node))
    (hwf : WF k (.mk segs methods all vars))
    (t0 t1 : Tok) (rest : List Tok) (v : Var) (child : Node) (i : Nat) (m : Meth) (caps : Caps)
    (ht0 : t0.typ = .slash) (hmem : (v, child) ∈ vars)
    (hidx : varIndex v.toks (t1 :: rest) 0 = .ok (some i))
    (hs : search conv verb child ((t1 :: rest).drop i) = .found m caps) :
    ∃ m' caps', search conv verb (.mk segs methods all vars) (t0 :: t1 :: rest) = .found m' caps' := by
  obtain ⟨es, hre⟩ := search_sound conv verb child _ m caps hs
  have hwf' := hwf
  simp only [WF] at hwf'
  obtain ⟨_, _, hsegs, hvars⟩ := hwf'
  obtain ⟨mv, capsv, hv⟩ := searchVars_complete conv verb hconv k vars (t1 :: rest) v child i m caps hvars hmem hidx hs
  simp only [search, searchSegs_eq]
  have ht : (t0.typ == TokTy.slash) = true := by simpa using ht0
  cases hl : lookupSeg segs (t0.val ++ t1.val) with
  | none => simp only [Option.map_none, ht, if_true]; exact ⟨mv, capsv, hv⟩
  | some c =>
    simp only [Option.map_some]
    have hwc := search_wf conv verb k c rest (lookupSeg_WF k segs _ c hsegs hl)
    cases hsc : search conv verb c rest with
    | found m2 caps2 => exact ⟨m2, caps2, rfl⟩
    | panic s => exact absurd hsc (hwc.1 s)
    | fail e => simp only [ht, if_true]; exact ⟨mv, capsv, hv⟩

/-- the characters larking documents as valid in a path segment are accepted by `isPath`
(flags regenerated from the compiled predicates: 2 = ident, 4 = literal, 8 = path). -/
def Spec.documentedPathChars : List Nat :=
  -- a-z A-Z 0-9 . - _ ~ ! $ & ' ( ) * + , ; = @   (probes of each class)
  [97, 98, 99, 120, 121, 122, 65, 66, 67, 88, 89, 90, 48, 49, 50, 51, 52, 53, 54, 55, 56, 57,
   46, 45, 95, 126, 33, 36, 38, 39, 40, 41, 42, 43, 44, 59, 61, 64]

theorem documented_chars_accepted :
    ∀ c ∈ Spec.documentedPathChars, ∃ p ∈ Gen.charClasses, p.1 = c ∧ p.2 / 8 % 2 = 1 := by decide

/-- separators and template metacharacters are *not* path characters. -/
theorem separators_not_path :
    ∀ c ∈ [47, 58, 123, 125], ∃ p ∈ Gen.charClasses, p.1 = c ∧ p.2 / 8 % 2 = 0 := by decide

/-- variables are kept sorted by name whatever the insertion order (two distinct names). -/
theorem upsertVar_order_independent (v1 v2 : Var) (c1 c2 : Node) (h : v1.name ≠ v2.name)
    (hlt : bytesLt v1.name v2.name = true) (hnlt : bytesLt v2.name v1.name = false) :
    upsertVar (upsertVar [] v1 c1) v2 c2 = upsertVar (upsertVar [] v2 c2) v1 c1 := by
  have h1 : (v1.name == v2.name) = false := by simpa using h
  have h2 : (v2.name == v1.name) = false := by simpa using (Ne.symm h)
  simp [upsertVar, h1, h2, hlt, hnlt]

/-- **Every documented path reaches the router as tokens**: a request path made of '/'- (or
':'-) separated non-empty runs of the characters larking documents as valid
(`documented_chars_accepted` ties the classes to the regenerated table) is lexed to exactly
its separator and segment tokens whenever they fit the token array — up to
`(Gen.tokenCap - 1) / 2` segments; `route_complete` then speaks about these tokens. -/
theorem documented_paths_lex (segs : PathSegs) (hwf : WfPath segs) (hcap : 2 * segs.length + 1 ≤ Gen.tokenCap) :
    lexPath Gen.tokenCap (renderPath segs) = .ok (pathToks segs ++ [⟨.eof, []⟩]) :=
  lexPath_complete Gen.tokenCap segs hwf hcap

example : lexPath Gen.tokenCap (renderPath [(⟨[47], 47, false, false, false, false⟩, [⟨[97], 97, true, true, true, true⟩]),
      (⟨[58], 58, false, false, false, false⟩, [⟨[59], 59, false, false, false, true⟩])])
    = .ok [⟨.slash, [47]⟩, ⟨.path, [97]⟩, ⟨.verb, [58]⟩, ⟨.path, [59]⟩, ⟨.eof, []⟩] := by decide

/-- **Registered ⇒ dispatched, end to end over the trie.** For every accepted list of rules
(each with its additional bindings), every binding `b` of every rule and every request whose
tokens instantiate `b`'s template (`Routed`: literal and verb edges spell the tokens, every
variable's sub-pattern matches its capture — `EdgeMatch` over the very edges `addRule` walks
for `b`) with `b`'s kind (any kind when `b` binds `*`): the request is dispatched by the final
trie, never 404 / 405 — whatever was registered before or after `b`, in whatever order.
`g` states the one fact about the lexer this needs: `addVariable` keys a variable by the text
of its pattern, and across the rule set equal pattern text means equal pattern tokens. -/
theorem accepted_rules_are_routed (conv) (hconv : ∀ f t, conv f t = true) (g : Bytes → List Tok)
    (rs : List (Rule × Nat × (List Bytes → Option Nat))) (t : Node)
    (hb : buildAll Gen.tokenCap rs .empty = .ok t)
    (hg : ∀ e ∈ rs, ∀ b ∈ e.1.bindings, BindingG Gen.tokenCap g e.2.2 b)
    (e) (he : e ∈ rs) (b : Binding) (hbm : b ∈ e.1.bindings) (verb : Bytes) (toks : List Tok)
    (hr : Routed Gen.tokenCap e.2.2 b verb toks) :
    ∃ m caps, search conv verb t toks = .found m caps := by
  obtain ⟨es', hw⟩ := buildAll_way Gen.tokenCap g rs .empty t hb (NFg_empty g) hg e he b hbm verb toks hr
  exact way_dispatched conv hconv verb t toks es' hw 0 (buildAll_WF Gen.tokenCap rs .empty t (WF_empty 0) hb)

/-- **No later registration takes a route away**: a request the router dispatches keeps being
dispatched after any further accepted registrations (to the same or a more specific binding). -/
theorem dispatch_survives_registrations (conv) (hconv : ∀ f t, conv f t = true)
    (rs more : List (Rule × Nat × (List Bytes → Option Nat))) (t t' : Node)
    (hb : buildAll Gen.tokenCap rs .empty = .ok t) (hm : buildAll Gen.tokenCap more t = .ok t')
    (verb : Bytes) (toks : List Tok) (m : Meth) (caps : Caps)
    (hs : search conv verb t toks = .found m caps) :
    ∃ m' caps', search conv verb t' toks = .found m' caps' := by
  obtain ⟨es, hre⟩ := search_sound conv verb t toks m caps hs
  have hw := buildAll_ext Gen.tokenCap more t t' hm verb toks es (reach_way conv verb t toks m caps es hre)
  have hwf := buildAll_WF Gen.tokenCap more t t' (buildAll_WF Gen.tokenCap rs .empty t (WF_empty 0) hb) hm
  exact way_dispatched conv hconv verb t' toks es hw 0 hwf

/-- **No deletion takes another method's route away**: on the trie built by any accepted
registrations, a request the router dispatches to a method that is NOT the one being removed
still has its way — same edges, same captures — and is still dispatched after `path.delRule`
ran for `name` any number of times (`DropConn`, re-registration of a changed connection), with
every pruning of dead nodes on the way back up (`path.alive`, regenerated: `Gen.aliveCounts`). -/
theorem dispatch_survives_deletions (conv) (hconv : ∀ f t, conv f t = true)
    (rs : List (Rule × Nat × (List Bytes → Option Nat))) (t : Node)
    (hb : buildAll Gen.tokenCap rs .empty = .ok t) (name fuel : Nat)
    (verb : Bytes) (toks : List Tok) (m : Meth) (caps : Caps)
    (hs : search conv verb t toks = .found m caps) (hne : m.mid ≠ name) :
    (∃ es, Reach conv verb (delAll Gen.aliveCounts name fuel t) toks m caps es) ∧
    ∃ m' caps', search conv verb (delAll Gen.aliveCounts name fuel t) toks = .found m' caps' := by
  have hal : AliveSound Gen.aliveCounts := by unfold AliveSound; decide
  obtain ⟨es, hre⟩ := search_sound conv verb t toks m caps hs
  have hre' := delAll_keeps_reach Gen.aliveCounts hal conv verb name fuel t toks m caps es hre hne
  have hwf := delAll_wf Gen.aliveCounts name fuel 0 t (buildAll_WF Gen.tokenCap rs .empty t (WF_empty 0) hb)
  exact ⟨⟨es, hre'⟩, search_complete conv verb hconv _ toks m caps es hre' 0 hwf⟩

/-- … one deletion step, stated on any well-formed trie. -/
theorem delRule_keeps_ways (conv) (verb : Bytes) (name k : Nat) (n n' : Node) (hwf : WF k n)
    (hd : delRule Gen.aliveCounts name n = some n') (toks : List Tok) (m : Meth) (caps : Caps)
    (es : List Edge) (hr : Reach conv verb n toks m caps es) (hne : m.mid ≠ name) :
    Reach conv verb n' toks m caps es ∧ WF k n' :=
  ⟨delRule_keeps_reach Gen.aliveCounts (by unfold AliveSound; decide) conv verb name n toks m caps es hr hne n' hd,
   delRule_wf Gen.aliveCounts name k n n' hwf hd⟩

/-- not vacuous, and the pruning really happens: removing method 1's `GET /p/x` from a trie that
also holds method 2's `GET /p` prunes `/p/x` and keeps `/p`. -/
example :
    let mA : Meth := ⟨1, [], 0⟩
    let mB : Meth := ⟨2, [], 1⟩
    let x : Node := .mk [] [([71, 69, 84], mA)] none []
    let pn : Node := .mk [([47, 120], x)] [([71, 69, 84], mB)] none []
    let root : Node := .mk [([47, 112], pn)] [] none []
    delRule Gen.aliveCounts 1 root = some (.mk [([47, 112], .mk [] [([71, 69, 84], mB)] none [])] [] none []) := by
  rfl

/-- **`variable.index` finds every greedy instance of a sub-pattern** (`GMatch`: literals and
'/' token for token, `*` the maximal run of non-separator tokens, `**` everything up to the
verb): the capture it reports is exactly the instance. The converse is `capture_matches_pattern`
(C01). -/
theorem variable_index_complete (pat cap rest : List Tok) (h : GMatch pat cap rest) (i : Nat) :
    varIndex pat (cap ++ rest) i = .ok (some (i + cap.length)) :=
  varIndex_complete pat cap rest h i

/-- **determinism of captures**: a request has at most one greedy instance of a variable's
sub-pattern in front of it, so what a variable captures depends on the request alone. -/
theorem capture_unique (pat cap1 rest1 cap2 rest2 : List Tok)
    (h1 : GMatch pat cap1 rest1) (h2 : GMatch pat cap2 rest2) (he : cap1 ++ rest1 = cap2 ++ rest2) :
    cap1 = cap2 ∧ rest1 = rest2 :=
  greedy_instance_unique pat cap1 rest1 cap2 rest2 h1 h2 he

/-- `accepted_rules_are_routed` with the request described declaratively: `EdgeInst` reads the
binding's edges as a pattern — a literal or verb edge is the next two request tokens spelled out,
a variable edge covers a non-empty greedy instance of its sub-pattern — with no reference to
`variable.index`. -/
theorem accepted_rules_route_their_instances (conv) (hconv : ∀ f t, conv f t = true) (g : Bytes → List Tok)
    (rs : List (Rule × Nat × (List Bytes → Option Nat))) (t : Node)
    (hb : buildAll Gen.tokenCap rs .empty = .ok t)
    (hg : ∀ e ∈ rs, ∀ b ∈ e.1.bindings, BindingG Gen.tokenCap g e.2.2 b)
    (e) (he : e ∈ rs) (b : Binding) (hbm : b ∈ e.1.bindings) (es : List Edge)
    (hes : bindingEdges Gen.tokenCap e.2.2 b = some es) (verb : Bytes) (toks : List Tok)
    (hi : EdgeInst es toks) (hk : b.verb = starVerb ∨ verb = b.verb) :
    ∃ m caps, search conv verb t toks = .found m caps :=
  accepted_rules_are_routed conv hconv g rs t hb hg e he b hbm verb toks
    ⟨es, hes, edgeInst_edgeMatch es toks hi, hk⟩

/-- … and for a binding whose template is of the documented grammar, the edges are the grammar's
own reading of the template (`Tmpl.edges`: `"/"+literal`, `":"+verb`, one variable edge per `*`,
`**` or `{field=pattern}`). -/
theorem grammar_binding_edges (resolve : List Bytes → Option Nat) (b : Binding) (t : Tmpl)
    (ht : t.Wf) (hb : b.tmpl = t.render) (hcap : t.toks.length ≤ Gen.tokenCap) (hres : t.Resolves resolve) :
    bindingEdges Gen.tokenCap resolve b = some t.edges :=
  bindingEdges_of_grammar Gen.tokenCap resolve b t ht hb hcap hres

/-- **String level, literal templates** (every method's implicit `/pkg.Service/Method` route is
one): for every accepted list of rules, a binding whose template is
`"/" LITERAL { "/" LITERAL } [ ":" LITERAL ]`, and a request whose path is that very text (its
segments being path characters, '/' and ':' spelled in ASCII), `path.match` dispatches the
request for the binding's kind — lexTemplate, addRule's token loop, the insertion, every later
insertion, lexPath and the search composed. -/
theorem literal_route_dispatches (conv) (hconv : ∀ f t, conv f t = true) (g : Bytes → List Tok)
    (rs : List (Rule × Nat × (List Bytes → Option Nat))) (t : Node)
    (hb : buildAll Gen.tokenCap rs .empty = .ok t)
    (hg : ∀ e ∈ rs, ∀ b ∈ e.1.bindings, BindingG Gen.tokenCap g e.2.2 b)
    (e) (he : e ∈ rs) (b : Binding) (hbm : b ∈ e.1.bindings)
    (l : LitTmpl) (hwf : l.toTmpl.Wf) (hbt : b.tmpl = l.toTmpl.render)
    (hcap : l.toTmpl.toks.length ≤ Gen.tokenCap)
    (hpath : WfPath l.segs) (hpcap : 2 * l.segs.length + 1 ≤ Gen.tokenCap) (ha : l.Ascii)
    (verb : Bytes) (hk : b.verb = starVerb ∨ verb = b.verb) :
    ∃ m caps, matchPath Gen.tokenCap conv t b.tmpl verb = .found m caps := by
  have hes := grammar_binding_edges e.2.2 b l.toTmpl hwf hbt hcap (l.resolves e.2.2)
  have hi := l.edgeInst ha (l.seps_of_wf hwf)
  obtain ⟨m, caps, hs⟩ := accepted_rules_route_their_instances conv hconv g rs t hb hg e he b hbm
    l.toTmpl.edges hes verb _ hi hk
  refine ⟨m, caps, ?_⟩
  simp only [matchPath, hbt, l.render_eq, lexPath_complete Gen.tokenCap l.segs hpath hpcap, hs]

/-- **Order independence of registration.** Take the bindings of a rule list (primary and
additional, none nested) in ANY other order — rules permuted, bindings moved between positions:
if the first list is accepted, so is the second, and the two tries are EQUAL (Go's maps being
kept in a canonical sorted form, the variables slice being sorted by the code itself), so every
request is routed identically. Hypotheses: no two bindings end in the same slot — the same way
through the trie and the same kind (two methods there are refused in either order; two bindings
of one method there are the recorded order dependence, `KNOWN_FINDINGS`) — and equal pattern text
means equal pattern tokens (`g`). -/
theorem registration_order_independent (g : Bytes → List Tok)
    (rs1 rs2 : List (Rule × Nat × (List Bytes → Option Nat)))
    (hperm : (stepsOf rs1).Perm (stepsOf rs2))
    (hn1 : ∀ e ∈ rs1, ∀ p ∈ e.1.additional, p.2 = false)
    (hn2 : ∀ e ∈ rs2, ∀ p ∈ e.1.additional, p.2 = false)
    (hslots : (stepsOf rs1).Pairwise (DistinctSlots Gen.tokenCap))
    (hg : ∀ s ∈ stepsOf rs1, BindingG Gen.tokenCap g s.resolve s.b)
    (t : Node) (h : buildAll Gen.tokenCap rs1 .empty = .ok t) :
    buildAll Gen.tokenCap rs2 .empty = .ok t := by
  rw [buildAll_eq_addAll Gen.tokenCap rs1 .empty hn1] at h
  rw [buildAll_eq_addAll Gen.tokenCap rs2 .empty hn2]
  exact addAll_perm Gen.tokenCap g _ _ hperm hslots hg .empty t h

/-- … in particular for the rules themselves in any other order. -/
theorem rule_order_independent (g : Bytes → List Tok)
    (rs1 rs2 : List (Rule × Nat × (List Bytes → Option Nat))) (hperm : rs1.Perm rs2)
    (hn1 : ∀ e ∈ rs1, ∀ p ∈ e.1.additional, p.2 = false)
    (hslots : (stepsOf rs1).Pairwise (DistinctSlots Gen.tokenCap))
    (hg : ∀ s ∈ stepsOf rs1, BindingG Gen.tokenCap g s.resolve s.b)
    (t : Node) (h : buildAll Gen.tokenCap rs1 .empty = .ok t) (conv) (verb : Bytes) (toks : List Tok) :
    ∃ t2, buildAll Gen.tokenCap rs2 .empty = .ok t2 ∧ search conv verb t2 toks = search conv verb t toks :=
  ⟨t, registration_order_independent g rs1 rs2 (hperm.flatMap_right _) hn1
    (fun e he => hn1 e (hperm.mem_iff.mpr he)) hslots hg t h, rfl⟩

/-- two bindings, either order: the same trie (the adjacent swap everything above is built from). -/
theorem two_bindings_commute (g : Bytes → List Tok) (s1 s2 : Step) (t a ab : Node)
    (hg1 : BindingG Gen.tokenCap g s1.resolve s1.b) (hg2 : BindingG Gen.tokenCap g s2.resolve s2.b)
    (hd : DistinctSlots Gen.tokenCap s1 s2)
    (h1 : addBinding Gen.tokenCap s1.resolve t s1.b s1.mid = .ok a)
    (h2 : addBinding Gen.tokenCap s2.resolve a s2.b s2.mid = .ok ab) :
    ∃ b, addBinding Gen.tokenCap s2.resolve t s2.b s2.mid = .ok b ∧
      addBinding Gen.tokenCap s1.resolve b s1.b s1.mid = .ok ab :=
  addBinding_swap Gen.tokenCap g s1 s2 t a ab hg1 hg2 hd h1 h2

/-- a binding of the documented grammar (as `grammar_templates_lex` reads it), within the token array,
its field paths resolving, its runes spelled as UTF-8 spells them ('*' and '/' in ASCII; the bytes
of a literal rune contain neither). -/
def GrammarBinding (resolve : List Bytes → Option Nat) (b : Binding) : Prop :=
  ∃ t : Tmpl, t.Wf ∧ b.tmpl = t.render ∧ t.toks.length ≤ Gen.tokenCap ∧ t.Resolves resolve ∧ tmplAscii t

/-- **the lexer fact is a theorem for the documented grammar**: the text of a canonical sub-pattern
determines its tokens (`toksString_inj`), so every grammar binding obeys one and the same function
`gCanon` from pattern text to pattern tokens — the hypothesis `BindingG` of the theorems above. -/
theorem grammar_binding_obeys_g (resolve : List Bytes → Option Nat) (b : Binding) (h : GrammarBinding resolve b) :
    BindingG Gen.tokenCap gCanon resolve b := by
  obtain ⟨t, ht, hb, hcap, hres, ha⟩ := h
  exact grammar_bindingG Gen.tokenCap resolve b t ht hb hcap hres ha

/-- `accepted_rules_are_routed` for rule sets of the documented grammar — no hypothesis about the lexer left. -/
theorem grammar_rules_are_routed (conv) (hconv : ∀ f t, conv f t = true)
    (rs : List (Rule × Nat × (List Bytes → Option Nat))) (t : Node)
    (hb : buildAll Gen.tokenCap rs .empty = .ok t)
    (hgr : ∀ e ∈ rs, ∀ b ∈ e.1.bindings, GrammarBinding e.2.2 b)
    (e) (he : e ∈ rs) (b : Binding) (hbm : b ∈ e.1.bindings) (verb : Bytes) (toks : List Tok)
    (hr : Routed Gen.tokenCap e.2.2 b verb toks) :
    ∃ m caps, search conv verb t toks = .found m caps :=
  accepted_rules_are_routed conv hconv gCanon rs t hb
    (fun e' he' b' hb' => grammar_binding_obeys_g e'.2.2 b' (hgr e' he' b' hb')) e he b hbm verb toks hr

/-- `rule_order_independent` for rule sets of the documented grammar. -/
theorem grammar_rule_order_independent
    (rs1 rs2 : List (Rule × Nat × (List Bytes → Option Nat))) (hperm : rs1.Perm rs2)
    (hn1 : ∀ e ∈ rs1, ∀ p ∈ e.1.additional, p.2 = false)
    (hslots : (stepsOf rs1).Pairwise (DistinctSlots Gen.tokenCap))
    (hgr : ∀ e ∈ rs1, ∀ b ∈ e.1.bindings, GrammarBinding e.2.2 b)
    (t : Node) (h : buildAll Gen.tokenCap rs1 .empty = .ok t) (conv) (verb : Bytes) (toks : List Tok) :
    ∃ t2, buildAll Gen.tokenCap rs2 .empty = .ok t2 ∧ search conv verb t2 toks = search conv verb t toks := by
  refine rule_order_independent gCanon rs1 rs2 hperm hn1 hslots ?_ t h conv verb toks
  intro s hs
  simp only [stepsOf, List.mem_flatMap, ruleSteps, List.mem_map] at hs
  obtain ⟨e, he, b, hb, rfl⟩ := hs
  exact grammar_binding_obeys_g e.2.2 b (hgr e he b hb)

-- non-vacuity: GET "/v/{a=s/*}" and the request tokens of "/v/s/x"
private def pu (c : Nat) : Rune := ⟨[UInt8.ofNat c], c, false, false, false, false⟩
private def le (c : Nat) : Rune := ⟨[UInt8.ofNat c], c, true, true, true, true⟩
private def bEx : Binding :=
  { verb := [71, 69, 84], tmpl := [pu 47, le 118, pu 47, pu 123, le 97, pu 61, le 115, pu 47, pu 42, pu 125],
    bodyOk := true, respOk := true, rule := 0 }
private def esEx : List Edge :=
  [.seg [47, 118], .var ⟨[115, 47, 42], [⟨.literal, [115]⟩, ⟨.slash, [47]⟩, ⟨.star, [42]⟩]⟩]
private def reqEx : List Tok :=
  [⟨.slash, [47]⟩, ⟨.path, [118]⟩, ⟨.slash, [47]⟩, ⟨.path, [115]⟩, ⟨.slash, [47]⟩, ⟨.path, [120]⟩, ⟨.eof, []⟩]
example : bindingEdges Gen.tokenCap (fun _ => some 0) bEx = some esEx := by decide
example : Routed Gen.tokenCap (fun _ => some 0) bEx [71, 69, 84] reqEx :=
  ⟨esEx, by decide,
    .seg ⟨.slash, [47]⟩ ⟨.path, [118]⟩ _ _
      (.var _ ⟨.slash, [47]⟩ _ 4 [] rfl (by decide) (by decide) (.nil _ (by decide))),
    Or.inr rfl⟩
example : EdgeInst esEx reqEx :=
  .seg ⟨.slash, [47]⟩ ⟨.path, [118]⟩ _ _
    (.var _ ⟨.slash, [47]⟩ [⟨.path, [115]⟩, ⟨.slash, [47]⟩, ⟨.path, [120]⟩, ⟨.eof, []⟩] [] [] rfl (by simp)
      (.literal _ _ _ _ _ rfl rfl rfl
        (.slash _ _ _ _ _ rfl rfl
          (.star _ [] [⟨.path, [120]⟩, ⟨.eof, []⟩] [] [] rfl (by simp) (by decide) (by simp) (.nil []))))
      (.nil [] (by simp)))
private def lEx : LitTmpl :=
  { slash := pu 47, first := [le 97], more := [(pu 47, [le 98])], verb := some (pu 58, [le 99]) }   -- "/a/b:c"
example : lEx.toTmpl.Wf ∧ WfPath lEx.segs ∧ lEx.Ascii ∧ lEx.toTmpl.toks.length ≤ Gen.tokenCap := by
  refine ⟨⟨by decide, ⟨⟨_, _, rfl, rfl⟩, by decide⟩, ?_, by decide, by decide, by decide⟩, ?_, ?_, by decide⟩
  · intro p hp
    simp only [lEx, LitTmpl.toTmpl, List.map_cons, List.map_nil, List.mem_singleton] at hp
    subst hp
    exact ⟨by decide, ⟨⟨_, _, rfl, rfl⟩, by decide⟩⟩
  · intro p hp
    simp only [lEx, LitTmpl.segs, Option.toList, List.cons_append, List.nil_append, List.mem_cons, List.mem_nil_iff, or_false] at hp
    rcases hp with h | h | h <;> subst h <;> decide
  · refine ⟨by decide, ?_, ?_⟩
    · intro p hp
      simp only [lEx, List.mem_singleton] at hp
      subst hp; decide
    · intro p hp
      simp only [lEx, Option.some.injEq] at hp
      subst hp; decide
-- non-vacuity of the order theorems: GET "/v/{a=s/*}" for method 1 and POST on the same template for method 2
private def rsEx : List (Rule × Nat × (List Bytes → Option Nat)) :=
  [(⟨bEx, []⟩, 1, fun _ => some 0), (⟨{ bEx with verb := [80, 79, 83, 84], rule := 1 }, []⟩, 2, fun _ => some 0)]
example : (stepsOf rsEx).Pairwise (DistinctSlots Gen.tokenCap) := by
  simp only [stepsOf, rsEx, ruleSteps, Rule.bindings, List.flatMap_cons, List.flatMap_nil, List.map_cons, List.map_nil,
    List.append_nil, List.singleton_append, List.pairwise_cons, List.mem_singleton, forall_eq,
    List.not_mem_nil, false_imp_iff, implies_true, List.Pairwise.nil, and_true]
  unfold DistinctSlots
  decide
example : ∃ t, buildAll Gen.tokenCap rsEx .empty = .ok t ∧ buildAll Gen.tokenCap rsEx.reverse .empty = .ok t :=
  ⟨_, rfl, rfl⟩
-- non-vacuity of GrammarBinding: bEx's template "/v/{a=s/*}" as a template of the grammar
private def tEx : Tmpl :=
  { slash := pu 47, first := .simple (.lit [le 118]),
    more := [(pu 47, .var { lbrace := pu 123, ident := [le 97], dotted := [],
                            sub := some (pu 61, .lit [le 115], [(pu 47, .star (pu 42))]), rbrace := pu 125 })],
    verb := none }
example : bEx.tmpl = tEx.render ∧ tEx.toks.length ≤ Gen.tokenCap ∧ tEx.Resolves (fun _ => some 0) := by
  refine ⟨by decide, by decide, trivial, ?_⟩
  intro p hp
  simp only [tEx, List.mem_singleton] at hp
  subst hp
  rfl
example : tmplAscii tEx := by
  refine ⟨⟨by decide, ?_⟩, ?_⟩
  · intro r hr
    simp only [List.mem_singleton] at hr
    subst hr
    exact ⟨by decide, by decide⟩
  · intro p hp
    simp only [tEx, List.mem_singleton] at hp
    subst hp
    refine ⟨⟨by decide, ?_⟩, ?_⟩
    · intro r hr
      simp only [List.mem_singleton] at hr
      subst hr
      exact ⟨by decide, by decide⟩
    · intro q hq
      simp only [List.mem_singleton] at hq
      subst hq
      exact ⟨by decide, (by decide : (pu 42).bytes = [42])⟩
example : tEx.Wf := by
  refine ⟨by decide, ⟨⟨_, _, rfl, rfl⟩, by decide⟩, ?_, trivial⟩
  intro p hp
  simp only [tEx, List.mem_singleton] at hp
  subst hp
  refine ⟨by decide, by decide, by decide, by decide, by decide, ⟨by decide, ⟨⟨_, _, rfl, rfl⟩, by decide⟩, ?_⟩⟩
  intro q hq
  simp only [List.mem_singleton] at hq
  subst hq
  exact ⟨by decide, (by decide : Punct cStar (pu 42))⟩
example : BindingG Gen.tokenCap (fun _ => [⟨.literal, [115]⟩, ⟨.slash, [47]⟩, ⟨.star, [42]⟩]) (fun _ => some 0) bEx := by
  intro es he e hmem
  have h2 : bindingEdges Gen.tokenCap (fun _ => some 0) bEx = some esEx := by decide
  rw [h2] at he; injection he with he; subst he
  simp only [esEx, List.mem_cons, List.mem_nil_iff, or_false] at hmem
  rcases hmem with h | h <;> subst h <;> simp [edgeG]

end Larking.Props.C02

#print axioms Larking.Props.C02.translator_complete
#print axioms Larking.Props.C02.skeleton_unchanged
#print axioms Larking.Props.C02.route_complete
#print axioms Larking.Props.C02.literal_beats_variable
#print axioms Larking.Props.C02.variable_after_failed_literal
#print axioms Larking.Props.C02.documented_chars_accepted
#print axioms Larking.Props.C02.separators_not_path
#print axioms Larking.Props.C02.upsertVar_order_independent
#print axioms Larking.Props.C02.documented_paths_lex
#print axioms Larking.Props.C02.accepted_rules_are_routed
#print axioms Larking.Props.C02.dispatch_survives_registrations
#print axioms Larking.Props.C02.dispatch_survives_deletions
#print axioms Larking.Props.C02.delRule_keeps_ways
#print axioms Larking.Props.C02.variable_index_complete
#print axioms Larking.Props.C02.accepted_rules_route_their_instances
#print axioms Larking.Props.C02.grammar_binding_edges
#print axioms Larking.Props.C02.literal_route_dispatches
#print axioms Larking.Props.C02.registration_order_independent
#print axioms Larking.Props.C02.rule_order_independent
#print axioms Larking.Props.C02.two_bindings_commute
#print axioms Larking.Props.C02.grammar_binding_obeys_g
#print axioms Larking.Props.C02.grammar_rules_are_routed
#print axioms Larking.Props.C02.grammar_rule_order_independent
#print axioms Larking.Props.C02.capture_unique
