import Larking.Gen.Skel
import Larking.Gen.Params
import Larking.Gen.Missing
import Larking.Expected.C03
import Larking.Lemmas.Param
/-
  C03 — Transcoded request reconstruction.  The text conversions that larking + encoding/json
  decide (the five integer families, bool, bytes) are modelled byte for byte and proved for
  every value; `params.set` is modelled on an abstract message.  float/double text,
  protojson-parsed well-known types, the body codecs and gzip are library parameters that the
  correspondence run exercises (see DESIGN).
-/
namespace Larking.Props.C03
open Larking Larking.Param

theorem translator_complete : Gen.missing = [] := by decide

theorem skeleton_unchanged :
    (Gen.Skel.conds_parseParam,
     Gen.Skel.stmts_parseParam,
     Gen.Skel.conds_quote,
     Gen.Skel.stmts_quote,
     Gen.Skel.conds_params_set,
     Gen.Skel.stmts_params_set,
     Gen.Skel.conds_method_parseQueryParams,
     Gen.Skel.stmts_method_parseQueryParams,
     Gen.Skel.conds_fieldPath,
     Gen.Skel.stmts_fieldPath,
     Gen.Skel.conds_streamHTTP_RecvMsg,
     Gen.Skel.stmts_streamHTTP_RecvMsg,
     Gen.Skel.conds_streamHTTP_decodeRequestArgs,
     Gen.Skel.stmts_streamHTTP_decodeRequestArgs,
     Gen.Skel.conds_streamHTTP_getCodec,
     Gen.Skel.stmts_streamHTTP_getCodec,
     Gen.Skel.conds_Mux_ServeHTTP,
     Gen.Skel.stmts_Mux_ServeHTTP,
     Gen.Skel.conds_Mux_match,
     Gen.Skel.stmts_Mux_match)
  = (Expected.C03.conds_parseParam,
     Expected.C03.stmts_parseParam,
     Expected.C03.conds_quote,
     Expected.C03.stmts_quote,
     Expected.C03.conds_params_set,
     Expected.C03.stmts_params_set,
     Expected.C03.conds_method_parseQueryParams,
     Expected.C03.stmts_method_parseQueryParams,
     Expected.C03.conds_fieldPath,
     Expected.C03.stmts_fieldPath,
     Expected.C03.conds_streamHTTP_RecvMsg,
     Expected.C03.stmts_streamHTTP_RecvMsg,
     Expected.C03.conds_streamHTTP_decodeRequestArgs,
     Expected.C03.stmts_streamHTTP_decodeRequestArgs,
     Expected.C03.conds_streamHTTP_getCodec,
     Expected.C03.stmts_streamHTTP_getCodec,
     Expected.C03.conds_Mux_ServeHTTP,
     Expected.C03.stmts_Mux_ServeHTTP,
     Expected.C03.conds_Mux_match,
     Expected.C03.stmts_Mux_match) := rfl

/-- **exact conversion**: every value of every integer kind, written as proto3 JSON writes it
in a URL (plain decimal), is converted to exactly that value. -/
theorem int_exact (k : IntKind) (v : Int) (hmin : k.min ≤ v) (hmax : v ≤ k.max) :
    parseInt k (printInt v) = some v := parseInt_print k v hmin hmax

/-- **no coercion**: whatever integer text is accepted is `null` or a canonical JSON integer
literal denoting exactly the result, within the kind's range; a sign only for signed kinds.
So fractions, exponents, '+', leading zeros, quotes, hex, overflow are all refused. -/
theorem int_no_coercion (k : IntKind) (raw : Bytes) (v : Int) (h : parseInt k raw = some v) :
    (trimWS raw = nullLit ∧ v = 0) ∨
    ∃ (neg : Bool) (ds : Bytes), trimWS raw = (if neg then 45 :: ds else ds) ∧ isNatLit ds = true ∧
      v = (if neg then -(digitsVal ds : Int) else (digitsVal ds : Int)) ∧ k.min ≤ v ∧ v ≤ k.max ∧
      (neg = true → k.signed = true) := parseInt_sound k raw v h

/-- bool: only `true`, `false` and `null` (JSON whitespace aside) are accepted. -/
theorem bool_no_coercion (raw : Bytes) (b : Bool) (h : parseBool raw = some b) :
    (trimWS raw = [116, 114, 117, 101] ∧ b = true) ∨ (trimWS raw = [102, 97, 108, 115, 101] ∧ b = false) ∨
    (trimWS raw = nullLit ∧ b = false) := parseBool_sound raw b h

/-- **bytes**: every byte string in any of the four base64 forms protojson accepts (standard
or URL alphabet, padded or not) is decoded back exactly. -/
theorem bytes_exact (url pad : Bool) (bs : Bytes) :
    parseBytes (Base64.encode url pad bs) = some bs := parseBytes_roundtrip url pad bs

/-- fields no parameter names keep what the body decoded into them. -/
theorem untouched_fields (body : Msg) (query path : List P) (fp : Nat)
    (hq : ∀ q ∈ query, q.fp ≠ fp) (hp : ∀ q ∈ path, q.fp ≠ fp) :
    (decodeRequest Gen.pathParamsLast body query path).get fp = body.get fp := by
  apply setAll_other
  intro q hq'
  have : q ∈ query ∨ q ∈ path := by
    simp only [decodeRequest, Gen.pathParamsLast, if_true, List.mem_append] at hq'
    exact hq'
  rcases this with h | h
  · exact hq q h
  · exact hp q h

/-- a singular field named once in the URL gets exactly that value, whatever else is sent. -/
theorem singular_field (body : Msg) (pre post : List P) (p : P) (hs : p.repeated = false)
    (hpost : ∀ q ∈ post, q.fp ≠ p.fp) :
    (setAll body (pre ++ p :: post)).get p.fp = [p.val] := last_write_wins body pre post p hs hpost

/-- a repeated field gets every URL occurrence appended in order. -/
theorem repeated_field (body : Msg) (query path : List P) (fp : Nat)
    (h : ∀ p ∈ query ++ path, p.fp = fp → p.repeated = true) :
    (decodeRequest Gen.pathParamsLast body query path).get fp
      = body.get fp ++ (((query ++ path).filter (fun p => p.fp == fp)).map (·.val)) := by
  simp only [decodeRequest, Gen.pathParamsLast, if_true]
  exact repeated_appends _ body fp h

-- non-vacuity
example : parseInt ⟨true, 32⟩ [45, 50, 49, 52, 55, 52, 56, 51, 54, 52, 56] = some (-2147483648) := by decide  -- "-2147483648"
example : parseInt ⟨true, 32⟩ [50, 49, 52, 55, 52, 56, 51, 54, 52, 56] = none := by decide      -- "2147483648"
example : parseInt ⟨false, 32⟩ [45, 48] = none := by decide                                   -- "-0"
example : parseInt ⟨true, 64⟩ [49, 46, 48] = none := by decide                                -- "1.0"
example : parseInt ⟨true, 64⟩ [48, 49] = none := by decide                                    -- "01"
example : parseBytes [81, 81, 61, 61] = some [65] := by decide                                -- "QQ=="
example : parseBytes [81, 81] = some [65] := by decide                                        -- "QQ"
example : (decodeRequest true [] [⟨1, true, [97]⟩, ⟨1, true, [98]⟩] []).get 1 = [[97], [98]] := by decide

/-- **enum numbers are open**: every int32 number, written in decimal, is accepted for every
enum and converted to exactly that number — whether or not the enum declares a value for it
(proto3 enums are open; the number is the only URL spelling of such a value). -/
theorem enum_number_open (names : List (Bytes × Int)) (v : Int)
    (hmin : (⟨true, 32⟩ : IntKind).min ≤ v) (hmax : v ≤ (⟨true, 32⟩ : IntKind).max) :
    parseEnum names (printInt v) = some v := by
  simp only [parseEnum, parseInt_print ⟨true, 32⟩ v hmin hmax]

/-- **enum names**: a text that is not a number is looked up among the declared names and
converted to the number declared for it (the first declaration of that name). -/
theorem enum_name_exact (names : List (Bytes × Int)) (raw : Bytes) (v : Int)
    (hnum : parseInt ⟨true, 32⟩ raw = none) (hl : lookupName names raw = some v) :
    parseEnum names raw = some v := by
  simp only [parseEnum, hnum, hl]

/-- **no coercion**: an accepted enum text is an int32 literal (or `null`) denoting the result, or
exactly one of the declared names; anything else — a misspelt or differently cased name, a
fraction, a number out of the int32 range — is refused. -/
theorem enum_no_coercion (names : List (Bytes × Int)) (raw : Bytes) (v : Int)
    (h : parseEnum names raw = some v) :
    parseInt ⟨true, 32⟩ raw = some v ∨ (∃ p ∈ names, p.1 = raw ∧ p.2 = v) := by
  simp only [parseEnum] at h
  cases hp : parseInt ⟨true, 32⟩ raw with
  | some x => rw [hp] at h; simp at h; exact Or.inl (by rw [h])
  | none =>
    rw [hp] at h
    simp only at h
    right
    induction names with
    | nil => simp [lookupName] at h
    | cons q rest ih =>
      obtain ⟨n, w⟩ := q
      simp only [lookupName] at h
      split at h
      · rename_i hn
        injection h with h
        exact ⟨(n, w), by simp, by simpa using hn, h⟩
      · obtain ⟨p, hp1, hp2⟩ := ih h
        exact ⟨p, by simp [hp1], hp2⟩

/-- string fields receive the text itself. -/
theorem string_exact (raw : Bytes) : parseString raw = raw := rfl

example : parseEnum [([65], 1), ([66, 67], 2)] [55] = some 7 ∧ parseEnum [([65], 1), ([66, 67], 2)] [66, 67] = some 2 ∧
    parseEnum [([65], 1), ([66, 67], 2)] [98, 99] = none ∧ parseEnum [([65], 1)] [49, 46, 53] = none := by decide

end Larking.Props.C03

#print axioms Larking.Props.C03.translator_complete
#print axioms Larking.Props.C03.skeleton_unchanged
#print axioms Larking.Props.C03.int_exact
#print axioms Larking.Props.C03.int_no_coercion
#print axioms Larking.Props.C03.bool_no_coercion
#print axioms Larking.Props.C03.bytes_exact
#print axioms Larking.Props.C03.untouched_fields
#print axioms Larking.Props.C03.singular_field
#print axioms Larking.Props.C03.repeated_field
#print axioms Larking.Props.C03.enum_number_open
#print axioms Larking.Props.C03.enum_name_exact
#print axioms Larking.Props.C03.enum_no_coercion
#print axioms Larking.Props.C03.string_exact
