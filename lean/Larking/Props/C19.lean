import Larking.Gen.Skel
import Larking.Gen.Health
import Larking.Gen.Missing
import Larking.Expected.C19
import Larking.Lemmas.Selector
/-
  C19 — Service-config rules bind exactly the selected methods.
-/
namespace Larking.Props.C19
open Larking Larking.Selector

theorem translator_complete : Gen.missing = [] := by decide

theorem skeleton_unchanged :
    (Gen.Skel.conds_ruleSelector_getRules,
     Gen.Skel.stmts_ruleSelector_getRules,
     Gen.Skel.conds_ruleSelector_setRules,
     Gen.Skel.stmts_ruleSelector_setRules,
     Gen.Skel.conds_AddHealthz,
     Gen.Skel.stmts_AddHealthz)
  = (Expected.C19.conds_ruleSelector_getRules,
     Expected.C19.stmts_ruleSelector_getRules,
     Expected.C19.conds_ruleSelector_setRules,
     Expected.C19.stmts_ruleSelector_setRules,
     Expected.C19.conds_AddHealthz,
     Expected.C19.stmts_AddHealthz) := rfl

/-- `setRules` followed by `getRules(name)`: rule `j` is returned **iff** its selector is the
method's qualified name or a trailing-wildcard pattern covering it — for every set of
well-formed selectors and every name; and `setRules` does not panic on them. -/
theorem getRules_spec (sels : List (List String)) (hall : ∀ s ∈ sels, okSel s = true) :
    ∃ t, setRules sels = .ok t ∧
      ∀ name, okName name = true → ∀ j, j ∈ t.get name ↔ ∃ sel, sels[j]? = some sel ∧ selects sel name := by
  obtain ⟨t, ht, hg⟩ := build_spec sels 0 .empty hall
  refine ⟨t, ht, ?_⟩
  intro name hn j
  rw [hg name hn j]
  simp only [empty_get, List.not_mem_nil, false_or, Nat.zero_add]
  constructor
  · rintro ⟨k, sel, hk, rfl, hs⟩; exact ⟨sel, hk, hs⟩
  · rintro ⟨sel, hk, hs⟩; exact ⟨j, sel, hk, rfl, hs⟩

/-- an exact selector never covers a longer or different name, a wildcard never covers its
own prefix (the two historical over-bindings). -/
theorem exact_is_not_prefix (p more : List String) (hm : more ≠ []) (hp : ∀ c ∈ p, c ≠ "*") :
    ¬ selects p (p ++ more) := by
  intro h
  rcases h with h | ⟨q, m2, h1, _, _⟩
  · have : p.length = (p ++ more).length := by rw [← h]
    simp at this; exact hm this
  · have : "*" ∈ p := by rw [h1]; simp
    exact hp "*" this rfl

theorem wildcard_not_on_own_name (p : List String) (hp : ∀ c ∈ p, c ≠ "*") : ¬ selects (p ++ ["*"]) p := by
  intro h
  rcases h with h | ⟨q, m2, h1, h2, h3⟩
  · have : (p ++ ["*"]).length = p.length := by rw [h]
    simp at this
  · have hq : q = p := by
      have := List.append_inj_left' h1 rfl
      exact this.symm
    subst hq
    have : q.length = (q ++ m2).length := by rw [← h3]
    simp at this; exact h2 this

/-- health.AddHealthz: Check on GET /v1/healthz, Watch on WEBSOCKET /v1/healthz, nothing else. -/
def Spec.healthzRules : List (String × String × String) :=
  [("grpc.health.v1.Health.Check", "GET", "/v1/healthz"),
   ("grpc.health.v1.Health.Watch", "WEBSOCKET", "/v1/healthz")]

theorem healthz_rules : Gen.healthzRules = Spec.healthzRules := by decide

/-- … and those two selectors bind exactly the two methods. -/
theorem healthz_selects_exactly :
    ∃ t, setRules [["grpc", "health", "v1", "Health", "Check"], ["grpc", "health", "v1", "Health", "Watch"]] = .ok t ∧
      ∀ name, okName name = true →
        (0 ∈ t.get name ↔ name = ["grpc", "health", "v1", "Health", "Check"]) ∧
        (1 ∈ t.get name ↔ name = ["grpc", "health", "v1", "Health", "Watch"]) := by
  obtain ⟨t, ht, hg⟩ := getRules_spec
    [["grpc", "health", "v1", "Health", "Check"], ["grpc", "health", "v1", "Health", "Watch"]] (by decide)
  refine ⟨t, ht, ?_⟩
  intro name hn
  have key : ∀ s : List String, (∀ c ∈ s, c ≠ "*") → (selects s name ↔ name = s) := by
    intro s hs
    constructor
    · rintro (h | ⟨p, more, h1, _, _⟩)
      · exact h.symm
      · exact absurd rfl (hs "*" (by rw [h1]; simp))
    · rintro rfl; exact Or.inl rfl
  constructor
  · rw [hg name hn 0]; simp [key _ (by decide : ∀ c ∈ ["grpc", "health", "v1", "Health", "Check"], c ≠ "*")]
  · rw [hg name hn 1]; simp [key _ (by decide : ∀ c ∈ ["grpc", "health", "v1", "Health", "Watch"], c ≠ "*")]

-- non-vacuity
example : okSel ["pkg", "Svc", "*"] = true ∧ okName ["pkg", "Svc", "Get"] = true := by decide
example : selects ["pkg", "*"] ["pkg", "Svc", "Get"] := Or.inr ⟨["pkg"], ["Svc", "Get"], rfl, by simp, rfl⟩

end Larking.Props.C19

#print axioms Larking.Props.C19.translator_complete
#print axioms Larking.Props.C19.skeleton_unchanged
#print axioms Larking.Props.C19.getRules_spec
#print axioms Larking.Props.C19.exact_is_not_prefix
#print axioms Larking.Props.C19.wildcard_not_on_own_name
#print axioms Larking.Props.C19.healthz_rules
#print axioms Larking.Props.C19.healthz_selects_exactly
