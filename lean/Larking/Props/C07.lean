import Larking.Gen.Skel
import Larking.Gen.Params
import Larking.Gen.Missing
import Larking.Expected.C07
import Larking.Lemmas.Param
/-
  C07 — Path-bound fields are authoritative.  `Gen.pathParamsLast` is read off the AST of
  `Mux.serveHTTP` on every run (`params = append(queryParams, params...)`); the skeletons tie
  "body first, parameters on the first message only, params.set in slice order".
-/
namespace Larking.Props.C07
open Larking Larking.Param

theorem translator_complete : Gen.missing = [] := by decide

theorem skeleton_unchanged :
    (Gen.Skel.conds_Mux_serveHTTP,
     Gen.Skel.stmts_Mux_serveHTTP,
     Gen.Skel.conds_params_set,
     Gen.Skel.stmts_params_set,
     Gen.Skel.conds_streamHTTP_RecvMsg,
     Gen.Skel.stmts_streamHTTP_RecvMsg,
     Gen.Skel.conds_Mux_match,
     Gen.Skel.stmts_Mux_match,
     Gen.Skel.conds_method_parseQueryParams,
     Gen.Skel.stmts_method_parseQueryParams,
     Gen.Skel.conds_streamWS_RecvMsg,
     Gen.Skel.stmts_streamWS_RecvMsg)
  = (Expected.C07.conds_Mux_serveHTTP,
     Expected.C07.stmts_Mux_serveHTTP,
     Expected.C07.conds_params_set,
     Expected.C07.stmts_params_set,
     Expected.C07.conds_streamHTTP_RecvMsg,
     Expected.C07.stmts_streamHTTP_RecvMsg,
     Expected.C07.conds_Mux_match,
     Expected.C07.stmts_Mux_match,
     Expected.C07.conds_method_parseQueryParams,
     Expected.C07.stmts_method_parseQueryParams,
     Expected.C07.conds_streamWS_RecvMsg,
     Expected.C07.stmts_streamWS_RecvMsg) := rfl

/-- **the path capture wins**: for every body content, every list of query parameters (any
number of them naming the same field, anywhere) and every list of path captures, a singular
field bound by a path variable ends up holding the captured value (the last capture for
that field, should a template bind it twice). -/
theorem path_wins (body : Msg) (query pre post : List P) (p : P) (hs : p.repeated = false)
    (hpost : ∀ q ∈ post, q.fp ≠ p.fp) :
    (decodeRequest Gen.pathParamsLast body query (pre ++ p :: post)).get p.fp = [p.val] := by
  simp only [decodeRequest, Gen.pathParamsLast, if_true]
  rw [← List.append_assoc]
  exact last_write_wins body (query ++ pre) post p hs hpost

/-- **… on every stream transport, with or without a body mapping**: the first message a
WebSocket or HTTP-stream handler receives carries the captured value whether the rule maps a
body (the first frame is decoded, then the URL parameters are applied on top) or not (the
message is the URL alone) — `streamWS.RecvMsg` and `streamHTTP.RecvMsg` apply the parameters
outside their `hasBody` blocks (regenerated). -/
theorem path_wins_on_streams (hasBody : Bool) (frame : Msg) (query pre post : List P) (p : P)
    (hs : p.repeated = false) (hpost : ∀ q ∈ post, q.fp ≠ p.fp) :
    (recvFirst Gen.wsParamsOutsideBody Gen.pathParamsLast hasBody frame query (pre ++ p :: post)).get p.fp = [p.val] ∧
    (recvFirst Gen.httpParamsOutsideBody Gen.pathParamsLast hasBody frame query (pre ++ p :: post)).get p.fp = [p.val] := by
  have h1 := path_wins frame query pre post p hs hpost
  have h2 := path_wins [] query pre post p hs hpost
  cases hasBody <;> simp only [recvFirst, Gen.wsParamsOutsideBody, Gen.httpParamsOutsideBody, if_true] <;>
    first | exact ⟨h1, h1⟩ | exact ⟨h2, h2⟩ | (simp only [Bool.false_eq_true, if_false]; exact ⟨h2, h2⟩)

/-- the parameters are applied to the first message only (regenerated guards): the model's
`recvFirst` is the only place they enter. -/
theorem params_first_message_only : Gen.wsParamsFirstOnly = true ∧ Gen.httpParamsFirstOnly = true := by decide

/-- contrast: applied INSIDE the body block, a rule without a body loses the capture. -/
theorem inside_body_block_loses_capture :
    (recvFirst false true false [] [] [⟨1, false, [112]⟩]).get 1 = [] := by decide

/-- the theorem really depends on the order read from the source: with the path captures
applied first, a query parameter replaces the capture. -/
theorem order_matters :
    (decodeRequest false [] [⟨1, false, [113]⟩] [⟨1, false, [112]⟩]).get 1 = [[113]] := by decide

-- non-vacuity: body holds "b", query says "q" twice, the path captured "p"
example : (decodeRequest Gen.pathParamsLast [(1, [[98]])] [⟨1, false, [113]⟩, ⟨2, false, [120]⟩, ⟨1, false, [113]⟩]
    [⟨1, false, [112]⟩]).get 1 = [[112]] := by decide

end Larking.Props.C07

#print axioms Larking.Props.C07.translator_complete
#print axioms Larking.Props.C07.skeleton_unchanged
#print axioms Larking.Props.C07.path_wins
#print axioms Larking.Props.C07.path_wins_on_streams
#print axioms Larking.Props.C07.params_first_message_only
#print axioms Larking.Props.C07.inside_body_block_loses_capture
#print axioms Larking.Props.C07.order_matters
