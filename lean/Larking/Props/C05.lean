import Larking.Gen.Skel
import Larking.Expected.C05
import Larking.Gen.Dispatch
import Larking.Model.Dispatch
import Larking.Gen.Codes
import Larking.Gen.Missing
import Larking.Lemmas.Status
import Larking.Lemmas.WsClose
/-
  C05 — Status and error fidelity.  Only property statements live here; helper
  lemmas are in Larking/Lemmas.  `Gen.*` is regenerated from /repo on every run,
  `Spec.*` below is written independently of the source.
-/
namespace Larking.Props.C05
open Larking Larking.Status

/-- grpc-gateway's table, which larking's comments mirror (DESIGN §14). -/
def Spec.gatewayTable : List Nat :=
  [200, 408, 500, 400, 504, 404, 409, 403, 429, 400, 409, 400, 501, 500, 503, 500, 401]

/-- Twirp error codes (twirp spec, "Error Codes"), indexed by gRPC code 1..16. -/
def Spec.twirpNames : List String :=
  ["", "canceled", "unknown", "invalid_argument", "deadline_exceeded", "not_found",
   "already_exists", "permission_denied", "resource_exhausted", "failed_precondition",
   "aborted", "out_of_range", "unimplemented", "internal", "unavailable", "dataloss",
   "unauthenticated"]

def httpStatus (c : Nat) : Outcome Nat :=
  lookup Gen.httpGuardOp Gen.httpGuardLen Gen.codeToHTTPStatus Gen.httpDefault c
def wsStatus (c : Nat) : Outcome Nat :=
  lookup Gen.wsGuardOp Gen.wsGuardLen Gen.codeToWSStatus Gen.wsDefault c

theorem translator_complete : Gen.missing = [] := by decide

private theorem lookup_large (op : GuardOp) (n : Nat) (t : List Nat) (d c : Nat)
    (h : op.eval n n = true ∨ op = .gt) (hc : n < c) : lookup op n t d c = .ok d := by
  unfold lookup
  have : op.eval c n = true := by
    cases op <;> simp [GuardOp.eval] <;> omega
  simp [this]

/-- every status code (any uint32, indeed any natural) maps to the documented HTTP
status: the table for 0..16, 500 otherwise; in particular no code panics. -/
theorem http_status_table (c : Nat) : httpStatus c = .ok (Spec.gatewayTable.getD c 500) := by
  by_cases h : c < 18
  · have : ∀ i : Fin 18, httpStatus i.val = .ok (Spec.gatewayTable.getD i.val 500) := by decide
    exact this ⟨c, h⟩
  · have hd : Spec.gatewayTable.getD c 500 = 500 := by
      simp [Spec.gatewayTable, List.getD]; rw [List.getElem?_eq_none] <;> simp <;> omega
    rw [hd]
    have : httpStatus c = .ok Gen.httpDefault :=
      lookup_large _ _ _ _ _ (by decide) (by show 17 < c; omega)
    rw [this]; rfl

theorem http_status_total (c : Nat) : (httpStatus c).isPanic = false := by
  rw [http_status_table]; rfl

/-- WebSocket close codes: never a panic, always a close code a server may send,
and an error status is never reported as a normal closure. -/
def wsGood (c : Nat) : Bool :=
  match wsStatus c with
  | .ok v => [1000, 1001, 1003, 1008, 1011].contains v && (c == 0 || v != 1000)
  | _ => false

theorem ws_status_wellformed (c : Nat) : wsGood c = true := by
  by_cases h : c < 18
  · have : ∀ i : Fin 18, wsGood i.val = true := by decide
    exact this ⟨c, h⟩
  · have hc : wsStatus c = .ok Gen.wsDefault :=
      lookup_large _ _ _ _ _ (by decide) (by show 17 < c; omega)
    have h0 : (c == 0) = false := by simp; omega
    simp only [wsGood, hc, h0]; decide

/-- grpc-message: what the client percent-decodes is exactly the message, for every
byte string. -/
theorem grpc_message_roundtrip (msg : Bytes) :
    decodeGrpcMessage (encodeGrpcMessage Gen.needsEsc msg) = msg := by
  rw [encode_eq_simple]; exact decode_encSimple _ (by decide) msg

/-- … and the header value only contains printable ASCII (a legal HTTP/2 header value). -/
theorem grpc_message_header_safe (msg : Bytes) :
    ∀ b ∈ encodeGrpcMessage Gen.needsEsc msg, 0x20 ≤ b.toNat ∧ b.toNat ≤ 0x7E := by
  rw [encode_eq_simple]
  have hcov : ∀ c, printable c = false → Gen.needsEsc c = true := by
    apply u8_forall
    set_option maxRecDepth 8192 in decide
  intro b hb
  have := encSimple_printable _ hcov msg b hb
  simpa [printable] using this

/-- Twirp clients get the Twirp name of every error code. -/
theorem twirp_names : ∀ c : Fin 17, c.val ≠ 0 →
    twirpName Gen.twirpNames c.val = Spec.twirpNames.getD c.val "?" := by decide

/-- no status value (including the out-of-range code 17 probed by the translator)
makes `encError` fail to answer. -/
theorem twirp_always_answered : ∀ n ∈ Gen.twirpNames, n ≠ "<panic>" := by decide

/-- grpc-web-text: the base64 body decodes to exactly the bytes written (frames and
trailer frame), however the writes were split, provided the encoder is closed. -/
theorem web_text_complete (writes : List Bytes) :
    Base64.decode false true (textModeOutput true writes) = some writes.flatten :=
  textMode_closed writes

/-- status details travel as unpadded std base64 (`grpc-status-details-bin`). -/
theorem details_roundtrip (b : Bytes) :
    Base64.decode false false (Base64.encode false false b) = some b :=
  Base64.decode_encode false false b

/-! ### the WebSocket close frame -/

/-- the close frame always fits a control frame (125 bytes: 2 for the code, at most 123 of
reason), for every status message. -/
theorem ws_close_frame_fits (code : Nat) (msg : Bytes) :
    (WsClose.body code (WsClose.reason Gen.wsReasonMax Gen.wsReasonRuneSafe msg)).length ≤ 125 ∨
      (msg.length ≤ 123 ∧ (WsClose.body code (WsClose.reason Gen.wsReasonMax Gen.wsReasonRuneSafe msg)).length = msg.length + 2) := by
  rcases WsClose.reason_length Gen.wsReasonMax Gen.wsReasonRuneSafe msg with h | h
  · left; simp only [WsClose.body, List.length_append, List.length_cons, List.length_nil]
    have : Gen.wsReasonMax = 123 := rfl
    omega
  · right
    have hm : Gen.wsReasonMax = 123 := rfl
    refine ⟨by omega, ?_⟩
    have : ¬ msg.length > Gen.wsReasonMax := by omega
    simp [WsClose.body, WsClose.reason, this]

/-- the reason is a prefix of the status message ("as far as a close frame can carry it"), and
the whole message when it fits. -/
theorem ws_close_reason_is_prefix (msg : Bytes) :
    (∃ k, WsClose.reason Gen.wsReasonMax Gen.wsReasonRuneSafe msg = msg.take k) ∧
    (msg.length ≤ 123 → WsClose.reason Gen.wsReasonMax Gen.wsReasonRuneSafe msg = msg) := by
  refine ⟨WsClose.reason_prefix _ _ msg, ?_⟩
  intro h
  have : ¬ msg.length > Gen.wsReasonMax := by show ¬ msg.length > 123; omega
  simp [WsClose.reason, this]

/-- contrast (the code before fix ed7f237: the cut falls wherever byte 123 is): a message of
two-byte runes is cut inside a rune — the reason ends with a lead byte; moved to the rune
boundary it ends with a whole rune. -/
theorem cut_inside_a_rune_without_the_fix :
    (WsClose.reason 3 false [0xc3, 0xa9, 0xc3, 0xa9]).getLast? = some 0xc3 ∧
    WsClose.reason 3 true [0xc3, 0xa9, 0xc3, 0xa9] = [0xc3, 0xa9] ∧
    WsClose.reason 4 true [0xe6, 0x97, 0xa5, 0xe6, 0x97, 0xa5] = [0xe6, 0x97, 0xa5] := by decide

-- non-vacuity: concrete instances
example : httpStatus 5 = .ok 404 := by decide
example : httpStatus 17 = .ok 500 := by decide
example : encodeGrpcMessage Gen.needsEsc [0x35, 0x30, 0x25, 0x20, 0xc3, 0xa8, 0x73]
    = [0x35, 0x30, 0x25, 0x32, 0x35, 0x20, 0x25, 0x63, 0x33, 0x25, 0x61, 0x38, 0x73] := by decide
example : textModeOutput true [[1, 2], [3, 4]] = [65, 81, 73, 68, 66, 65, 61, 61] := by decide

/-! ### which serving function a request enters (`Mux.ServeHTTP`, `isWebRequest`) -/
/-- the functions modelled in `Model/Dispatch` are the ones the model was written against. -/
theorem skeleton_unchanged :
    (Gen.Skel.conds_isWebRequest,
     Gen.Skel.stmts_isWebRequest,
     Gen.Skel.conds_Mux_ServeHTTP,
     Gen.Skel.stmts_Mux_ServeHTTP,
     Gen.Skel.conds_Mux_serveGRPCWeb,
     Gen.Skel.stmts_Mux_serveGRPCWeb)
  = (Expected.C05.conds_isWebRequest,
     Expected.C05.stmts_isWebRequest,
     Expected.C05.conds_Mux_ServeHTTP,
     Expected.C05.stmts_Mux_ServeHTTP,
     Expected.C05.conds_Mux_serveGRPCWeb,
     Expected.C05.stmts_Mux_serveGRPCWeb) := rfl

open Larking.Dispatch in
/-- the protocol tests of `Mux.ServeHTTP` as regenerated from the source, in source order. -/
def protoTests : List Larking.Dispatch.Test := ofGen Gen.Dispatch.tests

open Larking.Dispatch in
theorem protocol_tests_as_modelled :
    protoTests = [⟨grpcWeb, false, .web⟩, ⟨grpcB, true, .grpc⟩] := by decide

open Larking.Dispatch in
/-- **every gRPC-web request reaches the gRPC-web path**, over HTTP/1.1 and over HTTP/2 alike
(its content types also begin with "application/grpc"). -/
theorem web_reaches_web (pm : Nat) (ct : Bytes) (h : hasPrefix grpcWeb ct = true) :
    dispatch protoTests pm ct = .web := by
  rw [protocol_tests_as_modelled]
  simp [dispatch, h]

open Larking.Dispatch in
/-- a request enters the gRPC path exactly when it is HTTP/2 with an "application/grpc" content
type that is not a gRPC-web one; … -/
theorem grpc_iff (pm : Nat) (ct : Bytes) :
    dispatch protoTests pm ct = .grpc ↔ pm = 2 ∧ hasPrefix grpcB ct = true ∧ hasPrefix grpcWeb ct = false := by
  rw [protocol_tests_as_modelled]
  cases hw : hasPrefix grpcWeb ct <;> cases hg : hasPrefix grpcB ct <;> by_cases hp : pm = 2 <;>
    simp [dispatch, hw, hg, hp]

open Larking.Dispatch in
/-- … and everything else is transcoded (`serveHTTP`): no request is dropped by the dispatch. -/
theorem otherwise_transcoded (pm : Nat) (ct : Bytes) :
    dispatch protoTests pm ct = .http ↔ hasPrefix grpcWeb ct = false ∧ ¬ (pm = 2 ∧ hasPrefix grpcB ct = true) := by
  rw [protocol_tests_as_modelled]
  cases hw : hasPrefix grpcWeb ct <;> cases hg : hasPrefix grpcB ct <;> by_cases hp : pm = 2 <;>
    simp [dispatch, hw, hg, hp]

open Larking.Dispatch in
/-- contrast — the test order before fix `13c76b9`: a gRPC-web request over HTTP/2 entered the gRPC path. -/
theorem grpc_test_first_misroutes_web :
    dispatch [⟨grpcB, true, .grpc⟩, ⟨grpcWeb, false, .web⟩] 2 (grpcWeb ++ [43, 112, 114, 111, 116, 111]) = .grpc := by decide

open Larking.Dispatch in
/-- `isWebRequest`: "<type>+<codec>" with type gRPC-web or gRPC-web-text, POST only; without a
codec the codec is "proto" (the codec is everything after the FIRST '+'). -/
theorem web_request_codec (enc : Bytes) :
    isWebRequest (grpcWeb ++ 43 :: enc) postB = some (grpcWeb, enc) ∧
    isWebRequest (grpcWebText ++ 43 :: enc) postB = some (grpcWebText, enc) ∧
    isWebRequest grpcWeb postB = some (grpcWeb, protoB) ∧
    isWebRequest grpcWebText postB = some (grpcWebText, protoB) := by
  have hcut : ∀ (pre : Bytes), (∀ b ∈ pre, b ≠ 43) → cutPlus (pre ++ 43 :: enc) = (pre, some enc) := by
    intro pre
    induction pre with
    | nil => intro _; simp [cutPlus]
    | cons c cs ih =>
      intro h
      have hc : (c == 43) = false := by simpa using h c (by simp)
      simp [cutPlus, hc, ih (fun b hb => h b (by simp [hb]))]
  refine ⟨?_, ?_, by decide, by decide⟩
  · have h1 := hcut grpcWeb (by decide)
    have hp : hasPrefix grpcWeb (grpcWeb ++ 43 :: enc) = true := by simp [grpcWeb, hasPrefix]
    simp [isWebRequest, hp, h1]
  · have h1 := hcut grpcWebText (by decide)
    have hp : hasPrefix grpcWeb (grpcWebText ++ 43 :: enc) = true := by simp [grpcWeb, grpcWebText, hasPrefix]
    simp [isWebRequest, hp, h1]

open Larking.Dispatch in
/-- anything but POST is not a gRPC-web request. -/
theorem web_request_post_only (ct method : Bytes) (h : method ≠ postB) : isWebRequest ct method = none := by
  have : (method != postB) = true := by simpa using h
  simp [isWebRequest, this]

open Larking.Dispatch in
/-- one trailing slash is dropped in front of the router, a missing leading one is supplied. -/
theorem norm_path (s : Bytes) :
    normPath (47 :: s ++ [47]) = 47 :: s ∧
    (∀ c cs, s = c :: cs → c ≠ 47 → normPath s = normPath (47 :: s)) := by
  constructor
  · simp [normPath, hasPrefix]
  · intro c cs hs hc
    subst hs
    have : (47 == c) = false := by simpa using (fun e => hc e.symm)
    simp [normPath, hasPrefix, this]

end Larking.Props.C05

#print axioms Larking.Props.C05.translator_complete
#print axioms Larking.Props.C05.http_status_table
#print axioms Larking.Props.C05.http_status_total
#print axioms Larking.Props.C05.ws_status_wellformed
#print axioms Larking.Props.C05.grpc_message_roundtrip
#print axioms Larking.Props.C05.grpc_message_header_safe
#print axioms Larking.Props.C05.twirp_names
#print axioms Larking.Props.C05.twirp_always_answered
#print axioms Larking.Props.C05.web_text_complete
#print axioms Larking.Props.C05.details_roundtrip
#print axioms Larking.Props.C05.ws_close_frame_fits
#print axioms Larking.Props.C05.ws_close_reason_is_prefix
#print axioms Larking.Props.C05.cut_inside_a_rune_without_the_fix
#print axioms Larking.Props.C05.protocol_tests_as_modelled
#print axioms Larking.Props.C05.web_reaches_web
#print axioms Larking.Props.C05.grpc_iff
#print axioms Larking.Props.C05.otherwise_transcoded
#print axioms Larking.Props.C05.grpc_test_first_misroutes_web
#print axioms Larking.Props.C05.web_request_codec
#print axioms Larking.Props.C05.web_request_post_only
#print axioms Larking.Props.C05.norm_path
#print axioms Larking.Props.C05.skeleton_unchanged
