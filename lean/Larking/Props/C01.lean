import Larking.Gen.Skel
import Larking.Gen.Lexer
import Larking.Gen.Missing
import Larking.Expected.C01
import Larking.Lemmas.Provenance
/-
  C01 — Routing soundness.  The model is the trie of rules.go (`addRule`, `search`,
  `variable.index`, `match`) over the lexers of lexer.go; theorems hold for every list of
  rules, every method/field resolution, every verb and every path (as classified runes),
  with the token array size regenerated from the source.
-/
namespace Larking.Props.C01
open Larking Larking.Lexer Larking.Trie

theorem translator_complete : Gen.missing = [] := by decide

theorem skeleton_unchanged :
    (Gen.Skel.conds_variable_index,
     Gen.Skel.stmts_variable_index,
     Gen.Skel.conds_path_search,
     Gen.Skel.stmts_path_search,
     Gen.Skel.conds_path_match,
     Gen.Skel.stmts_path_match,
     Gen.Skel.conds_path_addRule,
     Gen.Skel.stmts_path_addRule,
     Gen.Skel.conds_path_addVariable,
     Gen.Skel.stmts_path_addVariable,
     Gen.Skel.conds_path_addPath,
     Gen.Skel.stmts_path_addPath,
     Gen.Skel.conds_lexPath,
     Gen.Skel.stmts_lexPath,
     Gen.Skel.conds_lexPathSegment,
     Gen.Skel.stmts_lexPathSegment,
     Gen.Skel.conds_lexer_emit,
     Gen.Skel.stmts_lexer_emit,
     Gen.Skel.conds_Mux_match,
     Gen.Skel.stmts_Mux_match,
     Gen.Skel.conds_Mux_ServeHTTP,
     Gen.Skel.stmts_Mux_ServeHTTP,
     Gen.Skel.conds_params_set,
     Gen.Skel.stmts_params_set,
     Gen.Skel.conds_streamWS_RecvMsg,
     Gen.Skel.stmts_streamWS_RecvMsg,
     Gen.Skel.conds_streamHTTP_RecvMsg,
     Gen.Skel.stmts_streamHTTP_RecvMsg)
  = (Expected.C01.conds_variable_index,
     Expected.C01.stmts_variable_index,
     Expected.C01.conds_path_search,
     Expected.C01.stmts_path_search,
     Expected.C01.conds_path_match,
     Expected.C01.stmts_path_match,
     Expected.C01.conds_path_addRule,
     Expected.C01.stmts_path_addRule,
     Expected.C01.conds_path_addVariable,
     Expected.C01.stmts_path_addVariable,
     Expected.C01.conds_path_addPath,
     Expected.C01.stmts_path_addPath,
     Expected.C01.conds_lexPath,
     Expected.C01.stmts_lexPath,
     Expected.C01.conds_lexPathSegment,
     Expected.C01.stmts_lexPathSegment,
     Expected.C01.conds_lexer_emit,
     Expected.C01.stmts_lexer_emit,
     Expected.C01.conds_Mux_match,
     Expected.C01.stmts_Mux_match,
     Expected.C01.conds_Mux_ServeHTTP,
     Expected.C01.stmts_Mux_ServeHTTP,
     Expected.C01.conds_params_set,
     Expected.C01.stmts_params_set,
     Expected.C01.conds_streamWS_RecvMsg,
     Expected.C01.stmts_streamWS_RecvMsg,
     Expected.C01.conds_streamHTTP_RecvMsg,
     Expected.C01.stmts_streamHTTP_RecvMsg) := rfl

/-- **Routing soundness.** A request is dispatched to a method only along a way through the
trie whose literal / verb edges equal the path's tokens and whose variable edges' patterns
match the tokens they capture (`Reach`); the method at its end was bound there by one of the
accepted rules *of that method*, whose kind is the request's verb or '*', whose template
lexes to exactly that way (same keys, same variable-pattern texts), and whose field paths
are the ones the captures are bound to. -/
theorem route_sound (conv) (rs : List (Rule × Nat × (List Bytes → Option Nat))) (t : Node)
    (hb : buildAll Gen.tokenCap rs .empty = .ok t) (path : List Rune) (verb : Bytes) (m : Meth) (caps : Caps)
    (hroute : matchPath Gen.tokenCap conv t path verb = .found m caps) :
    ∃ ptoks es, lexPath Gen.tokenCap path = .ok ptoks ∧ Reach conv verb t ptoks m caps es ∧
      ∃ e ∈ rs, ∃ b ∈ e.1.bindings, m.mid = e.2.1 ∧ (b.verb = verb ∨ b.verb = starVerb) ∧
        ∃ toks p, lexTemplate Gen.tokenCap b.tmpl = .ok toks ∧
          parseToks e.2.2 (toks.length + 1) toks = .ok p ∧
          es.map keyOf = p.edges.map keyOf ∧ m.vars = p.varfds :=
  Trie.route_sound Gen.tokenCap conv rs t hb path verb m caps hroute

/-- what a variable captures is what its sub-pattern matches: the capture length computed
by `variable.index` is the length of a token prefix the pattern matches (literals equal,
`*` within one segment, `**` up to the verb). -/
theorem capture_matches_pattern (pat rem : List Tok) (k : Nat)
    (h : varIndex pat rem 0 = .ok (some k)) :
    k ≤ rem.length ∧ PatMatch pat (rem.take k) := by
  obtain ⟨c, hc, _, hlen, hm⟩ := varIndex_sound pat rem 0 k h
  simp only [Nat.sub_zero] at hc hlen
  exact ⟨hlen, hc ▸ hm⟩

/-- exactly one capture per variable edge of the way, nothing else is bound by routing. -/
theorem captures_count (conv) (rs : List (Rule × Nat × (List Bytes → Option Nat))) (t : Node)
    (hb : buildAll Gen.tokenCap rs .empty = .ok t) (verb : Bytes) (toks : List Tok) (m : Meth) (caps : Caps)
    (h : search conv verb t toks = .found m caps) : caps.length = m.vars.length := by
  have hwf := buildAll_WF Gen.tokenCap rs .empty t (WF_empty 0) hb
  have := (search_wf conv verb 0 t toks hwf).2 m caps h
  omega

/-- no verb / path can crash the router once its rules were accepted. -/
theorem route_no_panic (conv) (rs : List (Rule × Nat × (List Bytes → Option Nat))) (t : Node)
    (hb : buildAll Gen.tokenCap rs .empty = .ok t) (path : List Rune) (verb : Bytes) :
    ∀ s, matchPath Gen.tokenCap conv t path verb ≠ .panic s :=
  Trie.route_no_panic Gen.tokenCap conv rs t hb path verb

-- non-vacuity: "/a/{x}" bound for GET, request "GET /a/b"
private def rA : Rune := ⟨[97], 97, true, true, true, true⟩
private def rB : Rune := ⟨[98], 98, true, true, true, true⟩
private def rX : Rune := ⟨[120], 120, true, true, true, true⟩
private def sl : Rune := ⟨[47], 47, false, false, false, false⟩
private def lb : Rune := ⟨[123], 123, false, false, false, false⟩
private def rb : Rune := ⟨[125], 125, false, false, false, false⟩
private def demoRule : Rule := ⟨⟨[71, 69, 84], [sl, rA, sl, lb, rX, rb], true, true, 0⟩, []⟩
private def demoResolve (ks : List Bytes) : Option Nat := if ks == [[120]] then some 7 else none
example : (match buildAll Gen.tokenCap [(demoRule, 3, demoResolve)] .empty with
    | .ok t =>
      (match matchPath Gen.tokenCap (fun _ _ => true) t [sl, rA, sl, rB] [71, 69, 84] with
       | .found m caps => m.mid == 3 && m.vars == [some 7] && caps == [(some 7, [98])]
       | _ => false)
    | _ => false) = true := by decide

end Larking.Props.C01

#print axioms Larking.Props.C01.translator_complete
#print axioms Larking.Props.C01.skeleton_unchanged
#print axioms Larking.Props.C01.route_sound
#print axioms Larking.Props.C01.capture_matches_pattern
#print axioms Larking.Props.C01.captures_count
#print axioms Larking.Props.C01.route_no_panic
