import Larking.Gen.Grpc
import Larking.Gen.Missing
import Larking.Lemmas.Timeout
import Larking.Gen.Skel
import Larking.Expected.C15
/-
  C15 — gRPC deadlines and cancellation.  `Gen.*` regenerated from /repo, `Spec.*`
  written from the gRPC HTTP/2 protocol document.
-/
namespace Larking.Props.C15
open Larking Larking.Timeout

def decode (s : Bytes) : Outcome Int :=
  decodeTimeout Gen.timeoutUnits Gen.timeoutMinLen Gen.timeoutMaxLen Gen.timeoutAcceptsSign s

theorem translator_complete : Gen.missing = [] := by decide

/-- the functions the deadline / cancellation models were written against. -/
theorem skeleton_unchanged :
    (Gen.Skel.conds_Mux_serveGRPC,
     Gen.Skel.stmts_Mux_serveGRPC,
     Gen.Skel.conds_Mux_serveGRPCWeb,
     Gen.Skel.stmts_Mux_serveGRPCWeb,
     Gen.Skel.conds_decodeTimeout,
     Gen.Skel.stmts_decodeTimeout,
     Gen.Skel.conds_timeoutUnit,
     Gen.Skel.stmts_timeoutUnit,
     Gen.Skel.conds_streamGRPC_isDone,
     Gen.Skel.stmts_streamGRPC_isDone,
     Gen.Skel.conds_streamGRPC_begin,
     Gen.Skel.stmts_streamGRPC_begin,
     Gen.Skel.conds_streamGRPC_close,
     Gen.Skel.stmts_streamGRPC_close,
     Gen.Skel.conds_streamGRPC_RecvMsg,
     Gen.Skel.stmts_streamGRPC_RecvMsg,
     Gen.Skel.conds_streamGRPC_SendMsg,
     Gen.Skel.stmts_streamGRPC_SendMsg,
     Gen.Skel.conds_streamGRPC_SendHeader,
     Gen.Skel.stmts_streamGRPC_SendHeader)
  = (Expected.C15.conds_Mux_serveGRPC,
     Expected.C15.stmts_Mux_serveGRPC,
     Expected.C15.conds_Mux_serveGRPCWeb,
     Expected.C15.stmts_Mux_serveGRPCWeb,
     Expected.C15.conds_decodeTimeout,
     Expected.C15.stmts_decodeTimeout,
     Expected.C15.conds_timeoutUnit,
     Expected.C15.stmts_timeoutUnit,
     Expected.C15.conds_streamGRPC_isDone,
     Expected.C15.stmts_streamGRPC_isDone,
     Expected.C15.conds_streamGRPC_begin,
     Expected.C15.stmts_streamGRPC_begin,
     Expected.C15.conds_streamGRPC_close,
     Expected.C15.stmts_streamGRPC_close,
     Expected.C15.conds_streamGRPC_RecvMsg,
     Expected.C15.stmts_streamGRPC_RecvMsg,
     Expected.C15.conds_streamGRPC_SendMsg,
     Expected.C15.stmts_streamGRPC_SendMsg,
     Expected.C15.conds_streamGRPC_SendHeader,
     Expected.C15.stmts_streamGRPC_SendHeader) := rfl

/-- the unit table in the code is the specification's. -/
theorem units_as_spec : ∀ c : UInt8, unitOf Gen.timeoutUnits c = Spec.unitNs c := by
  apply u8_forall
  set_option maxRecDepth 8192 in decide

/-- every legal timeout is accepted with the value min(v × unit, MaxInt64): no overflow,
no wrap-around, leading zeros included. -/
theorem timeout_wellformed (ds : Bytes) (u : UInt8) (h1 : 1 ≤ ds.length) (h8 : ds.length ≤ 8)
    (hd : ds.all isDigit = true) (hu : Spec.unitNs u ≠ 0) :
    decode (ds ++ [u]) = .ok (min ((digitsVal ds : Int) * Spec.unitNs u) maxInt64) := by
  have hne : ds ≠ [] := by intro h; simp [h] at h1
  have hv := digitsVal_lt8 ds hd h8
  have hp := parseNum_digits ds hne hd
  unfold decode decodeTimeout
  simp only [List.length_append, List.length_singleton, List.getLast?_append, List.getLast?_singleton,
    Option.some_or, Option.getD_some, List.dropLast_concat, units_as_spec]
  have hmin : ¬ (ds.length + 1 < Gen.timeoutMinLen) := by show ¬ (ds.length + 1 < 2); omega
  have hmax : ¬ (ds.length + 1 > Gen.timeoutMaxLen) := by show ¬ (ds.length + 1 > 9); omega
  have hsign : Gen.timeoutAcceptsSign = false := rfl
  simp only [hmin, hmax, if_false, hsign, hp]
  have hu' : (Spec.unitNs u == 0) = false := by simpa using hu
  simp only [hu', Bool.false_eq_true, if_false]
  exact tail_value _ _ hv (unit_cases u hu)

/-- anything accepted is in the language: a malformed grpc-timeout (empty, too long, sign,
space, fraction, unknown unit …) is refused. -/
theorem timeout_malformed (s : Bytes) (v : Int) (h : decode s = .ok v) : Spec.InTimeoutLanguage s := by
  unfold decode decodeTimeout at h
  have hsign : Gen.timeoutAcceptsSign = false := rfl
  simp only [hsign, units_as_spec] at h
  split at h; · simp at h
  split at h; · simp at h
  rename_i hmin hmax
  have hmin' : 2 ≤ s.length := by have : ¬ s.length < 2 := hmin; omega
  have hmax' : s.length ≤ 9 := by have : ¬ s.length > 9 := hmax; omega
  have hne : s ≠ [] := by intro h0; simp [h0] at hmin'
  try simp only at h
  split at h; · simp at h
  rename_i hunit
  split at h; · simp at h
  rename_i t hparse
  obtain ⟨hdne, hdig, _⟩ := parseNum_some _ _ hparse
  refine ⟨s.dropLast, s.getLast hne, (List.dropLast_concat_getLast hne).symm, ?_, ?_, hdig, ?_⟩
  · simp [List.length_dropLast]; omega
  · simp [List.length_dropLast]; omega
  · have : s.getLast?.getD 0 = s.getLast hne := by simp [List.getLast?_eq_some_getLast hne]
    rw [this] at hunit
    simpa using hunit

/-- accepted values are non-negative int64 durations. -/
theorem timeout_in_range (s : Bytes) (v : Int) (h : decode s = .ok v) : 0 ≤ v ∧ v ≤ maxInt64 := by
  obtain ⟨ds, u, rfl, h1, h8, hd, hu⟩ := timeout_malformed s v h
  rw [timeout_wellformed ds u h1 h8 hd hu] at h
  injection h with h; subst h
  have hv : (0 : Int) ≤ (digitsVal ds : Int) := Int.natCast_nonneg _
  have hun : 0 ≤ Spec.unitNs u := by
    rcases unit_cases u hu with h | h | h | h | h | h <;> rw [h] <;> decide
  have := Int.mul_nonneg hv hun
  constructor
  · unfold maxInt64; omega
  · exact Int.min_le_right _ _

/-- every stream operation that touches the transport consults the cancellation fence
first: once the call is cancelled no `SendHeader` / `SendMsg` / `RecvMsg` proceeds. -/
theorem ops_fail_after_cancel :
    ∀ p ∈ Gen.grpcOpsFenced, ∀ st : StreamState, st.cancelled = true → opProceeds p.2 st = false := by
  have hall : ∀ p ∈ Gen.grpcOpsFenced, p.2 = true := by decide
  intro p hp st hc
  simp [opProceeds, hall p hp, hc]

theorem ops_all_present : Gen.grpcOpsFenced.map (·.1) = ["SendHeader", "SendMsg", "RecvMsg"] := by decide

-- non-vacuity
example : decode [49, 83] = .ok 1000000000 := by decide                      -- "1S"
example : decode [57, 57, 57, 57, 57, 57, 57, 57, 72] = .ok maxInt64 := by decide  -- "99999999H"
example : decode [43, 49, 83] = .err "digits" := by decide                    -- "+1S"
example : Spec.InTimeoutLanguage [48, 48, 55, 109] :=
  ⟨[48, 48, 55], 109, rfl, by decide, by decide, by decide, by decide⟩

/-! ### the header as `serveGRPC` uses it -/

/-- a request carrying a legal grpc-timeout `T` runs its handler under a deadline exactly
`min(T, MaxInt64 ns)` after receipt — for every digit string of 1..8 digits (leading zeros,
zero itself) and every unit. -/
theorem legal_timeout_is_the_deadline (ds : Bytes) (u : UInt8) (h1 : 1 ≤ ds.length) (h8 : ds.length ≤ 8)
    (hd : ds.all isDigit = true) (hu : Spec.unitNs u ≠ 0) :
    timeoutGate decode (some (ds ++ [u])) = .run (some (min ((digitsVal ds : Int) * Spec.unitNs u) maxInt64)) := by
  unfold timeoutGate
  have hne : (ds ++ [u]).isEmpty = false := by simp
  simp only [hne, Bool.false_eq_true, if_false, timeout_wellformed ds u h1 h8 hd hu]

/-- a malformed grpc-timeout is refused before any handler is picked: the handler is never
invoked. -/
theorem malformed_timeout_refused (v : Bytes) (hv : v ≠ []) (hbad : ¬ Spec.InTimeoutLanguage v) :
    timeoutGate decode (some v) = .refused := by
  unfold timeoutGate
  have hne : v.isEmpty = false := by cases v <;> simp_all
  simp only [hne, Bool.false_eq_true, if_false]
  cases hdec : decode v with
  | ok d => exact absurd (timeout_malformed v d hdec) hbad
  | err k => rfl
  | panic x => rfl

/-- no header (or an empty one): the handler runs without a deadline of its own. -/
theorem no_timeout_no_deadline : timeoutGate decode none = .run none ∧ timeoutGate decode (some []) = .run none := by
  constructor <;> rfl

example : ∃ d, timeoutGate decode (some [48, 83]) = .run (some d) :=
  ⟨_, legal_timeout_is_the_deadline [48] 83 (by decide) (by decide) (by decide) (by decide)⟩

end Larking.Props.C15

#print axioms Larking.Props.C15.translator_complete
#print axioms Larking.Props.C15.skeleton_unchanged
#print axioms Larking.Props.C15.units_as_spec
#print axioms Larking.Props.C15.timeout_wellformed
#print axioms Larking.Props.C15.timeout_malformed
#print axioms Larking.Props.C15.timeout_in_range
#print axioms Larking.Props.C15.ops_fail_after_cancel
#print axioms Larking.Props.C15.ops_all_present
#print axioms Larking.Props.C15.legal_timeout_is_the_deadline
#print axioms Larking.Props.C15.malformed_timeout_refused
#print axioms Larking.Props.C15.no_timeout_no_deadline
