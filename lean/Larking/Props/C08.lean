import Larking.Gen.Skel
import Larking.Gen.Missing
import Larking.Expected.C08
import Larking.Lemmas.Streams
import Larking.Model.Ws
/-
  C08 — Message size limits on every protocol.  For each receive path: over the limit ⇒ an
  error (never a message); within the limit ⇒ delivered; sizes up to 2^64-1 where a length
  prefix can say so.  Decompression is a parameter; the check is on the decompressed size.
-/
namespace Larking.Props.C08
open Larking Larking.Codec Larking.Streams Larking.Status

theorem translator_complete : Gen.missing = [] := by decide

theorem skeleton_unchanged :
    (Gen.Skel.conds_muxOptions_readAll,
     Gen.Skel.stmts_muxOptions_readAll,
     Gen.Skel.conds_muxOptions_writeAll,
     Gen.Skel.stmts_muxOptions_writeAll,
     Gen.Skel.conds_streamGRPC_RecvMsg,
     Gen.Skel.stmts_streamGRPC_RecvMsg,
     Gen.Skel.conds_streamGRPC_SendMsg,
     Gen.Skel.stmts_streamGRPC_SendMsg,
     Gen.Skel.conds_streamWS_RecvMsg,
     Gen.Skel.stmts_streamWS_RecvMsg,
     Gen.Skel.conds_streamHTTP_readMsg,
     Gen.Skel.stmts_streamHTTP_readMsg,
     Gen.Skel.conds_CodecProto_ReadNext,
     Gen.Skel.stmts_CodecProto_ReadNext,
     Gen.Skel.conds_CodecJSON_ReadNext,
     Gen.Skel.stmts_CodecJSON_ReadNext,
     Gen.Skel.conds_codecHTTPBody_ReadNext,
     Gen.Skel.stmts_codecHTTPBody_ReadNext)
  = (Expected.C08.conds_muxOptions_readAll,
     Expected.C08.stmts_muxOptions_readAll,
     Expected.C08.conds_muxOptions_writeAll,
     Expected.C08.stmts_muxOptions_writeAll,
     Expected.C08.conds_streamGRPC_RecvMsg,
     Expected.C08.stmts_streamGRPC_RecvMsg,
     Expected.C08.conds_streamGRPC_SendMsg,
     Expected.C08.stmts_streamGRPC_SendMsg,
     Expected.C08.conds_streamWS_RecvMsg,
     Expected.C08.stmts_streamWS_RecvMsg,
     Expected.C08.conds_streamHTTP_readMsg,
     Expected.C08.stmts_streamHTTP_readMsg,
     Expected.C08.conds_CodecProto_ReadNext,
     Expected.C08.stmts_CodecProto_ReadNext,
     Expected.C08.conds_CodecJSON_ReadNext,
     Expected.C08.stmts_CodecJSON_ReadNext,
     Expected.C08.conds_codecHTTPBody_ReadNext,
     Expected.C08.stmts_codecHTTPBody_ReadNext) := rfl

/-- HTTP unary (`readAll`): a body of at most `limit` bytes is returned whole … -/
theorem readAll_within_limit (e : Env) (limit spare : Nat) (h : e.data.length ≤ limit) :
    (readAll e ⟨[], spare⟩ limit).2.1 = none ∧ (readAll e ⟨[], spare⟩ limit).1.data = e.data :=
  readAll_within e limit spare h

/-- … one byte more is an error, however the body is fragmented and wherever io.EOF arrives. -/
theorem readAll_over_limit (e : Env) (limit spare : Nat) (h : e.data.length > limit) :
    (readAll e ⟨[], spare⟩ limit).2.1 = some .tooLarge :=
  readAll_over e limit spare h

/-- HTTP streams, every codec: no message handed to the handler exceeds the limit. -/
theorem http_stream_msg_within_limit (k : CodecK) (limit spare : Nat) (s : HS) (b : Bytes)
    (h : (readMsg k limit spare s).1 = .msg b) : b.length ≤ limit :=
  (readMsg_safe k limit spare s).2.1 b h

/-- length-delimited protobuf: a prefix over the limit, up to 2^64-1, is an error. -/
theorem proto_prefix_over_limit (e : Env) (b : Buf) (limit size : Nat) (tail : Bytes)
    (hsz : size < 2 ^ 64) (hW : b.data ++ e.data = putVarint size ++ tail)
    (hbig : size > limit ∨ size > maxInt) :
    ∃ dst e', protoReadNext e b limit = (.ok ⟨dst, 0, some .tooLarge⟩, e') :=
  proto_over_limit e b limit size tail hsz hW hbig

/-- … and a message exactly at the limit is delivered. -/
theorem proto_at_limit_accepted (e : Env) (b : Buf) (m rest : Bytes)
    (hW : b.data ++ e.data = protoWriteNext m ++ rest) (hint : m.length ≤ maxInt) :
    ∃ dst e', protoReadNext e b m.length = (.ok ⟨dst, m.length, none⟩, e') ∧
      dst.data.take m.length = m ∧ dst.data.drop m.length ++ e'.data = rest :=
  proto_frame e b m.length m rest hW (Nat.le_refl _) hint

/-- gRPC / gRPC-web: a frame announcing more than the limit is refused … -/
theorem grpc_frame_over_limit (gunzip) (maxRecv : Nat) (e : Env) (flag : UInt8) (size : Nat) (tail : Bytes)
    (hW : e.data = flag :: be32 size ++ tail) (h32 : size < 4294967296) (hbig : size > maxRecv) :
    ∃ e', grpcRecv gunzip maxRecv e = (.err .tooLarge, e') :=
  grpc_over_limit gunzip maxRecv e flag size tail hW h32 hbig

/-- … a frame at or under it is delivered … -/
theorem grpc_frame_within_limit (gunzip) (maxRecv : Nat) (e : Env) (m rest : Bytes)
    (hW : e.data = frame 0 m ++ rest) (hlim : m.length ≤ maxRecv) (h32 : m.length < 4294967296) :
    ∃ e', grpcRecv gunzip maxRecv e = (.msg m, e') ∧ e'.data = rest :=
  grpc_frame gunzip maxRecv e 0 m rest (by decide) hW hlim h32

/-- … and a compressed frame is judged by its size **after** decompression. -/
theorem grpc_decompressed_limit (gz : Bytes → Option Bytes) (maxRecv : Nat) (e : Env) (z plain rest : Bytes)
    (hW : e.data = frame 1 z ++ rest) (hz : z.length ≤ maxRecv) (h32 : z.length < 4294967296)
    (hgz : gz z = some plain) :
    ∃ e', grpcRecv (some gz) maxRecv e =
        (if plain.length > maxRecv then .err .tooLarge else .msg plain, e') ∧ e'.data = rest :=
  grpc_frame_compressed gz maxRecv e z plain rest hW hz h32 hgz

/-- replies: within the send limit ⇒ framed and sent, over it ⇒ refused (the send limit, not the
receive limit, decides). -/
theorem grpc_send_limit (maxSend : Nat) (payload : Bytes) :
    (payload.length ≤ maxSend → grpcSend none maxSend payload = some (frame 0 payload)) ∧
    (payload.length > maxSend → grpcSend none maxSend payload = none) :=
  Streams.grpc_send_limit maxSend payload

/-! ### WebSocket (`streamWS.RecvMsg`, `Model/Ws`) -/
open Larking.Ws in
/-- a client message longer than the receive limit is refused and never reaches the handler … -/
theorem ws_over_limit_refused (maxRecv : Nat) (hpos : 0 < maxRecv) (decodes) (b : Bytes) (rest : List Ws.Frame)
    (h : maxRecv < b.length) : recv ⟨true, maxRecv⟩ decodes (.data b :: rest) = (.tooLarge, rest) := by
  have h1 : decide (maxRecv > 0) = true := by simpa using hpos
  have h2 : decide (b.length > maxRecv) = true := by simpa using h
  simp [recv, h1, h2]

open Larking.Ws in
/-- … one within the limit (or any, when no limit is configured) is delivered as it is. -/
theorem ws_within_limit_delivered (maxRecv : Nat) (decodes) (b : Bytes) (rest : List Ws.Frame)
    (h : maxRecv = 0 ∨ b.length ≤ maxRecv) (hd : decodes b = true) :
    recv ⟨true, maxRecv⟩ decodes (.data b :: rest) = (.msg b, rest) := by
  have : (decide (maxRecv > 0) && decide (b.length > maxRecv)) = false := by
    rcases h with h | h
    · simp [h]
    · have : ¬ b.length > maxRecv := by omega
      simp [this]
  simp [recv, this, hd]

open Larking.Ws in
/-- **sequence fidelity**: the handler of a WebSocket binding with a body receives exactly the
client's messages, in order, then the end (the close frame) — each message within the limit. -/
theorem ws_recv_sequence (maxRecv : Nat) (decodes) (msgs : List Bytes)
    (hl : ∀ b ∈ msgs, maxRecv = 0 ∨ b.length ≤ maxRecv) (hd : ∀ b ∈ msgs, decodes b = true) (fuel : Nat)
    (hf : msgs.length < fuel) :
    Ws.recvAll ⟨true, maxRecv⟩ decodes fuel (msgs.map .data ++ [.closed]) = msgs.map .msg ++ [.err] := by
  induction msgs generalizing fuel with
  | nil =>
    cases fuel with
    | zero => simp at hf
    | succ f => simp [Ws.recvAll, recv]
  | cons b rest ih =>
    cases fuel with
    | zero => simp at hf
    | succ f =>
      have hr := ws_within_limit_delivered maxRecv decodes b (rest.map .data ++ [.closed]) (hl b (by simp)) (hd b (by simp))
      simp only [List.map_cons, List.cons_append, Ws.recvAll, hr]
      rw [ih (fun x hx => hl x (by simp [hx])) (fun x hx => hd x (by simp [hx])) f (by simp at hf; omega)]

open Larking.Ws in
/-- a binding without a body never reads the connection: every receive yields the message built
from the URL (a handler that receives in a loop never sees an end — observation in DESIGN §8). -/
theorem ws_bodyless_reads_nothing (maxRecv : Nat) (decodes) (frames : List Ws.Frame) :
    recv ⟨false, maxRecv⟩ decodes frames = (.fromURL, frames) := by simp [recv]

end Larking.Props.C08

#print axioms Larking.Props.C08.translator_complete
#print axioms Larking.Props.C08.skeleton_unchanged
#print axioms Larking.Props.C08.readAll_within_limit
#print axioms Larking.Props.C08.readAll_over_limit
#print axioms Larking.Props.C08.http_stream_msg_within_limit
#print axioms Larking.Props.C08.proto_prefix_over_limit
#print axioms Larking.Props.C08.proto_at_limit_accepted
#print axioms Larking.Props.C08.grpc_frame_over_limit
#print axioms Larking.Props.C08.grpc_frame_within_limit
#print axioms Larking.Props.C08.grpc_decompressed_limit
#print axioms Larking.Props.C08.grpc_send_limit
#print axioms Larking.Props.C08.ws_over_limit_refused
#print axioms Larking.Props.C08.ws_within_limit_delivered
#print axioms Larking.Props.C08.ws_recv_sequence
#print axioms Larking.Props.C08.ws_bodyless_reads_nothing
