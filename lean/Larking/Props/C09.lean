import Larking.Gen.Skel
import Larking.Gen.Sites
import Larking.Gen.Missing
import Larking.Expected.C09
import Larking.Props.C01
import Larking.Props.C05
import Larking.Props.C06
import Larking.Props.C15
import Larking.Props.C16
import Larking.Props.C17
/-
  C09 — No request can crash or wedge the server.  In the models a Go panic is an outcome
  (`Outcome.panic`, `Recv.panic`, …) and every loop is a total Lean function (structural or
  well-founded recursion on the unread input), so "never panics" is a theorem about all
  inputs and "never loops without consuming input" is the termination proof Lean demanded
  when the loop was defined.  This file gathers, for the request-handling code, the
  no-panic theorems over every byte / rune sequence and every reader schedule, and ties the
  set of places that COULD crash (every index, slice, type assertion and panic call of the
  package) to the audited snapshot.
-/
namespace Larking.Props.C09
open Larking

theorem translator_complete : Gen.missing = [] := by decide

theorem skeleton_unchanged :
    (Gen.Skel.conds_Mux_ServeHTTP,
     Gen.Skel.stmts_Mux_ServeHTTP,
     Gen.Skel.conds_Mux_serveGRPC,
     Gen.Skel.stmts_Mux_serveGRPC,
     Gen.Skel.conds_Mux_serveGRPCWeb,
     Gen.Skel.stmts_Mux_serveGRPCWeb,
     Gen.Skel.conds_Mux_serveHTTP,
     Gen.Skel.stmts_Mux_serveHTTP,
     Gen.Skel.conds_variable_index,
     Gen.Skel.stmts_variable_index,
     Gen.Skel.conds_path_search,
     Gen.Skel.stmts_path_search,
     Gen.Skel.conds_path_match,
     Gen.Skel.stmts_path_match,
     Gen.Skel.conds_lexPath,
     Gen.Skel.stmts_lexPath,
     Gen.Skel.conds_lexPathSegment,
     Gen.Skel.stmts_lexPathSegment,
     Gen.Skel.conds_lexer_emit,
     Gen.Skel.stmts_lexer_emit,
     Gen.Skel.conds_CodecProto_ReadNext,
     Gen.Skel.stmts_CodecProto_ReadNext,
     Gen.Skel.conds_CodecJSON_ReadNext,
     Gen.Skel.stmts_CodecJSON_ReadNext,
     Gen.Skel.conds_codecHTTPBody_ReadNext,
     Gen.Skel.stmts_codecHTTPBody_ReadNext,
     Gen.Skel.conds_streamGRPC_RecvMsg,
     Gen.Skel.stmts_streamGRPC_RecvMsg,
     Gen.Skel.conds_streamHTTP_readMsg,
     Gen.Skel.stmts_streamHTTP_readMsg,
     Gen.Skel.conds_decodeTimeout,
     Gen.Skel.stmts_decodeTimeout,
     Gen.Skel.conds_HTTPStatusCode,
     Gen.Skel.stmts_HTTPStatusCode,
     Gen.Skel.conds_WSStatusCode,
     Gen.Skel.stmts_WSStatusCode,
     Gen.Skel.conds_params_set,
     Gen.Skel.stmts_params_set,
     Gen.Skel.conds_fieldPath,
     Gen.Skel.stmts_fieldPath,
     Gen.Skel.conds_method_parseQueryParams,
     Gen.Skel.stmts_method_parseQueryParams,
     Gen.Skel.conds_parseParam,
     Gen.Skel.stmts_parseParam,
     Gen.Skel.conds_streamGRPC_decompress,
     Gen.Skel.stmts_streamGRPC_decompress,
     Gen.Skel.conds_streamGRPC_compress,
     Gen.Skel.stmts_streamGRPC_compress,
     Gen.Skel.conds_Mux_encError,
     Gen.Skel.stmts_Mux_encError)
  = (Expected.C09.conds_Mux_ServeHTTP,
     Expected.C09.stmts_Mux_ServeHTTP,
     Expected.C09.conds_Mux_serveGRPC,
     Expected.C09.stmts_Mux_serveGRPC,
     Expected.C09.conds_Mux_serveGRPCWeb,
     Expected.C09.stmts_Mux_serveGRPCWeb,
     Expected.C09.conds_Mux_serveHTTP,
     Expected.C09.stmts_Mux_serveHTTP,
     Expected.C09.conds_variable_index,
     Expected.C09.stmts_variable_index,
     Expected.C09.conds_path_search,
     Expected.C09.stmts_path_search,
     Expected.C09.conds_path_match,
     Expected.C09.stmts_path_match,
     Expected.C09.conds_lexPath,
     Expected.C09.stmts_lexPath,
     Expected.C09.conds_lexPathSegment,
     Expected.C09.stmts_lexPathSegment,
     Expected.C09.conds_lexer_emit,
     Expected.C09.stmts_lexer_emit,
     Expected.C09.conds_CodecProto_ReadNext,
     Expected.C09.stmts_CodecProto_ReadNext,
     Expected.C09.conds_CodecJSON_ReadNext,
     Expected.C09.stmts_CodecJSON_ReadNext,
     Expected.C09.conds_codecHTTPBody_ReadNext,
     Expected.C09.stmts_codecHTTPBody_ReadNext,
     Expected.C09.conds_streamGRPC_RecvMsg,
     Expected.C09.stmts_streamGRPC_RecvMsg,
     Expected.C09.conds_streamHTTP_readMsg,
     Expected.C09.stmts_streamHTTP_readMsg,
     Expected.C09.conds_decodeTimeout,
     Expected.C09.stmts_decodeTimeout,
     Expected.C09.conds_HTTPStatusCode,
     Expected.C09.stmts_HTTPStatusCode,
     Expected.C09.conds_WSStatusCode,
     Expected.C09.stmts_WSStatusCode,
     Expected.C09.conds_params_set,
     Expected.C09.stmts_params_set,
     Expected.C09.conds_fieldPath,
     Expected.C09.stmts_fieldPath,
     Expected.C09.conds_method_parseQueryParams,
     Expected.C09.stmts_method_parseQueryParams,
     Expected.C09.conds_parseParam,
     Expected.C09.stmts_parseParam,
     Expected.C09.conds_streamGRPC_decompress,
     Expected.C09.stmts_streamGRPC_decompress,
     Expected.C09.conds_streamGRPC_compress,
     Expected.C09.stmts_streamGRPC_compress,
     Expected.C09.conds_Mux_encError,
     Expected.C09.stmts_Mux_encError) := rfl

/-- every index / slice expression, type assertion and explicit panic of the package is one
that was audited (193 sites): a new or changed one breaks this. -/
theorem crash_sites_unchanged : Gen.Sites.all = Expected.C09.sites_all := rfl

/-- **routing**: no verb and no path — any runes at all — crashes the router once its rules
were accepted (`variable.index`, `path.search`, `path.match`, the path lexer and its fixed
token array). -/
theorem routing_never_panics (conv) (rs : List (Trie.Rule × Nat × (List Bytes → Option Nat))) (t : Trie.Node)
    (hb : Trie.buildAll Gen.tokenCap rs .empty = .ok t) (path : List Lexer.Rune) (verb : Bytes) :
    ∀ s, Trie.matchPath Gen.tokenCap conv t path verb ≠ .panic s :=
  C01.route_no_panic conv rs t hb path verb

theorem path_lexer_total (input : List Lexer.Rune) (s : String) :
    Lexer.lexPath Gen.tokenCap input ≠ .panic s := C16.lexPath_total input s

/-- **stream codecs**: for any bytes, delivered in any fragmentation, with io.EOF with or
after the last data, the protobuf and JSON readers return (they are total functions: every
iteration consumes input or stops) a length inside the buffer — never a crash. -/
theorem proto_reader_safe (e : Env) (b : Buf) (limit : Nat) :
    ∃ r e', Codec.protoReadNext e b limit = (.ok r, e') ∧ r.n ≤ r.dst.data.length :=
  let ⟨r, e', h1, h2, _⟩ := C17.readNext_safe_proto e b limit
  ⟨r, e', h1, h2⟩

theorem json_reader_safe (e : Env) (b : Buf) (limit : Nat) :
    (Codec.jsonReadNext e b limit).1.n ≤ (Codec.jsonReadNext e b limit).1.dst.data.length :=
  (C17.readNext_safe_json e b limit).1

/-- HTTP receive path on top of them: no receive panics, whatever arrived. -/
theorem http_receive_never_panics (k : Streams.CodecK) (limit spare : Nat) (s : Streams.HS) :
    (Streams.readMsg k limit spare s).1 ≠ .panic := (C06.http_recv_safe k limit spare s).1

/-- **gRPC / gRPC-web frame reader**: any body bytes, any fragmentation, any (or no)
decompressor: a message, the end, or an error — the 5-byte header is never indexed short. -/
theorem grpc_frame_reader_never_panics (gunzip : Option (Bytes → Option Bytes)) (maxRecv : Nat) (e : Env) :
    (Streams.grpcRecv gunzip maxRecv e).1 ≠ .panic := by
  unfold Streams.grpcRecv
  by_cases h5 : 5 ≤ e.data.length
  · obtain ⟨e1, hr, _⟩ := Streams.readExactly_enough e 5 h5
    rw [hr]
    have hlen : (e.data.take 5).length = 5 := by simp; omega
    generalize e.data.take 5 = hdr at hlen
    match hdr, hlen with
    | [flag, a, b, c, d], _ =>
      simp only
      split
      · simp
      · split
        · simp
        · split
          · split
            · simp
            · split
              · simp
              · split <;> simp
          · simp
  · by_cases h0 : e.data.length = 0
    · obtain ⟨e1, hr, _⟩ := Streams.readExactly_empty e 5 (by decide) (List.eq_nil_of_length_eq_zero h0)
      rw [hr]; simp
    · obtain ⟨e1, hr⟩ := Streams.readExactly_short e 5 (by omega) (by omega)
      rw [hr]; simp

/-- **grpc-timeout**: any header bytes give a duration or an error. -/
theorem timeout_never_panics (s : Bytes) (site : String) : C15.decode s ≠ .panic site := by
  unfold C15.decode Timeout.decodeTimeout
  split
  · simp
  · split
    · simp
    · simp only
      split
      · simp
      · split
        · simp
        · split <;> simp

/-- **status tables**: any code — in range or not — maps to an HTTP status. -/
theorem http_status_never_panics (c : Nat) : (C05.httpStatus c).isPanic = false := C05.http_status_total c

end Larking.Props.C09

#print axioms Larking.Props.C09.translator_complete
#print axioms Larking.Props.C09.skeleton_unchanged
#print axioms Larking.Props.C09.crash_sites_unchanged
#print axioms Larking.Props.C09.routing_never_panics
#print axioms Larking.Props.C09.path_lexer_total
#print axioms Larking.Props.C09.proto_reader_safe
#print axioms Larking.Props.C09.json_reader_safe
#print axioms Larking.Props.C09.http_receive_never_panics
#print axioms Larking.Props.C09.grpc_frame_reader_never_panics
#print axioms Larking.Props.C09.timeout_never_panics
#print axioms Larking.Props.C09.http_status_never_panics
