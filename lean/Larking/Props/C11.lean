import Larking.Gen.Skel
import Larking.Gen.Missing
import Larking.Expected.C11
import Larking.Lemmas.Registry
import Larking.Gen.TrieDel
import Larking.Lemmas.TrieDel
import Larking.Lemmas.TrieDelStable
import Larking.Lemmas.TrieUK
import Larking.Lemmas.TrieDelCount
import Larking.Gen.Lexer
/-
  C11 — Dispatch follows the live registration set.  The registry state machine of mux.go /
  handler.go as written (Model/Registry), for every sequence of RegisterService /
  RegisterConn / DropConn calls, every outcome of `path.delRule`'s map iteration (`Chooser`)
  and every value of `rand.Intn`.
-/
namespace Larking.Props.C11
open Larking Larking.Registry

theorem translator_complete : Gen.missing = [] := by decide

theorem skeleton_unchanged :
    (Gen.Skel.conds_state_clone,
     Gen.Skel.stmts_state_clone,
     Gen.Skel.conds_state_appendHandler,
     Gen.Skel.stmts_state_appendHandler,
     Gen.Skel.conds_state_removeHandler,
     Gen.Skel.stmts_state_removeHandler,
     Gen.Skel.conds_state_addConnHandler,
     Gen.Skel.stmts_state_addConnHandler,
     Gen.Skel.conds_state_processFile,
     Gen.Skel.stmts_state_processFile,
     Gen.Skel.conds_state_pickMethodHandler,
     Gen.Skel.stmts_state_pickMethodHandler,
     Gen.Skel.conds_Mux_registerService,
     Gen.Skel.stmts_Mux_registerService,
     Gen.Skel.conds_Mux_RegisterConn,
     Gen.Skel.stmts_Mux_RegisterConn,
     Gen.Skel.conds_Mux_DropConn,
     Gen.Skel.stmts_Mux_DropConn,
     Gen.Skel.conds_path_delRule,
     Gen.Skel.stmts_path_delRule,
     Gen.Skel.conds_path_alive,
     Gen.Skel.stmts_path_alive)
  = (Expected.C11.conds_state_clone,
     Expected.C11.stmts_state_clone,
     Expected.C11.conds_state_appendHandler,
     Expected.C11.stmts_state_appendHandler,
     Expected.C11.conds_state_removeHandler,
     Expected.C11.stmts_state_removeHandler,
     Expected.C11.conds_state_addConnHandler,
     Expected.C11.stmts_state_addConnHandler,
     Expected.C11.conds_state_processFile,
     Expected.C11.stmts_state_processFile,
     Expected.C11.conds_state_pickMethodHandler,
     Expected.C11.stmts_state_pickMethodHandler,
     Expected.C11.conds_Mux_registerService,
     Expected.C11.stmts_Mux_registerService,
     Expected.C11.conds_Mux_RegisterConn,
     Expected.C11.stmts_Mux_RegisterConn,
     Expected.C11.conds_Mux_DropConn,
     Expected.C11.stmts_Mux_DropConn,
     Expected.C11.conds_path_delRule,
     Expected.C11.stmts_path_delRule,
     Expected.C11.conds_path_alive,
     Expected.C11.stmts_path_alive) := rfl

/-- every published state reachable by any call sequence satisfies the registry invariant:
handler identities are unique, a connection entry tracks exactly the handlers that connection
created, every live handler's routes are in the route table. -/
theorem reachable_inv (ch : Chooser) (ops : List Op) : Inv (run ch St.init ops) :=
  run_inv ch ops St.init inv_init

/-- **a request is delivered only to a currently registered backend**: whatever
`pickMethodHandler` returns was created by RegisterService or by a connection that has an
entry tracking that very handler. -/
theorem dispatch_only_live (ch : Chooser) (ops : List Op) (m r : Nat) (h : H)
    (hp : pick (run ch St.init ops) m r = some h) :
    h ∈ (run ch St.init ops).handlers m ∧
    ∀ c, h.owner = some c → ∃ cl, (run ch St.init ops).conns c = some cl ∧ h ∈ cl.handlers := by
  have hin : h ∈ (run ch St.init ops).handlers m := by
    unfold pick at hp
    simp only at hp
    split at hp
    · exact List.mem_of_getElem? hp
    · simp at hp
  refine ⟨hin, fun c hc => ?_⟩
  rcases (reachable_inv ch ops).ownedTracked m h c hin hc with h1 | h1
  · exact h1
  · simp at h1

private theorem step_conns_none (ch : Chooser) (s : St) (op : Op) (c : Nat) (hi : Inv s)
    (hc : s.conns c = none) (hop : ∀ hash mss, op ≠ .regConn c hash mss) :
    (step ch s op).1.conns c = none := by
  cases op with
  | regService mss =>
    simp only [step]
    split
    · exact hc
    · rename_i s' hs hp; rw [(regService_spec s s' mss hs hi hp).2.1]; exact hc
  | regConn c' hash mss =>
    have hne : c ≠ c' := by intro he; subst he; exact hop hash mss rfl
    simp only [step]
    split
    · exact hc
    · rename_i s' ha
      rcases (addConnHandler_spec ch s s' c' hash mss hi ha).2 with ⟨_, _, _, he⟩ | ⟨_, _, ho, _⟩
      · rw [he]; exact hc
      · rw [ho c hne]; exact hc
  | dropConn c' =>
    simp only [step]
    split
    · cases hc' : s.conns c' with
      | none => exact absurd ‹(removeHandler ch s c').2 = true› (by simp [removeHandler, hc'])
      | some cl =>
        obtain ⟨_, _, hn, ho, _⟩ := removeHandler_spec ch s c' cl hi hc'
        by_cases he : c = c'
        · subst he; exact hn
        · rw [ho c he]; exact hc
    · exact hc

/-- **a dropped connection never receives another request** — until it is registered
again: after `DropConn(c)` and any further calls other than `RegisterConn(c)`, no handler
that `c` created can be picked, for any method and any random draw. -/
theorem dropped_never_served (ch : Chooser) (ops ops' : List Op) (c : Nat)
    (hops : ∀ op ∈ ops', ∀ hash mss, op ≠ .regConn c hash mss) (m r : Nat) (h : H)
    (hp : pick (run ch St.init (ops ++ .dropConn c :: ops')) m r = some h) : h.owner ≠ some c := by
  have hrun : run ch St.init (ops ++ .dropConn c :: ops')
      = run ch (step ch (run ch St.init ops) (.dropConn c)).1 ops' := by
    simp [run, List.foldl_append]
  have hi0 := reachable_inv ch ops
  have hi1 := step_inv ch _ (.dropConn c) hi0
  have hc1 : (step ch (run ch St.init ops) (.dropConn c)).1.conns c = none := by
    simp only [step]
    split
    · cases hc : (run ch St.init ops).conns c with
      | none => exact absurd ‹(removeHandler ch _ c).2 = true› (by simp [removeHandler, hc])
      | some cl => exact (removeHandler_spec ch _ c cl hi0 hc).2.2.1
    · cases hc : (run ch St.init ops).conns c with
      | none => rfl
      | some cl => exact absurd (removeHandler_spec ch _ c cl hi0 hc).1 ‹_›
  -- the entry stays absent
  have key : ∀ (ops' : List Op) (s : St), Inv s → s.conns c = none →
      (∀ op ∈ ops', ∀ hash mss, op ≠ .regConn c hash mss) →
      Inv (run ch s ops') ∧ (run ch s ops').conns c = none := by
    intro ops'
    induction ops' with
    | nil => intro s hi hc _; exact ⟨hi, hc⟩
    | cons op rest ih =>
      intro s hi hc hall
      exact ih _ (step_inv ch s op hi) (step_conns_none ch s op c hi hc (hall op (by simp)))
        (fun o ho => hall o (by simp [ho]))
  obtain ⟨hiF, hcF⟩ := key ops' _ hi1 hc1 hops
  rw [hrun] at hp
  have hin : h ∈ (run ch (step ch (run ch St.init ops) (.dropConn c)).1 ops').handlers m := by
    unfold pick at hp
    simp only at hp
    split at hp
    · exact List.mem_of_getElem? hp
    · simp at hp
  intro ho
  rcases hiF.ownedTracked m h c hin ho with ⟨cl, hcl, _⟩ | h1
  · rw [hcF] at hcl; simp at hcl
  · simp at h1

/-- **a method with a live backend is never reported unimplemented or not found**: every
random draw yields one of its handlers, and every route any of them registered leads to it. -/
theorem live_never_unimplemented (ch : Chooser) (ops : List Op) (m : Nat)
    (hl : (run ch St.init ops).handlers m ≠ []) :
    (∀ r, ∃ h, pick (run ch St.init ops) m r = some h) ∧
    ∀ h ∈ (run ch St.init ops).handlers m, ∀ k ∈ h.keys, routeOf (run ch St.init ops).routes k = some m := by
  constructor
  · intro r
    unfold pick
    have hpos : 0 < ((run ch St.init ops).handlers m).length := List.length_pos_iff.mpr hl
    simp only [gt_iff_lt, hpos, if_true]
    have : r % ((run ch St.init ops).handlers m).length < ((run ch St.init ops).handlers m).length :=
      Nat.mod_lt _ hpos
    exact ⟨_, List.getElem?_eq_getElem this⟩
  · intro h hin k hk
    exact (reachable_inv ch ops).routed m h k hin hk

/-- a connection's entry means its handlers are live: registered backends are reachable. -/
theorem registered_backend_live (ch : Chooser) (ops : List Op) (c : Nat) (cl : Conn)
    (hc : (run ch St.init ops).conns c = some cl) :
    ∀ h ∈ cl.handlers, h ∈ (run ch St.init ops).handlers h.method :=
  (reachable_inv ch ops).trackedLive c cl hc

/-- a method with no backend is answered Unimplemented. -/
theorem none_unimplemented (s : St) (m r : Nat) (h : s.handlers m = []) : pick s m r = none := by
  simp [pick, h]

/-- **DropConn removes exactly the dropped connection's handlers**; every other backend of
every method stays, in order.  Dropping an unknown connection returns false and changes nothing. -/
theorem drop_exact (ch : Chooser) (ops : List Op) (c m : Nat) :
    (step ch (run ch St.init ops) (.dropConn c)).1.handlers m
      = ((run ch St.init ops).handlers m).filter (fun h => h.owner ≠ some c) := by
  have hi := reachable_inv ch ops
  simp only [step]
  cases hc : (run ch St.init ops).conns c with
  | none =>
    have : (removeHandler ch (run ch St.init ops) c).2 = false := by simp [removeHandler, hc]
    simp only [this, Bool.false_eq_true, if_false]
    exact (no_owner_of_unregistered _ hi c hc m).symm
  | some cl =>
    obtain ⟨hok, _, _, _, _, hh, _⟩ := removeHandler_spec ch _ c cl hi hc
    simp only [hok, if_true]
    exact hh m

theorem drop_unknown (ch : Chooser) (s : St) (c : Nat) (hc : s.conns c = none) :
    step ch s (.dropConn c) = (s, .dropped false) := by
  simp [step, removeHandler, hc]

/-- **registering a (second) backend is safe**: a successful RegisterConn of a connection
without an entry appends one handler per advertised method and leaves every existing
handler of every method in place. -/
theorem second_backend_safe (ch : Chooser) (ops : List Op) (c hash : Nat) (mss : List MSpec) (s' : St)
    (hc : (run ch St.init ops).conns c = none)
    (ha : addConnHandler ch (run ch St.init ops) c hash mss = some s') :
    ∃ hs : List H, (∀ h ∈ hs, h.owner = some c) ∧ hs.map (·.method) = mss.map (·.method) ∧
      ∀ m, s'.handlers m = (run ch St.init ops).handlers m ++ hs.filter (fun h => h.method = m) := by
  have hi := reachable_inv ch ops
  rcases (addConnHandler_spec ch _ s' c hash mss hi ha).2 with ⟨cl, hcl, _⟩ | ⟨hs, _, _, ho, hmap, hh⟩
  · rw [hc] at hcl; simp at hcl
  · exact ⟨hs, ho, hmap, fun m => by rw [hh m, no_owner_of_unregistered _ hi c hc m]⟩

/-- re-registering an unchanged connection changes nothing. -/
theorem reregister_unchanged (ch : Chooser) (s : St) (c hash : Nat) (mss : List MSpec) (cl : Conn)
    (hc : s.conns c = some cl) (hh : cl.hash = hash) :
    step ch s (.regConn c hash mss) = (s, .ok) := by
  simp [step, addConnHandler, hc, hh]

/-- a changed connection is replaced: its old handlers go, the new ones are appended. -/
theorem reregister_changed (ch : Chooser) (ops : List Op) (c hash : Nat) (mss : List MSpec) (s' : St) (cl : Conn)
    (hc : (run ch St.init ops).conns c = some cl) (hne : cl.hash ≠ hash)
    (ha : addConnHandler ch (run ch St.init ops) c hash mss = some s') :
    ∃ hs : List H, s'.conns c = some ⟨hs, hash⟩ ∧ hs.map (·.method) = mss.map (·.method) ∧
      ∀ m, s'.handlers m = ((run ch St.init ops).handlers m).filter (fun h => h.owner ≠ some c)
                            ++ hs.filter (fun h => h.method = m) := by
  rcases (addConnHandler_spec ch _ s' c hash mss (reachable_inv ch ops) ha).2 with ⟨cl', hcl, he, _⟩ | ⟨hs, h1, _, _, hmap, hh⟩
  · rw [hc] at hcl; injection hcl with hcl; subst hcl; exact absurd he hne
  · exact ⟨hs, h1, hmap, hh⟩

/-- a failed call publishes nothing. -/
theorem failed_changes_nothing (ch : Chooser) (s : St) (op : Op) (h : (step ch s op).2 = .err) :
    (step ch s op).1 = s := by
  cases op with
  | regService mss => simp only [step] at h ⊢; split <;> simp_all
  | regConn c hash mss => simp only [step] at h ⊢; split <;> simp_all
  | dropConn c => simp only [step] at h; split at h <;> simp at h

-- non-vacuity: two connections serve method 7 (keys 70, 71); conn 1 is dropped.
def ex : List Op := [.regConn 1 10 [⟨7, [70, 71]⟩], .regConn 2 20 [⟨7, [70, 71]⟩, ⟨8, [80]⟩], .dropConn 1]
example : ((run firstOf St.init ex).handlers 7).map (·.owner) = [some 2] := by decide
example : ((run firstOf St.init (ex ++ [.dropConn 2])).handlers 7) = [] := by decide
example : routeOf (run firstOf St.init ex).routes 71 = some 7 := by decide
-- a conflicting registration (key 70 bound to method 9) fails and changes nothing
example : (step firstOf (run firstOf St.init ex) (.regService [⟨9, [90, 70]⟩])).2 = .err := by decide

/-! ### `delRule` on the routing trie itself (`Model/TrieDel`): the route table above abstracts
it; these are the trie-level facts the abstraction relies on. -/
open Larking.Trie in
/-- `path.alive` counts every field of a node in which a binding can sit (regenerated from the
source): a node at or below which anything is bound is never pruned. -/
theorem alive_counts_every_binding_site : AliveSound Gen.aliveCounts := by
  unfold AliveSound; decide

open Larking.Trie in
/-- **`delRule` never touches another method's routes**: whatever is bound for a method other
than `name` — at any depth, under a verb or under kind `*` (the implicit `/Service/Method`
route) — is bound at the same place afterwards, whichever rule of `name` the walk over Go's
maps finds first. A live method therefore keeps all its routes across any `DropConn`. -/
theorem delRule_keeps_other_methods (name : Nat) (n n' : Node)
    (h : delRule Gen.aliveCounts name n = some n') (ks : List KEdge) (vk : Option Bytes) (m : Meth)
    (hne : m.mid ≠ name) (hst : StoredK n ks vk m) : StoredK n' ks vk m :=
  delRule_keeps Gen.aliveCounts alive_counts_every_binding_site name n n' h ks vk m hne hst

open Larking.Trie in
/-- … it invents nothing: every binding afterwards was there before … -/
theorem delRule_invents_nothing (name : Nat) (n n' : Node)
    (h : delRule Gen.aliveCounts name n = some n') (ks : List KEdge) (vk : Option Bytes) (m : Meth)
    (hb : BoundIn n' ks vk m) : BoundIn n ks vk m :=
  delRule_only_removes Gen.aliveCounts name n n' h ks vk m hb

open Larking.Trie in
/-- … and it answers false only when no verb route of the method is left anywhere in the trie. -/
theorem delRule_false_means_gone (name : Nat) (n : Node) (h : delRule Gen.aliveCounts name n = none)
    (ks : List KEdge) (verb : Bytes) (m : Meth) (hb : BoundIn n ks (some verb) m) : m.mid ≠ name :=
  delRule_none Gen.aliveCounts name n h ks verb m hb

open Larking.Trie in
/-- **`delRule` removes exactly one verb binding of the method per successful call** — the pruning
of dead nodes removes none — **and reports false exactly when none is left**: `removeHandler`'s
loop `for s.path.delRule(name) {}` ends after as many calls as the method has verb bindings, and
then no verb route of a dropped method is left anywhere in the trie. -/
theorem delRule_removes_exactly_one (name : Nat) (n n' : Node)
    (h : delRule Gen.aliveCounts name n = some n') : countN name n' + 1 = countN name n :=
  delRule_count Gen.aliveCounts alive_counts_every_binding_site name n n' h

open Larking.Trie in
theorem delRule_loop_ends_clean (name fuel : Nat) (n : Node) (hf : countN name n ≤ fuel) :
    delRule Gen.aliveCounts name (delAll Gen.aliveCounts name fuel n) = none ∧
    countN name (delAll Gen.aliveCounts name fuel n) = 0 :=
  delAll_complete Gen.aliveCounts alive_counts_every_binding_site name fuel n hf

open Larking.Trie in
/-- not vacuous: method 1 holds two verb bindings (`GET /p/x`, `POST /p`), two calls remove them,
the third reports false. -/
example :
    let mA : Trie.Meth := ⟨1, [], 0⟩
    let mB : Trie.Meth := ⟨2, [], 1⟩
    let x : Trie.Node := .mk [] [([71, 69, 84], mA)] none []
    let pn : Trie.Node := .mk [([47, 120], x)] [([71, 69, 84], mB), ([80, 79, 83, 84], mA)] none []
    let root : Trie.Node := .mk [([47, 112], pn)] [] none []
    countN 1 root = 2 ∧ countN 1 (delAll Gen.aliveCounts 1 1 root) = 1 ∧
    delRule Gen.aliveCounts 1 (delAll Gen.aliveCounts 1 2 root) = none := by
  exact ⟨by rfl, by rfl, by rfl⟩

open Larking.Trie Larking.Lexer in
/-- **Dispatch is stable across `DropConn`**: a request the router dispatches to a method other
than the one whose rules are being removed is dispatched to the SAME method with the SAME
captures after `delRule` ran for `name` any number of times — no other branch of the trie takes
the request over, no pruning loses it.  `UK`: the association lists stand for Go maps (one entry
per key); `hconv`: every capture converts (without it the code's variable loop, which a failed
conversion ends, goes on to the next variable once the failing binding is gone). -/
theorem dispatch_stable_across_deletions (conv : Nat → Bytes → Bool) (hconv : ∀ f t, conv f t = true)
    (verb : Bytes) (name fuel : Nat) (t : Node) (huk : UK t) (toks : List Tok) (m : Meth) (caps : Caps)
    (h : search conv verb t toks = .found m caps) (hne : m.mid ≠ name) :
    search conv verb (delAll Gen.aliveCounts name fuel t) toks = .found m caps :=
  delAll_stable Gen.aliveCounts alive_counts_every_binding_site conv hconv verb name fuel t huk toks m caps h hne

open Larking.Trie Larking.Lexer in
/-- … for every trie the registration functions build the key hypothesis is a theorem
(`buildAll_UK`: the segment maps are strictly sorted association lists, which the sorted
insert-or-replace preserves): **after any accepted registrations and any number of deletions, a
request that went to a surviving method goes to the same method with the same captures.** -/
theorem dispatch_stable_across_drop (conv : Nat → Bytes → Bool) (hconv : ∀ f t, conv f t = true)
    (rs : List (Rule × Nat × (List Bytes → Option Nat))) (t : Node)
    (hb : buildAll Gen.tokenCap rs .empty = .ok t)
    (verb : Bytes) (name fuel : Nat) (toks : List Tok) (m : Meth) (caps : Caps)
    (h : search conv verb t toks = .found m caps) (hne : m.mid ≠ name) :
    search conv verb (delAll Gen.aliveCounts name fuel t) toks = .found m caps :=
  dispatch_stable_across_deletions conv hconv verb name fuel t (buildAll_UK Gen.tokenCap rs t hb) toks m caps h hne

open Larking.Trie Larking.Lexer in
/-- … and a deletion creates no route: what was answered NotFound / MethodNotAllowed still is. -/
theorem deletions_create_no_route (conv : Nat → Bytes → Bool) (hconv : ∀ f t, conv f t = true)
    (verb : Bytes) (name fuel : Nat) (t : Node) (huk : UK t) (toks : List Tok) (e : SErr)
    (h : search conv verb t toks = .fail e) :
    ∃ e', search conv verb (delAll Gen.aliveCounts name fuel t) toks = .fail e' :=
  delAll_fail Gen.aliveCounts alive_counts_every_binding_site conv hconv verb name fuel t huk toks e h

open Larking.Trie in
/-- the hypotheses are met: a trie with `GET /p/x` of method 1 and `GET /p` of method 2 has unique
keys, and deleting method 1 leaves `GET /p` → method 2 where it was. -/
example :
    let mA : Trie.Meth := ⟨1, [], 0⟩
    let mB : Trie.Meth := ⟨2, [], 1⟩
    let x : Trie.Node := .mk [] [([71, 69, 84], mA)] none []
    let pn : Trie.Node := .mk [([47, 120], x)] [([71, 69, 84], mB)] none []
    let root : Trie.Node := .mk [([47, 112], pn)] [] none []
    UK root ∧ delAll Gen.aliveCounts 1 3 root = .mk [([47, 112], .mk [] [([71, 69, 84], mB)] none [])] [] none [] := by
  refine ⟨by simp [UK, UKSegs, UKVars, lookupSeg], by rfl⟩

open Larking.Trie Larking.Lexer in
/-- why `hconv` is there — the code's variable loop ENDS at a capture that does not convert
(`GET /x` against `/{a}` of method 1 with an int field: refused), and once method 1 is gone the
loop reaches `/{b}` of method 2: the same request is dispatched.  Both are within the property
(the refused request matched no rule with convertible captures), but "what found nothing finds
nothing" is false without the side condition. -/
theorem unconvertible_capture_shadows_until_deleted :
    let mA : Meth := ⟨1, [some 0], 0⟩
    let mB : Meth := ⟨2, [some 1], 1⟩
    let vA : Var := ⟨[97], [⟨.star, [42]⟩]⟩
    let vB : Var := ⟨[98], [⟨.star, [42]⟩]⟩
    let root : Node := .mk [] [] none
      [(vA, .mk [] [([71, 69, 84], mA)] none []), (vB, .mk [] [([71, 69, 84], mB)] none [])]
    let req : List Tok := [⟨.slash, [47]⟩, ⟨.path, [120]⟩, ⟨.eof, []⟩]
    let conv : Nat → Bytes → Bool := fun f _ => f != 0
    search conv [71, 69, 84] root req = .fail .conv ∧
    search conv [71, 69, 84] (delAll Gen.aliveCounts 1 3 root) req = .found mB [(some 1, [120])] := by
  exact ⟨by rfl, by rfl⟩

/-- contrast — the code before fix `9c3d92b` (`alive` did not count `methodAll`): removing method
1's `GET /p/x` prunes `/p`, which holds method 2's kind-`*` binding, and that route is lost. -/
theorem alive_without_all_loses_route :
    let mA : Trie.Meth := ⟨1, [], 0⟩
    let mB : Trie.Meth := ⟨2, [], 1⟩
    let x : Trie.Node := .mk [] [([71, 69, 84], mA)] none []
    let pn : Trie.Node := .mk [([47, 120], x)] [] (some mB) []
    let root : Trie.Node := .mk [([47, 112], pn)] [] none []
    Trie.StoredK root [.seg [47, 112]] none mB ∧
    (∃ n', Trie.delRule ["methods", "variables", "segments"] 1 root = some n' ∧
      ¬ Trie.StoredK n' [.seg [47, 112]] none mB) ∧
    (∃ n', Trie.delRule Gen.aliveCounts 1 root = some n' ∧ Trie.StoredK n' [.seg [47, 112]] none mB) := by
  refine ⟨by simp [Trie.StoredK, Trie.StoredHere, Trie.Node.segs, Trie.Node.all, Trie.lookupSeg], ?_, ?_⟩
  · refine ⟨.mk [] [] none [], by rfl, ?_⟩
    simp [Trie.StoredK, Trie.Node.segs, Trie.lookupSeg]
  · refine ⟨.mk [([47, 112], .mk [] [] (some ⟨2, [], 1⟩) [])] [] none [], by rfl, ?_⟩
    simp [Trie.StoredK, Trie.StoredHere, Trie.Node.segs, Trie.Node.all, Trie.lookupSeg]

end Larking.Props.C11

#print axioms Larking.Props.C11.translator_complete
#print axioms Larking.Props.C11.skeleton_unchanged
#print axioms Larking.Props.C11.reachable_inv
#print axioms Larking.Props.C11.dispatch_only_live
#print axioms Larking.Props.C11.dropped_never_served
#print axioms Larking.Props.C11.live_never_unimplemented
#print axioms Larking.Props.C11.registered_backend_live
#print axioms Larking.Props.C11.none_unimplemented
#print axioms Larking.Props.C11.drop_exact
#print axioms Larking.Props.C11.drop_unknown
#print axioms Larking.Props.C11.second_backend_safe
#print axioms Larking.Props.C11.reregister_unchanged
#print axioms Larking.Props.C11.reregister_changed
#print axioms Larking.Props.C11.failed_changes_nothing
#print axioms Larking.Props.C11.alive_counts_every_binding_site
#print axioms Larking.Props.C11.delRule_keeps_other_methods
#print axioms Larking.Props.C11.delRule_invents_nothing
#print axioms Larking.Props.C11.delRule_false_means_gone
#print axioms Larking.Props.C11.delRule_removes_exactly_one
#print axioms Larking.Props.C11.delRule_loop_ends_clean
#print axioms Larking.Props.C11.dispatch_stable_across_deletions
#print axioms Larking.Props.C11.dispatch_stable_across_drop
#print axioms Larking.Props.C11.deletions_create_no_route
#print axioms Larking.Props.C11.unconvertible_capture_shadows_until_deleted
#print axioms Larking.Props.C11.alive_without_all_loses_route
