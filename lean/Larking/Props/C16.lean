import Larking.Gen.Skel
import Larking.Gen.Lexer
import Larking.Gen.Missing
import Larking.Expected.C16
import Larking.Lemmas.LexerTotal
import Larking.Lemmas.LexerComplete
import Larking.Lemmas.Accept
/-
  C16 — Registration accepts valid rules and rejects invalid ones without crashing.
  Proved here: the lexers are total; conflict detection and re-declaration at the rule's end
  node; nested variables and unresolvable selectors are errors; an accepted rule keeps the
  trie well-formed (so that routing afterwards cannot crash, C01).  Every template of the documented
  grammar is lexed to its tokens (`grammar_templates_lex`); that `addRule` then accepts the
  tokens and that the instantiated paths route is decided by the differential run against
  the grammar oracle (see the level note).
-/
namespace Larking.Props.C16
open Larking Larking.Lexer Larking.Trie

theorem translator_complete : Gen.missing = [] := by decide

theorem skeleton_unchanged :
    (Gen.Skel.conds_path_addRule,
     Gen.Skel.stmts_path_addRule,
     Gen.Skel.conds_path_addPath,
     Gen.Skel.stmts_path_addPath,
     Gen.Skel.conds_path_addVariable,
     Gen.Skel.stmts_path_addVariable,
     Gen.Skel.conds_path_search,
     Gen.Skel.stmts_path_search,
     Gen.Skel.conds_lexTemplate,
     Gen.Skel.stmts_lexTemplate,
     Gen.Skel.conds_lexSegments,
     Gen.Skel.stmts_lexSegments,
     Gen.Skel.conds_lexSegment,
     Gen.Skel.stmts_lexSegment,
     Gen.Skel.conds_lexVariable,
     Gen.Skel.stmts_lexVariable,
     Gen.Skel.conds_lexFieldPath,
     Gen.Skel.stmts_lexFieldPath,
     Gen.Skel.conds_lexVerb,
     Gen.Skel.stmts_lexVerb,
     Gen.Skel.conds_lexIdent,
     Gen.Skel.stmts_lexIdent,
     Gen.Skel.conds_lexLiteral,
     Gen.Skel.stmts_lexLiteral,
     Gen.Skel.conds_lexer_emit,
     Gen.Skel.stmts_lexer_emit,
     Gen.Skel.conds_Mux_registerService,
     Gen.Skel.stmts_Mux_registerService,
     Gen.Skel.conds_state_appendHandler,
     Gen.Skel.stmts_state_appendHandler)
  = (Expected.C16.conds_path_addRule,
     Expected.C16.stmts_path_addRule,
     Expected.C16.conds_path_addPath,
     Expected.C16.stmts_path_addPath,
     Expected.C16.conds_path_addVariable,
     Expected.C16.stmts_path_addVariable,
     Expected.C16.conds_path_search,
     Expected.C16.stmts_path_search,
     Expected.C16.conds_lexTemplate,
     Expected.C16.stmts_lexTemplate,
     Expected.C16.conds_lexSegments,
     Expected.C16.stmts_lexSegments,
     Expected.C16.conds_lexSegment,
     Expected.C16.stmts_lexSegment,
     Expected.C16.conds_lexVariable,
     Expected.C16.stmts_lexVariable,
     Expected.C16.conds_lexFieldPath,
     Expected.C16.stmts_lexFieldPath,
     Expected.C16.conds_lexVerb,
     Expected.C16.stmts_lexVerb,
     Expected.C16.conds_lexIdent,
     Expected.C16.stmts_lexIdent,
     Expected.C16.conds_lexLiteral,
     Expected.C16.stmts_lexLiteral,
     Expected.C16.conds_lexer_emit,
     Expected.C16.stmts_lexer_emit,
     Expected.C16.conds_Mux_registerService,
     Expected.C16.stmts_Mux_registerService,
     Expected.C16.conds_state_appendHandler,
     Expected.C16.stmts_state_appendHandler) := rfl

/-- the template lexer is total: any string (any runes, any classification) gives tokens or
an error, never a crash — in particular the fixed token array cannot overflow. -/
theorem lexTemplate_total (input : List Rune) (s : String) :
    lexTemplate Gen.tokenCap input ≠ .panic s := lexTemplate_no_panic Gen.tokenCap input s

theorem lexPath_total (input : List Rune) (s : String) :
    lexPath Gen.tokenCap input ≠ .panic s := lexPath_no_panic Gen.tokenCap input s

/-- **Conflicts are rejected**: a binding (whose own selectors resolve) whose end node already
binds the same kind for another method is an error and nothing is stored. -/
theorem conflict_rejected (n : Node) (verb : Bytes) (mid : Nat) (mk : Unit → Outcome Meth) (m e : Meth)
    (hmk : mk () = .ok m)
    (hex : (if verb == starVerb then n.all else lookupMeth n.methods verb) = some e)
    (hne : e.mid ≠ mid) : register n verb mid mk = .err "duplicate-rule" := by
  obtain ⟨segs, methods, all, vars⟩ := n
  simp only [Node.all, Node.methods] at hex
  simp only [register, hmk, registerCore, hex]
  have : (e.mid != mid) = true := by simpa using hne
  simp [this]

/-- … while re-declaring a method's own binding (with selectors that resolve) is accepted and
changes nothing. -/
theorem redeclare_noop (n : Node) (verb : Bytes) (mid : Nat) (mk : Unit → Outcome Meth) (m e : Meth)
    (hmk : mk () = .ok m)
    (hex : (if verb == starVerb then n.all else lookupMeth n.methods verb) = some e)
    (heq : e.mid = mid) : register n verb mid mk = .ok n := by
  obtain ⟨segs, methods, all, vars⟩ := n
  simp only [Node.all, Node.methods] at hex
  simp only [register, hmk, registerCore, hex]
  have : (e.mid != mid) = false := by simpa using heq
  simp [this]

/-- **An unresolvable body / response_body selector is rejected wherever the rule ends** — also
when its pattern is already bound to the same method (then the rule would otherwise be a
silent no-op) or to another one. -/
theorem bad_selector_rejected_everywhere (n : Node) (verb : Bytes) (mid : Nat) (mk : Unit → Outcome Meth) (k : String)
    (hmk : mk () = .err k) : register n verb mid mk = .err k := by
  simp only [register, hmk]

/-- contrast — the order before fix `4bb7939`: the slot was looked at first, so a rule with a
selector that does not resolve was accepted when its pattern was already the method's. -/
theorem slot_first_accepts_a_bad_selector (segs : List (Bytes × Node)) (vars) (e : Meth) (verb : Bytes)
    (hv : (verb == starVerb) = false) :
    registerCore (.mk segs [(verb, e)] none vars) verb e.mid (fun _ => .err "body-field")
      = .ok (.mk segs [(verb, e)] none vars) := by
  simp [registerCore, hv, lookupMeth]

/-- a verb rule and a '*' rule on the same path do not conflict (either order). -/
theorem star_and_verb_coexist (segs : List (Bytes × Node)) (methods) (vars) (m0 : Meth) (verb : Bytes)
    (hv : (verb == starVerb) = false) (hnone : lookupMeth methods verb = none) (mid : Nat) (m : Meth) :
    register (.mk segs methods (some m0) vars) verb mid (fun _ => .ok m)
      = .ok (.mk segs (upsertMeth methods verb m) (some m0) vars) := by
  simp [register, registerCore, hv, hnone]

/-- nested variables are rejected with an error (never the historical panic). -/
theorem nested_variable_rejected (pre post : List Tok) (inner : Tok)
    (hinner : okPatTok inner = false) (hne : inner.typ ≠ .varEnd) (hpre : ∀ t ∈ pre, okPatTok t = true ∧ t.typ ≠ .varEnd) :
    patToks (pre ++ inner :: post) = none := by
  induction pre with
  | nil =>
    have h1 : (inner.typ == TokTy.varEnd) = false := by simpa using hne
    simp [patToks, h1, hinner]
  | cons t ts ih =>
    have ht := hpre t (by simp)
    have h1 : (t.typ == TokTy.varEnd) = false := by simpa using ht.2
    simp only [List.cons_append, patToks, h1, Bool.false_eq_true, if_false, ht.1, if_true]
    rw [ih (fun x hx => hpre x (by simp [hx]))]; rfl

/-- every accepted rule leaves a well-formed trie: by induction, routing over any trie the
mux ever publishes cannot crash. -/
theorem accepted_keeps_wellformed (resolve) (n n' : Node) (r : Rule) (mid : Nat)
    (hwf : WF 0 n) (h : addRule Gen.tokenCap resolve n r mid = .ok n') : WF 0 n' :=
  addRule_WF Gen.tokenCap resolve n n' r mid hwf h

/-- a rule with nested additional bindings is an error. -/
theorem nested_additional_rejected (resolve) (n : Node) (mid : Nat) (b : Binding) (more : List (Binding × Bool)) :
    addAdditional Gen.tokenCap resolve mid n ((b, true) :: more) = .err "nested-rules" := by
  simp [addAdditional]

/-- **Every template of the documented grammar is lexed to its tokens** — `"/" Segments
[ ":" LITERAL ]` with segments `*`, `**`, literals and variables `{field.path}` /
`{field.path=sub/pattern}` (sub-patterns of `*`, `**`, literals: google.api.http forbids
nested variables) — whenever its tokens fit larking's token array (the regenerated
`Gen.tokenCap`). Literals are read as the code reads them: starting with a letter. -/
theorem grammar_templates_lex (t : Tmpl) (ht : t.Wf) (hcap : t.toks.length ≤ Gen.tokenCap) :
    lexTemplate Gen.tokenCap t.render = .ok t.toks :=
  lexTemplate_complete Gen.tokenCap t ht hcap

/-- … and a template that needs more tokens than the array holds is refused with an error,
not a crash (the other half of the token limit). -/
theorem grammar_templates_never_crash (t : Tmpl) (s : String) :
    lexTemplate Gen.tokenCap t.render ≠ .panic s := lexTemplate_no_panic Gen.tokenCap t.render s

/-- **Valid rules are accepted.** A rule whose bindings (primary and additional, not nested)
have templates of the documented grammar that fit the token array, variables whose field
paths resolve in the request type, and resolvable body / response_body selectors is accepted
by `addRule` on EVERY trie — the only other outcome is the duplicate-rule error raised when
one of its bindings ends where another method is already bound. (That the routes then lead
to the method is `route_complete` / `route_sound` over the well-formed trie,
`accepted_keeps_wellformed`.) -/
theorem grammar_rules_accepted (resolve : List Bytes → Option Nat) (n : Node) (r : Rule) (mid : Nat)
    (hp : ValidBinding Gen.tokenCap resolve r.primary)
    (ha : ∀ p ∈ r.additional, p.2 = false ∧ ValidBinding Gen.tokenCap resolve p.1) :
    (∃ n', addRule Gen.tokenCap resolve n r mid = .ok n') ∨
      addRule Gen.tokenCap resolve n r mid = .err "duplicate-rule" :=
  valid_rule_accepted Gen.tokenCap resolve n r mid hp ha

/-- … and on the empty trie (nothing to conflict with) a single valid binding is accepted. -/
theorem grammar_binding_accepted_on_empty (resolve : List Bytes → Option Nat) (b : Binding) (mid : Nat)
    (hv : ValidBinding Gen.tokenCap resolve b) :
    ∃ n', addRule Gen.tokenCap resolve .empty ⟨b, []⟩ mid = .ok n' := by
  obtain ⟨n', h⟩ := valid_binding_accepted_on_empty Gen.tokenCap resolve b mid hv
  exact ⟨n', by simp [addRule, h, addAdditional]⟩

-- non-vacuity: "/v/{a.b=s/*}:g" as a template of the grammar
private def pu (c : Nat) : Rune := ⟨[UInt8.ofNat c], c, false, false, false, false⟩
private def le (c : Nat) : Rune := ⟨[UInt8.ofNat c], c, true, true, true, true⟩
private def tmEx : Tmpl :=
  { slash := pu 47, first := .simple (.lit [le 118]),
    more := [(pu 47, .var { lbrace := pu 123, ident := [le 97],
                            dotted := [(⟨[46], 46, false, false, true, true⟩, [le 98])],
                            sub := some (pu 61, .lit [le 115], [(pu 47, .star (pu 42))]), rbrace := pu 125 })],
    verb := some (pu 58, [le 103]) }
example : lexTemplate Gen.tokenCap tmEx.render = .ok tmEx.toks ∧ tmEx.toks.length = 15 := by decide
example : tmEx.Wf := by
  refine ⟨by decide, ⟨⟨_, _, rfl, rfl⟩, by decide⟩, ?_, by decide, by decide, by decide⟩
  intro p hp
  simp only [tmEx, List.mem_singleton] at hp
  subst hp
  refine ⟨by decide, by decide, by decide, by decide, by decide, by decide,
    ⟨⟨_, _, rfl, rfl⟩, by decide⟩, ?_⟩
  intro q hq
  simp only [List.mem_singleton] at hq
  subst hq
  exact ⟨by decide, (by decide : Punct cStar (pu 42))⟩

end Larking.Props.C16

#print axioms Larking.Props.C16.translator_complete
#print axioms Larking.Props.C16.skeleton_unchanged
#print axioms Larking.Props.C16.lexTemplate_total
#print axioms Larking.Props.C16.lexPath_total
#print axioms Larking.Props.C16.conflict_rejected
#print axioms Larking.Props.C16.redeclare_noop
#print axioms Larking.Props.C16.star_and_verb_coexist
#print axioms Larking.Props.C16.nested_variable_rejected
#print axioms Larking.Props.C16.accepted_keeps_wellformed
#print axioms Larking.Props.C16.nested_additional_rejected
#print axioms Larking.Props.C16.grammar_templates_lex
#print axioms Larking.Props.C16.grammar_templates_never_crash
#print axioms Larking.Props.C16.grammar_rules_accepted
#print axioms Larking.Props.C16.grammar_binding_accepted_on_empty
#print axioms Larking.Props.C16.bad_selector_rejected_everywhere
#print axioms Larking.Props.C16.slot_first_accepts_a_bad_selector
