import Larking.Gen.Skel
import Larking.Gen.Missing
import Larking.Expected.C04
import Larking.Lemmas.Negotiate
import Larking.Lemmas.FieldPath
import Larking.Gen.Params
/-
  C04 — Unary response fidelity and truthful response headers (negotiation part proved;
  the marshalling codecs are parameters, see the level note).
-/
namespace Larking.Props.C04
open Larking Larking.Negotiate

theorem translator_complete : Gen.missing = [] := by decide

theorem skeleton_unchanged :
    (Gen.Skel.conds_parseAccept,
     Gen.Skel.stmts_parseAccept,
     Gen.Skel.conds_expectQuality,
     Gen.Skel.stmts_expectQuality,
     Gen.Skel.conds_negotiateContentType,
     Gen.Skel.stmts_negotiateContentType,
     Gen.Skel.conds_negotiateContentEncoding,
     Gen.Skel.stmts_negotiateContentEncoding,
     Gen.Skel.conds_streamHTTP_SendMsg,
     Gen.Skel.stmts_streamHTTP_SendMsg,
     Gen.Skel.conds_streamHTTP_writeMsg,
     Gen.Skel.stmts_streamHTTP_writeMsg,
     Gen.Skel.conds_NewMux,
     Gen.Skel.stmts_NewMux,
     Gen.Skel.conds_path_addRule,
     Gen.Skel.stmts_path_addRule,
     Gen.Skel.conds_fieldPath,
     Gen.Skel.stmts_fieldPath,
     Gen.Skel.conds_mutablePath,
     Gen.Skel.stmts_mutablePath,
     Gen.Skel.conds_ownField,
     Gen.Skel.stmts_ownField)
  = (Expected.C04.conds_parseAccept,
     Expected.C04.stmts_parseAccept,
     Expected.C04.conds_expectQuality,
     Expected.C04.stmts_expectQuality,
     Expected.C04.conds_negotiateContentType,
     Expected.C04.stmts_negotiateContentType,
     Expected.C04.conds_negotiateContentEncoding,
     Expected.C04.stmts_negotiateContentEncoding,
     Expected.C04.conds_streamHTTP_SendMsg,
     Expected.C04.stmts_streamHTTP_SendMsg,
     Expected.C04.conds_streamHTTP_writeMsg,
     Expected.C04.stmts_streamHTTP_writeMsg,
     Expected.C04.conds_NewMux,
     Expected.C04.stmts_NewMux,
     Expected.C04.conds_path_addRule,
     Expected.C04.stmts_path_addRule,
     Expected.C04.conds_fieldPath,
     Expected.C04.stmts_fieldPath,
     Expected.C04.conds_mutablePath,
     Expected.C04.stmts_mutablePath,
     Expected.C04.conds_ownField,
     Expected.C04.stmts_ownField) := rfl

/-- the response type is the request's own (the default) or a registered type that an Accept
range with q ≠ 0 admits — for every Accept header whatsoever (any bytes, any number of
header lines). -/
theorem content_type_sound (accept : List Bytes) (offers : List Bytes) (own : Bytes) :
    let r := negotiateContentType (parseAccept accept) offers own
    r = own ∨ (r ∈ offers ∧ ∃ s ∈ parseAccept accept, s.q.isZero = false ∧ rangeMatches s.value r = true) :=
  negotiate_sound (parseAccept accept) offers own

/-- whenever a registered type satisfies the Accept header (some parsed range with q > 0
admits it), the response type is a registered type the header admits — never the fallback. -/
theorem content_type_complete (accept : List Bytes) (offers : List Bytes) (own : Bytes)
    (hex : ∃ o ∈ offers, ∃ s ∈ parseAccept accept, 0 < s.q.num ∧ rangeMatches s.value o = true) :
    let r := negotiateContentType (parseAccept accept) offers own
    r ∈ offers ∧ ∃ s ∈ parseAccept accept, s.q.isZero = false ∧ rangeMatches s.value r = true :=
  negotiate_complete (parseAccept accept) offers own (parseAccept_den accept) hex

/-- an Accept header without any parsable range leaves the request's own type. -/
theorem content_type_default (offers : List Bytes) (own : Bytes) :
    negotiateContentType (parseAccept []) offers own = own := by
  simp only [parseAccept, List.flatMap_nil, negotiateContentType]
  induction offers with
  | nil => rfl
  | cons o rest ih => simpa using ih

-- non-vacuity: Accept "x/y;q=0.9, a/b;q=0.1" with offers c/d, a/b and own type c/d
example : negotiateContentType
    (parseAccept [[120, 47, 121, 59, 113, 61, 48, 46, 57, 44, 32, 97, 47, 98, 59, 113, 61, 48, 46, 49]])
    [[99, 47, 100], [97, 47, 98]] [99, 47, 100] = [97, 47, 98] := by decide
example : ∃ o ∈ [[99, 47, 100], [97, 47, 98]], ∃ s ∈ parseAccept [[97, 47, 42]],   -- "a/*"
    0 < s.q.num ∧ rangeMatches s.value o = true := by decide

/-! ### `response_body` / `body` selectors (`Model/FieldPath`: `fieldPath`, `mutablePath`) -/

open Larking.FieldPath in
/-- **a `response_body` selector yields exactly the selected field of the reply**: `addRule`
resolves the selector with ALL its dot-separated components against the REPLY message's fields
(both regenerated), and walking the reply along the resolved fields (`mutablePath`) arrives at
the field the components name, one level per component — for every descriptor tree, every
selector and every reply. -/
theorem response_body_selects_the_named_field (fs : List Field) (sel : Bytes) (p : List Nat) (reply : Val)
    (h : resolve Gen.respSelectorAll fs sel = some p) :
    Gen.respSelectorOnReply = true ∧ p.length = (splitDots sel).length ∧
    select fs reply (splitDots sel) = some (mutablePath reply p) := by
  simp only [resolve, Gen.respSelectorAll, if_true] at h
  exact ⟨by decide, fieldPath_length _ fs p h, mutablePath_select _ fs p reply h⟩

open Larking.FieldPath in
/-- the same for a `body` selector, against the REQUEST message's fields. -/
theorem body_selects_the_named_field (fs : List Field) (sel : Bytes) (p : List Nat) (req : Val)
    (h : resolve Gen.bodySelectorAll fs sel = some p) :
    Gen.bodySelectorOnRequest = true ∧ p.length = (splitDots sel).length ∧
    select fs req (splitDots sel) = some (mutablePath req p) := by
  simp only [resolve, Gen.bodySelectorAll, if_true] at h
  exact ⟨by decide, fieldPath_length _ fs p h, mutablePath_select _ fs p req h⟩

open Larking.FieldPath in
/-- not vacuous, and the contrast: `nested.child` resolves to the field of the field; resolved from
its first component alone the rule would answer with the whole `nested` message. -/
theorem first_component_only_selects_the_parent :
    let child : Desc := .mk [([115], [115], 1, false, none)]
    let nested : Desc := .mk [([99, 104], [99, 104], 3, false, some child)]
    let fs : List Field := [([110], [110], 7, false, some nested)]
    let sel : Bytes := [110, 46, 99, 104]                       -- "n.ch"
    let leaf : Val := .msg [(1, .scalar [120])]
    let reply : Val := .msg [(7, .msg [(3, leaf), (9, .scalar [121])])]
    resolve true fs sel = some [7, 3] ∧ mutablePath reply [7, 3] = leaf ∧
    resolve false fs sel = some [7] ∧ mutablePath reply [7] = .msg [(3, leaf), (9, .scalar [121])] := by
  exact ⟨by rfl, by rfl, by rfl, by rfl⟩

end Larking.Props.C04

#print axioms Larking.Props.C04.translator_complete
#print axioms Larking.Props.C04.skeleton_unchanged
#print axioms Larking.Props.C04.content_type_sound
#print axioms Larking.Props.C04.content_type_complete
#print axioms Larking.Props.C04.content_type_default
#print axioms Larking.Props.C04.response_body_selects_the_named_field
#print axioms Larking.Props.C04.body_selects_the_named_field
#print axioms Larking.Props.C04.first_component_only_selects_the_parent
