import Larking.Gen.Skel
import Larking.Gen.Missing
import Larking.Expected.C20
import Larking.Lemmas.Mount
/-
  C20 — Server mount prefixes are transparent.  `Mount.table false true` is NewServer as
  written: one subtree pattern `prefix+"/"` with `http.StripPrefix(prefix, mux)` per mount
  (`"/"` with the bare mux for an empty prefix), next to every HTTPHandlerOption handler.
  Every statement and condition of NewServer / the two options / Mux.ServeHTTP is part of
  the regenerated tie.  net/http.ServeMux is modelled for the pattern shapes used (see
  Model/Mount) and is a parameter checked by the run.
-/
namespace Larking.Props.C20
open Larking Larking.Mount

theorem translator_complete : Gen.missing = [] := by decide

theorem skeleton_unchanged :
    (Gen.Skel.conds_NewServer,
     Gen.Skel.stmts_NewServer,
     Gen.Skel.conds_HTTPHandlerOption,
     Gen.Skel.stmts_HTTPHandlerOption,
     Gen.Skel.conds_MuxHandleOption,
     Gen.Skel.stmts_MuxHandleOption,
     Gen.Skel.conds_Mux_ServeHTTP,
     Gen.Skel.stmts_Mux_ServeHTTP,
     Gen.Skel.conds_TLSCredsOption,
     Gen.Skel.stmts_TLSCredsOption)
  = (Expected.C20.conds_NewServer,
     Expected.C20.stmts_NewServer,
     Expected.C20.conds_HTTPHandlerOption,
     Expected.C20.stmts_HTTPHandlerOption,
     Expected.C20.conds_MuxHandleOption,
     Expected.C20.stmts_MuxHandleOption,
     Expected.C20.conds_Mux_ServeHTTP,
     Expected.C20.stmts_Mux_ServeHTTP,
     Expected.C20.conds_TLSCredsOption,
     Expected.C20.stmts_TLSCredsOption) := rfl

/-- the mux's entry for a mount pattern is in the table. -/
theorem mount_entry_mem (patterns extras : List Path) (p : Path) (hp : p ∈ patterns)
    (hne : (trimSlash p).length > 0) :
    (trimSlash p ++ ['/'], Target.mux (trimSlash p)) ∈ table false true patterns extras := by
  simp only [table, List.mem_append]
  right
  have hnil : patterns.isEmpty = false := by
    cases patterns with
    | nil => simp at hp
    | cons _ _ => rfl
  simp only [muxEntries, hnil, Bool.false_eq_true, if_false, List.mem_map]
  exact ⟨p, hp, by simp [hne]⟩

/-- **prefix transparency**: for every set of mounts and extra handlers, every mount pattern
`p` (written with or without a trailing slash) and every path `q` that begins with '/': if the
mount is the most specific registration for `prefix ++ q`, the mux serves the request and
sees exactly `q` — what the bare mux sees for `q`. -/
theorem prefix_transparent (patterns extras : List Path) (p : Path) (q : Path)
    (hp : p ∈ patterns) (hne : (trimSlash p).length > 0)
    (hbest : ∀ e ∈ table false true patterns extras, patMatches e.1 (trimSlash p ++ '/' :: q) = true →
      e = (trimSlash p ++ ['/'], Target.mux (trimSlash p)) ∨ e.1.length < (trimSlash p ++ ['/']).length) :
    serve (table false true patterns extras) (trimSlash p ++ '/' :: q) = .byMux ('/' :: q) := by
  have hm := mount_entry_mem patterns extras p hp hne
  have hmatch : patMatches (trimSlash p ++ ['/']) (trimSlash p ++ '/' :: q) = true := by
    have : trimSlash p ++ '/' :: q = (trimSlash p ++ ['/']) ++ q := by simp
    simp only [patMatches, List.getLast?_append, List.getLast?_singleton, Option.some_or, if_true]
    rw [this]; exact isPrefixOf_append _ _
  have hpick := pick_unique_best _ _ _ hm hmatch hbest
  simp only [serve, hpick, isPrefixOf_append, if_true]
  simp

/-- **nothing outside the mounts reaches the mux**: whenever the mux serves a request, the
path is a mount prefix followed by what the mux sees (or the mux is mounted at the root). -/
theorem mux_only_under_mounts (patterns extras : List Path) (path seen : Path)
    (h : serve (table false true patterns extras) path = .byMux seen) :
    ∃ strip, (strip = [] ∨ ∃ p ∈ patterns, strip = trimSlash p) ∧ path = strip ++ seen := by
  unfold serve at h
  cases hp : pick (table false true patterns extras) path with
  | none => simp [hp] at h
  | some e =>
    obtain ⟨pat, tgt⟩ := e
    simp only [hp] at h
    cases tgt with
    | extra i => simp at h
    | mux strip =>
      simp only at h
      split at h
      · rename_i hpre
        injection h with h
        refine ⟨strip, ?_, ?_⟩
        · have hmem := (pick_some _ _ _ hp).1
          simp only [table, List.mem_append] at hmem
          rcases hmem with hmem | hmem
          · -- extras never target the mux
            simp only [extraEntries, if_true, List.mem_map] at hmem
            obtain ⟨⟨x, i⟩, _, hx⟩ := hmem
            simp at hx
          · simp only [muxEntries, List.mem_map] at hmem
            obtain ⟨pattern, hpin, hx⟩ := hmem
            split at hx
            · injection hx with _ hx; injection hx with hx
              simp only [Bool.false_eq_true, if_false] at hx
              right
              refine ⟨pattern, ?_, hx.symm⟩
              cases hpe : patterns.isEmpty with
              | false => simpa [hpe] using hpin
              | true =>
                -- the default pattern "/" trims to the empty prefix: this branch is impossible
                simp only [hpe, if_true, List.mem_singleton] at hpin
                subst hpin
                exact absurd ‹(trimSlash ['/']).length > 0› (by decide)
            · injection hx with _ hx; injection hx with hx
              left; exact hx.symm
        · rw [← h]
          exact (List.prefix_iff_eq_append.mp (List.isPrefixOf_iff_prefix.mp hpre)).symm
      · simp at h

/-- a path no registration matches gets ServeMux's own 404. -/
theorem unmatched_not_served (patterns extras : List Path) (path : Path)
    (h : ∀ e ∈ table false true patterns extras, patMatches e.1 path = false) :
    serve (table false true patterns extras) path = .notFound := by
  simp [serve, pick_none _ _ h]

/-- **extra handlers keep their patterns**: every HTTPHandlerOption is registered, and a path
for which it is the most specific registration goes to it, not to the mux. -/
theorem extra_keeps_pattern (patterns extras : List Path) (i : Nat) (e : Path) (path : Path)
    (hi : extras[i]? = some e) (hmatch : patMatches e path = true)
    (hbest : ∀ x ∈ table false true patterns extras, patMatches x.1 path = true →
      x = (e, Target.extra i) ∨ x.1.length < e.length) :
    serve (table false true patterns extras) path = .byExtra i := by
  have hmem : (e, Target.extra i) ∈ table false true patterns extras := by
    simp only [table, List.mem_append]
    left
    simp only [extraEntries, if_true, List.mem_map]
    exact ⟨(e, i), List.mem_zipIdx_iff_getElem?.mpr (by simpa using hi), rfl⟩
  simp [serve, pick_unique_best _ _ _ hmem hmatch hbest]

/-- contrast (seeded): stripping the pattern as written removes the separating slash of a
mount given with a trailing slash — the mux no longer sees a rooted path. -/
theorem strip_raw_pattern_breaks :
    serve (table true true ["/api/".toList] []) "/api/v1/x".toList = .byMux "v1/x".toList ∧
    serve (table false true ["/api/".toList] []) "/api/v1/x".toList = .byMux "/v1/x".toList := by decide

/-- contrast (seeded): a fresh ServeMux per HTTPHandlerOption loses every handler but the last. -/
theorem fresh_servemux_loses_handlers :
    serve (table false false ["/api".toList] ["/a/".toList, "/b/".toList]) "/a/x".toList = .notFound ∧
    serve (table false true ["/api".toList] ["/a/".toList, "/b/".toList]) "/a/x".toList = .byExtra 0 := by decide

-- non-vacuity: two mounts and an extra handler below one of them
example : serve (table false true ["/api".toList, "/v2/".toList] ["/api/special".toList]) "/api/pkg.S/M".toList
    = .byMux "/pkg.S/M".toList := by decide
example : serve (table false true ["/api".toList, "/v2/".toList] ["/api/special".toList]) "/api/special".toList
    = .byExtra 0 := by decide
example : serve (table false true ["/api".toList] []) "/other/x".toList = .notFound := by decide

end Larking.Props.C20

#print axioms Larking.Props.C20.translator_complete
#print axioms Larking.Props.C20.skeleton_unchanged
#print axioms Larking.Props.C20.mount_entry_mem
#print axioms Larking.Props.C20.prefix_transparent
#print axioms Larking.Props.C20.mux_only_under_mounts
#print axioms Larking.Props.C20.unmatched_not_served
#print axioms Larking.Props.C20.extra_keeps_pattern
#print axioms Larking.Props.C20.strip_raw_pattern_breaks
#print axioms Larking.Props.C20.fresh_servemux_loses_handlers
