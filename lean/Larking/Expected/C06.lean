-- Skeletons the hand-written model for C06 was built against (snapshot by bin/expect; edit deliberately).
namespace Larking.Expected.C06

def conds_streamHTTP_readMsg : List String := [
   "func (*streamHTTP) readMsg(c Codec, b []byte) (int, []byte, error)",
   "if s.rEOF",
   "return s.recvCount, nil, io.EOF",
   "if s.method.desc.IsStreamingClient()",
   "if !ok",
   "return count, nil, fmt.Errorf(\"codec %q does not support streaming\", c.Name())",
   "if err == io.EOF",
   "switch",
   "case n > 0",
   "case len(b) > 0",
   "return count, b[:n], err",
   "if err == io.EOF",
   "return count, b, err"
  ]

def conds_streamHTTP_RecvMsg : List String := [
   "func (*streamHTTP) RecvMsg(m interface{}) error",
   "if s.method.hasBody && s.hasBody",
   "if err != nil",
   "return err",
   "if s.rEOF",
   "return io.EOF",
   "if count == 0",
   "if err := s.params.set(args); err != nil",
   "return err",
   "if sh := s.opts.statsHandler; sh != nil && !(s.method.hasBody && s.hasBody)",
   "return nil"
  ]

def conds_streamHTTP_decodeRequestArgs : List String := [
   "func (*streamHTTP) decodeRequestArgs(args proto.Message) (int, error)",
   "defer func() { if cap(b) < s.opts.maxReceiveMessageSize { *bytes = b bytesPool.Put(bytes) } }()",
   "if cap(b) < s.opts.maxReceiveMessageSize",
   "if err != nil",
   "return -1, err",
   "if err != nil",
   "return -1, err",
   "if err != nil && !(err == io.EOF && count == 0 && isHTTPBody)",
   "return count, err",
   "if isHTTPBody",
   "if err := c.Unmarshal(b, msg); err != nil",
   "return count, status.Errorf(codes.Internal, \"%s: error while unmarshaling: %v\", c.Name(), err)",
   "if stats := s.opts.statsHandler; stats != nil",
   "return count, nil"
  ]

def conds_streamGRPC_RecvMsg : List String := [
   "func (*streamGRPC) RecvMsg(m interface{}) error",
   "if err := s.begin(); err != nil",
   "return err",
   "defer s.wg.Done()",
   "if err := s.isDone(); err != nil",
   "return err",
   "defer func() { if cap(b) < s.opts.maxReceiveMessageSize { *bp = b bytesPool.Put(bp) } }()",
   "if cap(b) < s.opts.maxReceiveMessageSize",
   "if cap(b) < 5",
   "if _, err := io.ReadFull(s.r, b); err != nil",
   "if isStreamError(err)",
   "return status.Errorf(codes.Canceled, msg)",
   "return err",
   "if int(size) > s.opts.maxReceiveMessageSize",
   "return fmt.Errorf(\"grpc: received message larger than max (%d vs. %d)\", size, s.opts.maxReceiveMessageSize)",
   "if cap(b) < int(size)",
   "if _, err := io.ReadFull(s.r, b); err != nil",
   "if err == io.EOF",
   "return err",
   "if isCompressed",
   "if s.comp == nil",
   "return fmt.Errorf(\"grpc: Decompressor is not installed for grpc-encoding %q\", s.messageEncoding)",
   "if err := s.decompress(buf, b); err != nil",
   "return err",
   "if int(size) > cap(b)",
   "if err := s.codec.Unmarshal(b, args); err != nil",
   "return err",
   "if stats := s.opts.statsHandler; stats != nil",
   "return nil"
  ]

def conds_streamGRPC_SendMsg : List String := [
   "func (*streamGRPC) SendMsg(m interface{}) error",
   "if err := s.begin(); err != nil",
   "return err",
   "defer s.wg.Done()",
   "if err := s.isDone(); err != nil",
   "return err",
   "if !s.sentHeader",
   "if err := s.SendHeader(nil); err != nil",
   "return err",
   "defer func() { if cap(b) < s.opts.maxReceiveMessageSize { *bp = b bytesPool.Put(bp) } }()",
   "if cap(b) < s.opts.maxReceiveMessageSize",
   "if cap(b) < 5",
   "if err != nil",
   "return err",
   "if int(size) > s.opts.maxSendMessageSize",
   "return fmt.Errorf(\"grpc: trying to send message larger than max (%d vs. %d)\", size, s.opts.maxSendMessageSize)",
   "if s.comp != nil",
   "if err := s.compress(buf, b[5:]); err != nil",
   "return err",
   "if bufSize+5 > cap(b)",
   "if _, err := s.w.Write(b); err != nil",
   "if isStreamError(err)",
   "return status.Errorf(codes.Unavailable, msg)",
   "return err",
   "if stats := s.opts.statsHandler; stats != nil",
   "return nil"
  ]

def conds_webWriter_writeTrailer : List String := [
   "func (*webWriter) writeTrailer() error",
   "range hdr",
   "if w.seenHeaders[key]",
   "if err := tr.Write(&buf); err != nil",
   "return err",
   "if _, err := w.Write(head); err != nil",
   "return err",
   "if _, err := w.Write(buf.Bytes()); err != nil",
   "return err",
   "return nil"
  ]

def conds_webWriter_flushWithTrailer : List String := [
   "func (*webWriter) flushWithTrailer()",
   "if w.wroteHeader || w.wroteResp",
   "if err := w.writeTrailer(); err != nil",
   "return",
   "if w.respCloser != nil",
   "if err := w.respCloser.Close(); err != nil",
   "return"
  ]

def conds_streamWS_RecvMsg : List String := [
   "func (*streamWS) RecvMsg(m interface{}) error",
   "if s.method.hasBody",
   "if err != nil",
   "return err",
   "if err != nil",
   "return err",
   "if s.maxRecv > 0 && len(b) > s.maxRecv",
   "return status.Errorf(codes.ResourceExhausted, \"max receive message size reached (%d vs. %d)\", len(b), s.maxRecv)",
   "if err := protojson.Unmarshal(b, msg); err != nil",
   "return err",
   "if s.recvN == 1",
   "if err := s.params.set(args); err != nil",
   "return err",
   "if sh := s.stats; sh != nil",
   "return nil"
  ]

def conds_streamWS_SendMsg : List String := [
   "func (*streamWS) SendMsg(v interface{}) error",
   "if err != nil",
   "return err",
   "if err != nil",
   "return err",
   "if err := wsutil.WriteServerMessage(s.conn, ws.OpText, b); err != nil",
   "return err",
   "if sh := s.stats; sh != nil",
   "return nil"
  ]

def conds_CodecProto_ReadNext : List String := [
   "func (CodecProto) ReadNext(b []byte, r io.Reader, limit int) ([]byte, int, error)",
   "for i := 0; i < binary.MaxVarintLen64; i++",
   "for i >= len(b)",
   "if len(b) == cap(b)",
   "if err != nil && !(err == io.EOF && n > 0)",
   "return b, 0, err",
   "if b[i] < 0x80",
   "if n < 0",
   "return b, 0, protowire.ParseError(n)",
   "if size > math.MaxInt || (limit > 0 && size > uint64(limit))",
   "return b, 0, &protodelim.SizeTooLargeError{Size: size, MaxSize: uint64(limit)}",
   "if len(b) < n",
   "if cap(b) < n",
   "if _, err := io.ReadFull(r, b[len(b):n]); err != nil",
   "if err == io.EOF",
   "return b, 0, io.ErrUnexpectedEOF",
   "return b, 0, err",
   "return b, n, nil"
  ]

def conds_CodecJSON_ReadNext : List String := [
   "func (CodecJSON) ReadNext(b []byte, r io.Reader, limit int) ([]byte, int, error)",
   "for i := 0; i < int(limit); i++",
   "for i >= len(b)",
   "if len(b) == cap(b)",
   "if err != nil && !(err == io.EOF && n > 0)",
   "return b, 0, err",
   "switch",
   "case isEscaped",
   "case isString",
   "switch b[i]",
   "case '\\\\'",
   "case '\"'",
   "default",
   "switch b[i]",
   "case '{'",
   "case '}'",
   "if braceCount == 0",
   "return b, i + 1, nil",
   "if braceCount < 0",
   "return b, 0, fmt.Errorf(\"unbalanced braces\")",
   "case '\"'",
   "return b, 0, &protodelim.SizeTooLargeError{Size: uint64(len(b)), MaxSize: uint64(limit)}"
  ]

def conds_codecHTTPBody_ReadNext : List String := [
   "func (codecHTTPBody) ReadNext(b []byte, r io.Reader, limit int) ([]byte, int, error)",
   "for total < limit",
   "if len(b) == cap(b)",
   "if err == io.EOF && total > limit",
   "return b, limit, nil",
   "if err != nil",
   "return b, min(total, limit), err",
   "return b, limit, nil"
  ]

end Larking.Expected.C06
