-- Skeletons the hand-written model for C01 was built against (snapshot by bin/expect; edit deliberately).
namespace Larking.Expected.C01

def conds_variable_index : List String := [
   "func (*variable) index(toks tokens) int",
   "range v.toks",
   "if i == n",
   "return -1",
   "switch tok.typ",
   "case tokenSlash",
   "if toks[i].typ != tok.typ",
   "return -1",
   "case tokenStar",
   "if j := toks[i:].indexAny(tokenSlash | tokenVerb); j != -1",
   "case tokenStarStar",
   "if j := toks[i:].index(tokenVerb); j != -1",
   "case tokenLiteral",
   "if toks[i].typ != tokenPath || tok.val != toks[i].val",
   "return -1",
   "default",
   "return i"
  ]

def conds_path_search : List String := [
   "func (*path) search(toks tokens, verb string) (*method, params, error)",
   "if n := len(toks); n <= 1",
   "if m, ok := p.methods[verb]; ok",
   "return m, nil, nil",
   "if m := p.methodAll; m != nil",
   "return m, nil, nil",
   "return nil, nil, errMethod",
   "if next, ok := p.segments[segment]; ok",
   "if m, ps, err := next.search(toks[2:], verb); err == nil",
   "return m, ps, nil",
   "range p.variables",
   "if toks[0].typ != tokenSlash",
   "if l == 0",
   "if err != nil",
   "if len(fds) > 0",
   "if err != nil",
   "return nil, nil, err",
   "return m, ps, nil",
   "return nil, nil, errNotFound"
  ]

def conds_path_match : List String := [
   "func (*path) match(route, verb string) (*method, params, error)",
   "if err := lexPath(l); err != nil",
   "return nil, nil, status.Errorf(codes.NotFound, \"not found: %v\", err)",
   "return p.search(l.tokens(), verb)"
  ]

def conds_path_addRule : List String := [
   "func (*path) addRule( rule *annotations.HttpRule, desc protoreflect.MethodDescriptor, name string, ) error",
   "typeswitch v := rule.Pattern.(type)",
   "case *annotations.HttpRule_Get",
   "case *annotations.HttpRule_Put",
   "case *annotations.HttpRule_Post",
   "case *annotations.HttpRule_Delete",
   "case *annotations.HttpRule_Patch",
   "case *annotations.HttpRule_Custom",
   "default",
   "return fmt.Errorf(\"unsupported pattern %v\", v)",
   "if err := lexTemplate(l); err != nil",
   "return err",
   "return l.toks[i]",
   "for tok.typ == tokenSlash; tok = next()",
   "switch val.typ",
   "case tokenStar, tokenStarStar",
   "case tokenLiteral",
   "case tokenVariableStart",
   "for nxt.typ == tokenDot",
   "switch nxt.typ",
   "case tokenEqual",
   "for nxt := next(); nxt.typ != tokenVariableEnd; nxt = next()",
   "switch nxt.typ",
   "case tokenSlash, tokenStar, tokenStarStar, tokenLiteral",
   "default",
   "return fmt.Errorf(\"nested variables are not supported %q\", tmpl)",
   "case tokenVariableEnd",
   "default",
   "if fds == nil",
   "return fmt.Errorf(\"field not found %v\", keys)",
   "default",
   "switch tok.typ",
   "case tokenVerb",
   "case tokenEOF",
   "default",
   "if verb != \"*\"",
   "if existing != nil",
   "if existing.desc.FullName() != desc.FullName()",
   "return fmt.Errorf(\"duplicate rule %v\", rule)",
   "return p.addAdditionalBindings(rule, desc, name)",
   "switch rule.Body",
   "case \"*\"",
   "case \"\"",
   "default",
   "if m.body == nil",
   "return fmt.Errorf(\"body field error %v\", rule.Body)",
   "switch rule.ResponseBody",
   "case \"\"",
   "default",
   "if m.resp == nil",
   "return fmt.Errorf(\"response body field error %v\", rule.ResponseBody)",
   "if verb == \"*\"",
   "return p.addAdditionalBindings(rule, desc, name)"
  ]

def conds_path_addVariable : List String := [
   "func (*path) addVariable(toks tokens) *variable",
   "if v, ok := p.findVariable(name); ok",
   "return v",
   "return v"
  ]

def conds_path_addPath : List String := [
   "func (*path) addPath(parent, value token) *path",
   "if next, ok := p.segments[val]; ok",
   "return next",
   "return next"
  ]

def conds_lexPath : List String := [
   "func lexPath(l *lexer) error",
   "for",
   "switch r",
   "case '/'",
   "if err := l.emit(tokenSlash); err != nil",
   "return err",
   "if err := lexPathSegment(l); err != nil",
   "return err",
   "case ':'",
   "if err := l.emit(tokenVerb); err != nil",
   "return err",
   "if err := lexPathSegment(l); err != nil",
   "return err",
   "case eof",
   "return l.emit(tokenEOF)",
   "default",
   "return l.errUnexpected()"
  ]

def conds_lexPathSegment : List String := [
   "func lexPathSegment(l *lexer) error",
   "if i := l.acceptRun(isPath); i == 0",
   "return l.errShort()",
   "return l.emit(tokenPath)"
  ]

def conds_lexer_emit : List String := [
   "func (*lexer) emit(typ tokenType) error",
   "if l.len >= len(l.toks)",
   "return errTokenLimit",
   "return nil"
  ]

end Larking.Expected.C01
