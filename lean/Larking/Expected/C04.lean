-- Skeletons the hand-written model for C04 was built against (snapshot by bin/expect; edit deliberately).
namespace Larking.Expected.C04

def conds_parseAccept : List String := [
   "range values",
   "for",
   "if spec.Value == \"\"",
   "if strings.HasPrefix(s, \";\")",
   "if !strings.HasPrefix(s, \"q=\")",
   "if spec.Q < 0.0",
   "if !strings.HasPrefix(s, \",\")",
   "return"
  ]

def conds_expectQuality : List String := [
   "switch",
   "case len(s) == 0",
   "return -1, \"\"",
   "case s[0] == '0'",
   "case s[0] == '1'",
   "default",
   "return -1, \"\"",
   "if !strings.HasPrefix(s, \".\")",
   "return q, s",
   "for i < len(s); i++",
   "if b < '0' || b > '9'",
   "return q + float64(n)/float64(d), s[i:]"
  ]

def conds_negotiateContentType : List String := [
   "range offers",
   "range specs",
   "switch",
   "case spec.Q == 0.0",
   "case spec.Q < bestQ",
   "case spec.Value == \"*/*\"",
   "if spec.Q > bestQ || bestWild > 2",
   "case strings.HasSuffix(spec.Value, \"/*\")",
   "if strings.HasPrefix(offer, spec.Value[:len(spec.Value)-1]) && (spec.Q > bestQ || bestWild > 1)",
   "default",
   "if spec.Value == offer && (spec.Q > bestQ || bestWild > 0)",
   "return bestOffer"
  ]

def conds_negotiateContentEncoding : List String := [
   "range offers",
   "range specs",
   "if spec.Q > bestQ && (spec.Value == \"*\" || spec.Value == offer)",
   "if bestQ == 0",
   "return bestOffer"
  ]

def conds_streamHTTP_SendMsg : List String := [
   "if err != nil",
   "return err",
   "if err != nil",
   "return err",
   "defer func() { if cap(b) < s.opts.maxReceiveMessageSize { *bytes = b bytesPool.Put(bytes) } }()",
   "if cap(b) < s.opts.maxReceiveMessageSize",
   "if cur.Descriptor().FullName() == \"google.api.HttpBody\"",
   "if err != nil",
   "return status.Errorf(codes.Internal, \"%s: error while marshaling: %v\", c.Name(), err)",
   "if _, err := s.writeMsg(c, b, contentType); err != nil",
   "return err",
   "if fRsp, ok := s.w.(http.Flusher); ok",
   "if stats := s.opts.statsHandler; stats != nil",
   "return nil"
  ]

def conds_streamHTTP_writeMsg : List String := [
   "if count == 0",
   "if !s.sentHeader",
   "if err := s.SendHeader(nil); err != nil",
   "return count, err",
   "if s.method.desc.IsStreamingServer()",
   "if !ok",
   "return count, fmt.Errorf(\"codec %s does not support streaming\", codec.Name())",
   "return count, err",
   "return count, s.opts.writeAll(s.w, b)"
  ]

end Larking.Expected.C04
