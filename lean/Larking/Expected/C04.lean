-- Skeletons the hand-written model for C04 was built against (snapshot by bin/expect; edit deliberately).
namespace Larking.Expected.C04

def conds_parseAccept : List String := [
   "func parseAccept(values []string) (specs []acceptSpec)",
   "range values",
   "for",
   "if spec.Value == \"\"",
   "if strings.HasPrefix(s, \";\")",
   "if !strings.HasPrefix(s, \"q=\")",
   "if spec.Q < 0.0",
   "if !strings.HasPrefix(s, \",\")",
   "return"
  ]

def conds_expectQuality : List String := [
   "func expectQuality(s string) (q float64, rest string)",
   "switch",
   "case len(s) == 0",
   "return -1, \"\"",
   "case s[0] == '0'",
   "case s[0] == '1'",
   "default",
   "return -1, \"\"",
   "if !strings.HasPrefix(s, \".\")",
   "return q, s",
   "for i < len(s); i++",
   "if b < '0' || b > '9'",
   "return q + float64(n)/float64(d), s[i:]"
  ]

def conds_negotiateContentType : List String := [
   "func negotiateContentType(header http.Header, offers []string, defaultOffer string) string",
   "range offers",
   "range specs",
   "switch",
   "case spec.Q == 0.0",
   "case spec.Q < bestQ",
   "case spec.Value == \"*/*\"",
   "if spec.Q > bestQ || bestWild > 2",
   "case strings.HasSuffix(spec.Value, \"/*\")",
   "if strings.HasPrefix(offer, spec.Value[:len(spec.Value)-1]) && (spec.Q > bestQ || bestWild > 1)",
   "default",
   "if spec.Value == offer && (spec.Q > bestQ || bestWild > 0)",
   "return bestOffer"
  ]

def conds_negotiateContentEncoding : List String := [
   "func negotiateContentEncoding(header http.Header, offers []string) string",
   "range offers",
   "range specs",
   "if spec.Q > bestQ && (spec.Value == \"*\" || spec.Value == offer)",
   "if bestQ == 0",
   "return bestOffer"
  ]

def conds_streamHTTP_SendMsg : List String := [
   "func (*streamHTTP) SendMsg(m interface{}) error",
   "if err != nil",
   "return err",
   "if err != nil",
   "return err",
   "defer func() { if cap(b) < s.opts.maxReceiveMessageSize { *bytes = b bytesPool.Put(bytes) } }()",
   "if cap(b) < s.opts.maxReceiveMessageSize",
   "if cur.Descriptor().FullName() == \"google.api.HttpBody\"",
   "if err != nil",
   "return status.Errorf(codes.Internal, \"%s: error while marshaling: %v\", c.Name(), err)",
   "if _, err := s.writeMsg(c, b, contentType); err != nil",
   "return err",
   "if fRsp, ok := s.w.(http.Flusher); ok",
   "if stats := s.opts.statsHandler; stats != nil",
   "return nil"
  ]

def stmts_streamHTTP_SendMsg : List String := [
   "{",
   "reply := m.(proto.Message)",
   "cur, err := mutablePath(reply.ProtoReflect(), s.method.resp)",
   "if err != nil {",
   "return err",
   "}",
   "msg := cur.Interface()",
   "contentType := s.accept",
   "c, err := s.getCodec(contentType, cur)",
   "if err != nil {",
   "return err",
   "}",
   "bytes := bytesPool.Get().(*[]byte)",
   "b := (*bytes)[:0]",
   "defer func() {",
   "if cap(b) < s.opts.maxReceiveMessageSize {",
   "*bytes = b",
   "bytesPool.Put(bytes)",
   "}",
   "}()",
   "if cur.Descriptor().FullName() == \"google.api.HttpBody\" {",
   "fds := cur.Descriptor().Fields()",
   "fdContentType := fds.ByName(protoreflect.Name(\"content_type\"))",
   "fdData := fds.ByName(protoreflect.Name(\"data\"))",
   "pContentType := cur.Get(fdContentType)",
   "pData := cur.Get(fdData)",
   "b = append(b, pData.Bytes()...)",
   "contentType = pContentType.String()",
   "} else {",
   "var err error",
   "b, err = c.MarshalAppend(b, msg)",
   "if err != nil {",
   "return status.Errorf(codes.Internal, \"%s: error while marshaling: %v\", c.Name(), err)",
   "}",
   "}",
   "if _, err := s.writeMsg(c, b, contentType); err != nil {",
   "return err",
   "}",
   "if fRsp, ok := s.w.(http.Flusher); ok {",
   "fRsp.Flush()",
   "}",
   "if stats := s.opts.statsHandler; stats != nil {",
   "stats.HandleRPC(s.ctx, outPayload(false, m, b, time.Now()))",
   "}",
   "return nil",
   "}"
  ]

def conds_streamHTTP_writeMsg : List String := [
   "func (*streamHTTP) writeMsg(c Codec, b []byte, contentType string) (int, error)",
   "if count == 0",
   "if !s.sentHeader",
   "if err := s.SendHeader(nil); err != nil",
   "return count, err",
   "if s.method.desc.IsStreamingServer()",
   "if !ok",
   "return count, fmt.Errorf(\"codec %s does not support streaming\", c.Name())",
   "return count, err",
   "return count, s.opts.writeAll(s.w, b)"
  ]

def conds_NewMux : List String := [
   "func NewMux(opts ...MuxOption) (*Mux, error)",
   "range opts",
   "if muxOpts.codecs == nil",
   "range defaultCodecs",
   "if _, ok := muxOpts.codecs[k]; !ok",
   "range muxOpts.codecs",
   "range muxOpts.codecs",
   "if _, ok := v.(codecHTTPBody); ok",
   "if muxOpts.compressors == nil",
   "range defaultCompressors",
   "if _, ok := muxOpts.compressors[k]; !ok",
   "range muxOpts.codecs",
   "return &Mux{ opts: muxOpts, }, nil"
  ]

def stmts_NewMux : List String := [
   "{",
   "// Apply options.",
   "var muxOpts = defaultMuxOptions",
   "for _, opt := range opts {",
   "opt(&muxOpts)",
   "}",
   "if muxOpts.codecs == nil {",
   "muxOpts.codecs = make(map[string]Codec)",
   "}",
   "for k, v := range defaultCodecs {",
   "if _, ok := muxOpts.codecs[k]; !ok {",
   "muxOpts.codecs[k] = v",
   "}",
   "}",
   "muxOpts.codecsByName = make(map[string]Codec)",
   "for _, v := range muxOpts.codecs {",
   "muxOpts.codecsByName[v.Name()] = v",
   "}",
   "for k, v := range muxOpts.codecs {",
   "if _, ok := v.(codecHTTPBody); ok {",
   "continue",
   "}",
   "muxOpts.contentTypeOffers = append(muxOpts.contentTypeOffers, k)",
   "}",
   "sort.Strings(muxOpts.contentTypeOffers)",
   "if muxOpts.compressors == nil {",
   "muxOpts.compressors = make(map[string]Compressor)",
   "}",
   "for k, v := range defaultCompressors {",
   "if _, ok := muxOpts.compressors[k]; !ok {",
   "muxOpts.compressors[k] = v",
   "}",
   "}",
   "for k := range muxOpts.codecs {",
   "muxOpts.encodingTypeOffers = append(muxOpts.encodingTypeOffers, k)",
   "}",
   "sort.Strings(muxOpts.encodingTypeOffers)",
   "return &Mux{",
   "opts: muxOpts,",
   "}, nil",
   "}"
  ]

end Larking.Expected.C04
