-- Skeletons the hand-written model for C19 was built against (snapshot by bin/expect; edit deliberately).
namespace Larking.Expected.C19

def conds_ruleSelector_getRules : List String := [
   "func (*ruleSelector) getRules(name string) (rules []*annotations.HttpRule)",
   "if name == \"\"",
   "return append(rules, r.exact...)",
   "if r = r.path[tag]; r != nil",
   "return append(rules, r.getRules(name)...)",
   "return rules"
  ]

def stmts_ruleSelector_getRules : List String := [
   "{",
   "if name == \"\" {",
   "return append(rules, r.exact...)",
   "}",
   "rules = append(rules, r.rules...)",
   "tag, name, _ := strings.Cut(name, \".\")",
   "if r = r.path[tag]; r != nil {",
   "return append(rules, r.getRules(name)...)",
   "}",
   "return rules",
   "}"
  ]

def conds_ruleSelector_setRules : List String := [
   "func (*ruleSelector) setRules(rules []*annotations.HttpRule)",
   "range rules",
   "switch tag",
   "case \"*\"",
   "if name != \"\"",
   "case \"\"",
   "default",
   "if rs == nil",
   "if r.path == nil"
  ]

def stmts_ruleSelector_setRules : List String := [
   "{",
   "*r = ruleSelector{}",
   "var set func(r *ruleSelector, selector string)",
   "for _, rule := range rules {",
   "set = func(r *ruleSelector, selector string) {",
   "tag, name, _ := strings.Cut(selector, \".\")",
   "switch tag {",
   "case \"*\":",
   "if name != \"\" {",
   "panic(fmt.Errorf(\"invalid selector %q\", rule.GetSelector()))",
   "}",
   "r.rules = append(r.rules, rule)",
   "case \"\":",
   "r.exact = append(r.exact, rule)",
   "default:",
   "rs := r.path[tag]",
   "if rs == nil {",
   "rs = &ruleSelector{}",
   "}",
   "if r.path == nil {",
   "r.path = make(map[string]*ruleSelector)",
   "}",
   "r.path[tag] = rs",
   "r = rs",
   "set(r, name)",
   "}",
   "}",
   "set(r, rule.GetSelector())",
   "}",
   "}"
  ]

def conds_AddHealthz : List String := [
   "<missing>"
  ]

def stmts_AddHealthz : List String := [
   "<missing>"
  ]

end Larking.Expected.C19
