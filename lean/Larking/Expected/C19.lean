-- Skeletons the hand-written model for C19 was built against (snapshot by bin/expect; edit deliberately).
namespace Larking.Expected.C19

def conds_ruleSelector_getRules : List String := [
   "if name == \"\"",
   "return append(rules, r.exact...)",
   "if r = r.path[tag]; r != nil",
   "return append(rules, r.getRules(name)...)",
   "return rules"
  ]

def conds_ruleSelector_setRules : List String := [
   "range rules",
   "switch tag",
   "case \"*\"",
   "if name != \"\"",
   "case \"\"",
   "default",
   "if rs == nil",
   "if r.path == nil"
  ]

end Larking.Expected.C19
