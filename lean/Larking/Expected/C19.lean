-- Skeletons the hand-written model for C19 was built against (snapshot by bin/expect; edit deliberately).
namespace Larking.Expected.C19

def conds_ruleSelector_getRules : List String := [
   "func (*ruleSelector) getRules(name string) (rules []*annotations.HttpRule)",
   "if name == \"\"",
   "return append(rules, r.exact...)",
   "if r = r.path[tag]; r != nil",
   "return append(rules, r.getRules(name)...)",
   "return rules"
  ]

def stmts_ruleSelector_getRules : List String := [
   "rules = append(rules, r.rules...)",
   "tag, name, _ := strings.Cut(name, \".\")",
   "r = r.path[tag]"
  ]

def conds_ruleSelector_setRules : List String := [
   "func (*ruleSelector) setRules(rules []*annotations.HttpRule)",
   "range rules",
   "switch tag",
   "case \"*\"",
   "if name != \"\"",
   "case \"\"",
   "default",
   "if rs == nil",
   "if r.path == nil"
  ]

def stmts_ruleSelector_setRules : List String := [
   "*r = ruleSelector{}",
   "var set func(…)",
   "set = func(…)",
   "func-literal",
   "tag, name, _ := strings.Cut(selector, \".\")",
   "panic(fmt.Errorf(\"invalid selector %q\", rule.GetSelector()))",
   "r.rules = append(r.rules, rule)",
   "r.exact = append(r.exact, rule)",
   "rs := r.path[tag]",
   "rs = &ruleSelector{}",
   "r.path = make(map[string]*ruleSelector)",
   "r.path[tag] = rs",
   "r = rs",
   "set(r, name)",
   "set(r, rule.GetSelector())"
  ]

def conds_AddHealthz : List String := [
   "<missing>"
  ]

def stmts_AddHealthz : List String := [
   "<missing>"
  ]

end Larking.Expected.C19
