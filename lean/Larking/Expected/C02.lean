-- Skeletons the hand-written model for C02 was built against (snapshot by bin/expect; edit deliberately).
namespace Larking.Expected.C02

def conds_variable_index : List String := [
   "func (*variable) index(toks tokens) int",
   "range v.toks",
   "if i == n",
   "return -1",
   "switch tok.typ",
   "case tokenSlash",
   "if toks[i].typ != tok.typ",
   "return -1",
   "case tokenStar",
   "if j := toks[i:].indexAny(tokenSlash | tokenVerb); j != -1",
   "case tokenStarStar",
   "if j := toks[i:].index(tokenVerb); j != -1",
   "case tokenLiteral",
   "if toks[i].typ != tokenPath || tok.val != toks[i].val",
   "return -1",
   "default",
   "return i"
  ]

def stmts_variable_index : List String := [
   "{",
   "n := len(toks)",
   "var i int",
   "for _, tok := range v.toks {",
   "if i == n {",
   "return -1",
   "}",
   "switch tok.typ {",
   "case tokenSlash:",
   "if toks[i].typ != tok.typ {",
   "return -1",
   "}",
   "i += 1",
   "case tokenStar:",
   "if j := toks[i:].indexAny(tokenSlash | tokenVerb); j != -1 {",
   "i += j",
   "} else {",
   "i = n",
   "}",
   "case tokenStarStar:",
   "if j := toks[i:].index(tokenVerb); j != -1 {",
   "i += j",
   "} else {",
   "i = n",
   "}",
   "case tokenLiteral:",
   "if toks[i].typ != tokenPath || tok.val != toks[i].val {",
   "return -1",
   "}",
   "i += 1",
   "default:",
   "panic(\":(\")",
   "}",
   "}",
   "return i",
   "}"
  ]

def conds_path_search : List String := [
   "func (*path) search(toks tokens, verb string) (*method, params, error)",
   "if n := len(toks); n <= 1",
   "if m, ok := p.methods[verb]; ok",
   "return m, nil, nil",
   "if m := p.methodAll; m != nil",
   "return m, nil, nil",
   "return nil, nil, errMethod",
   "if next, ok := p.segments[segment]; ok",
   "if m, ps, err := next.search(toks[2:], verb); err == nil",
   "return m, ps, nil",
   "range p.variables",
   "if toks[0].typ != tokenSlash",
   "if l == 0",
   "if err != nil",
   "if len(fds) > 0",
   "if err != nil",
   "return nil, nil, err",
   "return m, ps, nil",
   "return nil, nil, errNotFound"
  ]

def stmts_path_search : List String := [
   "{",
   "if n := len(toks); n <= 1 {",
   "if m, ok := p.methods[verb]; ok {",
   "return m, nil, nil",
   "}",
   "if m := p.methodAll; m != nil {",
   "return m, nil, nil",
   "}",
   "return nil, nil, errMethod",
   "}",
   "segment := toks[0].val + toks[1].val",
   "if next, ok := p.segments[segment]; ok {",
   "if m, ps, err := next.search(toks[2:], verb); err == nil {",
   "return m, ps, nil",
   "}",
   "}",
   "for _, v := range p.variables {",
   "if toks[0].typ != tokenSlash {",
   "break",
   "}",
   "l := v.index(toks[1:]) + 1",
   "if l == 0 {",
   "continue",
   "}",
   "m, ps, err := v.next.search(toks[l:], verb)",
   "if err != nil {",
   "continue",
   "}",
   "fds := m.vars[len(m.vars)-len(ps)-1]",
   "p := param{fds: fds}",
   "if len(fds) > 0 {",
   "capture := []byte(toks[1:l].String())",
   "p, err = parseParam(fds, capture)",
   "if err != nil {",
   "return nil, nil, err",
   "}",
   "}",
   "ps = append(ps, p)",
   "return m, ps, nil",
   "}",
   "return nil, nil, errNotFound",
   "}"
  ]

def conds_path_match : List String := [
   "func (*path) match(route, verb string) (*method, params, error)",
   "if err := lexPath(l); err != nil",
   "return nil, nil, status.Errorf(codes.NotFound, \"not found: %v\", err)",
   "return p.search(l.tokens(), verb)"
  ]

def stmts_path_match : List String := [
   "{",
   "l := &lexer{input: route}",
   "if err := lexPath(l); err != nil {",
   "return nil, nil, status.Errorf(codes.NotFound, \"not found: %v\", err)",
   "}",
   "return p.search(l.tokens(), verb)",
   "}"
  ]

def conds_path_addVariable : List String := [
   "func (*path) addVariable(toks tokens) *variable",
   "if v, ok := p.findVariable(name); ok",
   "return v",
   "return v"
  ]

def stmts_path_addVariable : List String := [
   "{",
   "name := toks.String()",
   "if v, ok := p.findVariable(name); ok {",
   "return v",
   "}",
   "v := &variable{",
   "name: name,",
   "toks: toks,",
   "next: newPath(),",
   "}",
   "p.variables = append(p.variables, v)",
   "sort.Sort(p.variables)",
   "return v",
   "}"
  ]

def conds_path_addPath : List String := [
   "func (*path) addPath(parent, value token) *path",
   "if next, ok := p.segments[val]; ok",
   "return next",
   "return next"
  ]

def stmts_path_addPath : List String := [
   "{",
   "val := parent.val + value.val",
   "if next, ok := p.segments[val]; ok {",
   "return next",
   "}",
   "next := newPath()",
   "p.segments[val] = next",
   "return next",
   "}"
  ]

def conds_lexTemplate : List String := [
   "func lexTemplate(l *lexer) error",
   "if r := l.next(); r != '/'",
   "return l.errUnexpected()",
   "if err := l.emit(tokenSlash); err != nil",
   "return err",
   "if err := lexSegments(l); err != nil",
   "return err",
   "switch r",
   "case ':'",
   "if err := l.emit(tokenVerb); err != nil",
   "return err",
   "return lexVerb(l)",
   "case eof",
   "if err := l.emit(tokenEOF); err != nil",
   "return err",
   "return nil",
   "default",
   "return l.errUnexpected()"
  ]

def stmts_lexTemplate : List String := [
   "{",
   "if r := l.next(); r != '/' {",
   "return l.errUnexpected()",
   "}",
   "if err := l.emit(tokenSlash); err != nil {",
   "return err",
   "}",
   "if err := lexSegments(l); err != nil {",
   "return err",
   "}",
   "switch r := l.next(); r {",
   "case ':':",
   "if err := l.emit(tokenVerb); err != nil {",
   "return err",
   "}",
   "return lexVerb(l)",
   "case eof:",
   "if err := l.emit(tokenEOF); err != nil {",
   "return err",
   "}",
   "return nil",
   "default:",
   "return l.errUnexpected()",
   "}",
   "}"
  ]

def conds_lexSegments : List String := [
   "func lexSegments(l *lexer) error",
   "for",
   "if err := lexSegment(l); err != nil",
   "return err",
   "if r := l.next(); r != '/'",
   "return nil",
   "if err := l.emit(tokenSlash); err != nil",
   "return err"
  ]

def stmts_lexSegments : List String := [
   "{",
   "for {",
   "if err := lexSegment(l); err != nil {",
   "return err",
   "}",
   "if r := l.next(); r != '/' {",
   "l.backup()",
   "return nil",
   "}",
   "if err := l.emit(tokenSlash); err != nil {",
   "return err",
   "}",
   "}",
   "}"
  ]

def conds_lexSegment : List String := [
   "func lexSegment(l *lexer) error",
   "switch",
   "case unicode.IsLetter(r)",
   "return lexLiteral(l)",
   "case r == '*'",
   "if rn == '*'",
   "return l.emit(tokenStarStar)",
   "return l.emit(tokenStar)",
   "case r == '{'",
   "return lexVariable(l)",
   "default",
   "return l.errUnexpected()"
  ]

def stmts_lexSegment : List String := [
   "{",
   "r := l.next()",
   "switch {",
   "case unicode.IsLetter(r):",
   "l.backup()",
   "return lexLiteral(l)",
   "case r == '*':",
   "rn := l.next()",
   "if rn == '*' {",
   "return l.emit(tokenStarStar)",
   "}",
   "l.backup()",
   "return l.emit(tokenStar)",
   "case r == '{':",
   "l.backup()",
   "return lexVariable(l)",
   "default:",
   "return l.errUnexpected()",
   "}",
   "}"
  ]

def conds_lexVariable : List String := [
   "func lexVariable(l *lexer) error",
   "if r != '{'",
   "return l.errUnexpected()",
   "if err := l.emit(tokenVariableStart); err != nil",
   "return err",
   "if err := lexFieldPath(l); err != nil",
   "return err",
   "if r == '='",
   "if err := l.emit(tokenEqual); err != nil",
   "return err",
   "if err := lexSegments(l); err != nil",
   "return err",
   "if r != '}'",
   "return l.errUnexpected()",
   "return l.emit(tokenVariableEnd)"
  ]

def stmts_lexVariable : List String := [
   "{",
   "r := l.next()",
   "if r != '{' {",
   "return l.errUnexpected()",
   "}",
   "if err := l.emit(tokenVariableStart); err != nil {",
   "return err",
   "}",
   "if err := lexFieldPath(l); err != nil {",
   "return err",
   "}",
   "r = l.next()",
   "if r == '=' {",
   "if err := l.emit(tokenEqual); err != nil {",
   "return err",
   "}",
   "if err := lexSegments(l); err != nil {",
   "return err",
   "}",
   "r = l.next()",
   "}",
   "if r != '}' {",
   "return l.errUnexpected()",
   "}",
   "return l.emit(tokenVariableEnd)",
   "}"
  ]

def conds_lexFieldPath : List String := [
   "func lexFieldPath(l *lexer) error",
   "if err := lexIdent(l); err != nil",
   "return err",
   "for",
   "if r := l.next(); r != '.'",
   "return nil",
   "if err := l.emit(tokenDot); err != nil",
   "return err",
   "if err := lexIdent(l); err != nil",
   "return err"
  ]

def stmts_lexFieldPath : List String := [
   "{",
   "if err := lexIdent(l); err != nil {",
   "return err",
   "}",
   "for {",
   "if r := l.next(); r != '.' {",
   "l.backup()",
   "return nil",
   "}",
   "if err := l.emit(tokenDot); err != nil {",
   "return err",
   "}",
   "if err := lexIdent(l); err != nil {",
   "return err",
   "}",
   "}",
   "}"
  ]

def conds_lexVerb : List String := [
   "func lexVerb(l *lexer) error",
   "if err := lexLiteral(l); err != nil",
   "return err",
   "if r := l.next(); r == eof",
   "return l.emit(tokenEOF)",
   "return l.errUnexpected()"
  ]

def stmts_lexVerb : List String := [
   "{",
   "if err := lexLiteral(l); err != nil {",
   "return err",
   "}",
   "if r := l.next(); r == eof {",
   "return l.emit(tokenEOF)",
   "}",
   "return l.errUnexpected()",
   "}"
  ]

def conds_lexIdent : List String := [
   "func lexIdent(l *lexer) error",
   "if i := l.acceptRun(isIdent); i == 0",
   "return l.errShort()",
   "return l.emit(tokenIdent)"
  ]

def stmts_lexIdent : List String := [
   "{",
   "if i := l.acceptRun(isIdent); i == 0 {",
   "return l.errShort()",
   "}",
   "return l.emit(tokenIdent)",
   "}"
  ]

def conds_lexLiteral : List String := [
   "func lexLiteral(l *lexer) error",
   "if i := l.acceptRun(isLiteral); i == 0",
   "return l.errShort()",
   "return l.emit(tokenLiteral)"
  ]

def stmts_lexLiteral : List String := [
   "{",
   "if i := l.acceptRun(isLiteral); i == 0 {",
   "return l.errShort()",
   "}",
   "return l.emit(tokenLiteral)",
   "}"
  ]

def conds_isIdent : List String := [
   "func isIdent(r rune) bool",
   "return unicode.IsLetter(r) || unicode.IsNumber(r) || r == '_' || r == '-'"
  ]

def stmts_isIdent : List String := [
   "{",
   "return unicode.IsLetter(r) || unicode.IsNumber(r) || r == '_' || r == '-'",
   "}"
  ]

def conds_isLiteral : List String := [
   "func isLiteral(r rune) bool",
   "return isIdent(r) || r == '.'"
  ]

def stmts_isLiteral : List String := [
   "{",
   "return isIdent(r) || r == '.'",
   "}"
  ]

def conds_isPath : List String := [
   "func isPath(r rune) bool",
   "return isLiteral(r) || r == '~' || r == '!' || r == '$' || r == '&' || r == '\\'' || r == '(' || r == ')' || r == '*' || r == '+' || r == ',' || r == ';' || r == '=' || r == '@'"
  ]

def stmts_isPath : List String := [
   "{",
   "return isLiteral(r) || r == '~' || r == '!' || r == '$' || r == '&' ||",
   "r == '\\'' || r == '(' || r == ')' || r == '*' || r == '+' ||",
   "r == ',' || r == ';' || r == '=' || r == '@'",
   "}"
  ]

def conds_Mux_match : List String := [
   "<missing>"
  ]

def stmts_Mux_match : List String := [
   "<missing>"
  ]

def conds_Mux_ServeHTTP : List String := [
   "func (*Mux) ServeHTTP(w http.ResponseWriter, r *http.Request)",
   "if strings.HasPrefix( r.Header.Get(\"Content-Type\"), \"application/grpc-web\", )",
   "return",
   "if r.ProtoMajor == 2 && strings.HasPrefix( r.Header.Get(\"Content-Type\"), \"application/grpc\", )",
   "return",
   "if !strings.HasPrefix(r.URL.Path, \"/\")",
   "if err := m.serveHTTP(w, r); err != nil"
  ]

def stmts_Mux_ServeHTTP : List String := [
   "{",
   "if strings.HasPrefix(",
   "r.Header.Get(\"Content-Type\"), \"application/grpc-web\",",
   ") {",
   "m.serveGRPCWeb(w, r)",
   "return",
   "}",
   "if r.ProtoMajor == 2 && strings.HasPrefix(",
   "r.Header.Get(\"Content-Type\"), \"application/grpc\",",
   ") {",
   "m.serveGRPC(w, r)",
   "return",
   "}",
   "if !strings.HasPrefix(r.URL.Path, \"/\") {",
   "r.URL.Path = \"/\" + r.URL.Path",
   "}",
   "r.URL.Path = strings.TrimSuffix(r.URL.Path, \"/\")",
   "if err := m.serveHTTP(w, r); err != nil {",
   "m.encError(w, r, err)",
   "}",
   "}"
  ]

def conds_path_clone : List String := [
   "func (*path) clone() *path",
   "if p == nil",
   "return pc",
   "range p.segments",
   "range p.variables",
   "range p.methods",
   "return pc"
  ]

def stmts_path_clone : List String := [
   "{",
   "pc := newPath()",
   "if p == nil {",
   "return pc",
   "}",
   "for k, s := range p.segments {",
   "pc.segments[k] = s.clone()",
   "}",
   "pc.variables = make(variables, len(p.variables))",
   "for i, v := range p.variables {",
   "pc.variables[i] = &variable{",
   "name: v.name,",
   "toks: v.toks,",
   "next: v.next.clone(),",
   "}",
   "}",
   "for k, m := range p.methods {",
   "pc.methods[k] = m",
   "}",
   "pc.methodAll = p.methodAll",
   "return pc",
   "}"
  ]

def conds_lexPath : List String := [
   "func lexPath(l *lexer) error",
   "for",
   "switch r",
   "case '/'",
   "if err := l.emit(tokenSlash); err != nil",
   "return err",
   "if err := lexPathSegment(l); err != nil",
   "return err",
   "case ':'",
   "if err := l.emit(tokenVerb); err != nil",
   "return err",
   "if err := lexPathSegment(l); err != nil",
   "return err",
   "case eof",
   "return l.emit(tokenEOF)",
   "default",
   "return l.errUnexpected()"
  ]

def stmts_lexPath : List String := [
   "{",
   "for {",
   "switch r := l.next(); r {",
   "case '/':",
   "if err := l.emit(tokenSlash); err != nil {",
   "return err",
   "}",
   "if err := lexPathSegment(l); err != nil {",
   "return err",
   "}",
   "case ':':",
   "if err := l.emit(tokenVerb); err != nil {",
   "return err",
   "}",
   "if err := lexPathSegment(l); err != nil {",
   "return err",
   "}",
   "case eof:",
   "return l.emit(tokenEOF)",
   "default:",
   "return l.errUnexpected()",
   "}",
   "}",
   "}"
  ]

def conds_lexPathSegment : List String := [
   "func lexPathSegment(l *lexer) error",
   "if i := l.acceptRun(isPath); i == 0",
   "return l.errShort()",
   "return l.emit(tokenPath)"
  ]

def stmts_lexPathSegment : List String := [
   "{",
   "if i := l.acceptRun(isPath); i == 0 {",
   "return l.errShort()",
   "}",
   "return l.emit(tokenPath)",
   "}"
  ]

def conds_path_delRule : List String := [
   "func (*path) delRule(name string) bool",
   "range p.segments",
   "if ok := s.delRule(name); ok",
   "if !s.alive()",
   "return ok",
   "range p.variables",
   "if ok := v.next.delRule(name); ok",
   "if !v.next.alive()",
   "return ok",
   "range p.methods",
   "if m.name == name",
   "return true",
   "return false"
  ]

def stmts_path_delRule : List String := [
   "{",
   "for k, s := range p.segments {",
   "if ok := s.delRule(name); ok {",
   "if !s.alive() {",
   "delete(p.segments, k)",
   "}",
   "return ok",
   "}",
   "}",
   "for i, v := range p.variables {",
   "if ok := v.next.delRule(name); ok {",
   "if !v.next.alive() {",
   "p.variables = append(",
   "p.variables[:i], p.variables[i+1:]...,",
   ")",
   "}",
   "return ok",
   "}",
   "}",
   "for k, m := range p.methods {",
   "if m.name == name {",
   "delete(p.methods, k)",
   "return true",
   "}",
   "}",
   "return false",
   "}"
  ]

def conds_path_alive : List String := [
   "func (*path) alive() bool",
   "return p.methodAll != nil || len(p.methods) != 0 || len(p.variables) != 0 || len(p.segments) != 0"
  ]

def stmts_path_alive : List String := [
   "{",
   "return p.methodAll != nil ||",
   "len(p.methods) != 0 ||",
   "len(p.variables) != 0 ||",
   "len(p.segments) != 0",
   "}"
  ]

end Larking.Expected.C02
