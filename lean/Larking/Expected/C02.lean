-- Skeletons the hand-written model for C02 was built against (snapshot by bin/expect; edit deliberately).
namespace Larking.Expected.C02

def conds_variable_index : List String := [
   "func (*variable) index(toks tokens) int",
   "range v.toks",
   "if i == n",
   "return -1",
   "switch tok.typ",
   "case tokenSlash",
   "if toks[i].typ != tok.typ",
   "return -1",
   "case tokenStar",
   "if j := toks[i:].indexAny(tokenSlash | tokenVerb); j != -1",
   "case tokenStarStar",
   "if j := toks[i:].index(tokenVerb); j != -1",
   "case tokenLiteral",
   "if toks[i].typ != tokenPath || tok.val != toks[i].val",
   "return -1",
   "default",
   "return i"
  ]

def conds_path_search : List String := [
   "func (*path) search(toks tokens, verb string) (*method, params, error)",
   "if n := len(toks); n <= 1",
   "if m, ok := p.methods[verb]; ok",
   "return m, nil, nil",
   "if m := p.methodAll; m != nil",
   "return m, nil, nil",
   "return nil, nil, errMethod",
   "if next, ok := p.segments[segment]; ok",
   "if m, ps, err := next.search(toks[2:], verb); err == nil",
   "return m, ps, nil",
   "range p.variables",
   "if toks[0].typ != tokenSlash",
   "if l == 0",
   "if err != nil",
   "if len(fds) > 0",
   "if err != nil",
   "return nil, nil, err",
   "return m, ps, nil",
   "return nil, nil, errNotFound"
  ]

def conds_path_addVariable : List String := [
   "func (*path) addVariable(toks tokens) *variable",
   "if v, ok := p.findVariable(name); ok",
   "return v",
   "return v"
  ]

def conds_path_addPath : List String := [
   "func (*path) addPath(parent, value token) *path",
   "if next, ok := p.segments[val]; ok",
   "return next",
   "return next"
  ]

def conds_lexTemplate : List String := [
   "func lexTemplate(l *lexer) error",
   "if r := l.next(); r != '/'",
   "return l.errUnexpected()",
   "if err := l.emit(tokenSlash); err != nil",
   "return err",
   "if err := lexSegments(l); err != nil",
   "return err",
   "switch r",
   "case ':'",
   "if err := l.emit(tokenVerb); err != nil",
   "return err",
   "return lexVerb(l)",
   "case eof",
   "if err := l.emit(tokenEOF); err != nil",
   "return err",
   "return nil",
   "default",
   "return l.errUnexpected()"
  ]

def conds_lexSegments : List String := [
   "func lexSegments(l *lexer) error",
   "for",
   "if err := lexSegment(l); err != nil",
   "return err",
   "if r := l.next(); r != '/'",
   "return nil",
   "if err := l.emit(tokenSlash); err != nil",
   "return err"
  ]

def conds_lexSegment : List String := [
   "func lexSegment(l *lexer) error",
   "switch",
   "case unicode.IsLetter(r)",
   "return lexLiteral(l)",
   "case r == '*'",
   "if rn == '*'",
   "return l.emit(tokenStarStar)",
   "return l.emit(tokenStar)",
   "case r == '{'",
   "return lexVariable(l)",
   "default",
   "return l.errUnexpected()"
  ]

def conds_lexVariable : List String := [
   "func lexVariable(l *lexer) error",
   "if r != '{'",
   "return l.errUnexpected()",
   "if err := l.emit(tokenVariableStart); err != nil",
   "return err",
   "if err := lexFieldPath(l); err != nil",
   "return err",
   "if r == '='",
   "if err := l.emit(tokenEqual); err != nil",
   "return err",
   "if err := lexSegments(l); err != nil",
   "return err",
   "if r != '}'",
   "return l.errUnexpected()",
   "return l.emit(tokenVariableEnd)"
  ]

def conds_lexFieldPath : List String := [
   "func lexFieldPath(l *lexer) error",
   "if err := lexIdent(l); err != nil",
   "return err",
   "for",
   "if r := l.next(); r != '.'",
   "return nil",
   "if err := l.emit(tokenDot); err != nil",
   "return err",
   "if err := lexIdent(l); err != nil",
   "return err"
  ]

def conds_lexVerb : List String := [
   "func lexVerb(l *lexer) error",
   "if err := lexLiteral(l); err != nil",
   "return err",
   "if r := l.next(); r == eof",
   "return l.emit(tokenEOF)",
   "return l.errUnexpected()"
  ]

def conds_lexIdent : List String := [
   "func lexIdent(l *lexer) error",
   "if i := l.acceptRun(isIdent); i == 0",
   "return l.errShort()",
   "return l.emit(tokenIdent)"
  ]

def conds_lexLiteral : List String := [
   "func lexLiteral(l *lexer) error",
   "if i := l.acceptRun(isLiteral); i == 0",
   "return l.errShort()",
   "return l.emit(tokenLiteral)"
  ]

def conds_isIdent : List String := [
   "func isIdent(r rune) bool",
   "return unicode.IsLetter(r) || unicode.IsNumber(r) || r == '_' || r == '-'"
  ]

def conds_isLiteral : List String := [
   "func isLiteral(r rune) bool",
   "return isIdent(r) || r == '.'"
  ]

def conds_isPath : List String := [
   "func isPath(r rune) bool",
   "return isLiteral(r) || r == '~' || r == '!' || r == '$' || r == '&' || r == '\\'' || r == '(' || r == ')' || r == '*' || r == '+' || r == ',' || r == ';' || r == '=' || r == '@'"
  ]

end Larking.Expected.C02
