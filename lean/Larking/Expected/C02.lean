-- Skeletons the hand-written model for C02 was built against (snapshot by bin/expect; edit deliberately).
namespace Larking.Expected.C02

def conds_variable_index : List String := [
   "range v.toks",
   "if i == n",
   "return -1",
   "switch tok.typ",
   "case tokenSlash",
   "if toks[i].typ != tok.typ",
   "return -1",
   "case tokenStar",
   "if j := toks[i:].indexAny(tokenSlash | tokenVerb); j != -1",
   "case tokenStarStar",
   "if j := toks[i:].index(tokenVerb); j != -1",
   "case tokenLiteral",
   "if toks[i].typ != tokenPath || tok.val != toks[i].val",
   "return -1",
   "default",
   "return i"
  ]

def conds_path_search : List String := [
   "if n := len(toks); n <= 1",
   "if m, ok := p.methods[verb]; ok",
   "return m, nil, nil",
   "if m := p.methodAll; m != nil",
   "return m, nil, nil",
   "return nil, nil, errMethod",
   "if next, ok := p.segments[segment]; ok",
   "if m, ps, err := next.search(toks[2:], verb); err == nil",
   "return m, ps, nil",
   "range p.variables",
   "if toks[0].typ != tokenSlash",
   "if l == 0",
   "if err != nil",
   "if len(fds) > 0",
   "if err != nil",
   "return nil, nil, err",
   "return m, ps, nil",
   "return nil, nil, errNotFound"
  ]

def conds_path_addVariable : List String := [
   "if v, ok := p.findVariable(name); ok",
   "return v",
   "return v"
  ]

def conds_path_addPath : List String := [
   "if next, ok := p.segments[val]; ok",
   "return next",
   "return next"
  ]

def conds_lexTemplate : List String := [
   "if r := l.next(); r != '/'",
   "return l.errUnexpected()",
   "if err := l.emit(tokenSlash); err != nil",
   "return err",
   "if err := lexSegments(l); err != nil",
   "return err",
   "switch r",
   "case ':'",
   "if err := l.emit(tokenVerb); err != nil",
   "return err",
   "return lexVerb(l)",
   "case eof",
   "if err := l.emit(tokenEOF); err != nil",
   "return err",
   "return nil",
   "default",
   "return l.errUnexpected()"
  ]

def conds_lexSegments : List String := [
   "for",
   "if err := lexSegment(l); err != nil",
   "return err",
   "if r := l.next(); r != '/'",
   "return nil",
   "if err := l.emit(tokenSlash); err != nil",
   "return err"
  ]

def conds_lexSegment : List String := [
   "switch",
   "case unicode.IsLetter(r)",
   "return lexLiteral(l)",
   "case r == '*'",
   "if rn == '*'",
   "return l.emit(tokenStarStar)",
   "return l.emit(tokenStar)",
   "case r == '{'",
   "return lexVariable(l)",
   "default",
   "return l.errUnexpected()"
  ]

def conds_lexVariable : List String := [
   "if r != '{'",
   "return l.errUnexpected()",
   "if err := l.emit(tokenVariableStart); err != nil",
   "return err",
   "if err := lexFieldPath(l); err != nil",
   "return err",
   "if r == '='",
   "if err := l.emit(tokenEqual); err != nil",
   "return err",
   "if err := lexSegments(l); err != nil",
   "return err",
   "if r != '}'",
   "return l.errUnexpected()",
   "return l.emit(tokenVariableEnd)"
  ]

def conds_lexFieldPath : List String := [
   "if err := lexIdent(l); err != nil",
   "return err",
   "for",
   "if r := l.next(); r != '.'",
   "return nil",
   "if err := l.emit(tokenDot); err != nil",
   "return err",
   "if err := lexIdent(l); err != nil",
   "return err"
  ]

def conds_lexVerb : List String := [
   "if err := lexLiteral(l); err != nil",
   "return err",
   "if r := l.next(); r == eof",
   "return l.emit(tokenEOF)",
   "return l.errUnexpected()"
  ]

def conds_lexIdent : List String := [
   "if i := l.acceptRun(isIdent); i == 0",
   "return l.errShort()",
   "return l.emit(tokenIdent)"
  ]

def conds_lexLiteral : List String := [
   "if i := l.acceptRun(isLiteral); i == 0",
   "return l.errShort()",
   "return l.emit(tokenLiteral)"
  ]

def conds_isIdent : List String := [
   "return unicode.IsLetter(r) || unicode.IsNumber(r) || r == '_' || r == '-'"
  ]

def conds_isLiteral : List String := [
   "return isIdent(r) || r == '.'"
  ]

def conds_isPath : List String := [
   "return isLiteral(r) || r == '~' || r == '!' || r == '$' || r == '&' || r == '\\'' || r == '(' || r == ')' || r == '*' || r == '+' || r == ',' || r == ';' || r == '=' || r == '@'"
  ]

end Larking.Expected.C02
