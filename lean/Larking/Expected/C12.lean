-- Skeletons the hand-written model for C12 was built against (snapshot by bin/expect; edit deliberately).
namespace Larking.Expected.C12

def conds_state_clone : List String := [
   "func (*state) clone() *state",
   "if s == nil",
   "return &state{ path: newPath(), conns: make(map[*grpc.ClientConn]connList), handlers: make(map[string][]*handler), }",
   "range s.conns",
   "range s.handlers",
   "return &state{ path: s.path.clone(), conns: conns, handlers: handlers, }"
  ]

def stmts_state_clone : List String := [
   "{",
   "if s == nil {",
   "return &state{",
   "path: newPath(),",
   "conns: make(map[*grpc.ClientConn]connList),",
   "handlers: make(map[string][]*handler),",
   "}",
   "}",
   "conns := make(map[*grpc.ClientConn]connList)",
   "for conn, cl := range s.conns {",
   "conns[conn] = cl",
   "}",
   "handlers := make(map[string][]*handler)",
   "for method, hds := range s.handlers {",
   "handlers[method] = hds",
   "}",
   "return &state{",
   "path: s.path.clone(),",
   "conns: conns,",
   "handlers: handlers,",
   "}",
   "}"
  ]

def conds_path_clone : List String := [
   "func (*path) clone() *path",
   "if p == nil",
   "return pc",
   "range p.segments",
   "range p.variables",
   "range p.methods",
   "return pc"
  ]

def stmts_path_clone : List String := [
   "{",
   "pc := newPath()",
   "if p == nil {",
   "return pc",
   "}",
   "for k, s := range p.segments {",
   "pc.segments[k] = s.clone()",
   "}",
   "pc.variables = make(variables, len(p.variables))",
   "for i, v := range p.variables {",
   "pc.variables[i] = &variable{",
   "name: v.name,",
   "toks: v.toks,",
   "next: v.next.clone(),",
   "}",
   "}",
   "for k, m := range p.methods {",
   "pc.methods[k] = m",
   "}",
   "pc.methodAll = p.methodAll",
   "return pc",
   "}"
  ]

def conds_state_removeHandler : List String := [
   "func (*state) removeHandler(cc *grpc.ClientConn) bool",
   "if !ok",
   "return ok",
   "range cl.handlers",
   "range s.handlers[name]",
   "if mhd != hd",
   "if len(hds) == 0",
   "return ok"
  ]

def stmts_state_removeHandler : List String := [
   "{",
   "cl, ok := s.conns[cc]",
   "if !ok {",
   "return ok",
   "}",
   "for _, hd := range cl.handlers {",
   "name := hd.method",
   "var hds []*handler",
   "for _, mhd := range s.handlers[name] {",
   "if mhd != hd {",
   "hds = append(hds, mhd)",
   "}",
   "}",
   "if len(hds) == 0 {",
   "delete(s.handlers, name)",
   "s.path.delRule(name)",
   "} else {",
   "s.handlers[name] = hds",
   "}",
   "}",
   "delete(s.conns, cc)",
   "return ok",
   "}"
  ]

def conds_state_appendHandler : List String := [
   "func (*state) appendHandler( opts muxOptions, desc protoreflect.MethodDescriptor, h *handler, ) error",
   "if err := s.path.addRule(implicitRule, desc, h.method); err != nil",
   "return fmt.Errorf(\"[%s] implicit rule %s: %w\", desc.FullName(), implicitRule.String(), err)",
   "range opts.httprules.getRules(name)",
   "if err := s.path.addRule(rule, desc, h.method); err != nil",
   "return fmt.Errorf(\"[%s] invalid ServiceConfig.http rule %s: %w\", desc.FullName(), rule.String(), err)",
   "if rule := getExtensionHTTP(desc.Options()); rule != nil",
   "if err := s.path.addRule(rule, desc, h.method); err != nil",
   "return fmt.Errorf(\"[%s] invalid rule %s: %w\", desc.FullName(), rule.String(), err)",
   "return nil"
  ]

def stmts_state_appendHandler : List String := [
   "{",
   "implicitRule := &annotations.HttpRule{",
   "Pattern: &annotations.HttpRule_Custom{",
   "Custom: &annotations.CustomHttpPattern{",
   "Kind: \"*\",",
   "Path: h.method,",
   "},",
   "},",
   "Body: \"*\",",
   "}",
   "if err := s.path.addRule(implicitRule, desc, h.method); err != nil {",
   "return fmt.Errorf(\"[%s] implicit rule %s: %w\", desc.FullName(), implicitRule.String(), err)",
   "}",
   "name := string(desc.FullName())",
   "for _, rule := range opts.httprules.getRules(name) {",
   "if err := s.path.addRule(rule, desc, h.method); err != nil {",
   "return fmt.Errorf(\"[%s] invalid ServiceConfig.http rule %s: %w\", desc.FullName(), rule.String(), err)",
   "}",
   "}",
   "if rule := getExtensionHTTP(desc.Options()); rule != nil {",
   "if err := s.path.addRule(rule, desc, h.method); err != nil {",
   "return fmt.Errorf(\"[%s] invalid rule %s: %w\", desc.FullName(), rule.String(), err)",
   "}",
   "}",
   "s.handlers[h.method] = append(s.handlers[h.method], h)",
   "return nil",
   "}"
  ]

def conds_Mux_registerService : List String := [
   "func (*Mux) registerService(gsd *grpc.ServiceDesc, ss interface{}) error",
   "defer m.mu.Unlock()",
   "if err != nil",
   "return err",
   "if !ok",
   "return fmt.Errorf(\"invalid method descriptor %T\", d)",
   "if md == nil",
   "return nil, fmt.Errorf(\"missing method descriptor for %v\", methodName)",
   "return md, nil",
   "range gsd.Methods",
   "if err != nil",
   "return err",
   "if err != nil",
   "return err",
   "return stream.SendMsg(reply)",
   "if err := s.appendHandler(m.opts, md, h); err != nil",
   "return err",
   "range gsd.Streams",
   "if err != nil",
   "return err",
   "return opts.stream(ss, stream, info, d.Handler)",
   "if err := s.appendHandler(m.opts, md, h); err != nil",
   "return err",
   "return nil"
  ]

def stmts_Mux_registerService : List String := [
   "{",
   "m.mu.Lock()",
   "defer m.mu.Unlock()",
   "s := m.loadState().clone()",
   "d, err := m.opts.files.FindDescriptorByName(protoreflect.FullName(gsd.ServiceName))",
   "if err != nil {",
   "return err",
   "}",
   "sd, ok := d.(protoreflect.ServiceDescriptor)",
   "if !ok {",
   "return fmt.Errorf(\"invalid method descriptor %T\", d)",
   "}",
   "mds := sd.Methods()",
   "findMethod := func(methodName string) (protoreflect.MethodDescriptor, error) {",
   "md := mds.ByName(protoreflect.Name(methodName))",
   "if md == nil {",
   "return nil, fmt.Errorf(\"missing method descriptor for %v\", methodName)",
   "}",
   "return md, nil",
   "}",
   "for i := range gsd.Methods {",
   "d := &gsd.Methods[i]",
   "method := \"/\" + gsd.ServiceName + \"/\" + d.MethodName",
   "md, err := findMethod(d.MethodName)",
   "if err != nil {",
   "return err",
   "}",
   "h := &handler{",
   "method: method,",
   "desc: md,",
   "handler: func(opts *muxOptions, stream grpc.ServerStream) error {",
   "ctx := stream.Context()",
   "reply, err := d.Handler(ss, ctx, stream.RecvMsg, opts.unaryInterceptor)",
   "if err != nil {",
   "return err",
   "}",
   "return stream.SendMsg(reply)",
   "},",
   "}",
   "if err := s.appendHandler(m.opts, md, h); err != nil {",
   "return err",
   "}",
   "}",
   "for i := range gsd.Streams {",
   "d := &gsd.Streams[i]",
   "method := \"/\" + gsd.ServiceName + \"/\" + d.StreamName",
   "md, err := findMethod(d.StreamName)",
   "if err != nil {",
   "return err",
   "}",
   "h := &handler{",
   "method: method,",
   "desc: md,",
   "handler: func(opts *muxOptions, stream grpc.ServerStream) error {",
   "info := &grpc.StreamServerInfo{",
   "FullMethod: method,",
   "IsClientStream: d.ClientStreams,",
   "IsServerStream: d.ServerStreams,",
   "}",
   "return opts.stream(ss, stream, info, d.Handler)",
   "},",
   "}",
   "if err := s.appendHandler(m.opts, md, h); err != nil {",
   "return err",
   "}",
   "}",
   "m.storeState(s)",
   "return nil",
   "}"
  ]

def conds_Mux_RegisterConn : List String := [
   "func (*Mux) RegisterConn(ctx context.Context, cc *grpc.ClientConn) error",
   "if err != nil",
   "return err",
   "defer m.mu.Unlock()",
   "if err := s.addConnHandler(m.opts, cc, stream); err != nil",
   "return err",
   "return stream.CloseSend()"
  ]

def stmts_Mux_RegisterConn : List String := [
   "{",
   "c := rpb.NewServerReflectionClient(cc)",
   "stream, err := c.ServerReflectionInfo(ctx, grpc.WaitForReady(true))",
   "if err != nil {",
   "return err",
   "}",
   "m.mu.Lock()",
   "defer m.mu.Unlock()",
   "s := m.loadState().clone()",
   "if err := s.addConnHandler(m.opts, cc, stream); err != nil {",
   "return err",
   "}",
   "m.storeState(s)",
   "return stream.CloseSend()",
   "}"
  ]

def conds_Mux_DropConn : List String := [
   "func (*Mux) DropConn(ctx context.Context, cc *grpc.ClientConn) bool",
   "defer m.mu.Unlock()",
   "if ok",
   "return ok"
  ]

def stmts_Mux_DropConn : List String := [
   "{",
   "m.mu.Lock()",
   "defer m.mu.Unlock()",
   "s := m.loadState().clone()",
   "ok := s.removeHandler(cc)",
   "if ok {",
   "m.storeState(s)",
   "}",
   "return ok",
   "}"
  ]

def conds_Mux_loadState : List String := [
   "func (*Mux) loadState() *state",
   "return s"
  ]

def stmts_Mux_loadState : List String := [
   "{",
   "s, _ := m.state.Load().(*state)",
   "return s",
   "}"
  ]

def conds_Mux_storeState : List String := [
   "func (*Mux) storeState(s *state)"
  ]

def stmts_Mux_storeState : List String := [
   "{",
   "m.state.Store(s)",
   "}"
  ]

def conds_state_pickMethodHandler : List String := [
   "func (*state) pickMethodHandler(name string) (*handler, error)",
   "if s != nil",
   "if len(hds) > 0",
   "return hd, nil",
   "return nil, status.Errorf(codes.Unimplemented, \"method %s not implemented\", name)"
  ]

def stmts_state_pickMethodHandler : List String := [
   "{",
   "if s != nil {",
   "hds := s.handlers[name]",
   "if len(hds) > 0 {",
   "hd := hds[rand.Intn(len(hds))]",
   "return hd, nil",
   "}",
   "}",
   "return nil, status.Errorf(codes.Unimplemented, \"method %s not implemented\", name)",
   "}"
  ]

end Larking.Expected.C12
