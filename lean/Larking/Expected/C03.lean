-- Skeletons the hand-written model for C03 was built against (snapshot by bin/expect; edit deliberately).
namespace Larking.Expected.C03

def conds_parseParam : List String := [
   "if len(fds) == 0",
   "return param{}, fmt.Errorf(\"zero field\")",
   "switch kind",
   "case protoreflect.BoolKind",
   "if err := json.Unmarshal(raw, &b); err != nil",
   "return param{}, err",
   "return param{fds: fds, val: protoreflect.ValueOfBool(b)}, nil",
   "case protoreflect.Int32Kind, protoreflect.Sint32Kind, protoreflect.Sfixed32Kind",
   "if err := json.Unmarshal(raw, &x); err != nil",
   "return param{}, err",
   "return param{fds: fds, val: protoreflect.ValueOfInt32(x)}, nil",
   "case protoreflect.Int64Kind, protoreflect.Sint64Kind, protoreflect.Sfixed64Kind",
   "if err := json.Unmarshal(raw, &x); err != nil",
   "return param{}, err",
   "return param{fds: fds, val: protoreflect.ValueOfInt64(x)}, nil",
   "case protoreflect.Uint32Kind, protoreflect.Fixed32Kind",
   "if err := json.Unmarshal(raw, &x); err != nil",
   "return param{}, err",
   "return param{fds: fds, val: protoreflect.ValueOfUint32(x)}, nil",
   "case protoreflect.Uint64Kind, protoreflect.Fixed64Kind",
   "if err := json.Unmarshal(raw, &x); err != nil",
   "return param{}, err",
   "return param{fds: fds, val: protoreflect.ValueOfUint64(x)}, nil",
   "case protoreflect.FloatKind",
   "if err := json.Unmarshal(raw, &x); err != nil",
   "return param{}, err",
   "return param{fds: fds, val: protoreflect.ValueOfFloat32(x)}, nil",
   "case protoreflect.DoubleKind",
   "if err := json.Unmarshal(raw, &x); err != nil",
   "return param{}, err",
   "return param{fds: fds, val: protoreflect.ValueOfFloat64(x)}, nil",
   "case protoreflect.StringKind",
   "return param{fds: fds, val: protoreflect.ValueOfString(string(raw))}, nil",
   "case protoreflect.BytesKind",
   "if bytes.ContainsAny(raw, \"-_\")",
   "if len(raw)%4 != 0",
   "if err != nil",
   "return param{}, err",
   "return param{fds: fds, val: protoreflect.ValueOfBytes(dst[:n])}, nil",
   "case protoreflect.EnumKind",
   "if err := json.Unmarshal(raw, &x); err == nil",
   "return param{fds: fds, val: protoreflect.ValueOfEnum(protoreflect.EnumNumber(x))}, nil",
   "if isNullValue(fd) && s == \"null\"",
   "return param{fds: fds, val: protoreflect.ValueOfEnum(0)}, nil",
   "if enumVal == nil",
   "return param{}, fmt.Errorf(\"unexpected enum %s\", raw)",
   "return param{fds: fds, val: protoreflect.ValueOfEnum(enumVal.Number())}, nil",
   "case protoreflect.MessageKind",
   "if strings.HasPrefix(name, \"google.protobuf.\")",
   "switch md.FullName()[16:]",
   "case \"Timestamp\"",
   "if err := protojson.Unmarshal(quote(raw), &msg); err != nil",
   "return param{}, err",
   "return param{fds: fds, val: protoreflect.ValueOfMessage(msg.ProtoReflect())}, nil",
   "case \"Duration\"",
   "if err := protojson.Unmarshal(quote(raw), &msg); err != nil",
   "return param{}, err",
   "return param{fds: fds, val: protoreflect.ValueOfMessage(msg.ProtoReflect())}, nil",
   "case \"BoolValue\"",
   "if err := protojson.Unmarshal(raw, &msg); err != nil",
   "return param{}, err",
   "return param{fds: fds, val: protoreflect.ValueOfMessage(msg.ProtoReflect())}, nil",
   "case \"Int32Value\"",
   "if err := protojson.Unmarshal(raw, &msg); err != nil",
   "return param{}, err",
   "return param{fds: fds, val: protoreflect.ValueOfMessage(msg.ProtoReflect())}, nil",
   "case \"Int64Value\"",
   "if err := protojson.Unmarshal(raw, &msg); err != nil",
   "return param{}, err",
   "return param{fds: fds, val: protoreflect.ValueOfMessage(msg.ProtoReflect())}, nil",
   "case \"UInt32Value\"",
   "if err := protojson.Unmarshal(raw, &msg); err != nil",
   "return param{}, err",
   "return param{fds: fds, val: protoreflect.ValueOfMessage(msg.ProtoReflect())}, nil",
   "case \"UInt64Value\"",
   "if err := protojson.Unmarshal(raw, &msg); err != nil",
   "return param{}, err",
   "return param{fds: fds, val: protoreflect.ValueOfMessage(msg.ProtoReflect())}, nil",
   "case \"FloatValue\"",
   "if err := protojson.Unmarshal(raw, &msg); err != nil",
   "return param{}, err",
   "return param{fds: fds, val: protoreflect.ValueOfMessage(msg.ProtoReflect())}, nil",
   "case \"DoubleValue\"",
   "if err := protojson.Unmarshal(raw, &msg); err != nil",
   "return param{}, err",
   "return param{fds: fds, val: protoreflect.ValueOfMessage(msg.ProtoReflect())}, nil",
   "case \"BytesValue\"",
   "if err := protojson.Unmarshal(quote(raw), &msg); err != nil",
   "return param{}, err",
   "return param{fds: fds, val: protoreflect.ValueOfMessage(msg.ProtoReflect())}, nil",
   "case \"StringValue\"",
   "if err := protojson.Unmarshal(quote(raw), &msg); err != nil",
   "return param{}, err",
   "return param{fds: fds, val: protoreflect.ValueOfMessage(msg.ProtoReflect())}, nil",
   "case \"FieldMask\"",
   "if err := protojson.Unmarshal(quote(raw), &msg); err != nil",
   "return param{}, err",
   "return param{fds: fds, val: protoreflect.ValueOfMessage(msg.ProtoReflect())}, nil",
   "return param{}, fmt.Errorf(\"unexpected message type %s\", name)",
   "default",
   "return param{}, fmt.Errorf(\"unknown param type %s\", kind)"
  ]

def conds_quote : List String := [
   "if n := len(raw); n > 0 && (raw[0] != '\"' || raw[n-1] != '\"')",
   "return raw"
  ]

def conds_params_set : List String := [
   "range ps",
   "range p.fds",
   "if err != nil",
   "return err",
   "if len(p.fds)-1 == i",
   "switch",
   "case fd.IsList()",
   "case fd.IsMap()",
   "return fmt.Errorf(\"map fields are not supported\")",
   "default",
   "return nil"
  ]

def conds_method_parseQueryParams : List String := [
   "range values",
   "if fds == nil",
   "return nil, status.Errorf(codes.InvalidArgument, \"unknown query param %q\", key)",
   "range vs",
   "if err != nil",
   "return nil, err",
   "return ps, nil"
  ]

def conds_fieldPath : List String := [
   "range names",
   "if fd == nil",
   "if fd == nil",
   "return nil",
   "if i != len(fds)-1",
   "if msgDesc == nil || fd.IsList() || fd.IsMap()",
   "return nil",
   "return fds"
  ]

def conds_streamHTTP_RecvMsg : List String := [
   "if s.method.hasBody && s.hasBody",
   "if err != nil",
   "return err",
   "if s.rEOF",
   "return io.EOF",
   "if count == 0",
   "if err := s.params.set(args); err != nil",
   "return err",
   "return nil"
  ]

def conds_streamHTTP_decodeRequestArgs : List String := [
   "defer func() { if cap(b) < s.opts.maxReceiveMessageSize { *bytes = b bytesPool.Put(bytes) } }()",
   "if cap(b) < s.opts.maxReceiveMessageSize",
   "if err != nil",
   "return -1, err",
   "if err != nil",
   "return -1, err",
   "if err != nil && !(err == io.EOF && count == 0 && isHTTPBody)",
   "return count, err",
   "if isHTTPBody",
   "if err := c.Unmarshal(b, msg); err != nil",
   "return count, status.Errorf(codes.Internal, \"%s: error while unmarshaling: %v\", c.Name(), err)",
   "if stats := s.opts.statsHandler; stats != nil",
   "return count, nil"
  ]

def conds_streamHTTP_getCodec : List String := [
   "if c, ok := s.opts.codecs[codecType]; ok",
   "return c, nil",
   "if c, ok := s.opts.codecs[codecType]; ok",
   "return c, nil",
   "return nil, status.Errorf(codes.Internal, \"no codec registered for content-type %q\", mediaType)"
  ]

end Larking.Expected.C03
