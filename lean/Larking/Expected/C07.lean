-- Skeletons the hand-written model for C07 was built against (snapshot by bin/expect; edit deliberately).
namespace Larking.Expected.C07

def conds_Mux_serveHTTP : List String := [
   "func (*Mux) serveHTTP(w http.ResponseWriter, r *http.Request) (rerr error)",
   "if isWebsocket",
   "if err != nil",
   "return err",
   "if err != nil",
   "return err",
   "if err != nil",
   "return err",
   "if sh := m.opts.statsHandler; sh != nil",
   "defer func() { if !ended { sh.HandleRPC(ctx, &stats.End{ Client: false, BeginTime: beginTime, EndTime: time.Now(), Error: rerr, }) } }()",
   "if !ended",
   "if isWebsocket",
   "if err != nil",
   "return err",
   "defer conn.Close()",
   "if herr != nil",
   "if max := ws.MaxControlFramePayloadSize - 2; len(reason) > max",
   "if err != nil",
   "return err",
   "if _, err := conn.Write(b); err != nil",
   "return err",
   "if _, err := conn.Write(ws.CompiledClose); err != nil",
   "return err",
   "if sh := m.opts.statsHandler; sh != nil",
   "return nil",
   "if contentType == \"\"",
   "if cz := m.opts.compressors[contentEncoding]; cz != nil",
   "if err != nil",
   "return err",
   "if cz := m.opts.compressors[acceptEncoding]; cz != nil",
   "if err != nil",
   "return err",
   "defer z.Close()",
   "if sh := m.opts.statsHandler; sh != nil",
   "if !stream.sentHeader",
   "if herr != nil",
   "if !stream.sentHeader",
   "return nil"
  ]

def conds_params_set : List String := [
   "func (params) set(m proto.Message) error",
   "range ps",
   "range p.fds",
   "if err != nil",
   "return err",
   "if len(p.fds)-1 == i",
   "switch",
   "case fd.IsList()",
   "case fd.IsMap()",
   "return fmt.Errorf(\"map fields are not supported\")",
   "default",
   "return nil"
  ]

def conds_streamHTTP_RecvMsg : List String := [
   "func (*streamHTTP) RecvMsg(m interface{}) error",
   "if s.method.hasBody && s.hasBody",
   "if err != nil",
   "return err",
   "if s.rEOF",
   "return io.EOF",
   "if count == 0",
   "if err := s.params.set(args); err != nil",
   "return err",
   "if sh := s.opts.statsHandler; sh != nil && !(s.method.hasBody && s.hasBody)",
   "return nil"
  ]

def conds_Mux_match : List String := [
   "<missing>"
  ]

end Larking.Expected.C07
