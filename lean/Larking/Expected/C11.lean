-- Skeletons the hand-written model for C11 was built against (snapshot by bin/expect; edit deliberately).
namespace Larking.Expected.C11

def conds_state_clone : List String := [
   "func (*state) clone() *state",
   "if s == nil",
   "return &state{ path: newPath(), conns: make(map[*grpc.ClientConn]connList), handlers: make(map[string][]*handler), }",
   "range s.conns",
   "range s.handlers",
   "return &state{ path: s.path.clone(), conns: conns, handlers: handlers, }"
  ]

def conds_state_appendHandler : List String := [
   "func (*state) appendHandler( opts muxOptions, desc protoreflect.MethodDescriptor, h *handler, ) error",
   "if err := s.path.addRule(implicitRule, desc, h.method); err != nil",
   "return fmt.Errorf(\"[%s] implicit rule %s: %w\", desc.FullName(), implicitRule.String(), err)",
   "range opts.httprules.getRules(name)",
   "if err := s.path.addRule(rule, desc, h.method); err != nil",
   "return fmt.Errorf(\"[%s] invalid ServiceConfig.http rule %s: %w\", desc.FullName(), rule.String(), err)",
   "if rule := getExtensionHTTP(desc.Options()); rule != nil",
   "if err := s.path.addRule(rule, desc, h.method); err != nil",
   "return fmt.Errorf(\"[%s] invalid rule %s: %w\", desc.FullName(), rule.String(), err)",
   "return nil"
  ]

def stmts_state_appendHandler : List String := [
   "{",
   "implicitRule := &annotations.HttpRule{",
   "Pattern: &annotations.HttpRule_Custom{",
   "Custom: &annotations.CustomHttpPattern{",
   "Kind: \"*\",",
   "Path: h.method,",
   "},",
   "},",
   "Body: \"*\",",
   "}",
   "if err := s.path.addRule(implicitRule, desc, h.method); err != nil {",
   "return fmt.Errorf(\"[%s] implicit rule %s: %w\", desc.FullName(), implicitRule.String(), err)",
   "}",
   "name := string(desc.FullName())",
   "for _, rule := range opts.httprules.getRules(name) {",
   "if err := s.path.addRule(rule, desc, h.method); err != nil {",
   "return fmt.Errorf(\"[%s] invalid ServiceConfig.http rule %s: %w\", desc.FullName(), rule.String(), err)",
   "}",
   "}",
   "if rule := getExtensionHTTP(desc.Options()); rule != nil {",
   "if err := s.path.addRule(rule, desc, h.method); err != nil {",
   "return fmt.Errorf(\"[%s] invalid rule %s: %w\", desc.FullName(), rule.String(), err)",
   "}",
   "}",
   "s.handlers[h.method] = append(s.handlers[h.method], h)",
   "return nil",
   "}"
  ]

def conds_state_removeHandler : List String := [
   "func (*state) removeHandler(cc *grpc.ClientConn) bool",
   "if !ok",
   "return ok",
   "range cl.handlers",
   "range s.handlers[name]",
   "if mhd != hd",
   "if len(hds) == 0",
   "return ok"
  ]

def stmts_state_removeHandler : List String := [
   "{",
   "cl, ok := s.conns[cc]",
   "if !ok {",
   "return ok",
   "}",
   "for _, hd := range cl.handlers {",
   "name := hd.method",
   "var hds []*handler",
   "for _, mhd := range s.handlers[name] {",
   "if mhd != hd {",
   "hds = append(hds, mhd)",
   "}",
   "}",
   "if len(hds) == 0 {",
   "delete(s.handlers, name)",
   "s.path.delRule(name)",
   "} else {",
   "s.handlers[name] = hds",
   "}",
   "}",
   "delete(s.conns, cc)",
   "return ok",
   "}"
  ]

def conds_state_addConnHandler : List String := [
   "func (*state) addConnHandler( opts muxOptions, cc *grpc.ClientConn, stream rpb.ServerReflection_ServerReflectionInfoClient, ) error",
   "if err := stream.Send(&rpb.ServerReflectionRequest{ MessageRequest: &rpb.ServerReflectionRequest_ListServices{}, }); err != nil",
   "return err",
   "if err != nil",
   "return err",
   "range r.GetListServicesResponse().GetService()",
   "if err := stream.Send(&rpb.ServerReflectionRequest{ MessageRequest: &rpb.ServerReflectionRequest_FileContainingSymbol{ FileContainingSymbol: svc.GetName(), }, }); err != nil",
   "return err",
   "if err != nil",
   "return err",
   "range fdbb",
   "if err := proto.Unmarshal(fdb, fd); err != nil",
   "return err",
   "if _, err := h.Write(fdb); err != nil",
   "return err",
   "if cl, ok := s.conns[cc]; ok",
   "if bytes.Equal(cl.fdHash, fdHash)",
   "return nil",
   "if err != nil",
   "return err",
   "range fds",
   "if err != nil",
   "return err",
   "if err != nil",
   "return err",
   "return nil"
  ]

def conds_state_processFile : List String := [
   "func (*state) processFile(opts muxOptions, cc *grpc.ClientConn, fd protoreflect.FileDescriptor) ([]*handler, error)",
   "for i := 0; i < sds.Len(); i++",
   "for j := 0; j < mds.Len(); j++",
   "if err := s.appendHandler(opts, md, hd); err != nil",
   "return nil, err",
   "return handlers, nil"
  ]

def conds_state_pickMethodHandler : List String := [
   "func (*state) pickMethodHandler(name string) (*handler, error)",
   "if s != nil",
   "if len(hds) > 0",
   "return hd, nil",
   "return nil, status.Errorf(codes.Unimplemented, \"method %s not implemented\", name)"
  ]

def conds_Mux_registerService : List String := [
   "func (*Mux) registerService(gsd *grpc.ServiceDesc, ss interface{}) error",
   "defer m.mu.Unlock()",
   "if err != nil",
   "return err",
   "if !ok",
   "return fmt.Errorf(\"invalid method descriptor %T\", d)",
   "if md == nil",
   "return nil, fmt.Errorf(\"missing method descriptor for %v\", methodName)",
   "return md, nil",
   "range gsd.Methods",
   "if err != nil",
   "return err",
   "if err != nil",
   "return err",
   "return stream.SendMsg(reply)",
   "if err := s.appendHandler(m.opts, md, h); err != nil",
   "return err",
   "range gsd.Streams",
   "if err != nil",
   "return err",
   "return opts.stream(ss, stream, info, d.Handler)",
   "if err := s.appendHandler(m.opts, md, h); err != nil",
   "return err",
   "return nil"
  ]

def conds_Mux_RegisterConn : List String := [
   "func (*Mux) RegisterConn(ctx context.Context, cc *grpc.ClientConn) error",
   "if err != nil",
   "return err",
   "defer m.mu.Unlock()",
   "if err := s.addConnHandler(m.opts, cc, stream); err != nil",
   "return err",
   "return stream.CloseSend()"
  ]

def conds_Mux_DropConn : List String := [
   "func (*Mux) DropConn(ctx context.Context, cc *grpc.ClientConn) bool",
   "defer m.mu.Unlock()",
   "if ok",
   "return ok"
  ]

def conds_path_delRule : List String := [
   "func (*path) delRule(name string) bool",
   "range p.segments",
   "if ok := s.delRule(name); ok",
   "if !s.alive()",
   "return ok",
   "range p.variables",
   "if ok := v.next.delRule(name); ok",
   "if !v.next.alive()",
   "return ok",
   "range p.methods",
   "if m.name == name",
   "return true",
   "return false"
  ]

def stmts_path_delRule : List String := [
   "{",
   "for k, s := range p.segments {",
   "if ok := s.delRule(name); ok {",
   "if !s.alive() {",
   "delete(p.segments, k)",
   "}",
   "return ok",
   "}",
   "}",
   "for i, v := range p.variables {",
   "if ok := v.next.delRule(name); ok {",
   "if !v.next.alive() {",
   "p.variables = append(",
   "p.variables[:i], p.variables[i+1:]...,",
   ")",
   "}",
   "return ok",
   "}",
   "}",
   "for k, m := range p.methods {",
   "if m.name == name {",
   "delete(p.methods, k)",
   "return true",
   "}",
   "}",
   "return false",
   "}"
  ]

def conds_path_alive : List String := [
   "func (*path) alive() bool",
   "return p.methodAll != nil || len(p.methods) != 0 || len(p.variables) != 0 || len(p.segments) != 0"
  ]

def stmts_path_alive : List String := [
   "{",
   "return p.methodAll != nil ||",
   "len(p.methods) != 0 ||",
   "len(p.variables) != 0 ||",
   "len(p.segments) != 0",
   "}"
  ]

end Larking.Expected.C11
