-- Skeletons the hand-written model for C13 was built against (snapshot by bin/expect; edit deliberately).
namespace Larking.Expected.C13

def conds_streamGRPC_RecvMsg : List String := [
   "func (*streamGRPC) RecvMsg(m interface{}) error",
   "defer s.wg.Done()",
   "if err := s.isDone(); err != nil",
   "return err",
   "defer func() { if cap(b) < s.opts.maxReceiveMessageSize { *bp = b bytesPool.Put(bp) } }()",
   "if cap(b) < s.opts.maxReceiveMessageSize",
   "if cap(b) < 5",
   "if _, err := io.ReadFull(s.r, b); err != nil",
   "if isStreamError(err)",
   "return status.Errorf(codes.Canceled, msg)",
   "return err",
   "if int(size) > s.opts.maxReceiveMessageSize",
   "return fmt.Errorf(\"grpc: received message larger than max (%d vs. %d)\", size, s.opts.maxReceiveMessageSize)",
   "if cap(b) < int(size)",
   "if _, err := io.ReadFull(s.r, b); err != nil",
   "if err == io.EOF",
   "return err",
   "if isCompressed",
   "if s.comp == nil",
   "return fmt.Errorf(\"grpc: Decompressor is not installed for grpc-encoding %q\", s.messageEncoding)",
   "if err := s.decompress(buf, b); err != nil",
   "return err",
   "if int(size) > cap(b)",
   "if err := s.codec.Unmarshal(b, args); err != nil",
   "return err",
   "if stats := s.opts.statsHandler; stats != nil",
   "return nil"
  ]

def stmts_streamGRPC_RecvMsg : List String := [
   "s.wg.Add(1)",
   "defer s.wg.Done()",
   "err := s.isDone()",
   "args := m.(proto.Message)",
   "bp := bytesPool.Get().(*[]byte)",
   "b := (*bp)[:0]",
   "defer func(…)",
   "func-literal",
   "*bp = b",
   "bytesPool.Put(bp)",
   "b = make([]byte, 0, growcap(cap(b), 5))",
   "b = b[:5]",
   "_, err := io.ReadFull(s.r, b)",
   "msg := err.Error()",
   "isCompressed := b[0] == 1",
   "size := binary.BigEndian.Uint32(b[1:])",
   "b = make([]byte, 0, growcap(cap(b), int(size)))",
   "b = b[:size]",
   "_, err := io.ReadFull(s.r, b)",
   "err = io.ErrUnexpectedEOF",
   "buf := bufPool.Get().(*bytes.Buffer)",
   "buf.Reset()",
   "err := s.decompress(buf, b)",
   "bufPool.Put(buf)",
   "size = uint32(buf.Len())",
   "b = make([]byte, 0, growcap(cap(b), int(size)))",
   "b = b[:int(size)]",
   "copy(b, buf.Bytes())",
   "bufPool.Put(buf)",
   "err := s.codec.Unmarshal(b, args)",
   "stats := s.opts.statsHandler",
   "stats.HandleRPC(s.ctx, inPayload(false, m, b, time.Now()))"
  ]

def conds_streamGRPC_SendMsg : List String := [
   "func (*streamGRPC) SendMsg(m interface{}) error",
   "defer s.wg.Done()",
   "if err := s.isDone(); err != nil",
   "return err",
   "if !s.sentHeader",
   "if err := s.SendHeader(nil); err != nil",
   "return err",
   "defer func() { if cap(b) < s.opts.maxReceiveMessageSize { *bp = b bytesPool.Put(bp) } }()",
   "if cap(b) < s.opts.maxReceiveMessageSize",
   "if cap(b) < 5",
   "if err != nil",
   "return err",
   "if int(size) > s.opts.maxSendMessageSize",
   "return fmt.Errorf(\"grpc: trying to send message larger than max (%d vs. %d)\", size, s.opts.maxSendMessageSize)",
   "if s.comp != nil",
   "if err := s.compress(buf, b[5:]); err != nil",
   "return err",
   "if bufSize+5 > cap(b)",
   "if _, err := s.w.Write(b); err != nil",
   "if isStreamError(err)",
   "return status.Errorf(codes.Unavailable, msg)",
   "return err",
   "if stats := s.opts.statsHandler; stats != nil",
   "return nil"
  ]

def stmts_streamGRPC_SendMsg : List String := [
   "s.wg.Add(1)",
   "defer s.wg.Done()",
   "err := s.isDone()",
   "reply := m.(proto.Message)",
   "err := s.SendHeader(nil)",
   "bp := bytesPool.Get().(*[]byte)",
   "b := (*bp)[:0]",
   "defer func(…)",
   "func-literal",
   "*bp = b",
   "bytesPool.Put(bp)",
   "b = make([]byte, 0, growcap(cap(b), 5))",
   "b = b[:5]",
   "var err error",
   "b, err = s.codec.MarshalAppend(b, reply)",
   "var size uint32",
   "size = uint32(len(b) - 5)",
   "b[0] = 0",
   "buf := bufPool.Get().(*bytes.Buffer)",
   "buf.Reset()",
   "err := s.compress(buf, b[5:])",
   "bufPool.Put(buf)",
   "bufSize := buf.Len()",
   "b = make([]byte, 0, growcap(cap(b), bufSize+5))",
   "b = b[:bufSize+5]",
   "b[0] = 1",
   "copy(b[5:], buf.Bytes())",
   "size = uint32(bufSize)",
   "bufPool.Put(buf)",
   "binary.BigEndian.PutUint32(b[1:], size)",
   "_, err := s.w.Write(b)",
   "msg := err.Error()",
   "s.w.(http.Flusher).Flush()",
   "stats := s.opts.statsHandler",
   "b := b[headerLen:]",
   "stats.HandleRPC(s.ctx, outPayload(false, m, b, time.Now()))"
  ]

def conds_streamHTTP_readMsg : List String := [
   "func (*streamHTTP) readMsg(c Codec, b []byte) (int, []byte, error)",
   "if s.rEOF",
   "return s.recvCount, nil, io.EOF",
   "if s.method.desc.IsStreamingClient()",
   "if !ok",
   "return count, nil, fmt.Errorf(\"codec %q does not support streaming\", codec.Name())",
   "if err == io.EOF",
   "switch",
   "case n > 0",
   "case len(b) > 0",
   "return count, b[:n], err",
   "if err == io.EOF",
   "return count, b, err"
  ]

def stmts_streamHTTP_readMsg : List String := [
   "count := s.recvCount",
   "s.recvCount += 1",
   "codec, ok := c.(StreamCodec)",
   "b = append(b, s.rbuf...)",
   "b, n, err := codec.ReadNext(b, s.r, s.opts.maxReceiveMessageSize)",
   "s.rEOF = true",
   "err = nil",
   "err = io.ErrUnexpectedEOF",
   "s.rbuf = append(s.rbuf[:0], b[n:]...)",
   "b, err := s.opts.readAll(b, s.r)",
   "s.rEOF, err = true, nil"
  ]

def conds_streamHTTP_decodeRequestArgs : List String := [
   "func (*streamHTTP) decodeRequestArgs(args proto.Message) (int, error)",
   "defer func() { if cap(b) < s.opts.maxReceiveMessageSize { *bytes = b bytesPool.Put(bytes) } }()",
   "if cap(b) < s.opts.maxReceiveMessageSize",
   "if err != nil",
   "return -1, err",
   "if err != nil",
   "return -1, err",
   "if err != nil && !(err == io.EOF && count == 0 && isHTTPBody)",
   "return count, err",
   "if isHTTPBody",
   "if err := c.Unmarshal(b, msg); err != nil",
   "return count, status.Errorf(codes.Internal, \"%s: error while unmarshaling: %v\", c.Name(), err)",
   "if stats := s.opts.statsHandler; stats != nil",
   "return count, nil"
  ]

def stmts_streamHTTP_decodeRequestArgs : List String := [
   "bytes := bytesPool.Get().(*[]byte)",
   "b := (*bytes)[:0]",
   "defer func(…)",
   "func-literal",
   "*bytes = b",
   "bytesPool.Put(bytes)",
   "cur, err := mutablePath(args.ProtoReflect(), s.method.body)",
   "msg := cur.Interface()",
   "c, err := s.getCodec(s.contentType, cur)",
   "var ( count int )",
   "isHTTPBody := cur.Descriptor().FullName() == \"google.api.HttpBody\"",
   "count, b, err = s.readMsg(c, b)",
   "fds := cur.Descriptor().Fields()",
   "fdContentType := fds.ByName(\"content_type\")",
   "fdData := fds.ByName(\"data\")",
   "cur.Set(fdContentType, protoreflect.ValueOfString(s.contentType))",
   "cpy := make([]byte, len(b))",
   "copy(cpy, b)",
   "cur.Set(fdData, protoreflect.ValueOfBytes(cpy))",
   "err := c.Unmarshal(b, msg)",
   "stats := s.opts.statsHandler",
   "stats.HandleRPC(s.ctx, inPayload(false, msg, b, time.Now()))"
  ]

def conds_streamHTTP_SendMsg : List String := [
   "func (*streamHTTP) SendMsg(m interface{}) error",
   "if err != nil",
   "return err",
   "if err != nil",
   "return err",
   "defer func() { if cap(b) < s.opts.maxReceiveMessageSize { *bytes = b bytesPool.Put(bytes) } }()",
   "if cap(b) < s.opts.maxReceiveMessageSize",
   "if cur.Descriptor().FullName() == \"google.api.HttpBody\"",
   "if err != nil",
   "return status.Errorf(codes.Internal, \"%s: error while marshaling: %v\", c.Name(), err)",
   "if _, err := s.writeMsg(c, b, contentType); err != nil",
   "return err",
   "if fRsp, ok := s.w.(http.Flusher); ok",
   "if stats := s.opts.statsHandler; stats != nil",
   "return nil"
  ]

def stmts_streamHTTP_SendMsg : List String := [
   "reply := m.(proto.Message)",
   "cur, err := mutablePath(reply.ProtoReflect(), s.method.resp)",
   "msg := cur.Interface()",
   "contentType := s.accept",
   "c, err := s.getCodec(contentType, cur)",
   "bytes := bytesPool.Get().(*[]byte)",
   "b := (*bytes)[:0]",
   "defer func(…)",
   "func-literal",
   "*bytes = b",
   "bytesPool.Put(bytes)",
   "fds := cur.Descriptor().Fields()",
   "fdContentType := fds.ByName(protoreflect.Name(\"content_type\"))",
   "fdData := fds.ByName(protoreflect.Name(\"data\"))",
   "pContentType := cur.Get(fdContentType)",
   "pData := cur.Get(fdData)",
   "b = append(b, pData.Bytes()...)",
   "contentType = pContentType.String()",
   "var err error",
   "b, err = c.MarshalAppend(b, msg)",
   "_, err := s.writeMsg(c, b, contentType)",
   "fRsp, ok := s.w.(http.Flusher)",
   "fRsp.Flush()",
   "stats := s.opts.statsHandler",
   "stats.HandleRPC(s.ctx, outPayload(false, m, b, time.Now()))"
  ]

def conds_gzipReader_Read : List String := [
   "func (*gzipReader) Read(p []byte) (n int, err error)",
   "if z.zr == nil",
   "return 0, io.EOF",
   "if err == io.EOF",
   "return n, err"
  ]

def stmts_gzipReader_Read : List String := [
   "n, err = z.zr.Read(p)",
   "z.pool.Put(z.zr)",
   "z.zr = nil"
  ]

def conds_gzipWriter_Close : List String := [
   "func (*gzipWriter) Close() error",
   "defer z.pool.Put(z)",
   "return z.Writer.Close()"
  ]

def stmts_gzipWriter_Close : List String := [
   "defer z.pool.Put(z)"
  ]

def conds_CompressorGzip_Compress : List String := [
   "func (*CompressorGzip) Compress(w io.Writer) (io.WriteCloser, error)",
   "if !ok",
   "if c.Level != nil",
   "if err != nil",
   "return nil, err",
   "return &gzipWriter{Writer: newZ, pool: &c.poolCompressor}, nil",
   "return z, nil"
  ]

def stmts_CompressorGzip_Compress : List String := [
   "z, ok := c.poolCompressor.Get().(*gzipWriter)",
   "level := gzip.DefaultCompression",
   "level = *c.Level",
   "newZ, err := gzip.NewWriterLevel(w, level)",
   "z.Reset(w)"
  ]

def conds_CompressorGzip_Decompress : List String := [
   "func (*CompressorGzip) Decompress(r io.Reader) (io.Reader, error)",
   "if !ok",
   "if err != nil",
   "return nil, err",
   "return &gzipReader{zr: newZ, pool: &c.poolDecompressor}, nil",
   "if err := zr.Reset(r); err != nil",
   "return nil, err",
   "return &gzipReader{zr: zr, pool: &c.poolDecompressor}, nil"
  ]

def stmts_CompressorGzip_Decompress : List String := [
   "zr, ok := c.poolDecompressor.Get().(*gzip.Reader)",
   "newZ, err := gzip.NewReader(r)",
   "err := zr.Reset(r)",
   "c.poolDecompressor.Put(zr)"
  ]

def conds_streamGRPC_compress : List String := [
   "func (*streamGRPC) compress(dst *bytes.Buffer, b []byte) error",
   "if err != nil",
   "return err",
   "defer w.Close()",
   "if _, err := w.Write(b); err != nil",
   "return err",
   "return nil"
  ]

def stmts_streamGRPC_compress : List String := [
   "w, err := s.comp.Compress(dst)",
   "defer w.Close()",
   "_, err := w.Write(b)"
  ]

def conds_streamGRPC_decompress : List String := [
   "func (*streamGRPC) decompress(dst *bytes.Buffer, b []byte) error",
   "if err != nil",
   "return err",
   "if _, err := dst.ReadFrom(io.LimitReader(r, max+1)); err != nil",
   "return err",
   "if int64(dst.Len()) > max",
   "return fmt.Errorf(\"grpc: received message after decompression larger than max (%d vs. %d)\", dst.Len(), max)",
   "return nil"
  ]

def stmts_streamGRPC_decompress : List String := [
   "src := bytes.NewReader(b)",
   "r, err := s.comp.Decompress(src)",
   "max := int64(s.opts.maxReceiveMessageSize)",
   "_, err := dst.ReadFrom(io.LimitReader(r, max+1))"
  ]

def conds_createConnHandler : List String := [
   "func createConnHandler( cc *grpc.ClientConn, sd protoreflect.ServiceDescriptor, md protoreflect.MethodDescriptor, ) *handler",
   "if isClientStream || isServerStream",
   "if inErr != nil && !(inErr == io.EOF && sd.ClientStreams)",
   "return inErr",
   "if md, ok := metadata.FromIncomingContext(ctx); ok",
   "if err != nil",
   "return err",
   "if inErr == nil",
   "if err := clientStream.SendMsg(args); err != nil",
   "return err",
   "if sd.ClientStreams",
   "go",
   "for inErr == nil",
   "if inErr = stream.RecvMsg(args); inErr != nil",
   "if inErr = clientStream.SendMsg(args); inErr != nil",
   "if inErr == io.EOF",
   "if err := clientStream.CloseSend(); err != nil",
   "for",
   "if outErr = clientStream.RecvMsg(reply); outErr != nil",
   "if outErr = stream.SendMsg(reply); outErr != nil",
   "if !sd.ServerStreams",
   "if isStreamError(outErr)",
   "return outErr",
   "if sd.ClientStreams",
   "if isStreamError(inErr)",
   "return inErr",
   "return nil",
   "return opts.stream(nil, stream, info, fn)",
   "return &handler{ method: method, desc: md, handler: h, }",
   "if md, ok := metadata.FromIncomingContext(ctx); ok",
   "if err := cc.Invoke(ctx, method, args, reply); err != nil",
   "return nil, err",
   "return reply, nil",
   "if err := stream.RecvMsg(args); err != nil",
   "return err",
   "if err != nil",
   "return err",
   "return stream.SendMsg(reply)",
   "return &handler{ method: method, desc: md, handler: h, }"
  ]

def stmts_createConnHandler : List String := [
   "argsDesc := md.Input()",
   "replyDesc := md.Output()",
   "method := fmt.Sprintf(\"/%s/%s\", sd.FullName(), md.Name())",
   "isClientStream := md.IsStreamingClient()",
   "isServerStream := md.IsStreamingServer()",
   "sd := &grpc.StreamDesc{ ServerStreams: md.IsStreamingServer(), ClientStreams: md.IsStreamingClient(), }",
   "info := &grpc.StreamServerInfo{ FullMethod: method, IsClientStream: isClientStream, IsServerStream: isServerStream, }",
   "fn := func(…)",
   "func-literal",
   "ctx := stream.Context()",
   "args := dynamicpb.NewMessage(argsDesc)",
   "inErr := stream.RecvMsg(args)",
   "md, ok := metadata.FromIncomingContext(ctx)",
   "ctx = metadata.NewOutgoingContext(ctx, md)",
   "clientStream, err := cc.NewStream(ctx, sd, method)",
   "err := clientStream.SendMsg(args)",
   "var wg sync.WaitGroup",
   "wg.Add(1)",
   "go func(…)",
   "func-literal",
   "args := dynamicpb.NewMessage(argsDesc)",
   "inErr = stream.RecvMsg(args)",
   "inErr = clientStream.SendMsg(args)",
   "err := clientStream.CloseSend()",
   "inErr = err",
   "wg.Done()",
   "var outErr error",
   "reply := dynamicpb.NewMessage(replyDesc)",
   "outErr = clientStream.RecvMsg(reply)",
   "outErr = stream.SendMsg(reply)",
   "wg.Wait()",
   "trailer := clientStream.Trailer()",
   "stream.SetTrailer(trailer)",
   "h := func(…)",
   "func-literal",
   "info := &grpc.UnaryServerInfo{ Server: nil, FullMethod: method, }",
   "fn := func(…)",
   "func-literal",
   "reply := dynamicpb.NewMessage(replyDesc)",
   "md, ok := metadata.FromIncomingContext(ctx)",
   "ctx = metadata.NewOutgoingContext(ctx, md)",
   "err := cc.Invoke(ctx, method, args, reply)",
   "h := func(…)",
   "func-literal",
   "ctx := stream.Context()",
   "args := dynamicpb.NewMessage(argsDesc)",
   "err := stream.RecvMsg(args)",
   "reply, err := opts.unary(ctx, args, info, fn)"
  ]

end Larking.Expected.C13
