-- Skeletons the hand-written model for C16 was built against (snapshot by bin/expect; edit deliberately).
namespace Larking.Expected.C16

def conds_path_addRule : List String := [
   "func (*path) addRule( rule *annotations.HttpRule, desc protoreflect.MethodDescriptor, name string, ) error",
   "typeswitch v := rule.Pattern.(type)",
   "case *annotations.HttpRule_Get",
   "case *annotations.HttpRule_Put",
   "case *annotations.HttpRule_Post",
   "case *annotations.HttpRule_Delete",
   "case *annotations.HttpRule_Patch",
   "case *annotations.HttpRule_Custom",
   "default",
   "return fmt.Errorf(\"unsupported pattern %v\", v)",
   "if err := lexTemplate(l); err != nil",
   "return err",
   "return l.toks[i]",
   "for tok.typ == tokenSlash; tok = next()",
   "switch val.typ",
   "case tokenStar, tokenStarStar",
   "case tokenLiteral",
   "case tokenVariableStart",
   "for nxt.typ == tokenDot",
   "switch nxt.typ",
   "case tokenEqual",
   "for nxt := next(); nxt.typ != tokenVariableEnd; nxt = next()",
   "switch nxt.typ",
   "case tokenSlash, tokenStar, tokenStarStar, tokenLiteral",
   "default",
   "return fmt.Errorf(\"nested variables are not supported %q\", tmpl)",
   "case tokenVariableEnd",
   "default",
   "if fds == nil",
   "return fmt.Errorf(\"field not found %v\", keys)",
   "default",
   "switch tok.typ",
   "case tokenVerb",
   "case tokenEOF",
   "default",
   "if verb != \"*\"",
   "if existing != nil",
   "if existing.desc.FullName() != desc.FullName()",
   "return fmt.Errorf(\"duplicate rule %v\", rule)",
   "return p.addAdditionalBindings(rule, desc, name)",
   "switch rule.Body",
   "case \"*\"",
   "case \"\"",
   "default",
   "if m.body == nil",
   "return fmt.Errorf(\"body field error %v\", rule.Body)",
   "switch rule.ResponseBody",
   "case \"\"",
   "default",
   "if m.resp == nil",
   "return fmt.Errorf(\"response body field error %v\", rule.ResponseBody)",
   "if verb == \"*\"",
   "return p.addAdditionalBindings(rule, desc, name)"
  ]

def conds_lexTemplate : List String := [
   "func lexTemplate(l *lexer) error",
   "if r := l.next(); r != '/'",
   "return l.errUnexpected()",
   "if err := l.emit(tokenSlash); err != nil",
   "return err",
   "if err := lexSegments(l); err != nil",
   "return err",
   "switch r",
   "case ':'",
   "if err := l.emit(tokenVerb); err != nil",
   "return err",
   "return lexVerb(l)",
   "case eof",
   "if err := l.emit(tokenEOF); err != nil",
   "return err",
   "return nil",
   "default",
   "return l.errUnexpected()"
  ]

def conds_lexSegments : List String := [
   "func lexSegments(l *lexer) error",
   "for",
   "if err := lexSegment(l); err != nil",
   "return err",
   "if r := l.next(); r != '/'",
   "return nil",
   "if err := l.emit(tokenSlash); err != nil",
   "return err"
  ]

def conds_lexSegment : List String := [
   "func lexSegment(l *lexer) error",
   "switch",
   "case unicode.IsLetter(r)",
   "return lexLiteral(l)",
   "case r == '*'",
   "if rn == '*'",
   "return l.emit(tokenStarStar)",
   "return l.emit(tokenStar)",
   "case r == '{'",
   "return lexVariable(l)",
   "default",
   "return l.errUnexpected()"
  ]

def conds_lexVariable : List String := [
   "func lexVariable(l *lexer) error",
   "if r != '{'",
   "return l.errUnexpected()",
   "if err := l.emit(tokenVariableStart); err != nil",
   "return err",
   "if err := lexFieldPath(l); err != nil",
   "return err",
   "if r == '='",
   "if err := l.emit(tokenEqual); err != nil",
   "return err",
   "if err := lexSegments(l); err != nil",
   "return err",
   "if r != '}'",
   "return l.errUnexpected()",
   "return l.emit(tokenVariableEnd)"
  ]

def conds_lexFieldPath : List String := [
   "func lexFieldPath(l *lexer) error",
   "if err := lexIdent(l); err != nil",
   "return err",
   "for",
   "if r := l.next(); r != '.'",
   "return nil",
   "if err := l.emit(tokenDot); err != nil",
   "return err",
   "if err := lexIdent(l); err != nil",
   "return err"
  ]

def conds_lexVerb : List String := [
   "func lexVerb(l *lexer) error",
   "if err := lexLiteral(l); err != nil",
   "return err",
   "if r := l.next(); r == eof",
   "return l.emit(tokenEOF)",
   "return l.errUnexpected()"
  ]

def conds_lexIdent : List String := [
   "func lexIdent(l *lexer) error",
   "if i := l.acceptRun(isIdent); i == 0",
   "return l.errShort()",
   "return l.emit(tokenIdent)"
  ]

def conds_lexLiteral : List String := [
   "func lexLiteral(l *lexer) error",
   "if i := l.acceptRun(isLiteral); i == 0",
   "return l.errShort()",
   "return l.emit(tokenLiteral)"
  ]

def conds_lexer_emit : List String := [
   "func (*lexer) emit(typ tokenType) error",
   "if l.len >= len(l.toks)",
   "return errTokenLimit",
   "return nil"
  ]

def conds_Mux_registerService : List String := [
   "func (*Mux) registerService(gsd *grpc.ServiceDesc, ss interface{}) error",
   "defer m.mu.Unlock()",
   "if err != nil",
   "return err",
   "if !ok",
   "return fmt.Errorf(\"invalid method descriptor %T\", d)",
   "if md == nil",
   "return nil, fmt.Errorf(\"missing method descriptor for %v\", methodName)",
   "return md, nil",
   "range gsd.Methods",
   "if err != nil",
   "return err",
   "if err != nil",
   "return err",
   "return stream.SendMsg(reply)",
   "if err := s.appendHandler(m.opts, md, h); err != nil",
   "return err",
   "range gsd.Streams",
   "if err != nil",
   "return err",
   "return opts.stream(ss, stream, info, d.Handler)",
   "if err := s.appendHandler(m.opts, md, h); err != nil",
   "return err",
   "return nil"
  ]

def conds_state_appendHandler : List String := [
   "func (*state) appendHandler( opts muxOptions, desc protoreflect.MethodDescriptor, h *handler, ) error",
   "if err := s.path.addRule(implicitRule, desc, h.method); err != nil",
   "return fmt.Errorf(\"[%s] implicit rule %s: %w\", desc.FullName(), implicitRule.String(), err)",
   "range opts.httprules.getRules(name)",
   "if err := s.path.addRule(rule, desc, h.method); err != nil",
   "return fmt.Errorf(\"[%s] invalid ServiceConfig.http rule %s: %w\", desc.FullName(), rule.String(), err)",
   "if rule := getExtensionHTTP(desc.Options()); rule != nil",
   "if err := s.path.addRule(rule, desc, h.method); err != nil",
   "return fmt.Errorf(\"[%s] invalid rule %s: %w\", desc.FullName(), rule.String(), err)",
   "return nil"
  ]

end Larking.Expected.C16
