-- Skeletons the hand-written model for C14 was built against (snapshot by bin/expect; edit deliberately).
namespace Larking.Expected.C14

def conds_webWriter_seeHeaders : List String := [
   "func (*webWriter) seeHeaders()",
   "range hdr",
   "if strings.HasPrefix(k, http.TrailerPrefix)"
  ]

def stmts_webWriter_seeHeaders : List String := [
   "{",
   "hdr := w.Header()",
   "hdr.Set(\"Content-Type\", w.typ+\"+\"+w.enc)",
   "keys := make(map[string]bool, len(hdr))",
   "for k := range hdr {",
   "if strings.HasPrefix(k, http.TrailerPrefix) {",
   "continue",
   "}",
   "keys[k] = true",
   "}",
   "w.seenHeaders = keys",
   "w.wroteHeader = true",
   "}"
  ]

def conds_webWriter_writeTrailer : List String := [
   "func (*webWriter) writeTrailer() error",
   "range hdr",
   "if w.seenHeaders[key]",
   "if err := tr.Write(&buf); err != nil",
   "return err",
   "if _, err := w.Write(head); err != nil",
   "return err",
   "if _, err := w.Write(buf.Bytes()); err != nil",
   "return err",
   "return nil"
  ]

def stmts_webWriter_writeTrailer : List String := [
   "{",
   "hdr := w.Header()",
   "tr := make(http.Header, len(hdr)-len(w.seenHeaders)+1)",
   "for key, val := range hdr {",
   "if w.seenHeaders[key] {",
   "continue",
   "}",
   "key = strings.TrimPrefix(key, http.TrailerPrefix)",
   "tr[strings.ToLower(key)] = val",
   "}",
   "var buf bytes.Buffer",
   "if err := tr.Write(&buf); err != nil {",
   "return err",
   "}",
   "head := []byte{1 << 7, 0, 0, 0, 0}",
   "binary.BigEndian.PutUint32(head[1:5], uint32(buf.Len()))",
   "if _, err := w.Write(head); err != nil {",
   "return err",
   "}",
   "if _, err := w.Write(buf.Bytes()); err != nil {",
   "return err",
   "}",
   "return nil",
   "}"
  ]

def conds_webWriter_flushWithTrailer : List String := [
   "func (*webWriter) flushWithTrailer()",
   "if w.wroteHeader || w.wroteResp",
   "if err := w.writeTrailer(); err != nil",
   "return",
   "if w.respCloser != nil",
   "if err := w.respCloser.Close(); err != nil",
   "return"
  ]

def stmts_webWriter_flushWithTrailer : List String := [
   "{",
   "if w.wroteHeader || w.wroteResp {",
   "if err := w.writeTrailer(); err != nil {",
   "return",
   "}",
   "if w.respCloser != nil {",
   "if err := w.respCloser.Close(); err != nil {",
   "return",
   "}",
   "}",
   "}",
   "w.Flush()",
   "}"
  ]

def conds_webWriter_Write : List String := [
   "func (*webWriter) Write(b []byte) (int, error)",
   "if !w.wroteHeader",
   "return w.resp.Write(b)"
  ]

def stmts_webWriter_Write : List String := [
   "{",
   "if !w.wroteHeader {",
   "w.seeHeaders()",
   "}",
   "return w.resp.Write(b)",
   "}"
  ]

def conds_webWriter_WriteHeader : List String := [
   "func (*webWriter) WriteHeader(code int)"
  ]

def stmts_webWriter_WriteHeader : List String := [
   "{",
   "w.seeHeaders()",
   "w.w.WriteHeader(code)",
   "}"
  ]

def conds_webWriter_Flush : List String := [
   "func (*webWriter) Flush()",
   "if w.wroteHeader || w.wroteResp",
   "if f, ok := w.w.(http.Flusher); ok"
  ]

def stmts_webWriter_Flush : List String := [
   "{",
   "if w.wroteHeader || w.wroteResp {",
   "if f, ok := w.w.(http.Flusher); ok {",
   "f.Flush()",
   "}",
   "}",
   "}"
  ]

def conds_newWebWriter : List String := [
   "func newWebWriter(w http.ResponseWriter, typ, enc string) *webWriter",
   "if typ == grpcWebText",
   "return &webWriter{ w: w, typ: typ, enc: enc, resp: resp, respCloser: respCloser, }"
  ]

def stmts_newWebWriter : List String := [
   "{",
   "var resp io.Writer = w",
   "var respCloser io.Closer",
   "if typ == grpcWebText {",
   "b64 := base64.NewEncoder(base64.StdEncoding, resp)",
   "resp, respCloser = b64, b64",
   "}",
   "return &webWriter{",
   "w: w,",
   "typ: typ,",
   "enc: enc,",
   "resp: resp,",
   "respCloser: respCloser,",
   "}",
   "}"
  ]

def conds_setOutgoingHeader : List String := [
   "func setOutgoingHeader(header http.Header, md metadata.MD)",
   "range md",
   "if isReservedHeader(k)",
   "if strings.HasSuffix(k, binHdrSuffix)",
   "range vs"
  ]

def stmts_setOutgoingHeader : List String := [
   "{",
   "for k, vs := range md {",
   "if isReservedHeader(k) {",
   "continue",
   "}",
   "if strings.HasSuffix(k, binHdrSuffix) {",
   "dst := make([]string, len(vs))",
   "for i, v := range vs {",
   "dst[i] = encodeBinHeader([]byte(v))",
   "}",
   "vs = dst",
   "}",
   "header[textproto.CanonicalMIMEHeaderKey(k)] = vs",
   "}",
   "}"
  ]

def conds_setOutgoingTrailer : List String := [
   "func setOutgoingTrailer(header http.Header, md metadata.MD)",
   "range tr"
  ]

def stmts_setOutgoingTrailer : List String := [
   "{",
   "tr := make(http.Header, len(md))",
   "setOutgoingHeader(tr, md)",
   "for k, vs := range tr {",
   "header[http.TrailerPrefix+k] = vs",
   "}",
   "}"
  ]

def conds_newIncomingContext : List String := [
   "func newIncomingContext(ctx context.Context, header http.Header) (context.Context, metadata.MD)",
   "range header",
   "if isReservedHeader(k) && !isWhitelistedHeader(k)",
   "if strings.HasSuffix(k, binHdrSuffix)",
   "range vs",
   "if err != nil",
   "return metadata.NewIncomingContext(ctx, md), md"
  ]

def stmts_newIncomingContext : List String := [
   "{",
   "md := make(metadata.MD, len(header))",
   "for k, vs := range header {",
   "k = strings.ToLower(k)",
   "if isReservedHeader(k) && !isWhitelistedHeader(k) {",
   "continue",
   "}",
   "if strings.HasSuffix(k, binHdrSuffix) {",
   "dst := make([]string, len(vs))",
   "for i, v := range vs {",
   "v, err := decodeBinHeader(v)",
   "if err != nil {",
   "continue",
   "}",
   "dst[i] = v",
   "}",
   "vs = dst",
   "}",
   "md[k] = vs",
   "}",
   "return metadata.NewIncomingContext(ctx, md), md",
   "}"
  ]

def conds_decodeBinHeader : List String := [
   "func decodeBinHeader(v string) (s string, err error)",
   "if len(v)%4 == 0",
   "return string(b), err"
  ]

def stmts_decodeBinHeader : List String := [
   "{",
   "var b []byte",
   "if len(v)%4 == 0 {",
   "b, err = base64.StdEncoding.DecodeString(v)",
   "} else {",
   "b, err = base64.RawStdEncoding.DecodeString(v)",
   "}",
   "return string(b), err",
   "}"
  ]

def conds_AsHTTPBodyWriter : List String := [
   "func AsHTTPBodyWriter(stream grpc.ServerStream, msg proto.Message) (body io.Writer, err error)",
   "if err != nil",
   "return nil, err",
   "if !s.method.desc.IsStreamingServer()",
   "return nil, fmt.Errorf(\"expected streaming server\")",
   "if s.sendCount > 0",
   "return nil, fmt.Errorf(\"expected first message\")",
   "if name, want := cur.Descriptor().FullName(), s.method.desc.Output().FullName(); name != want",
   "return nil, fmt.Errorf(\"expected %s got %s\", want, name)",
   "if err != nil",
   "return nil, err",
   "if typ := cur.Descriptor().FullName(); typ != \"google.api.HttpBody\"",
   "return nil, fmt.Errorf(\"expected body type of google.api.HttpBody got %s\", typ)",
   "if !s.sentHeader",
   "if err := s.SendHeader(nil); err != nil",
   "return nil, err",
   "return s.w, nil"
  ]

def stmts_AsHTTPBodyWriter : List String := [
   "{",
   "ctx := stream.Context()",
   "s, err := streamHTTPFromCtx(ctx)",
   "if err != nil {",
   "return nil, err",
   "}",
   "if !s.method.desc.IsStreamingServer() {",
   "return nil, fmt.Errorf(\"expected streaming server\")",
   "}",
   "if s.sendCount > 0 {",
   "return nil, fmt.Errorf(\"expected first message\")",
   "}",
   "cur := msg.ProtoReflect()",
   "if name, want := cur.Descriptor().FullName(), s.method.desc.Output().FullName(); name != want {",
   "return nil, fmt.Errorf(\"expected %s got %s\", want, name)",
   "}",
   "cur, err = mutablePath(cur, s.method.resp)",
   "if err != nil {",
   "return nil, err",
   "}",
   "if typ := cur.Descriptor().FullName(); typ != \"google.api.HttpBody\" {",
   "return nil, fmt.Errorf(\"expected body type of google.api.HttpBody got %s\", typ)",
   "}",
   "fds := cur.Descriptor().Fields()",
   "fdContentType := fds.ByName(\"content_type\")",
   "pContentType := cur.Get(fdContentType)",
   "contentType := pContentType.String()",
   "s.wHeader.Set(\"Content-Type\", contentType)",
   "if !s.sentHeader {",
   "if err := s.SendHeader(nil); err != nil {",
   "return nil, err",
   "}",
   "}",
   "s.sendCount += 1",
   "return s.w, nil",
   "}"
  ]

end Larking.Expected.C14
