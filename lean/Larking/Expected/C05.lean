-- Skeletons the hand-written model for C05 was built against (snapshot by bin/expect; edit deliberately).
namespace Larking.Expected.C05

def conds_isWebRequest : List String := [
   "func isWebRequest(r *http.Request) (typ string, enc string, ok bool)",
   "if !strings.HasPrefix(ct, \"application/grpc-web\") || r.Method != http.MethodPost",
   "return typ, enc, false",
   "if !ok",
   "return typ, enc, ok"
  ]

def stmts_isWebRequest : List String := [
   "{",
   "ct := r.Header.Get(\"Content-Type\")",
   "if !strings.HasPrefix(ct, \"application/grpc-web\") || r.Method != http.MethodPost {",
   "return typ, enc, false",
   "}",
   "typ, enc, ok = strings.Cut(ct, \"+\")",
   "if !ok {",
   "enc = \"proto\"",
   "}",
   "ok = typ == grpcWeb || typ == grpcWebText",
   "return typ, enc, ok",
   "}"
  ]

def conds_Mux_ServeHTTP : List String := [
   "func (*Mux) ServeHTTP(w http.ResponseWriter, r *http.Request)",
   "if strings.HasPrefix( r.Header.Get(\"Content-Type\"), \"application/grpc-web\", )",
   "return",
   "if r.ProtoMajor == 2 && strings.HasPrefix( r.Header.Get(\"Content-Type\"), \"application/grpc\", )",
   "return",
   "if !strings.HasPrefix(r.URL.Path, \"/\")",
   "if err := m.serveHTTP(w, r); err != nil"
  ]

def stmts_Mux_ServeHTTP : List String := [
   "{",
   "if strings.HasPrefix(",
   "r.Header.Get(\"Content-Type\"), \"application/grpc-web\",",
   ") {",
   "m.serveGRPCWeb(w, r)",
   "return",
   "}",
   "if r.ProtoMajor == 2 && strings.HasPrefix(",
   "r.Header.Get(\"Content-Type\"), \"application/grpc\",",
   ") {",
   "m.serveGRPC(w, r)",
   "return",
   "}",
   "if !strings.HasPrefix(r.URL.Path, \"/\") {",
   "r.URL.Path = \"/\" + r.URL.Path",
   "}",
   "r.URL.Path = strings.TrimSuffix(r.URL.Path, \"/\")",
   "if err := m.serveHTTP(w, r); err != nil {",
   "m.encError(w, r, err)",
   "}",
   "}"
  ]

def conds_Mux_serveGRPCWeb : List String := [
   "func (*Mux) serveGRPCWeb(w http.ResponseWriter, r *http.Request)",
   "if !ok",
   "return",
   "if strings.EqualFold(r.Header.Get(\"Upgrade\"), \"websocket\")",
   "return",
   "if typ == grpcWebText"
  ]

def stmts_Mux_serveGRPCWeb : List String := [
   "{",
   "typ, enc, ok := isWebRequest(r)",
   "if !ok {",
   "msg := fmt.Sprintf(\"invalid gRPC-Web content type: %v\", r.Header.Get(\"Content-Type\"))",
   "http.Error(w, msg, http.StatusBadRequest)",
   "return",
   "}",
   "if strings.EqualFold(r.Header.Get(\"Upgrade\"), \"websocket\") {",
   "http.Error(w, \"unimplemented websocket support\", http.StatusInternalServerError)",
   "return",
   "}",
   "r.ProtoMajor = 2",
   "r.ProtoMinor = 0",
   "hdr := r.Header",
   "hdr.Del(\"Content-Length\")",
   "hdr.Set(\"Content-Type\", grpcBase+\"+\"+enc)",
   "if typ == grpcWebText {",
   "body := base64.NewDecoder(base64.StdEncoding, r.Body)",
   "r.Body = readCloser{body, r.Body}",
   "}",
   "ww := newWebWriter(w, typ, enc)",
   "m.serveGRPC(ww, r)",
   "ww.flushWithTrailer()",
   "}"
  ]

end Larking.Expected.C05
