-- Skeletons the hand-written model for C17 was built against (snapshot by bin/expect; edit deliberately).
namespace Larking.Expected.C17

def conds_CodecProto_ReadNext : List String := [
   "for i := 0; i < binary.MaxVarintLen64; i++",
   "for i >= len(b)",
   "if len(b) == cap(b)",
   "if err != nil && !(err == io.EOF && n > 0)",
   "return b, 0, err",
   "if b[i] < 0x80",
   "if n < 0",
   "return b, 0, protowire.ParseError(n)",
   "if size > math.MaxInt || (limit > 0 && size > uint64(limit))",
   "return b, 0, &protodelim.SizeTooLargeError{Size: size, MaxSize: uint64(limit)}",
   "if len(b) < n",
   "if cap(b) < n",
   "if _, err := io.ReadFull(r, b[len(b):n]); err != nil",
   "if err == io.EOF",
   "return b, 0, io.ErrUnexpectedEOF",
   "return b, 0, err",
   "return b, n, nil"
  ]

def conds_CodecProto_WriteNext : List String := [
   "if _, err := w.Write(sizeBuf); err != nil",
   "return 0, err",
   "return w.Write(b)"
  ]

def conds_CodecJSON_ReadNext : List String := [
   "for i := 0; i < int(limit); i++",
   "for i >= len(b)",
   "if len(b) == cap(b)",
   "if err != nil && !(err == io.EOF && n > 0)",
   "return b, 0, err",
   "switch",
   "case isEscaped",
   "case isString",
   "switch b[i]",
   "case '\\\\'",
   "case '\"'",
   "default",
   "switch b[i]",
   "case '{'",
   "case '}'",
   "if braceCount == 0",
   "return b, i + 1, nil",
   "if braceCount < 0",
   "return b, 0, fmt.Errorf(\"unbalanced braces\")",
   "case '\"'",
   "return b, 0, &protodelim.SizeTooLargeError{Size: uint64(len(b)), MaxSize: uint64(limit)}"
  ]

def conds_CodecJSON_WriteNext : List String := [
   "return w.Write(b)"
  ]

def conds_codecHTTPBody_ReadNext : List String := [
   "for total < limit",
   "if len(b) == cap(b)",
   "if err == io.EOF && total > limit",
   "return b, limit, nil",
   "if err != nil",
   "return b, min(total, limit), err",
   "return b, limit, nil"
  ]

def conds_growcap : List String := [
   "if wantcap > oldcap*2",
   "if oldcap < 1024",
   "for 0 < newcap && newcap < wantcap",
   "if newcap <= 0",
   "return newcap"
  ]

def conds_muxOptions_readAll : List String := [
   "for",
   "if len(b) == cap(b)",
   "if total > int64(o.maxReceiveMessageSize)",
   "return nil, fmt.Errorf(\"max receive message size reached\")",
   "if err != nil",
   "return b, err"
  ]

end Larking.Expected.C17
