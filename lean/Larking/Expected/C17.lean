-- Skeletons the hand-written model for C17 was built against (snapshot by bin/expect; edit deliberately).
namespace Larking.Expected.C17

def conds_CodecProto_ReadNext : List String := [
   "func (CodecProto) ReadNext(b []byte, r io.Reader, limit int) ([]byte, int, error)",
   "for i := 0; i < binary.MaxVarintLen64; i++",
   "for i >= len(b)",
   "if len(b) == cap(b)",
   "if err != nil && !(err == io.EOF && n > 0)",
   "return b, 0, err",
   "if b[i] < 0x80",
   "if n < 0",
   "return b, 0, protowire.ParseError(n)",
   "if size > math.MaxInt || (limit > 0 && size > uint64(limit))",
   "return b, 0, &protodelim.SizeTooLargeError{Size: size, MaxSize: uint64(limit)}",
   "if len(b) < n",
   "if cap(b) < n",
   "if _, err := io.ReadFull(r, b[len(b):n]); err != nil",
   "if err == io.EOF",
   "return b, 0, io.ErrUnexpectedEOF",
   "return b, 0, err",
   "return b, n, nil"
  ]

def stmts_CodecProto_ReadNext : List String := [
   "{",
   "for i := 0; i < binary.MaxVarintLen64; i++ {",
   "for i >= len(b) {",
   "if len(b) == cap(b) {",
   "b = append(b, 0)[:len(b)]",
   "}",
   "n, err := r.Read(b[len(b):cap(b)])",
   "b = b[:len(b)+n]",
   "if err != nil && !(err == io.EOF && n > 0) {",
   "return b, 0, err",
   "}",
   "}",
   "if b[i] < 0x80 {",
   "break",
   "}",
   "}",
   "size, n := protowire.ConsumeVarint(b)",
   "if n < 0 {",
   "return b, 0, protowire.ParseError(n)",
   "}",
   "if size > math.MaxInt || (limit > 0 && size > uint64(limit)) {",
   "return b, 0, &protodelim.SizeTooLargeError{Size: size, MaxSize: uint64(limit)}",
   "}",
   "b = b[n:]",
   "n = int(size)",
   "if len(b) < n {",
   "if cap(b) < n {",
   "dst := make([]byte, len(b), growcap(cap(b), n))",
   "copy(dst, b)",
   "b = dst",
   "}",
   "if _, err := io.ReadFull(r, b[len(b):n]); err != nil {",
   "if err == io.EOF {",
   "return b, 0, io.ErrUnexpectedEOF",
   "}",
   "return b, 0, err",
   "}",
   "b = b[:n]",
   "}",
   "return b, n, nil",
   "}"
  ]

def conds_CodecProto_WriteNext : List String := [
   "func (CodecProto) WriteNext(w io.Writer, b []byte) (int, error)",
   "if _, err := w.Write(sizeBuf); err != nil",
   "return 0, err",
   "return w.Write(b)"
  ]

def stmts_CodecProto_WriteNext : List String := [
   "{",
   "var sizeArr [binary.MaxVarintLen64]byte",
   "sizeBuf := protowire.AppendVarint(sizeArr[:0], uint64(len(b)))",
   "if _, err := w.Write(sizeBuf); err != nil {",
   "return 0, err",
   "}",
   "return w.Write(b)",
   "}"
  ]

def conds_CodecJSON_ReadNext : List String := [
   "func (CodecJSON) ReadNext(b []byte, r io.Reader, limit int) ([]byte, int, error)",
   "for i := 0; i < int(limit); i++",
   "for i >= len(b)",
   "if len(b) == cap(b)",
   "if err != nil && !(err == io.EOF && n > 0)",
   "return b, 0, err",
   "switch",
   "case isEscaped",
   "case isString",
   "switch b[i]",
   "case '\\\\'",
   "case '\"'",
   "default",
   "switch b[i]",
   "case '{'",
   "case '}'",
   "if braceCount == 0",
   "return b, i + 1, nil",
   "if braceCount < 0",
   "return b, 0, fmt.Errorf(\"unbalanced braces\")",
   "case '\"'",
   "return b, 0, &protodelim.SizeTooLargeError{Size: uint64(len(b)), MaxSize: uint64(limit)}"
  ]

def stmts_CodecJSON_ReadNext : List String := [
   "{",
   "var (",
   "braceCount int",
   "isString bool",
   "isEscaped bool",
   ")",
   "for i := 0; i < int(limit); i++ {",
   "for i >= len(b) {",
   "if len(b) == cap(b) {",
   "b = append(b, 0)[:len(b)]",
   "}",
   "n, err := r.Read(b[len(b):cap(b)])",
   "b = b[:len(b)+n]",
   "if err != nil && !(err == io.EOF && n > 0) {",
   "return b, 0, err",
   "}",
   "}",
   "switch {",
   "case isEscaped:",
   "isEscaped = false",
   "case isString:",
   "switch b[i] {",
   "case '\\\\':",
   "isEscaped = true",
   "case '\"':",
   "isString = false",
   "}",
   "default:",
   "switch b[i] {",
   "case '{':",
   "braceCount++",
   "case '}':",
   "braceCount--",
   "if braceCount == 0 {",
   "return b, i + 1, nil",
   "}",
   "if braceCount < 0 {",
   "return b, 0, fmt.Errorf(\"unbalanced braces\")",
   "}",
   "case '\"':",
   "isString = true",
   "}",
   "}",
   "}",
   "return b, 0, &protodelim.SizeTooLargeError{Size: uint64(len(b)), MaxSize: uint64(limit)}",
   "}"
  ]

def conds_CodecJSON_WriteNext : List String := [
   "func (CodecJSON) WriteNext(w io.Writer, b []byte) (int, error)",
   "return w.Write(b)"
  ]

def stmts_CodecJSON_WriteNext : List String := [
   "{",
   "return w.Write(b)",
   "}"
  ]

def conds_codecHTTPBody_ReadNext : List String := [
   "func (codecHTTPBody) ReadNext(b []byte, r io.Reader, limit int) ([]byte, int, error)",
   "for total < limit",
   "if len(b) == cap(b)",
   "if err == io.EOF && total > limit",
   "return b, limit, nil",
   "if err != nil",
   "return b, min(total, limit), err",
   "return b, limit, nil"
  ]

def stmts_codecHTTPBody_ReadNext : List String := [
   "{",
   "total := len(b)",
   "for total < limit {",
   "if len(b) == cap(b) {",
   "b = append(b, 0)[:len(b)]",
   "}",
   "n, err := r.Read(b[len(b):cap(b)])",
   "b = b[:len(b)+n]",
   "total += int(n)",
   "if err == io.EOF && total > limit {",
   "return b, limit, nil",
   "}",
   "if err != nil {",
   "return b, min(total, limit), err",
   "}",
   "}",
   "return b, limit, nil",
   "}"
  ]

def conds_growcap : List String := [
   "func growcap(oldcap, wantcap int) (newcap int)",
   "if wantcap > oldcap*2",
   "if oldcap < 1024",
   "for 0 < newcap && newcap < wantcap",
   "if newcap <= 0",
   "return newcap"
  ]

def stmts_growcap : List String := [
   "{",
   "if wantcap > oldcap*2 {",
   "newcap = wantcap",
   "} else if oldcap < 1024 {",
   "newcap = oldcap * 2",
   "} else {",
   "newcap = oldcap",
   "for 0 < newcap && newcap < wantcap {",
   "newcap += newcap / 4",
   "}",
   "if newcap <= 0 {",
   "newcap = wantcap",
   "}",
   "}",
   "return newcap",
   "}"
  ]

def conds_muxOptions_readAll : List String := [
   "func (*muxOptions) readAll(b []byte, r io.Reader) ([]byte, error)",
   "for",
   "if len(b) == cap(b)",
   "if total > int64(o.maxReceiveMessageSize)",
   "return nil, fmt.Errorf(\"max receive message size reached\")",
   "if err != nil",
   "return b, err"
  ]

def stmts_muxOptions_readAll : List String := [
   "{",
   "var total int64",
   "for {",
   "if len(b) == cap(b) {",
   "b = append(b, 0)[:len(b)]",
   "}",
   "n, err := r.Read(b[len(b):cap(b)])",
   "b = b[:len(b)+n]",
   "total += int64(n)",
   "if total > int64(o.maxReceiveMessageSize) {",
   "return nil, fmt.Errorf(\"max receive message size reached\")",
   "}",
   "if err != nil {",
   "return b, err",
   "}",
   "}",
   "}"
  ]

def conds_streamHTTP_readMsg : List String := [
   "func (*streamHTTP) readMsg(c Codec, b []byte) (int, []byte, error)",
   "if s.rEOF",
   "return s.recvCount, nil, io.EOF",
   "if s.method.desc.IsStreamingClient()",
   "if !ok",
   "return count, nil, fmt.Errorf(\"codec %q does not support streaming\", c.Name())",
   "if err == io.EOF",
   "switch",
   "case n > 0",
   "case len(b) > 0",
   "return count, b[:n], err",
   "if err == io.EOF",
   "return count, b, err"
  ]

def stmts_streamHTTP_readMsg : List String := [
   "{",
   "if s.rEOF {",
   "return s.recvCount, nil, io.EOF",
   "}",
   "count := s.recvCount",
   "s.recvCount += 1",
   "if s.method.desc.IsStreamingClient() {",
   "codec, ok := c.(StreamCodec)",
   "if !ok {",
   "return count, nil, fmt.Errorf(\"codec %q does not support streaming\", c.Name())",
   "}",
   "b = append(b, s.rbuf...)",
   "b, n, err := codec.ReadNext(b, s.r, s.opts.maxReceiveMessageSize)",
   "if err == io.EOF {",
   "s.rEOF = true",
   "switch {",
   "case n > 0:",
   "err = nil",
   "case len(b) > 0:",
   "err = io.ErrUnexpectedEOF",
   "}",
   "}",
   "s.rbuf = append(s.rbuf[:0], b[n:]...)",
   "return count, b[:n], err",
   "}",
   "b, err := s.opts.readAll(b, s.r)",
   "if err == io.EOF {",
   "s.rEOF, err = true, nil",
   "}",
   "return count, b, err",
   "}"
  ]

end Larking.Expected.C17
