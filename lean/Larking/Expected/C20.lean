-- Skeletons the hand-written model for C20 was built against (snapshot by bin/expect; edit deliberately).
namespace Larking.Expected.C20

def conds_NewServer : List String := [
   "func NewServer(mux *Mux, opts ...ServerOption) (*http.Server, error)",
   "if mux == nil",
   "return nil, fmt.Errorf(\"invalid mux must not be nil\")",
   "range opts",
   "if err := opt(&svrOpts); err != nil",
   "return nil, err",
   "if h == nil",
   "if len(svrOpts.muxPatterns) == 0",
   "range svrOpts.muxPatterns",
   "if len(prefix) > 0",
   "if err := http2.ConfigureServer(hs, h2s); err != nil",
   "return nil, err",
   "return hs, nil"
  ]

def stmts_NewServer : List String := [
   "{",
   "if mux == nil {",
   "return nil, fmt.Errorf(\"invalid mux must not be nil\")",
   "}",
   "var svrOpts serverOptions",
   "for _, opt := range opts {",
   "if err := opt(&svrOpts); err != nil {",
   "return nil, err",
   "}",
   "}",
   "h := svrOpts.serveMux",
   "if h == nil {",
   "h = http.NewServeMux()",
   "}",
   "if len(svrOpts.muxPatterns) == 0 {",
   "svrOpts.muxPatterns = []string{\"/\"}",
   "}",
   "for _, pattern := range svrOpts.muxPatterns {",
   "prefix := strings.TrimSuffix(pattern, \"/\")",
   "if len(prefix) > 0 {",
   "h.Handle(prefix+\"/\", http.StripPrefix(prefix, mux))",
   "} else {",
   "h.Handle(\"/\", mux)",
   "}",
   "}",
   "h2s := &http2.Server{}",
   "hs := &http.Server{",
   "ReadHeaderTimeout: 10 * time.Second,",
   "MaxHeaderBytes: 1 << 20,",
   "Handler: h2c.NewHandler(h, h2s),",
   "TLSConfig: svrOpts.tlsConfig,",
   "}",
   "if err := http2.ConfigureServer(hs, h2s); err != nil {",
   "return nil, err",
   "}",
   "return hs, nil",
   "}"
  ]

def conds_HTTPHandlerOption : List String := [
   "func HTTPHandlerOption(pattern string, handler http.Handler) ServerOption",
   "return func(opts *serverOptions) error { if opts.serveMux == nil { opts.serveMux = http.NewServeMux() } opts.serveMux.Handle(pattern, handler) return nil }",
   "if opts.serveMux == nil",
   "return nil"
  ]

def stmts_HTTPHandlerOption : List String := [
   "{",
   "return func(opts *serverOptions) error {",
   "if opts.serveMux == nil {",
   "opts.serveMux = http.NewServeMux()",
   "}",
   "opts.serveMux.Handle(pattern, handler)",
   "return nil",
   "}",
   "}"
  ]

def conds_MuxHandleOption : List String := [
   "func MuxHandleOption(patterns ...string) ServerOption",
   "return func(opts *serverOptions) error { if opts.muxPatterns != nil { return fmt.Errorf(\"duplicate mux patterns registered\") } opts.muxPatterns = patterns return nil }",
   "if opts.muxPatterns != nil",
   "return fmt.Errorf(\"duplicate mux patterns registered\")",
   "return nil"
  ]

def stmts_MuxHandleOption : List String := [
   "{",
   "return func(opts *serverOptions) error {",
   "if opts.muxPatterns != nil {",
   "return fmt.Errorf(\"duplicate mux patterns registered\")",
   "}",
   "opts.muxPatterns = patterns",
   "return nil",
   "}",
   "}"
  ]

def conds_Mux_ServeHTTP : List String := [
   "func (*Mux) ServeHTTP(w http.ResponseWriter, r *http.Request)",
   "if strings.HasPrefix( r.Header.Get(\"Content-Type\"), \"application/grpc-web\", )",
   "return",
   "if r.ProtoMajor == 2 && strings.HasPrefix( r.Header.Get(\"Content-Type\"), \"application/grpc\", )",
   "return",
   "if !strings.HasPrefix(r.URL.Path, \"/\")",
   "if err := m.serveHTTP(w, r); err != nil"
  ]

def stmts_Mux_ServeHTTP : List String := [
   "{",
   "if strings.HasPrefix(",
   "r.Header.Get(\"Content-Type\"), \"application/grpc-web\",",
   ") {",
   "m.serveGRPCWeb(w, r)",
   "return",
   "}",
   "if r.ProtoMajor == 2 && strings.HasPrefix(",
   "r.Header.Get(\"Content-Type\"), \"application/grpc\",",
   ") {",
   "m.serveGRPC(w, r)",
   "return",
   "}",
   "if !strings.HasPrefix(r.URL.Path, \"/\") {",
   "r.URL.Path = \"/\" + r.URL.Path",
   "}",
   "r.URL.Path = strings.TrimSuffix(r.URL.Path, \"/\")",
   "if err := m.serveHTTP(w, r); err != nil {",
   "m.encError(w, r, err)",
   "}",
   "}"
  ]

def conds_TLSCredsOption : List String := [
   "func TLSCredsOption(c *tls.Config) ServerOption",
   "return func(opts *serverOptions) error { opts.tlsConfig = c return nil }",
   "return nil"
  ]

def stmts_TLSCredsOption : List String := [
   "{",
   "return func(opts *serverOptions) error {",
   "opts.tlsConfig = c",
   "return nil",
   "}",
   "}"
  ]

end Larking.Expected.C20
