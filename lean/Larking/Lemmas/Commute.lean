import Larking.Lemmas.Routes
set_option linter.unusedSimpArgs false
/-
  Order independence of registration (C02): two insertions into the trie commute — the tries
  are EQUAL, whatever order the two bindings are added in — unless both end in the same slot
  (same node, same kind).  Go's maps are kept as sorted association lists (a canonical form),
  the variables slice is sorted by `sort.Sort` in the code itself.
-/
namespace Larking.Trie
open Larking.Lexer

/-! ### Go's `<` on strings is a strict total order -/

theorem bytesLt_irrefl : ∀ (a : Bytes), bytesLt a a = false
  | [] => rfl
  | x :: xs => by simp [bytesLt, bytesLt_irrefl xs]

theorem bytesLt_asymm : ∀ (a b : Bytes), bytesLt a b = true → bytesLt b a = false
  | [], [], h => by simp [bytesLt] at h
  | [], _ :: _, _ => rfl
  | _ :: _, [], h => by simp [bytesLt] at h
  | x :: xs, y :: ys, h => by
    simp only [bytesLt] at h ⊢
    by_cases h1 : x.toNat < y.toNat
    · have h2 : ¬ y.toNat < x.toNat := by omega
      simp [h2, h1]
    · by_cases h2 : x.toNat > y.toNat
      · simp [h1, h2] at h
      · simp only [h1, h2, if_false] at h
        have h3 : ¬ y.toNat < x.toNat := by omega
        have h4 : ¬ y.toNat > x.toNat := by omega
        simp only [h3, h4, if_false]
        exact bytesLt_asymm xs ys h

theorem bytesLt_trichotomy : ∀ (a b : Bytes), a ≠ b → bytesLt a b = true ∨ bytesLt b a = true
  | [], [], h => absurd rfl h
  | [], _ :: _, _ => Or.inl rfl
  | _ :: _, [], _ => Or.inr rfl
  | x :: xs, y :: ys, h => by
    simp only [bytesLt]
    by_cases h1 : x.toNat < y.toNat
    · simp [h1]
    · by_cases h2 : x.toNat > y.toNat
      · right
        have : y.toNat < x.toNat := h2
        simp [this]
      · have hxy : x = y := UInt8.toNat_inj.mp (by omega)
        subst hxy
        have hne : xs ≠ ys := by intro he; exact h (by rw [he])
        simp only [Nat.lt_irrefl, if_false, gt_iff_lt]
        exact bytesLt_trichotomy xs ys hne

theorem bytesLt_trans : ∀ (a b c : Bytes), bytesLt a b = true → bytesLt b c = true → bytesLt a c = true
  | [], [], _, h, _ => by simp [bytesLt] at h
  | [], _ :: _, [], _, h => by simp [bytesLt] at h
  | [], _ :: _, _ :: _, _, _ => rfl
  | _ :: _, [], _, h, _ => by simp [bytesLt] at h
  | _ :: _, _ :: _, [], _, h => by simp [bytesLt] at h
  | x :: xs, y :: ys, z :: zs, h1, h2 => by
    simp only [bytesLt] at h1 h2 ⊢
    by_cases hxy : x.toNat < y.toNat
    · by_cases hyz : y.toNat < z.toNat
      · have : x.toNat < z.toNat := by omega
        simp [this]
      · by_cases hyz2 : y.toNat > z.toNat
        · simp [hyz, hyz2] at h2
        · have : x.toNat < z.toNat := by omega
          simp [this]
    · by_cases hxy2 : x.toNat > y.toNat
      · simp [hxy, hxy2] at h1
      · simp only [hxy, hxy2, if_false] at h1
        by_cases hyz : y.toNat < z.toNat
        · have : x.toNat < z.toNat := by omega
          simp [this]
        · by_cases hyz2 : y.toNat > z.toNat
          · simp [hyz, hyz2] at h2
          · simp only [hyz, hyz2, if_false] at h2
            have h3 : ¬ x.toNat < z.toNat := by omega
            have h4 : ¬ x.toNat > z.toNat := by omega
            simp only [h3, h4, if_false]
            exact bytesLt_trans xs ys zs h1 h2

theorem bytesLt_ne (a b : Bytes) (h : bytesLt a b = true) : a ≠ b := by
  intro he; subst he; simp [bytesLt_irrefl] at h

/-! ### sorted association lists: overwrite and commutation -/

theorem upsertKV_overwrite {α : Type} : ∀ (l : List (Bytes × α)) (k : Bytes) (v1 v2 : α),
    upsertKV (upsertKV l k v1) k v2 = upsertKV l k v2
  | [], k, v1, v2 => by simp [upsertKV]
  | (k', v') :: rest, k, v1, v2 => by
    by_cases h : (k' == k) = true
    · simp [upsertKV, h]
    · by_cases hl : bytesLt k k' = true
      · simp [upsertKV, h, hl]
      · simp [upsertKV, h, hl, upsertKV_overwrite rest k v1 v2]

theorem beq_false_of_ne {a b : Bytes} (h : a ≠ b) : (a == b) = false := by simpa using h

theorem upsertKV_comm {α : Type} : ∀ (l : List (Bytes × α)) (k1 k2 : Bytes) (v1 v2 : α), k1 ≠ k2 →
    upsertKV (upsertKV l k1 v1) k2 v2 = upsertKV (upsertKV l k2 v2) k1 v1
  | [], k1, k2, v1, v2, hne => by
    have e12 := beq_false_of_ne hne
    have e21 := beq_false_of_ne (Ne.symm hne)
    rcases bytesLt_trichotomy k1 k2 hne with h | h
    · have h' := bytesLt_asymm k1 k2 h
      simp [upsertKV, e12, e21, h, h']
    · have h' := bytesLt_asymm k2 k1 h
      simp [upsertKV, e12, e21, h, h']
  | (k, v) :: rest, k1, k2, v1, v2, hne => by
    have e12 := beq_false_of_ne hne
    have e21 := beq_false_of_ne (Ne.symm hne)
    have ih := upsertKV_comm rest k1 k2 v1 v2 hne
    by_cases hk1 : k = k1
    · -- the head is k1's own entry
      subst hk1
      have ek2 : (k == k2) = false := e12
      rcases bytesLt_trichotomy k k2 hne with h | h
      · have h' := bytesLt_asymm k k2 h
        simp [upsertKV, ek2, e21, h, h']
      · have h' := bytesLt_asymm k2 k h
        simp [upsertKV, ek2, e21, h, h']
    · by_cases hk2 : k = k2
      · subst hk2
        have ek1 : (k == k1) = false := e21
        rcases bytesLt_trichotomy k1 k hne with h | h
        · have h' := bytesLt_asymm k1 k h
          simp [upsertKV, ek1, e12, h, h']
        · have h' := bytesLt_asymm k k1 h
          simp [upsertKV, ek1, e12, h, h']
      · have ek1 := beq_false_of_ne hk1
        have ek2 := beq_false_of_ne hk2
        have e1k := beq_false_of_ne (Ne.symm hk1)
        have e2k := beq_false_of_ne (Ne.symm hk2)
        by_cases l1 : bytesLt k1 k = true
        · by_cases l2 : bytesLt k2 k = true
          · -- both go in front of the head: their mutual order decides
            rcases bytesLt_trichotomy k1 k2 hne with h | h
            · have h' := bytesLt_asymm k1 k2 h
              simp [upsertKV, ek1, ek2, e12, e21, e1k, e2k, l1, l2, h, h']
            · have h' := bytesLt_asymm k2 k1 h
              simp [upsertKV, ek1, ek2, e12, e21, e1k, e2k, l1, l2, h, h']
          · -- k1 < k ≤ k2
            have hk2' : bytesLt k k2 = true := by
              rcases bytesLt_trichotomy k k2 hk2 with h | h
              · exact h
              · exact absurd h l2
            have h12 := bytesLt_trans k1 k k2 l1 hk2'
            have h21 := bytesLt_asymm k1 k2 h12
            simp [upsertKV, ek1, ek2, e12, e21, e1k, e2k, l1, l2, h12, h21]
        · by_cases l2 : bytesLt k2 k = true
          · have hk1' : bytesLt k k1 = true := by
              rcases bytesLt_trichotomy k k1 hk1 with h | h
              · exact h
              · exact absurd h l1
            have h21 := bytesLt_trans k2 k k1 l2 hk1'
            have h12 := bytesLt_asymm k2 k1 h21
            simp [upsertKV, ek1, ek2, e12, e21, e1k, e2k, l1, l2, h12, h21]
          · simp [upsertKV, ek1, ek2, l1, l2, ih]

theorem upsertVar_overwrite : ∀ (l : List (Var × Node)) (v : Var) (c1 c2 : Node),
    upsertVar (upsertVar l v c1) v c2 = upsertVar l v c2
  | [], v, c1, c2 => by simp [upsertVar]
  | (w, nw) :: rest, v, c1, c2 => by
    by_cases h : (w.name == v.name) = true
    · simp [upsertVar, h]
    · by_cases hl : bytesLt v.name w.name = true
      · simp [upsertVar, h, hl]
      · simp [upsertVar, h, hl, upsertVar_overwrite rest v c1 c2]

theorem upsertVar_comm : ∀ (l : List (Var × Node)) (v1 v2 : Var) (c1 c2 : Node), v1.name ≠ v2.name →
    upsertVar (upsertVar l v1 c1) v2 c2 = upsertVar (upsertVar l v2 c2) v1 c1
  | [], v1, v2, c1, c2, hne => by
    have e12 := beq_false_of_ne hne
    have e21 := beq_false_of_ne (Ne.symm hne)
    rcases bytesLt_trichotomy v1.name v2.name hne with h | h
    · have h' := bytesLt_asymm _ _ h
      simp [upsertVar, e12, e21, h, h']
    · have h' := bytesLt_asymm _ _ h
      simp [upsertVar, e12, e21, h, h']
  | (w, nw) :: rest, v1, v2, c1, c2, hne => by
    have e12 := beq_false_of_ne hne
    have e21 := beq_false_of_ne (Ne.symm hne)
    have ih := upsertVar_comm rest v1 v2 c1 c2 hne
    by_cases hk1 : w.name = v1.name
    · have ek1 : (w.name == v1.name) = true := by simp [hk1]
      have hw2 : w.name ≠ v2.name := by rw [hk1]; exact hne
      have ek2 := beq_false_of_ne hw2
      rcases bytesLt_trichotomy w.name v2.name hw2 with h | h
      · have h' := bytesLt_asymm _ _ h
        have g := h; have g' := h'
        rw [hk1] at g g'
        simp [upsertVar, ek1, ek2, e12, e21, hne, Ne.symm hne, h, h', g, g']
      · have h' := bytesLt_asymm _ _ h
        have g := h; have g' := h'
        rw [hk1] at g g'
        simp [upsertVar, ek1, ek2, e12, e21, hne, Ne.symm hne, h, h', g, g']
    · by_cases hk2 : w.name = v2.name
      · have ek2 : (w.name == v2.name) = true := by simp [hk2]
        have hw1 : w.name ≠ v1.name := hk1
        have ek1 := beq_false_of_ne hw1
        rcases bytesLt_trichotomy v1.name w.name (Ne.symm hw1) with h | h
        · have h' := bytesLt_asymm _ _ h
          have g := h; have g' := h'
          rw [hk2] at g g'
          simp [upsertVar, ek1, ek2, e12, e21, hne, Ne.symm hne, h, h', g, g']
        · have h' := bytesLt_asymm _ _ h
          have g := h; have g' := h'
          rw [hk2] at g g'
          simp [upsertVar, ek1, ek2, e12, e21, hne, Ne.symm hne, h, h', g, g']
      · have ek1 := beq_false_of_ne hk1
        have ek2 := beq_false_of_ne hk2
        by_cases l1 : bytesLt v1.name w.name = true
        · by_cases l2 : bytesLt v2.name w.name = true
          · rcases bytesLt_trichotomy v1.name v2.name hne with h | h
            · have h' := bytesLt_asymm _ _ h
              simp [upsertVar, ek1, ek2, e12, e21, l1, l2, h, h']
            · have h' := bytesLt_asymm _ _ h
              simp [upsertVar, ek1, ek2, e12, e21, l1, l2, h, h']
          · have hk2' : bytesLt w.name v2.name = true := by
              rcases bytesLt_trichotomy w.name v2.name hk2 with h | h
              · exact h
              · exact absurd h l2
            have h12 := bytesLt_trans _ _ _ l1 hk2'
            have h21 := bytesLt_asymm _ _ h12
            simp [upsertVar, ek1, ek2, e12, e21, l1, l2, h12, h21]
        · by_cases l2 : bytesLt v2.name w.name = true
          · have hk1' : bytesLt w.name v1.name = true := by
              rcases bytesLt_trichotomy w.name v1.name hk1 with h | h
              · exact h
              · exact absurd h l1
            have h21 := bytesLt_trans _ _ _ l2 hk1'
            have h12 := bytesLt_asymm _ _ h21
            simp [upsertVar, ek1, ek2, e12, e21, l1, l2, h12, h21]
          · simp [upsertVar, ek1, ek2, l1, l2, ih]

/-! ### two insertions commute -/

abbrev GUpd := List (Bytes × Meth) → Option Meth → Outcome (List (Bytes × Meth) × Option Meth)

/-- an update that only touches what the node itself binds (`methods`, `methodAll`). -/
def applyG (g : GUpd) : Node → Outcome Node
  | .mk segs methods all vars =>
    match g methods all with
    | .ok p => .ok (.mk segs p.1 p.2 vars)
    | .err e => .err e
    | .panic s => .panic s

theorem applyG_ok (g : GUpd) (segs ms al vars) (n' : Node) (h : applyG g (.mk segs ms al vars) = .ok n') :
    ∃ p, g ms al = .ok p ∧ n' = .mk segs p.1 p.2 vars := by
  simp only [applyG] at h
  cases hg : g ms al with
  | ok p => rw [hg] at h; simp only at h; injection h with h; exact ⟨p, rfl, h.symm⟩
  | err e => rw [hg] at h; simp at h
  | panic s => rw [hg] at h; simp at h

theorem insertAt_seg_ok (f : Node → Outcome Node) (segs ms al vars) (k : Bytes) (more : List Edge) (n' : Node)
    (h : insertAt (.mk segs ms al vars) (.seg k :: more) f = .ok n') :
    ∃ c, insertAt ((lookupSeg segs k).getD .empty) more f = .ok c ∧ n' = .mk (upsertSeg segs k c) ms al vars := by
  simp only [insertAt] at h
  cases hc : insertAt ((lookupSeg segs k).getD .empty) more f with
  | ok c => rw [hc] at h; simp only at h; injection h with h; exact ⟨c, rfl, h.symm⟩
  | err e => rw [hc] at h; simp at h
  | panic s => rw [hc] at h; simp at h

theorem insertAt_var_ok (f : Node → Outcome Node) (segs ms al vars) (v : Var) (more : List Edge) (n' : Node)
    (h : insertAt (.mk segs ms al vars) (.var v :: more) f = .ok n') :
    ∃ c, insertAt (varChild vars v.name) more f = .ok c ∧ n' = .mk segs ms al (upsertVar vars v c) := by
  simp only [insertAt] at h
  cases hc : insertAt (varChild vars v.name) more f with
  | ok c => rw [hc] at h; simp only at h; injection h with h; exact ⟨c, rfl, h.symm⟩
  | err e => rw [hc] at h; simp at h
  | panic s => rw [hc] at h; simp at h

/-- the two end-of-way updates commute (whenever all four applications succeed). -/
def GComm (g1 g2 : GUpd) : Prop :=
  ∀ ms al p1 p12 p2 p21, g1 ms al = .ok p1 → g2 p1.1 p1.2 = .ok p12 → g2 ms al = .ok p2 →
    g1 p2.1 p2.2 = .ok p21 → p12 = p21

/-- variables of the two bindings that carry the same pattern text are the same variable. -/
def VarsAgree (es1 es2 : List Edge) : Prop :=
  ∀ v1 v2, Edge.var v1 ∈ es1 → Edge.var v2 ∈ es2 → v1.name = v2.name → v1 = v2

theorem varChild_upsert_same (vars : List (Var × Node)) (v : Var) (c : Node) :
    varChild (upsertVar vars v c) v.name = c := by
  obtain ⟨v', h, _⟩ := lookupVar_upsert_same vars v c
  simp [varChild, h]

theorem varChild_upsert_other (vars : List (Var × Node)) (v : Var) (c : Node) (name : Bytes) (hne : v.name ≠ name) :
    varChild (upsertVar vars v c) name = varChild vars name := by
  simp [varChild, lookupVar_upsert_other vars v c name hne]

theorem ok_inj {α} {a b : α} (h : (Outcome.ok a : Outcome α) = .ok b) : a = b := by injection h

/-- **Two insertions commute**: adding binding 1 then binding 2 gives the SAME trie as adding
binding 2 then binding 1, whenever all four insertions succeed and — in case both walk the very
same way — the end-of-way updates commute (`GComm`: they touch different slots). -/
theorem insertAt_comm (g1 g2 : GUpd) :
    ∀ (es1 es2 : List Edge), VarsAgree es1 es2 → (es1 = es2 → GComm g1 g2) → ∀ (t a ab b ba : Node),
    insertAt t es1 (applyG g1) = .ok a → insertAt a es2 (applyG g2) = .ok ab →
    insertAt t es2 (applyG g2) = .ok b → insertAt b es1 (applyG g1) = .ok ba → ab = ba := by
  intro es1
  induction es1 with
  | nil =>
    intro es2 hva hG t a ab b ba h1 h2 h3 h4
    obtain ⟨segs, ms, al, vars⟩ := t
    simp only [insertAt] at h1
    obtain ⟨p1, hp1, ha⟩ := applyG_ok g1 segs ms al vars a h1
    subst ha
    cases es2 with
    | nil =>
      simp only [insertAt] at h2 h3 h4
      obtain ⟨p12, hp12, hab⟩ := applyG_ok g2 _ _ _ _ ab h2
      obtain ⟨p2, hp2, hb⟩ := applyG_ok g2 _ _ _ _ b h3
      subst hb
      obtain ⟨p21, hp21, hba⟩ := applyG_ok g1 _ _ _ _ ba h4
      have := hG rfl ms al p1 p12 p2 p21 hp1 hp12 hp2 hp21
      subst hab; subst hba; rw [this]
    | cons e more =>
      cases e with
      | seg k =>
        obtain ⟨c, hc, hab⟩ := insertAt_seg_ok _ _ _ _ _ k more ab h2
        obtain ⟨c', hc', hb⟩ := insertAt_seg_ok _ _ _ _ _ k more b h3
        have : c = c' := ok_inj (hc.symm.trans hc')
        subst this; subst hb
        simp only [insertAt] at h4
        obtain ⟨p1', hp1', hba⟩ := applyG_ok g1 _ _ _ _ ba h4
        have : p1 = p1' := ok_inj (hp1.symm.trans hp1')
        subst this; subst hab; subst hba; rfl
      | var v =>
        obtain ⟨c, hc, hab⟩ := insertAt_var_ok _ _ _ _ _ v more ab h2
        obtain ⟨c', hc', hb⟩ := insertAt_var_ok _ _ _ _ _ v more b h3
        have : c = c' := ok_inj (hc.symm.trans hc')
        subst this; subst hb
        simp only [insertAt] at h4
        obtain ⟨p1', hp1', hba⟩ := applyG_ok g1 _ _ _ _ ba h4
        have : p1 = p1' := ok_inj (hp1.symm.trans hp1')
        subst this; subst hab; subst hba; rfl
  | cons e1 more1 ih =>
    intro es2 hva hG t a ab b ba h1 h2 h3 h4
    obtain ⟨segs, ms, al, vars⟩ := t
    cases es2 with
    | nil =>
      -- binding 2 ends here, binding 1 goes on below
      simp only [insertAt] at h3
      obtain ⟨p2, hp2, hb⟩ := applyG_ok g2 segs ms al vars b h3
      subst hb
      cases e1 with
      | seg k =>
        obtain ⟨c, hc, ha⟩ := insertAt_seg_ok _ _ _ _ _ k more1 a h1
        obtain ⟨c', hc', hba⟩ := insertAt_seg_ok _ _ _ _ _ k more1 ba h4
        have : c = c' := ok_inj (hc.symm.trans hc')
        subst this; subst ha
        simp only [insertAt] at h2
        obtain ⟨p2', hp2', hab⟩ := applyG_ok g2 _ _ _ _ ab h2
        have : p2 = p2' := ok_inj (hp2.symm.trans hp2')
        subst this; subst hab; subst hba; rfl
      | var v =>
        obtain ⟨c, hc, ha⟩ := insertAt_var_ok _ _ _ _ _ v more1 a h1
        obtain ⟨c', hc', hba⟩ := insertAt_var_ok _ _ _ _ _ v more1 ba h4
        have : c = c' := ok_inj (hc.symm.trans hc')
        subst this; subst ha
        simp only [insertAt] at h2
        obtain ⟨p2', hp2', hab⟩ := applyG_ok g2 _ _ _ _ ab h2
        have : p2 = p2' := ok_inj (hp2.symm.trans hp2')
        subst this; subst hab; subst hba; rfl
    | cons e2 more2 =>
      have hva' : VarsAgree more1 more2 := fun v1 v2 m1 m2 hn => hva v1 v2 (by simp [m1]) (by simp [m2]) hn
      cases e1 with
      | seg k1 =>
        obtain ⟨c1, hc1, ha⟩ := insertAt_seg_ok _ _ _ _ _ k1 more1 a h1
        subst ha
        cases e2 with
        | seg k2 =>
          obtain ⟨c2, hc2, hb⟩ := insertAt_seg_ok _ _ _ _ _ k2 more2 b h3
          subst hb
          obtain ⟨c12, hc12, hab⟩ := insertAt_seg_ok _ _ _ _ _ k2 more2 ab h2
          obtain ⟨c21, hc21, hba⟩ := insertAt_seg_ok _ _ _ _ _ k1 more1 ba h4
          subst hab; subst hba
          by_cases hk : k1 = k2
          · subst hk
            rw [lookupSeg_upsert_same] at hc12 hc21
            simp only [Option.getD_some] at hc12 hc21
            have := ih more2 hva' (fun h => hG (by rw [h])) _ c1 c12 c2 c21 hc1 hc12 hc2 hc21
            subst this
            simp only [upsertSeg, upsertKV_overwrite]
          · rw [lookupSeg_upsert_other _ _ _ _ hk] at hc12
            rw [lookupSeg_upsert_other _ _ _ _ (Ne.symm hk)] at hc21
            have e1 : c12 = c2 := ok_inj (hc12.symm.trans hc2)
            have e2 : c21 = c1 := ok_inj (hc21.symm.trans hc1)
            subst e1; subst e2
            simp only [upsertSeg, upsertKV_comm _ _ _ _ _ hk]
        | var v2 =>
          obtain ⟨c2, hc2, hb⟩ := insertAt_var_ok _ _ _ _ _ v2 more2 b h3
          subst hb
          obtain ⟨c12, hc12, hab⟩ := insertAt_var_ok _ _ _ _ _ v2 more2 ab h2
          obtain ⟨c21, hc21, hba⟩ := insertAt_seg_ok _ _ _ _ _ k1 more1 ba h4
          have e1 : c12 = c2 := ok_inj (hc12.symm.trans hc2)
          have e2 : c21 = c1 := ok_inj (hc21.symm.trans hc1)
          subst e1; subst e2; subst hab; subst hba; rfl
      | var v1 =>
        obtain ⟨c1, hc1, ha⟩ := insertAt_var_ok _ _ _ _ _ v1 more1 a h1
        subst ha
        cases e2 with
        | seg k2 =>
          obtain ⟨c2, hc2, hb⟩ := insertAt_seg_ok _ _ _ _ _ k2 more2 b h3
          subst hb
          obtain ⟨c12, hc12, hab⟩ := insertAt_seg_ok _ _ _ _ _ k2 more2 ab h2
          obtain ⟨c21, hc21, hba⟩ := insertAt_var_ok _ _ _ _ _ v1 more1 ba h4
          have e1 : c12 = c2 := ok_inj (hc12.symm.trans hc2)
          have e2 : c21 = c1 := ok_inj (hc21.symm.trans hc1)
          subst e1; subst e2; subst hab; subst hba; rfl
        | var v2 =>
          obtain ⟨c2, hc2, hb⟩ := insertAt_var_ok _ _ _ _ _ v2 more2 b h3
          subst hb
          obtain ⟨c12, hc12, hab⟩ := insertAt_var_ok _ _ _ _ _ v2 more2 ab h2
          obtain ⟨c21, hc21, hba⟩ := insertAt_var_ok _ _ _ _ _ v1 more1 ba h4
          subst hab; subst hba
          by_cases hn : v1.name = v2.name
          · have hv : v1 = v2 := hva v1 v2 (by simp) (by simp) hn
            subst hv
            rw [varChild_upsert_same] at hc12 hc21
            have := ih more2 hva' (fun h => hG (by rw [h])) _ c1 c12 c2 c21 hc1 hc12 hc2 hc21
            subst this
            simp only [upsertVar_overwrite]
          · rw [varChild_upsert_other _ _ _ _ hn] at hc12
            rw [varChild_upsert_other _ _ _ _ (Ne.symm hn)] at hc21
            have e1 : c12 = c2 := ok_inj (hc12.symm.trans hc2)
            have e2 : c21 = c1 := ok_inj (hc21.symm.trans hc1)
            subst e1; subst e2
            simp only [upsertVar_comm _ _ _ _ _ hn]

/-! ### `register` as an end-of-way update; registrations in different slots commute -/

def regGCore (verb : Bytes) (mid : Nat) (mk : Unit → Outcome Meth) : GUpd := fun methods all =>
  let existing := if verb == starVerb then all else lookupMeth methods verb
  match existing with
  | some e => if e.mid != mid then .err "duplicate-rule" else .ok (methods, all)
  | none =>
    match mk () with
    | .ok m => if verb == starVerb then .ok (methods, some m) else .ok (upsertMeth methods verb m, all)
    | .err k => .err k
    | .panic s => .panic s

theorem registerCore_eq_applyG (verb : Bytes) (mid : Nat) (mk : Unit → Outcome Meth) (n : Node) :
    registerCore n verb mid mk = applyG (regGCore verb mid mk) n := by
  obtain ⟨segs, methods, all, vars⟩ := n
  simp only [registerCore, applyG, regGCore]
  cases hex : (if verb == starVerb then all else lookupMeth methods verb) with
  | some e =>
    simp only
    split <;> rfl
  | none =>
    simp only
    cases mk () with
    | ok m => simp only; split <;> rfl
    | err k => rfl
    | panic s => rfl

/-- a kind-`*` registration reads and writes `methodAll` only. -/
theorem regGCore_star (mid : Nat) (mk : Unit → Outcome Meth) (ms : List (Bytes × Meth)) (al : Option Meth)
    (p : List (Bytes × Meth) × Option Meth) (h : regGCore starVerb mid mk ms al = .ok p) :
    p.1 = ms ∧ ∀ ms', regGCore starVerb mid mk ms' al = .ok (ms', p.2) := by
  simp only [regGCore, beq_self_eq_true, if_true] at h ⊢
  cases al with
  | some e =>
    simp only at h ⊢
    split at h
    · cases h
    · rename_i hm
      injection h with h; subst h
      exact ⟨rfl, fun ms' => by simp [hm]⟩
  | none =>
    simp only at h ⊢
    cases hm : mk () with
    | ok m => rw [hm] at h; simp only at h; injection h with h; subst h; exact ⟨rfl, fun ms' => rfl⟩
    | err k => rw [hm] at h; simp at h
    | panic s => rw [hm] at h; simp at h

/-- a verb registration reads and writes `methods` only. -/
theorem regGCore_verb (verb : Bytes) (hv : verb ≠ starVerb) (mid : Nat) (mk : Unit → Outcome Meth)
    (ms : List (Bytes × Meth)) (al : Option Meth) (p : List (Bytes × Meth) × Option Meth)
    (h : regGCore verb mid mk ms al = .ok p) :
    p.2 = al ∧ ∀ al', regGCore verb mid mk ms al' = .ok (p.1, al') := by
  have hs : (verb == starVerb) = false := by simpa using hv
  simp only [regGCore, hs, Bool.false_eq_true, if_false] at h ⊢
  cases hl : lookupMeth ms verb with
  | some e =>
    rw [hl] at h
    simp only at h ⊢
    split at h
    · cases h
    · rename_i hm
      injection h with h; subst h
      exact ⟨rfl, fun al' => by simp [hm]⟩
  | none =>
    rw [hl] at h
    simp only at h ⊢
    cases hm : mk () with
    | ok m => rw [hm] at h; simp only at h; injection h with h; subst h; exact ⟨rfl, fun al' => rfl⟩
    | err k => rw [hm] at h; simp at h
    | panic s => rw [hm] at h; simp at h

/-- what a verb registration does to the verb map. -/
theorem regGCore_verb_methods (verb : Bytes) (hv : verb ≠ starVerb) (mid : Nat) (mk : Unit → Outcome Meth)
    (ms : List (Bytes × Meth)) (al : Option Meth) (p : List (Bytes × Meth) × Option Meth)
    (h : regGCore verb mid mk ms al = .ok p) :
    (∃ e, lookupMeth ms verb = some e ∧ p.1 = ms) ∨
    (∃ m, lookupMeth ms verb = none ∧ mk () = .ok m ∧ p.1 = upsertMeth ms verb m) := by
  have hs : (verb == starVerb) = false := by simpa using hv
  simp only [regGCore, hs, Bool.false_eq_true, if_false] at h
  cases hl : lookupMeth ms verb with
  | some e =>
    rw [hl] at h
    simp only at h
    split at h
    · cases h
    · injection h with h; subst h; exact Or.inl ⟨e, rfl, rfl⟩
  | none =>
    rw [hl] at h
    simp only at h
    cases hm : mk () with
    | ok m => rw [hm] at h; simp only at h; injection h with h; subst h; exact Or.inr ⟨m, rfl, rfl, rfl⟩
    | err k => rw [hm] at h; simp at h
    | panic s => rw [hm] at h; simp at h

/-- **registrations in different slots commute.** -/
theorem regGCore_comm (verb1 verb2 : Bytes) (mid1 mid2 : Nat) (mk1 mk2 : Unit → Outcome Meth)
    (hslot : verb1 ≠ verb2) : GComm (regGCore verb1 mid1 mk1) (regGCore verb2 mid2 mk2) := by
  intro ms al p1 p12 p2 p21 h1 h12 h2 h21
  by_cases s1 : verb1 = starVerb
  · subst s1
    have s2 : verb2 ≠ starVerb := Ne.symm hslot
    obtain ⟨e1, f1⟩ := regGCore_star mid1 mk1 ms al p1 h1
    obtain ⟨e2, f2⟩ := regGCore_verb verb2 s2 mid2 mk2 ms al p2 h2
    have a12 := f2 p1.2
    rw [← e1] at a12
    have a21 := f1 p2.1
    rw [← e2] at a21
    have r12 : p12 = (p2.1, p1.2) := ok_inj (h12.symm.trans a12)
    have r21 : p21 = (p2.1, p1.2) := ok_inj (h21.symm.trans a21)
    rw [r12, r21]
  · by_cases s2 : verb2 = starVerb
    · subst s2
      obtain ⟨e1, f1⟩ := regGCore_verb verb1 s1 mid1 mk1 ms al p1 h1
      obtain ⟨e2, f2⟩ := regGCore_star mid2 mk2 ms al p2 h2
      have a12 := f2 p1.1
      rw [← e1] at a12
      have a21 := f1 p2.2
      rw [← e2] at a21
      have r12 : p12 = (p1.1, p2.2) := ok_inj (h12.symm.trans a12)
      have r21 : p21 = (p1.1, p2.2) := ok_inj (h21.symm.trans a21)
      rw [r12, r21]
    · -- two different verbs: the verb map is updated under two different keys
      obtain ⟨a1, _⟩ := regGCore_verb verb1 s1 mid1 mk1 ms al p1 h1
      obtain ⟨a12, _⟩ := regGCore_verb verb2 s2 mid2 mk2 p1.1 p1.2 p12 h12
      obtain ⟨a2, _⟩ := regGCore_verb verb2 s2 mid2 mk2 ms al p2 h2
      obtain ⟨a21, _⟩ := regGCore_verb verb1 s1 mid1 mk1 p2.1 p2.2 p21 h21
      have hall : p12.2 = p21.2 := by rw [a12, a1, a21, a2]
      have m1 := regGCore_verb_methods verb1 s1 mid1 mk1 ms al p1 h1
      have m12 := regGCore_verb_methods verb2 s2 mid2 mk2 p1.1 p1.2 p12 h12
      have m2 := regGCore_verb_methods verb2 s2 mid2 mk2 ms al p2 h2
      have m21 := regGCore_verb_methods verb1 s1 mid1 mk1 p2.1 p2.2 p21 h21
      have l12 : lookupMeth p1.1 verb2 = lookupMeth ms verb2 := by
        rcases m1 with ⟨e, _, hp⟩ | ⟨m, _, _, hp⟩
        · rw [hp]
        · rw [hp, lookupMeth_upsert]; simp [hslot]
      have l21 : lookupMeth p2.1 verb1 = lookupMeth ms verb1 := by
        rcases m2 with ⟨e, _, hp⟩ | ⟨m, _, _, hp⟩
        · rw [hp]
        · rw [hp, lookupMeth_upsert]; simp [Ne.symm hslot]
      have hms : p12.1 = p21.1 := by
        rcases m1 with ⟨e1, hl1, hp1⟩ | ⟨mm1, hl1, hk1, hp1⟩
        · -- verb1 already bound: binding 1 changes nothing
          rcases m21 with ⟨e, _, hp21⟩ | ⟨m, hl, _, _⟩
          · rcases m2 with ⟨e2, hl2, hp2⟩ | ⟨mm2, hl2, hk2, hp2⟩
            · rcases m12 with ⟨e, _, hp12⟩ | ⟨m, hl, _, _⟩
              · rw [hp12, hp1, hp21, hp2]
              · rw [l12, hl2] at hl; cases hl
            · rcases m12 with ⟨e, hl, _⟩ | ⟨m, _, hk, hp12⟩
              · rw [l12, hl2] at hl; cases hl
              · have : m = mm2 := ok_inj (hk.symm.trans hk2)
                rw [hp12, hp1, hp21, hp2, this]
          · rw [l21, hl1] at hl; cases hl
        · rcases m21 with ⟨e, hl, _⟩ | ⟨m1', _, hk1', hp21⟩
          · rw [l21, hl1] at hl; cases hl
          · have em : m1' = mm1 := ok_inj (hk1'.symm.trans hk1)
            rcases m2 with ⟨e2, hl2, hp2⟩ | ⟨mm2, hl2, hk2, hp2⟩
            · rcases m12 with ⟨e, _, hp12⟩ | ⟨m, hl, _, _⟩
              · rw [hp12, hp1, hp21, hp2, em]
              · rw [l12, hl2] at hl; cases hl
            · rcases m12 with ⟨e, hl, _⟩ | ⟨m, _, hk, hp12⟩
              · rw [l12, hl2] at hl; cases hl
              · have : m = mm2 := ok_inj (hk.symm.trans hk2)
                rw [hp12, hp1, hp21, hp2, em, this]
                simp only [upsertMeth, upsertKV_comm _ _ _ _ _ hslot]
      exact Prod.ext hms hall

/-- `register` as an end-of-way update: the method record first, then the slot. -/
def regG (verb : Bytes) (mid : Nat) (mk : Unit → Outcome Meth) : GUpd := fun methods all =>
  match mk () with
  | .ok m => regGCore verb mid (fun _ => .ok m) methods all
  | .err k => .err k
  | .panic s => .panic s

theorem regG_ok (verb : Bytes) (mid : Nat) (mk : Unit → Outcome Meth) (ms : List (Bytes × Meth)) (al : Option Meth)
    (p : List (Bytes × Meth) × Option Meth) (h : regG verb mid mk ms al = .ok p) :
    ∃ m, mk () = .ok m ∧ regGCore verb mid (fun _ => .ok m) ms al = .ok p := by
  simp only [regG] at h
  cases hm : mk () with
  | ok m => rw [hm] at h; exact ⟨m, rfl, h⟩
  | err e => rw [hm] at h; simp at h
  | panic s => rw [hm] at h; simp at h

theorem regG_of_mk (verb : Bytes) (mid : Nat) (mk : Unit → Outcome Meth) (m : Meth) (hm : mk () = .ok m)
    (ms : List (Bytes × Meth)) (al : Option Meth) :
    regG verb mid mk ms al = regGCore verb mid (fun _ => .ok m) ms al := by
  simp only [regG, hm]

theorem register_eq_applyG (verb : Bytes) (mid : Nat) (mk : Unit → Outcome Meth) (n : Node) :
    register n verb mid mk = applyG (regG verb mid mk) n := by
  obtain ⟨segs, methods, all, vars⟩ := n
  cases hm : mk () with
  | ok m =>
    rw [register_of_mk _ _ _ _ m hm, registerCore_eq_applyG]
    simp only [applyG, regG_of_mk verb mid mk m hm]
  | err e => simp [register, applyG, regG, hm]
  | panic s => simp [register, applyG, regG, hm]

/-- **registrations in different slots commute.** -/
theorem regG_comm (verb1 verb2 : Bytes) (mid1 mid2 : Nat) (mk1 mk2 : Unit → Outcome Meth)
    (hslot : verb1 ≠ verb2) : GComm (regG verb1 mid1 mk1) (regG verb2 mid2 mk2) := by
  intro ms al p1 p12 p2 p21 h1 h12 h2 h21
  obtain ⟨m1, hm1, c1⟩ := regG_ok _ _ _ _ _ _ h1
  obtain ⟨m2, hm2, c12⟩ := regG_ok _ _ _ _ _ _ h12
  obtain ⟨m2', hm2', c2⟩ := regG_ok _ _ _ _ _ _ h2
  obtain ⟨m1', hm1', c21⟩ := regG_ok _ _ _ _ _ _ h21
  have e1 : m1' = m1 := ok_inj (hm1'.symm.trans hm1)
  have e2 : m2' = m2 := ok_inj (hm2'.symm.trans hm2)
  subst e1; subst e2
  exact regGCore_comm verb1 verb2 mid1 mid2 _ _ hslot ms al p1 p12 p2 p21 c1 c12 c2 c21

/-- the method record `addRule` stores for a binding (or the error of its body selectors). -/
def bindingMk (cap : Nat) (resolve : List Bytes → Option Nat) (b : Binding) (mid : Nat) : Unit → Outcome Meth :=
  fun _ =>
    match lexTemplate cap b.tmpl with
    | .ok toks =>
      (match parseToks resolve (toks.length + 1) toks with
       | .ok p =>
         if !b.bodyOk then .err "body-field"
         else if !b.respOk then .err "response-body-field"
         else .ok ⟨mid, p.varfds, b.rule⟩
       | _ => .err "template")
    | _ => .err "template"

/-- `addBinding` is an `insertAt` of the binding's edges with a `register` at the end. -/
theorem addBinding_as_insertAt (cap : Nat) (r : List Bytes → Option Nat) (b : Binding) (mid : Nat)
    (es : List Edge) (x : Node) (he : bindingEdges cap r b = some es) :
    addBinding cap r x b mid = insertAt x es (applyG (regG b.verb mid (bindingMk cap r b mid))) := by
  simp only [addBinding]
  simp only [bindingEdges] at he
  cases hl : lexTemplate cap b.tmpl with
  | ok ttoks =>
    rw [hl] at he
    simp only at he ⊢
    cases hp : parseToks r (ttoks.length + 1) ttoks with
    | ok p =>
      rw [hp] at he
      simp only at he ⊢
      injection he with he; subst he
      congr 1
      funext node
      rw [register_eq_applyG]
      congr 2
      funext u
      simp [bindingMk, hl, hp]
    | err e => rw [hp] at he; simp at he
    | panic s => rw [hp] at he; simp at he
  | err e => rw [hl] at he; simp at he
  | panic s => rw [hl] at he; simp at he

theorem varsAgree_of_G (g : Bytes → List Tok) (es1 es2 : List Edge)
    (h1 : ∀ e ∈ es1, edgeG g e) (h2 : ∀ e ∈ es2, edgeG g e) : VarsAgree es1 es2 := by
  intro v1 v2 m1 m2 hn
  have t1 : v1.toks = g v1.name := h1 _ m1
  have t2 : v2.toks = g v2.name := h2 _ m2
  cases v1; cases v2
  simp only at hn t1 t2
  subst hn
  simp [t1, t2]

/-- **Two bindings commute**: registered in either order they give the SAME trie (hence the same
routing for every request), whenever all four `addBinding` calls succeed, variables with equal
pattern text are equal (`g`), and the two bindings do not end in the same slot — same way AND
same kind. (Two bindings of one method in one slot are the recorded order dependence; two
methods in one slot are refused in either order.) -/
theorem addBinding_comm (cap : Nat) (g : Bytes → List Tok) (r1 r2 : List Bytes → Option Nat)
    (b1 b2 : Binding) (mid1 mid2 : Nat) (t a ab b ba : Node)
    (hg1 : BindingG cap g r1 b1) (hg2 : BindingG cap g r2 b2)
    (hslot : bindingEdges cap r1 b1 = bindingEdges cap r2 b2 → b1.verb ≠ b2.verb)
    (h1 : addBinding cap r1 t b1 mid1 = .ok a) (h2 : addBinding cap r2 a b2 mid2 = .ok ab)
    (h3 : addBinding cap r2 t b2 mid2 = .ok b) (h4 : addBinding cap r1 b b1 mid1 = .ok ba) :
    ab = ba := by
  obtain ⟨es1, he1⟩ := addBinding_edges cap r1 t a b1 mid1 h1
  obtain ⟨es2, he2⟩ := addBinding_edges cap r2 t b b2 mid2 h3
  rw [addBinding_as_insertAt cap r1 b1 mid1 es1 _ he1] at h1 h4
  rw [addBinding_as_insertAt cap r2 b2 mid2 es2 _ he2] at h2 h3
  refine insertAt_comm _ _ es1 es2 (varsAgree_of_G g es1 es2 (hg1 es1 he1) (hg2 es2 he2)) ?_ t a ab b ba h1 h2 h3 h4
  intro hes
  exact regG_comm _ _ _ _ _ _ (hslot (by rw [he1, he2, hes]))

/-! ### acceptance does not depend on the order either -/

/-- what the node at the end of a way binds (nothing, if the way does not exist yet). -/
def endMA : Node → List Edge → List (Bytes × Meth) × Option Meth
  | .mk _ ms al _, [] => (ms, al)
  | .mk segs _ _ _, .seg k :: more => endMA ((lookupSeg segs k).getD .empty) more
  | .mk _ _ _ vars, .var v :: more => endMA (varChild vars v.name) more

/-- an insertion succeeds exactly when its end-of-way update succeeds on what is bound there. -/
theorem insertAt_ok_iff (g : GUpd) : ∀ (es : List Edge) (t : Node),
    (∃ n', insertAt t es (applyG g) = .ok n') ↔ ∃ p, g (endMA t es).1 (endMA t es).2 = .ok p
  | [], .mk segs ms al vars => by
    simp only [insertAt, endMA, applyG]
    constructor
    · rintro ⟨n', h⟩
      cases hg : g ms al with
      | ok p => exact ⟨p, rfl⟩
      | err e => rw [hg] at h; simp at h
      | panic s => rw [hg] at h; simp at h
    · rintro ⟨p, hp⟩
      rw [hp]; exact ⟨_, rfl⟩
  | .seg k :: more, .mk segs ms al vars => by
    have ih := insertAt_ok_iff g more ((lookupSeg segs k).getD .empty)
    simp only [endMA]
    rw [← ih]
    simp only [insertAt]
    constructor
    · rintro ⟨n', h⟩
      cases hc : insertAt ((lookupSeg segs k).getD .empty) more (applyG g) with
      | ok c => exact ⟨c, rfl⟩
      | err e => rw [hc] at h; simp at h
      | panic s => rw [hc] at h; simp at h
    · rintro ⟨c, hc⟩
      rw [hc]; exact ⟨_, rfl⟩
  | .var v :: more, .mk segs ms al vars => by
    have ih := insertAt_ok_iff g more (varChild vars v.name)
    simp only [endMA]
    rw [← ih]
    simp only [insertAt]
    constructor
    · rintro ⟨n', h⟩
      cases hc : insertAt (varChild vars v.name) more (applyG g) with
      | ok c => exact ⟨c, rfl⟩
      | err e => rw [hc] at h; simp at h
      | panic s => rw [hc] at h; simp at h
    · rintro ⟨c, hc⟩
      rw [hc]; exact ⟨_, rfl⟩

/-- another way: what is bound at its end is untouched by the insertion. -/
theorem endMA_other (g1 : GUpd) : ∀ (es1 es2 : List Edge) (t a : Node),
    es1.map keyOf ≠ es2.map keyOf → insertAt t es1 (applyG g1) = .ok a → endMA a es2 = endMA t es2
  | [], es2, .mk segs ms al vars, a, hne, h => by
    simp only [insertAt] at h
    obtain ⟨p, _, ha⟩ := applyG_ok g1 segs ms al vars a h
    subst ha
    cases es2 with
    | nil => exact absurd rfl hne
    | cons e more => cases e <;> simp [endMA]
  | .seg k :: more1, es2, .mk segs ms al vars, a, hne, h => by
    obtain ⟨c, hc, ha⟩ := insertAt_seg_ok _ _ _ _ _ k more1 a h
    subst ha
    cases es2 with
    | nil => simp [endMA]
    | cons e more2 =>
      cases e with
      | seg k2 =>
        simp only [endMA]
        by_cases hk : k = k2
        · subst hk
          rw [lookupSeg_upsert_same]
          simp only [Option.getD_some]
          exact endMA_other g1 more1 more2 _ c (by intro he; exact hne (by simp [keyOf, he])) hc
        · rw [lookupSeg_upsert_other _ _ _ _ hk]
      | var v2 => simp [endMA]
  | .var v :: more1, es2, .mk segs ms al vars, a, hne, h => by
    obtain ⟨c, hc, ha⟩ := insertAt_var_ok _ _ _ _ _ v more1 a h
    subst ha
    cases es2 with
    | nil => simp [endMA]
    | cons e more2 =>
      cases e with
      | seg k2 => simp [endMA]
      | var v2 =>
        simp only [endMA]
        by_cases hn : v.name = v2.name
        · rw [← hn, varChild_upsert_same]
          exact endMA_other g1 more1 more2 _ c (by intro he; exact hne (by simp [keyOf, he, hn])) hc
        · rw [varChild_upsert_other _ _ _ _ hn]

/-- the same way: what is bound at its end is what the insertion's update made of it. -/
theorem endMA_same (g1 : GUpd) : ∀ (es1 es2 : List Edge) (t a : Node),
    es1.map keyOf = es2.map keyOf → insertAt t es1 (applyG g1) = .ok a →
    endMA t es2 = endMA t es1 ∧ g1 (endMA t es1).1 (endMA t es1).2 = .ok (endMA a es2)
  | [], es2, .mk segs ms al vars, a, he, h => by
    cases es2 with
    | cons e more => simp at he
    | nil =>
      simp only [insertAt] at h
      obtain ⟨p, hp, ha⟩ := applyG_ok g1 segs ms al vars a h
      subst ha
      exact ⟨rfl, by simpa [endMA] using hp⟩
  | .seg k :: more1, es2, .mk segs ms al vars, a, he, h => by
    obtain ⟨c, hc, ha⟩ := insertAt_seg_ok _ _ _ _ _ k more1 a h
    subst ha
    cases es2 with
    | nil => simp at he
    | cons e more2 =>
      cases e with
      | var v2 => simp [keyOf] at he
      | seg k2 =>
        simp only [List.map_cons, keyOf, List.cons.injEq, KEdge.seg.injEq] at he
        obtain ⟨hk, hm⟩ := he
        subst hk
        have := endMA_same g1 more1 more2 _ c hm hc
        simp only [endMA, lookupSeg_upsert_same, Option.getD_some]
        exact this
  | .var v :: more1, es2, .mk segs ms al vars, a, he, h => by
    obtain ⟨c, hc, ha⟩ := insertAt_var_ok _ _ _ _ _ v more1 a h
    subst ha
    cases es2 with
    | nil => simp at he
    | cons e more2 =>
      cases e with
      | seg k2 => simp [keyOf] at he
      | var v2 =>
        simp only [List.map_cons, keyOf, List.cons.injEq, KEdge.var.injEq] at he
        obtain ⟨hn, hm⟩ := he
        have := endMA_same g1 more1 more2 _ c hm hc
        simp only [endMA, ← hn, varChild_upsert_same]
        exact this

def slotOf (verb : Bytes) (ms : List (Bytes × Meth)) (al : Option Meth) : Option Meth :=
  if verb == starVerb then al else lookupMeth ms verb

/-- a registration succeeds iff its own slot is free (and the method record can be built) or
already holds the same method. -/
theorem regGCore_ok_iff (verb : Bytes) (mid : Nat) (mk : Unit → Outcome Meth) (ms : List (Bytes × Meth)) (al : Option Meth) :
    (∃ p, regGCore verb mid mk ms al = .ok p) ↔
      match slotOf verb ms al with
      | some e => e.mid = mid
      | none => ∃ m, mk () = .ok m := by
  simp only [regGCore, slotOf]
  cases hs : (if verb == starVerb then al else lookupMeth ms verb) with
  | some e =>
    simp only
    by_cases hm : e.mid = mid
    · simp [hm]
    · simp [hm]
  | none =>
    simp only
    cases hk : mk () with
    | ok m => simp only; split <;> simp
    | err k => simp
    | panic s => simp

/-- … and it leaves every other slot as it was. -/
theorem slotOf_regGCore_other (verb1 verb2 : Bytes) (hne : verb1 ≠ verb2) (mid1 : Nat) (mk1 : Unit → Outcome Meth)
    (ms : List (Bytes × Meth)) (al : Option Meth) (p1 : List (Bytes × Meth) × Option Meth)
    (h : regGCore verb1 mid1 mk1 ms al = .ok p1) : slotOf verb2 p1.1 p1.2 = slotOf verb2 ms al := by
  by_cases s1 : verb1 = starVerb
  · subst s1
    have s2 : (verb2 == starVerb) = false := by simpa using (Ne.symm hne)
    obtain ⟨e1, _⟩ := regGCore_star mid1 mk1 ms al p1 h
    simp [slotOf, s2, e1]
  · obtain ⟨e1, _⟩ := regGCore_verb verb1 s1 mid1 mk1 ms al p1 h
    by_cases s2 : verb2 = starVerb
    · subst s2; simp [slotOf, e1]
    · have s2' : (verb2 == starVerb) = false := by simpa using s2
      simp only [slotOf, s2', Bool.false_eq_true, if_false]
      rcases regGCore_verb_methods verb1 s1 mid1 mk1 ms al p1 h with ⟨e, _, hp⟩ | ⟨m, _, _, hp⟩
      · rw [hp]
      · rw [hp, lookupMeth_upsert]; simp [hne]

theorem regGCore_ok_transfer (verb1 verb2 : Bytes) (hne : verb1 ≠ verb2) (mid1 mid2 : Nat) (mk1 mk2 : Unit → Outcome Meth)
    (ms : List (Bytes × Meth)) (al : Option Meth) (p1 : List (Bytes × Meth) × Option Meth)
    (h1 : regGCore verb1 mid1 mk1 ms al = .ok p1) :
    (∃ p, regGCore verb2 mid2 mk2 p1.1 p1.2 = .ok p) ↔ (∃ p, regGCore verb2 mid2 mk2 ms al = .ok p) := by
  rw [regGCore_ok_iff, regGCore_ok_iff, slotOf_regGCore_other verb1 verb2 hne mid1 mk1 ms al p1 h1]

theorem regG_ok_transfer (verb1 verb2 : Bytes) (hne : verb1 ≠ verb2) (mid1 mid2 : Nat) (mk1 mk2 : Unit → Outcome Meth)
    (ms : List (Bytes × Meth)) (al : Option Meth) (p1 : List (Bytes × Meth) × Option Meth)
    (h1 : regG verb1 mid1 mk1 ms al = .ok p1) :
    (∃ p, regG verb2 mid2 mk2 p1.1 p1.2 = .ok p) ↔ (∃ p, regG verb2 mid2 mk2 ms al = .ok p) := by
  obtain ⟨m1, _, c1⟩ := regG_ok _ _ _ _ _ _ h1
  cases hm2 : mk2 () with
  | ok m2 =>
    simp only [regG_of_mk verb2 mid2 mk2 m2 hm2]
    exact regGCore_ok_transfer verb1 verb2 hne mid1 mid2 _ _ ms al p1 c1
  | err e => simp [regG, hm2]
  | panic s => simp [regG, hm2]

/-- **Swapping two adjacent registrations**: if binding 1 then binding 2 is accepted, so is binding 2
then binding 1, and the resulting trie is the same — provided they do not end in the same slot. -/
theorem insertAt_swap (verb1 verb2 : Bytes) (mid1 mid2 : Nat) (mk1 mk2 : Unit → Outcome Meth)
    (es1 es2 : List Edge) (hva : VarsAgree es1 es2)
    (hslot : es1.map keyOf = es2.map keyOf → verb1 ≠ verb2) (t a ab : Node)
    (h1 : insertAt t es1 (applyG (regG verb1 mid1 mk1)) = .ok a)
    (h2 : insertAt a es2 (applyG (regG verb2 mid2 mk2)) = .ok ab) :
    ∃ b, insertAt t es2 (applyG (regG verb2 mid2 mk2)) = .ok b ∧
      insertAt b es1 (applyG (regG verb1 mid1 mk1)) = .ok ab := by
  have ok1 := (insertAt_ok_iff (regG verb1 mid1 mk1) es1 t).mp ⟨a, h1⟩
  have ok2 := (insertAt_ok_iff (regG verb2 mid2 mk2) es2 a).mp ⟨ab, h2⟩
  -- binding 2 is accepted by the trie without binding 1
  have ok2t : ∃ p, regG verb2 mid2 mk2 (endMA t es2).1 (endMA t es2).2 = .ok p := by
    by_cases hk : es1.map keyOf = es2.map keyOf
    · obtain ⟨e0, e1⟩ := endMA_same _ es1 es2 t a hk h1
      rw [e0]
      exact (regG_ok_transfer verb1 verb2 (hslot hk) mid1 mid2 mk1 mk2 _ _ _ e1).mp ok2
    · rw [← endMA_other _ es1 es2 t a hk h1]; exact ok2
  obtain ⟨b, h3⟩ := (insertAt_ok_iff (regG verb2 mid2 mk2) es2 t).mpr ok2t
  -- … and binding 1 by the trie with binding 2
  have ok1b : ∃ p, regG verb1 mid1 mk1 (endMA b es1).1 (endMA b es1).2 = .ok p := by
    by_cases hk : es2.map keyOf = es1.map keyOf
    · obtain ⟨e0, e1⟩ := endMA_same _ es2 es1 t b hk h3
      rw [e0] at ok1
      exact (regG_ok_transfer verb2 verb1 (Ne.symm (hslot hk.symm)) mid2 mid1 mk2 mk1 _ _ _ e1).mpr ok1
    · rw [endMA_other _ es2 es1 t b hk h3]; exact ok1
  obtain ⟨ba, h4⟩ := (insertAt_ok_iff (regG verb1 mid1 mk1) es1 b).mpr ok1b
  have := insertAt_comm _ _ es1 es2 hva
    (fun he => regG_comm _ _ _ _ _ _ (hslot (by rw [he]))) t a ab b ba h1 h2 h3 h4
  exact ⟨b, h3, by rw [this]; exact h4⟩

/-! ### any order of the bindings -/

/-- one `addBinding` call of a registration: the binding, its method, its field resolver. -/
structure Step where
  b : Binding
  mid : Nat
  resolve : List Bytes → Option Nat

def addAll (cap : Nat) : List Step → Node → Outcome Node
  | [], t => .ok t
  | s :: rest, t =>
    match addBinding cap s.resolve t s.b s.mid with
    | .ok t' => addAll cap rest t'
    | .err e => .err e
    | .panic p => .panic p

/-- the slot a binding ends in: the keys of its way and its kind. -/
def slotKey (cap : Nat) (s : Step) : Option (List KEdge) × Bytes :=
  ((bindingEdges cap s.resolve s.b).map fun es => es.map keyOf, s.b.verb)

def DistinctSlots (cap : Nat) (s1 s2 : Step) : Prop := slotKey cap s1 ≠ slotKey cap s2

theorem addBinding_swap (cap : Nat) (g : Bytes → List Tok) (s1 s2 : Step) (t a ab : Node)
    (hg1 : BindingG cap g s1.resolve s1.b) (hg2 : BindingG cap g s2.resolve s2.b)
    (hd : DistinctSlots cap s1 s2)
    (h1 : addBinding cap s1.resolve t s1.b s1.mid = .ok a)
    (h2 : addBinding cap s2.resolve a s2.b s2.mid = .ok ab) :
    ∃ b, addBinding cap s2.resolve t s2.b s2.mid = .ok b ∧ addBinding cap s1.resolve b s1.b s1.mid = .ok ab := by
  obtain ⟨es1, he1⟩ := addBinding_edges cap s1.resolve t a s1.b s1.mid h1
  obtain ⟨es2, he2⟩ := addBinding_edges cap s2.resolve a ab s2.b s2.mid h2
  rw [addBinding_as_insertAt cap s1.resolve s1.b s1.mid es1 _ he1] at h1
  rw [addBinding_as_insertAt cap s2.resolve s2.b s2.mid es2 _ he2] at h2
  have hslot : es1.map keyOf = es2.map keyOf → s1.b.verb ≠ s2.b.verb := by
    intro hk hv
    apply hd
    simp only [slotKey, he1, he2, Option.map_some, hk, hv]
  obtain ⟨b, h3, h4⟩ := insertAt_swap _ _ _ _ _ _ es1 es2
    (varsAgree_of_G g es1 es2 (hg1 es1 he1) (hg2 es2 he2)) hslot t a ab h1 h2
  refine ⟨b, ?_, ?_⟩
  · rw [addBinding_as_insertAt cap s2.resolve s2.b s2.mid es2 _ he2]; exact h3
  · rw [addBinding_as_insertAt cap s1.resolve s1.b s1.mid es1 _ he1]; exact h4

/-- **Registration is order independent**: if the bindings are accepted in one order, they are
accepted in every other order, and the trie — hence the routing of every request — is the SAME,
provided no two of them end in the same slot. -/
theorem addAll_perm (cap : Nat) (g : Bytes → List Tok) (l1 l2 : List Step) (hp : l1.Perm l2) :
    l1.Pairwise (DistinctSlots cap) → (∀ s ∈ l1, BindingG cap g s.resolve s.b) →
    ∀ (t r : Node), addAll cap l1 t = .ok r → addAll cap l2 t = .ok r := by
  induction hp with
  | nil => intro _ _ t r h; exact h
  | cons x _ ih =>
    intro hpw hg t r h
    simp only [addAll] at h ⊢
    cases hx : addBinding cap x.resolve t x.b x.mid with
    | ok t' =>
      rw [hx] at h
      simp only at h ⊢
      exact ih (List.Pairwise.of_cons hpw) (fun s hs => hg s (by simp [hs])) t' r h
    | err e => rw [hx] at h; simp at h
    | panic s => rw [hx] at h; simp at h
  | swap x y l =>
    intro hpw hg t r h
    -- h : y, then x, then l
    simp only [addAll] at h ⊢
    cases hy : addBinding cap y.resolve t y.b y.mid with
    | ok t1 =>
      rw [hy] at h
      simp only at h
      cases hx : addBinding cap x.resolve t1 x.b x.mid with
      | ok t2 =>
        rw [hx] at h
        simp only at h
        have hd : DistinctSlots cap y x := (List.pairwise_cons.mp hpw).1 x (by simp)
        obtain ⟨b, h3, h4⟩ := addBinding_swap cap g y x t t1 t2 (hg y (by simp)) (hg x (by simp)) hd hy hx
        rw [h3]; simp only; rw [h4]; simp only; exact h
      | err e => rw [hx] at h; simp at h
      | panic s => rw [hx] at h; simp at h
    | err e => rw [hy] at h; simp at h
    | panic s => rw [hy] at h; simp at h
  | trans hp1 _ ih1 ih2 =>
    intro hpw hg t r h
    have hsym : ∀ {a b : Step}, DistinctSlots cap a b → DistinctSlots cap b a := fun hab hba => hab hba.symm
    exact ih2 ((hp1.pairwise_iff hsym).mp hpw) (fun s hs => hg s (hp1.mem_iff.mpr hs)) t r (ih1 hpw hg t r h)

/-! ### rules (primary + additional bindings) as lists of steps -/

def ruleSteps (e : Rule × Nat × (List Bytes → Option Nat)) : List Step :=
  e.1.bindings.map fun b => ⟨b, e.2.1, e.2.2⟩

def stepsOf (rs : List (Rule × Nat × (List Bytes → Option Nat))) : List Step := rs.flatMap ruleSteps

theorem addAll_append (cap : Nat) : ∀ (l1 l2 : List Step) (t : Node),
    addAll cap (l1 ++ l2) t = match addAll cap l1 t with
      | .ok t' => addAll cap l2 t'
      | .err e => .err e
      | .panic s => .panic s
  | [], l2, t => by simp [addAll]
  | s :: l1, l2, t => by
    simp only [List.cons_append, addAll]
    cases addBinding cap s.resolve t s.b s.mid with
    | ok t' => simp only; exact addAll_append cap l1 l2 t'
    | err e => rfl
    | panic p => rfl

theorem addAdditional_eq_addAll (cap : Nat) (resolve : List Bytes → Option Nat) (mid : Nat) :
    ∀ (adds : List (Binding × Bool)) (t : Node), (∀ p ∈ adds, p.2 = false) →
    addAdditional cap resolve mid t adds = addAll cap (adds.map fun p => ⟨p.1, mid, resolve⟩) t
  | [], t, _ => by simp [addAdditional, addAll]
  | (b, nested) :: more, t, h => by
    have hn : nested = false := h (b, nested) (by simp)
    subst hn
    simp only [addAdditional, Bool.false_eq_true, if_false, List.map_cons, addAll]
    cases addBinding cap resolve t b mid with
    | ok t' => simp only; exact addAdditional_eq_addAll cap resolve mid more t' (fun p hp => h p (by simp [hp]))
    | err e => rfl
    | panic s => rfl

theorem addRule_eq_addAll (cap : Nat) (e : Rule × Nat × (List Bytes → Option Nat)) (t : Node)
    (h : ∀ p ∈ e.1.additional, p.2 = false) :
    addRule cap e.2.2 t e.1 e.2.1 = addAll cap (ruleSteps e) t := by
  obtain ⟨r, mid, resolve⟩ := e
  simp only [addRule, ruleSteps, Rule.bindings, List.map_cons, addAll, List.map_map]
  cases addBinding cap resolve t r.primary mid with
  | ok t' =>
    simp only
    rw [addAdditional_eq_addAll cap resolve mid r.additional t' h]
    rfl
  | err e => rfl
  | panic s => rfl

theorem buildAll_eq_addAll (cap : Nat) : ∀ (rs : List (Rule × Nat × (List Bytes → Option Nat))) (t : Node),
    (∀ e ∈ rs, ∀ p ∈ e.1.additional, p.2 = false) → buildAll cap rs t = addAll cap (stepsOf rs) t
  | [], t, _ => by simp [buildAll, stepsOf, addAll]
  | e :: rest, t, h => by
    obtain ⟨r, mid, resolve⟩ := e
    simp only [buildAll, stepsOf, List.flatMap_cons]
    rw [addAll_append]
    have := addRule_eq_addAll cap (r, mid, resolve) t (h _ (by simp))
    simp only at this
    rw [← this]
    cases addRule cap resolve t r mid with
    | ok t' =>
      simp only
      exact buildAll_eq_addAll cap rest t' (fun e he => h e (by simp [he]))
    | err e => rfl
    | panic s => rfl

end Larking.Trie
