import Larking.Model.Selector
namespace Larking.Selector

/-- well-formed selector (suffix): non-empty components, `*` only as the very last one. -/
def okSel : List String → Bool
  | [] => true
  | [c] => c != ""
  | c :: rest => c != "" && c != "*" && okSel rest

/-- well-formed element name (suffix): non-empty components, none of them `*`. -/
def okName : List String → Bool
  | [] => true
  | c :: rest => c != "" && c != "*" && okName rest

/-- the documented meaning of a selector: the element's qualified name, or a pattern ending
in `*` that stands for one or more components. -/
def selects (sel name : List String) : Prop :=
  sel = name ∨ ∃ p more, sel = p ++ ["*"] ∧ more ≠ [] ∧ name = p ++ more

theorem lookup_upsert_same (cs : List (String × Sel)) (k : String) (v : Sel) :
    lookup (upsert cs k v) k = some v := by
  induction cs with
  | nil => simp [upsert, lookup]
  | cons p rest ih =>
    obtain ⟨k', v'⟩ := p
    unfold upsert
    by_cases h : (k' == k) = true
    · simp [h, lookup]
    · simp [h, lookup, ih]

theorem lookup_upsert_other (cs : List (String × Sel)) (k k2 : String) (v : Sel) (hne : k ≠ k2) :
    lookup (upsert cs k v) k2 = lookup cs k2 := by
  induction cs with
  | nil => simp [upsert, lookup, hne]
  | cons p rest ih =>
    obtain ⟨k', v'⟩ := p
    unfold upsert
    by_cases h : (k' == k) = true
    · have hk : k' = k := by simpa using h
      subst hk
      simp [lookup, hne]
    · simp only [h]
      simp only [lookup, ih, Bool.false_eq_true, if_false]

theorem empty_get (n : List String) : Sel.empty.get n = [] := by
  cases n with
  | nil => rfl
  | cons t r => simp [Sel.empty, Sel.get, lookup]

theorem selects_nil_nil : selects [] [] := Or.inl rfl

theorem selects_nil_cons (t : String) (r : List String) : ¬ selects [] (t :: r) := by
  intro h
  rcases h with h | ⟨p, more, h, _, _⟩
  · cases h
  · cases p <;> simp at h

theorem selects_star (n : List String) : selects ["*"] n ↔ n ≠ [] := by
  constructor
  · intro h hn
    subst hn
    rcases h with h | ⟨p, more, h1, h2, h3⟩
    · cases h
    · cases p with
      | nil => simp at h3; exact h2 h3
      | cons a p => simp at h3
  · intro hn
    exact Or.inr ⟨[], n, rfl, hn, rfl⟩

theorem selects_cons_nil (c : String) (s : List String) (hc : c ≠ "*") : ¬ selects (c :: s) [] := by
  intro h
  rcases h with h | ⟨p, more, h1, h2, h3⟩
  · cases h
  · cases p with
    | nil => simp at h1; exact hc h1.1
    | cons a p => simp at h3

theorem selects_cons_cons (c t : String) (s r : List String) (hc : c ≠ "*") :
    selects (c :: s) (t :: r) ↔ c = t ∧ selects s r := by
  constructor
  · intro h
    rcases h with h | ⟨p, more, h1, h2, h3⟩
    · cases h; exact ⟨rfl, Or.inl rfl⟩
    · cases p with
      | nil => simp at h1; exact absurd h1.1 hc
      | cons a p =>
        simp only [List.cons_append, List.cons.injEq] at h1 h3
        obtain ⟨rfl, hs⟩ := h1
        obtain ⟨rfl, hr⟩ := h3
        exact ⟨rfl, Or.inr ⟨p, more, hs, h2, hr⟩⟩
  · rintro ⟨rfl, h⟩
    rcases h with h | ⟨p, more, h1, h2, h3⟩
    · subst h; exact Or.inl rfl
    · exact Or.inr ⟨c :: p, more, by simp [h1], h2, by simp [h3]⟩

/-- inserting rule `i` under a well-formed selector adds `i` to exactly the names the
selector selects and changes nothing else. -/
theorem insert_spec : ∀ (sel : List String) (t : Sel) (i : Nat), okSel sel = true →
    ∃ t', t.insert sel i = .ok t' ∧
      ∀ name, okName name = true → ∀ j, j ∈ t'.get name ↔ (j ∈ t.get name ∨ (j = i ∧ selects sel name)) := by
  intro sel
  induction sel with
  | nil =>
    intro t i _
    obtain ⟨cs, w, x⟩ := t
    refine ⟨_, rfl, ?_⟩
    intro name hn j
    cases name with
    | nil => simp [Sel.get, selects_nil_nil]
    | cons tag rest =>
      have ht : tag ≠ "" := by simp [okName] at hn; exact hn.1.1
      have : (tag == "" && rest == []) = false := by simp [ht]
      simp only [Sel.get, this, Bool.false_eq_true, if_false]
      have := selects_nil_cons tag rest
      simp [this]
  | cons c srest ih =>
    intro t i hok
    obtain ⟨cs, w, x⟩ := t
    by_cases hstar : c = "*"
    · -- the selector is exactly ["*"]
      subst hstar
      have hrest : srest = [] := by
        cases srest with
        | nil => rfl
        | cons a b => simp [okSel] at hok
      subst hrest
      refine ⟨.mk cs (w ++ [i]) x, by simp [Sel.insert, restEmpty], ?_⟩
      intro name hn j
      cases name with
      | nil =>
        have : ¬ selects ["*"] [] := by rw [selects_star]; simp
        simp [Sel.get, this]
      | cons tag rest =>
        have ht : tag ≠ "" := by simp [okName] at hn; exact hn.1.1
        have hf : (tag == "" && rest == []) = false := by simp [ht]
        have hs : selects ["*"] (tag :: rest) := by rw [selects_star]; simp
        simp only [Sel.get, hf, Bool.false_eq_true, if_false, List.mem_append, List.mem_singleton]
        constructor
        · rintro ((h | h) | h)
          · exact Or.inl (Or.inl h)
          · exact Or.inr ⟨h, hs⟩
          · exact Or.inl (Or.inr h)
        · rintro ((h | h) | ⟨h, _⟩)
          · exact Or.inl (Or.inl h)
          · exact Or.inr h
          · exact Or.inl (Or.inr h)
    · have hcne : c ≠ "" := by
        cases srest with
        | nil => simpa [okSel] using hok
        | cons a b => simp [okSel] at hok; exact hok.1.1
      have hoks : okSel srest = true := by
        cases srest with
        | nil => rfl
        | cons a b => simp [okSel] at hok; simp [okSel, hok.2]
      obtain ⟨c', hc', hget⟩ := ih ((lookup cs c).getD .empty) i hoks
      have h1 : (c == "*") = false := by simpa using hstar
      have h2 : (c == "") = false := by simpa using hcne
      refine ⟨.mk (upsert cs c c') w x, by simp [Sel.insert, h1, h2, hc'], ?_⟩
      intro name hn j
      cases name with
      | nil =>
        have := selects_cons_nil c srest hstar
        simp [Sel.get, this]
      | cons tag rest =>
        have ht : tag ≠ "" := by simp [okName] at hn; exact hn.1.1
        have hnr : okName rest = true := by simp [okName] at hn; exact hn.2
        have hf : (tag == "" && rest == []) = false := by simp [ht]
        simp only [Sel.get, hf, Bool.false_eq_true, if_false, List.mem_append]
        rw [selects_cons_cons c tag srest rest hstar]
        by_cases hct : c = tag
        · subst hct
          rw [lookup_upsert_same]
          have hg := hget rest hnr j
          simp only [true_and]
          cases hl : lookup cs c with
          | none =>
            rw [hl] at hg
            simp only [Option.getD_none, empty_get, List.not_mem_nil, false_or] at hg
            simp only [hg, List.not_mem_nil, or_false]
          | some ch =>
            rw [hl] at hg
            simp only [Option.getD_some] at hg
            simp only [hg]
            constructor
            · rintro (h | h | h)
              · exact Or.inl (Or.inl h)
              · exact Or.inl (Or.inr h)
              · exact Or.inr h
            · rintro ((h | h) | h)
              · exact Or.inl h
              · exact Or.inr (Or.inl h)
              · exact Or.inr (Or.inr h)
        · rw [lookup_upsert_other cs c tag c' hct]
          simp [hct]

/-- `setRules` over well-formed selectors never panics and binds rule `k` to exactly the
names `sels[k]` selects. -/
theorem build_spec : ∀ (sels : List (List String)) (i0 : Nat) (t : Sel),
    (∀ s ∈ sels, okSel s = true) →
    ∃ t', build sels i0 t = .ok t' ∧
      ∀ name, okName name = true → ∀ j, j ∈ t'.get name ↔
        (j ∈ t.get name ∨ ∃ k sel, sels[k]? = some sel ∧ j = i0 + k ∧ selects sel name) := by
  intro sels
  induction sels with
  | nil => intro i0 t _; exact ⟨t, rfl, by simp⟩
  | cons s rest ih =>
    intro i0 t hall
    obtain ⟨t1, h1, hg1⟩ := insert_spec s t i0 (hall s (by simp))
    obtain ⟨t2, h2, hg2⟩ := ih (i0 + 1) t1 (fun x hx => hall x (by simp [hx]))
    refine ⟨t2, by simp [build, h1, h2], ?_⟩
    intro name hn j
    rw [hg2 name hn j, hg1 name hn j]
    constructor
    · rintro ((h | ⟨h, hs⟩) | ⟨k, sel, hk, hj, hs⟩)
      · exact Or.inl h
      · exact Or.inr ⟨0, s, by simp, by omega, hs⟩
      · exact Or.inr ⟨k + 1, sel, by simpa using hk, by omega, hs⟩
    · rintro (h | ⟨k, sel, hk, hj, hs⟩)
      · exact Or.inl (Or.inl h)
      · cases k with
        | zero =>
          simp at hk; subst hk
          exact Or.inl (Or.inr ⟨by omega, hs⟩)
        | succ k =>
          exact Or.inr ⟨k, sel, by simpa using hk, by omega, hs⟩

end Larking.Selector
