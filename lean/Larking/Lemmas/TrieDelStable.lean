import Larking.Lemmas.TrieDelReach
/-
  Dispatch is STABLE across a deletion: a request the router dispatched to a method other than
  the deleted one is dispatched to the same method with the same captures afterwards, and a
  request that found nothing finds nothing afterwards (`delRule_stable`).

  The association lists stand for Go maps, which hold one entry per key: `UK` says so (the
  first entry for a key is the only one).  It is preserved by `delRule` (`delRule_uk`).
  `hconv`: every capture converts (the property's own side condition) — a failed conversion of
  the deleted method's capture ends the variable loop in the code, and without it the
  deletion lets the loop go on to the next variable.
-/
namespace Larking.Trie
open Larking.Lexer

mutual
  def UK : Node → Prop
    | .mk segs _ _ vars => UKSegs segs ∧ UKVars vars
  def UKSegs : List (Bytes × Node) → Prop
    | [] => True
    | (k, c) :: rest => lookupSeg rest k = none ∧ UK c ∧ UKSegs rest
  def UKVars : List (Var × Node) → Prop
    | [] => True
    | (_, c) :: rest => UK c ∧ UKVars rest
end

def Stable (name : Nat) : SRes → SRes → Prop
  | .found m caps, after => m.mid ≠ name → after = .found m caps
  | .fail _, after => ∃ e, after = .fail e
  | .panic _, _ => True

def StableO (name : Nat) : Option SRes → Option SRes → Prop
  | some (.found m caps), after => m.mid ≠ name → after = some (.found m caps)
  | some (.panic _), _ => True
  | some (.fail _), after => after = none ∨ ∃ e, after = some (.fail e)
  | none, after => after = none ∨ ∃ e, after = some (.fail e)

theorem Stable_refl (name : Nat) : ∀ r, Stable name r r
  | .found _ _ => fun _ => rfl
  | .fail e => ⟨e, rfl⟩
  | .panic _ => trivial

theorem StableO_refl (name : Nat) : ∀ r, StableO name r r
  | some (.found _ _) => fun _ => rfl
  | some (.fail e) => Or.inr ⟨e, rfl⟩
  | some (.panic _) => trivial
  | none => Or.inl rfl

theorem searchSegs_none (conv) (verb : Bytes) : ∀ (segs : List (Bytes × Node)) (key : Bytes) (toks : List Tok),
    lookupSeg segs key = none → searchSegs conv verb segs key toks = none
  | [], _, _, _ => by simp [searchSegs]
  | (k, c) :: rest, key, toks, h => by
    simp only [lookupSeg] at h
    by_cases hk : (k == key) = true
    · simp [hk] at h
    · simp only [hk] at h
      simp only [searchSegs, hk]
      exact searchSegs_none conv verb rest key toks h

theorem found_alive (counts : List String) (hs : AliveSound counts) (conv) (verb : Bytes) (n : Node)
    (toks : List Tok) (m : Meth) (caps : Caps) (h : search conv verb n toks = .found m caps) :
    aliveWith counts n = true := by
  obtain ⟨es, hr⟩ := search_sound conv verb n toks m caps h
  exact reach_alive counts hs conv verb n toks m caps es hr

mutual
  theorem delRule_stable (counts : List String) (hs : AliveSound counts) (conv)
      (hconv : ∀ f t, conv f t = true) (verb : Bytes) (name : Nat) :
      ∀ (n n' : Node), UK n → delRule counts name n = some n' →
      ∀ toks, Stable name (search conv verb n toks) (search conv verb n' toks)
    | .mk segs methods all vars, n', huk, h, toks => by
      simp only [delRule] at h
      simp only [UK] at huk
      cases hsg : delSegs counts name segs with
      | some segs' =>
        rw [hsg] at h; simp only at h; injection h with h; subst h
        match toks with
        | [] => simp only [search]; exact Stable_refl _ _
        | [_] => simp only [search]; exact Stable_refl _ _
        | t0 :: t1 :: rest =>
          have hS := delSegs_stable counts hs conv hconv verb name segs segs' huk.1 hsg (t0.val ++ t1.val) rest
          simp only [search]
          cases hb : searchSegs conv verb segs (t0.val ++ t1.val) rest with
          | none =>
            rw [hb] at hS; simp only [StableO] at hS
            rcases hS with ha | ⟨e, ha⟩ <;> rw [ha] <;> exact Stable_refl _ _
          | some r =>
            cases r with
            | found m caps =>
              rw [hb] at hS; simp only [StableO] at hS
              intro hne
              rw [hS hne]
            | panic s => trivial
            | fail e0 =>
              rw [hb] at hS; simp only [StableO] at hS
              rcases hS with ha | ⟨e, ha⟩ <;> rw [ha] <;> exact Stable_refl _ _
      | none =>
        rw [hsg] at h; simp only at h
        cases hv : delVars counts name vars with
        | some vars' =>
          rw [hv] at h; simp only at h; injection h with h; subst h
          match toks with
          | [] => simp only [search]; exact Stable_refl _ _
          | [_] => simp only [search]; exact Stable_refl _ _
          | t0 :: t1 :: rest =>
            have hV := delVars_stable counts hs conv hconv verb name vars vars' huk.2 hv (t1 :: rest)
            simp only [search]
            cases hb : searchSegs conv verb segs (t0.val ++ t1.val) rest with
            | none =>
              simp only []
              by_cases hsl : (t0.typ == TokTy.slash) = true
              · simp only [hsl, if_true]; exact hV
              · simp only [hsl]; exact Stable_refl _ _
            | some r =>
              cases r with
              | found m caps => exact Stable_refl _ _
              | panic s => trivial
              | fail e0 =>
                simp only []
                by_cases hsl : (t0.typ == TokTy.slash) = true
                · simp only [hsl, if_true]; exact hV
                · simp only [hsl]; exact Stable_refl _ _
        | none =>
          rw [hv] at h; simp only at h
          cases hd : delMeth methods name with
          | none => rw [hd] at h; simp at h
          | some ms =>
            rw [hd] at h; simp only [Option.map_some] at h; injection h with h; subst h
            have short : Stable name
                (match lookupMeth methods verb with
                 | some m => SRes.found m []
                 | none => match all with
                   | some m => .found m []
                   | none => .fail .method)
                (match lookupMeth ms verb with
                 | some m => SRes.found m []
                 | none => match all with
                   | some m => .found m []
                   | none => .fail .method) := by
              cases hl : lookupMeth methods verb with
              | some m =>
                simp only []
                intro hne
                rw [delMeth_keeps methods ms name hd verb m hne hl]
              | none =>
                rw [delMeth_lookup_none methods ms name hd verb hl]
                exact Stable_refl _ _
            match toks with
            | [] => simp only [search]; exact short
            | [_] => simp only [search]; exact short
            | t0 :: t1 :: rest => simp only [search]; exact Stable_refl _ _

  theorem delSegs_stable (counts : List String) (hs : AliveSound counts) (conv)
      (hconv : ∀ f t, conv f t = true) (verb : Bytes) (name : Nat) :
      ∀ (segs segs' : List (Bytes × Node)), UKSegs segs → delSegs counts name segs = some segs' →
      ∀ key toks, StableO name (searchSegs conv verb segs key toks) (searchSegs conv verb segs' key toks)
    | [], _, _, h, _, _ => by simp [delSegs] at h
    | (k0, c0) :: rest, segs', huk, h, key, toks => by
      simp only [delSegs] at h
      simp only [UKSegs] at huk
      cases hd : delRule counts name c0 with
      | some c0' =>
        rw [hd] at h; simp only at h; injection h with h; subst h
        have ih := delRule_stable counts hs conv hconv verb name c0 c0' huk.2.1 hd toks
        by_cases hk : (k0 == key) = true
        · have hkey : k0 = key := by simpa using hk
          have hrest : searchSegs conv verb rest key toks = none :=
            searchSegs_none conv verb rest key toks (hkey ▸ huk.1)
          simp only [searchSegs, hk, if_true]
          cases hb : search conv verb c0 toks with
          | found m caps =>
            rw [hb] at ih; simp only [Stable] at ih
            simp only [StableO]
            intro hne
            have ha := ih hne
            have hal := found_alive counts hs conv verb c0' toks m caps ha
            simp only [hal, if_true, searchSegs, hk, ha]
          | panic s => trivial
          | fail e0 =>
            rw [hb] at ih; simp only [Stable] at ih
            obtain ⟨e, ha⟩ := ih
            simp only [StableO]
            split
            · exact Or.inr ⟨e, by simp only [searchSegs, hk, if_true, ha]⟩
            · exact Or.inl hrest
        · simp only [searchSegs, hk]
          by_cases hal : aliveWith counts c0' = true
          · simp only [hal, if_true, searchSegs, hk]; exact StableO_refl _ _
          · simp only [hal]; exact StableO_refl _ _
      | none =>
        rw [hd] at h; simp only at h
        cases hr : delSegs counts name rest with
        | none => rw [hr] at h; simp at h
        | some rest' =>
          rw [hr] at h; simp only [Option.map_some] at h; injection h with h; subst h
          by_cases hk : (k0 == key) = true
          · simp only [searchSegs, hk, if_true]; exact StableO_refl _ _
          · simp only [searchSegs, hk]
            exact delSegs_stable counts hs conv hconv verb name rest rest' huk.2.2 hr key toks

  theorem delVars_stable (counts : List String) (hs : AliveSound counts) (conv)
      (hconv : ∀ f t, conv f t = true) (verb : Bytes) (name : Nat) :
      ∀ (vars vars' : List (Var × Node)), UKVars vars → delVars counts name vars = some vars' →
      ∀ toks1, Stable name (searchVars conv verb vars toks1) (searchVars conv verb vars' toks1)
    | [], _, _, h, _ => by simp [delVars] at h
    | (v0, c0) :: rest, vars', huk, h, toks1 => by
      simp only [delVars] at h
      simp only [UKVars] at huk
      cases hd : delRule counts name c0 with
      | some c0' =>
        rw [hd] at h; simp only at h; injection h with h; subst h
        cases hvi : varIndex v0.toks toks1 0 with
        | panic s => simp only [searchVars, hvi]; trivial
        | err e => simp only [searchVars, hvi]; trivial
        | ok oi =>
          cases oi with
          | none =>
            simp only [searchVars, hvi]
            split
            · simp only [searchVars, hvi]; exact Stable_refl _ _
            · exact Stable_refl _ _
          | some i =>
            have ih := delRule_stable counts hs conv hconv verb name c0 c0' huk.1 hd (toks1.drop i)
            cases hb : search conv verb c0 (toks1.drop i) with
            | panic s => simp only [searchVars, hvi, hb]; trivial
            | fail e0 =>
              rw [hb] at ih; simp only [Stable] at ih
              obtain ⟨e, ha⟩ := ih
              simp only [searchVars, hvi, hb]
              split
              · simp only [searchVars, hvi, ha]; exact Stable_refl _ _
              · exact Stable_refl _ _
            | found m caps =>
              rw [hb] at ih; simp only [Stable] at ih
              by_cases hne : m.mid = name
              · -- the deleted method's own binding answered: nothing is claimed
                simp only [searchVars, hvi, hb]
                split
                · trivial
                · split
                  · trivial
                  · intro hn; exact absurd hne hn
                  · simp only [hconv, if_true]
                    intro hn; exact absurd hne hn
              · have ha := ih hne
                have hal := found_alive counts hs conv verb c0' (toks1.drop i) m caps ha
                simp only [hal, if_true]
                simp only [searchVars, hvi, hb, ha]
                exact Stable_refl _ _
      | none =>
        rw [hd] at h; simp only at h
        cases hr : delVars counts name rest with
        | none => rw [hr] at h; simp at h
        | some rest' =>
          rw [hr] at h; simp only [Option.map_some] at h; injection h with h; subst h
          have ih := delVars_stable counts hs conv hconv verb name rest rest' huk.2 hr toks1
          cases hvi : varIndex v0.toks toks1 0 with
          | panic s => simp only [searchVars, hvi]; trivial
          | err e => simp only [searchVars, hvi]; trivial
          | ok oi =>
            cases oi with
            | none => simp only [searchVars, hvi]; exact ih
            | some i =>
              cases hb : search conv verb c0 (toks1.drop i) with
              | panic s => simp only [searchVars, hvi, hb]; trivial
              | fail e0 => simp only [searchVars, hvi, hb]; exact ih
              | found m caps => simp only [searchVars, hvi, hb]; exact Stable_refl _ _
end

/-! ### `delRule` keeps the keys unique -/

theorem delSegs_lookup_none (counts : List String) (name : Nat) :
    ∀ (segs segs' : List (Bytes × Node)), delSegs counts name segs = some segs' →
    ∀ k, lookupSeg segs k = none → lookupSeg segs' k = none
  | [], _, h, _, _ => by simp [delSegs] at h
  | (k0, c0) :: rest, segs', h, k, hl => by
    simp only [delSegs] at h
    simp only [lookupSeg] at hl
    by_cases hk : (k0 == k) = true
    · simp [hk] at hl
    · simp only [hk] at hl
      cases hd : delRule counts name c0 with
      | some c0' =>
        rw [hd] at h; simp only at h; injection h with h; subst h
        by_cases hal : aliveWith counts c0' = true
        · simp only [hal, if_true, lookupSeg, hk]; exact hl
        · simp only [hal]; exact hl
      | none =>
        rw [hd] at h; simp only at h
        cases hr : delSegs counts name rest with
        | none => rw [hr] at h; simp at h
        | some rest' =>
          rw [hr] at h; simp only [Option.map_some] at h; injection h with h; subst h
          simp only [lookupSeg, hk]
          exact delSegs_lookup_none counts name rest rest' hr k hl

mutual
  theorem delRule_uk (counts : List String) (name : Nat) :
      ∀ (n n' : Node), UK n → delRule counts name n = some n' → UK n'
    | .mk segs methods all vars, n', hw, h => by
      simp only [delRule] at h
      simp only [UK] at hw
      cases hsg : delSegs counts name segs with
      | some segs' =>
        rw [hsg] at h; simp only at h; injection h with h; subst h
        simp only [UK]
        exact ⟨delSegs_uk counts name segs segs' hw.1 hsg, hw.2⟩
      | none =>
        rw [hsg] at h; simp only at h
        cases hv : delVars counts name vars with
        | some vars' =>
          rw [hv] at h; simp only at h; injection h with h; subst h
          simp only [UK]
          exact ⟨hw.1, delVars_uk counts name vars vars' hw.2 hv⟩
        | none =>
          rw [hv] at h; simp only at h
          cases hd : delMeth methods name with
          | none => rw [hd] at h; simp at h
          | some ms =>
            rw [hd] at h; simp only [Option.map_some] at h; injection h with h; subst h
            simp only [UK]; exact hw

  theorem delSegs_uk (counts : List String) (name : Nat) :
      ∀ (segs segs' : List (Bytes × Node)), UKSegs segs → delSegs counts name segs = some segs' → UKSegs segs'
    | [], _, _, h => by simp [delSegs] at h
    | (k0, c0) :: rest, segs', hw, h => by
      simp only [delSegs] at h
      simp only [UKSegs] at hw
      cases hd : delRule counts name c0 with
      | some c0' =>
        rw [hd] at h; simp only at h; injection h with h; subst h
        by_cases hal : aliveWith counts c0' = true
        · simp only [hal, if_true, UKSegs]
          exact ⟨hw.1, delRule_uk counts name c0 c0' hw.2.1 hd, hw.2.2⟩
        · simp only [hal]; exact hw.2.2
      | none =>
        rw [hd] at h; simp only at h
        cases hr : delSegs counts name rest with
        | none => rw [hr] at h; simp at h
        | some rest' =>
          rw [hr] at h; simp only [Option.map_some] at h; injection h with h; subst h
          simp only [UKSegs]
          exact ⟨delSegs_lookup_none counts name rest rest' hr k0 hw.1, hw.2.1,
            delSegs_uk counts name rest rest' hw.2.2 hr⟩

  theorem delVars_uk (counts : List String) (name : Nat) :
      ∀ (vars vars' : List (Var × Node)), UKVars vars → delVars counts name vars = some vars' → UKVars vars'
    | [], _, _, h => by simp [delVars] at h
    | (v0, c0) :: rest, vars', hw, h => by
      simp only [delVars] at h
      simp only [UKVars] at hw
      cases hd : delRule counts name c0 with
      | some c0' =>
        rw [hd] at h; simp only at h; injection h with h; subst h
        by_cases hal : aliveWith counts c0' = true
        · simp only [hal, if_true, UKVars]
          exact ⟨delRule_uk counts name c0 c0' hw.1 hd, hw.2⟩
        · simp only [hal]; exact hw.2
      | none =>
        rw [hd] at h; simp only at h
        cases hr : delVars counts name rest with
        | none => rw [hr] at h; simp at h
        | some rest' =>
          rw [hr] at h; simp only [Option.map_some] at h; injection h with h; subst h
          simp only [UKVars]
          exact ⟨hw.1, delVars_uk counts name rest rest' hw.2 hr⟩
end

/-- any number of deletions (`removeHandler` for every method of a dropped connection). -/
theorem delAll_stable (counts : List String) (hs : AliveSound counts) (conv)
    (hconv : ∀ f t, conv f t = true) (verb : Bytes) (name : Nat) :
    ∀ (fuel : Nat) (n : Node), UK n → ∀ (toks : List Tok) (m : Meth) (caps : Caps),
    search conv verb n toks = .found m caps → m.mid ≠ name →
    search conv verb (delAll counts name fuel n) toks = .found m caps
  | 0, _, _, _, _, _, h, _ => h
  | fuel + 1, n, huk, toks, m, caps, h, hne => by
    simp only [delAll]
    cases hd : delRule counts name n with
    | none => exact h
    | some n' =>
      have hst := delRule_stable counts hs conv hconv verb name n n' huk hd toks
      rw [h] at hst
      exact delAll_stable counts hs conv hconv verb name fuel n' (delRule_uk counts name n n' huk hd)
        toks m caps (hst hne) hne

/-- … and what found nothing finds nothing: a deletion creates no route. -/
theorem delAll_fail (counts : List String) (hs : AliveSound counts) (conv)
    (hconv : ∀ f t, conv f t = true) (verb : Bytes) (name : Nat) :
    ∀ (fuel : Nat) (n : Node), UK n → ∀ (toks : List Tok) (e : SErr),
    search conv verb n toks = .fail e → ∃ e', search conv verb (delAll counts name fuel n) toks = .fail e'
  | 0, _, _, _, e, h => ⟨e, h⟩
  | fuel + 1, n, huk, toks, e, h => by
    simp only [delAll]
    cases hd : delRule counts name n with
    | none => exact ⟨e, h⟩
    | some n' =>
      have hst := delRule_stable counts hs conv hconv verb name n n' huk hd toks
      rw [h] at hst
      obtain ⟨e1, h1⟩ := hst
      exact delAll_fail counts hs conv hconv verb name fuel n' (delRule_uk counts name n n' huk hd) toks e1 h1

end Larking.Trie
