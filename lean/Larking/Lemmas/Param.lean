import Larking.Model.Param
import Larking.Lemmas.Metadata
namespace Larking.Param

/-! ### params.set: the last write to a singular field wins -/

theorem get_put_same (m : Msg) (fp : Nat) (v : List Bytes) : (m.put fp v).get fp = v := by
  induction m with
  | nil => simp [Msg.put, Msg.get]
  | cons p rest ih =>
    obtain ⟨k, v'⟩ := p
    unfold Msg.put
    by_cases h : (k == fp) = true
    · simp [h, Msg.get]
    · simp [h, Msg.get, ih]

theorem get_put_other (m : Msg) (fp fp2 : Nat) (v : List Bytes) (hne : fp ≠ fp2) :
    (m.put fp v).get fp2 = m.get fp2 := by
  induction m with
  | nil => simp [Msg.put, Msg.get, hne]
  | cons p rest ih =>
    obtain ⟨k, v'⟩ := p
    unfold Msg.put
    by_cases h : (k == fp) = true
    · have hk : k = fp := by simpa using h
      subst hk
      simp [Msg.get, hne]
    · simp only [h, Bool.false_eq_true, if_false, Msg.get, ih]

theorem setOne_other (m : Msg) (p : P) (fp : Nat) (hne : p.fp ≠ fp) : (setOne m p).get fp = m.get fp := by
  unfold setOne; split <;> exact get_put_other _ _ _ _ hne

theorem setAll_other (ps : List P) (m : Msg) (fp : Nat) (h : ∀ q ∈ ps, q.fp ≠ fp) :
    (setAll m ps).get fp = m.get fp := by
  induction ps generalizing m with
  | nil => rfl
  | cons q rest ih =>
    simp only [setAll, List.foldl_cons]
    have := ih (setOne m q) (fun x hx => h x (by simp [hx]))
    simp only [setAll] at this
    rw [this, setOne_other m q fp (h q (by simp))]

theorem setAll_append (m : Msg) (a b : List P) : setAll m (a ++ b) = setAll (setAll m a) b := by
  simp [setAll, List.foldl_append]

/-- whatever was in the message and whatever was applied before, a singular parameter that
is not followed by another one for the same field determines the field. -/
theorem last_write_wins (m : Msg) (pre post : List P) (p : P) (hs : p.repeated = false)
    (hpost : ∀ q ∈ post, q.fp ≠ p.fp) : (setAll m (pre ++ p :: post)).get p.fp = [p.val] := by
  rw [setAll_append]
  show (setAll (setAll m pre) (p :: post)).get p.fp = [p.val]
  simp only [setAll, List.foldl_cons]
  have := setAll_other post (setOne (List.foldl setOne m pre) p) p.fp hpost
  simp only [setAll] at this
  rw [this]
  simp [setOne, hs, get_put_same]

/-- repeated fields: every value applied to the field is appended, in order, after what the
body left there. -/
theorem repeated_appends (ps : List P) (m : Msg) (fp : Nat)
    (h : ∀ p ∈ ps, p.fp = fp → p.repeated = true) :
    (setAll m ps).get fp = m.get fp ++ ((ps.filter (fun p => p.fp == fp)).map (·.val)) := by
  induction ps generalizing m with
  | nil => simp [setAll]
  | cons q rest ih =>
    have hrest := ih (setOne m q) (fun x hx => h x (by simp [hx]))
    simp only [setAll, List.foldl_cons] at hrest ⊢
    rw [hrest]
    by_cases hq : q.fp = fp
    · have hr := h q (by simp) hq
      have hbeq : (q.fp == fp) = true := by simpa using hq
      simp only [List.filter_cons, hbeq, if_true, List.map_cons]
      subst hq
      simp [setOne, hr, get_put_same]
    · have hbeq : (q.fp == fp) = false := by simpa using hq
      simp only [List.filter_cons, hbeq, Bool.false_eq_true, if_false]
      rw [setOne_other m q fp hq]

/-! ### decimal text -/

theorem digitsVal_fold (ds : Bytes) (a : Nat) :
    ds.foldl (fun acc c => acc * 10 + (c.toNat - 48)) a = a * 10 ^ ds.length + digitsVal ds := by
  induction ds generalizing a with
  | nil => simp [digitsVal]
  | cons c rest ih =>
    simp only [List.foldl_cons, digitsVal, List.length_cons]
    rw [ih, ih (0 * 10 + (c.toNat - 48))]
    rw [Nat.pow_succ]
    have : (a * 10 + (c.toNat - 48)) * 10 ^ rest.length
        = a * (10 ^ rest.length * 10) + (c.toNat - 48) * 10 ^ rest.length := by
      rw [Nat.add_mul]; congr 1; rw [Nat.mul_assoc, Nat.mul_comm 10]
    rw [this]; simp [Nat.add_assoc]

theorem digitsVal_cons (c : UInt8) (ds : Bytes) :
    digitsVal (c :: ds) = (c.toNat - 48) * 10 ^ ds.length + digitsVal ds := by
  simp only [digitsVal, List.foldl_cons]
  rw [digitsVal_fold]; simp [digitsVal]

theorem digit_toNat (d : Nat) (h : d < 10) : (UInt8.ofNat (48 + d)).toNat = 48 + d := by
  simp [UInt8.toNat_ofNat']; omega

theorem printNatAux_spec : ∀ (fuel n : Nat) (acc : Bytes), n < fuel →
    ∃ ds, printNatAux fuel n acc = ds ++ acc ∧ ds ≠ [] ∧ ds.all isDigit = true ∧
      (ds.length = 1 ∨ ds.head? ≠ some 48) ∧
      digitsVal (ds ++ acc) = n * 10 ^ acc.length + digitsVal acc := by
  intro fuel
  induction fuel with
  | zero => intro n acc h; omega
  | succ fuel ih =>
    intro n acc h
    unfold printNatAux
    simp only
    by_cases hlt : n < 10
    · simp only [hlt, if_true]
      refine ⟨[UInt8.ofNat (48 + n % 10)], by simp, by simp, ?_, Or.inl rfl, ?_⟩
      · have := digit_toNat (n % 10) (by omega)
        simp [isDigit, this]; omega
      · simp only [List.singleton_append, digitsVal_cons, digit_toNat (n % 10) (by omega)]
        have : 48 + n % 10 - 48 = n := by omega
        rw [this]
    · simp only [hlt, if_false]
      obtain ⟨ds, hds, hne, hall, hhead, hval⟩ := ih (n / 10) (UInt8.ofNat (48 + n % 10) :: acc) (by omega)
      refine ⟨ds ++ [UInt8.ofNat (48 + n % 10)], by rw [hds, List.append_assoc]; rfl, by simp, ?_, ?_, ?_⟩
      · have := digit_toNat (n % 10) (by omega)
        simp [hall, isDigit, this]; omega
      · right
        cases ds with
        | nil => exact absurd rfl hne
        | cons d rest =>
          rcases hhead with h1 | h1
          · -- single leading digit: it is n/10 ≥ 1 in decimal, so not '0'
            simp at h1; subst h1
            simp only [List.cons_append, List.nil_append, List.head?_cons]
            intro h48
            injection h48 with h48; subst h48
            simp only [List.cons_append, List.nil_append, digitsVal_cons] at hval
            have : (48 : UInt8).toNat - 48 = 0 := by decide
            rw [this] at hval
            simp only [List.length_cons, Nat.zero_mul, Nat.zero_add] at hval
            have hp : 0 < 10 ^ (acc.length + 1) := Nat.pow_pos (by omega)
            have hn10 : 1 ≤ n / 10 := by omega
            have hge : 1 * 10 ^ (acc.length + 1) ≤ n / 10 * 10 ^ (acc.length + 1) := Nat.mul_le_mul_right _ hn10
            generalize n / 10 * 10 ^ (acc.length + 1) = t at hval hge
            generalize 10 ^ (acc.length + 1) = P at hp hge
            omega
          · simpa using h1
      · rw [List.append_assoc, List.singleton_append, hval]
        simp only [List.length_cons, digitsVal_cons, digit_toNat (n % 10) (by omega)]
        have h1 : 48 + n % 10 - 48 = n % 10 := by omega
        rw [h1, Nat.pow_succ]
        have hdm := Nat.div_add_mod n 10
        have : n * 10 ^ acc.length = (10 * (n / 10) + n % 10) * 10 ^ acc.length := by rw [hdm]
        rw [this, Nat.add_mul]
        have : n / 10 * (10 ^ acc.length * 10) = 10 * (n / 10) * 10 ^ acc.length := by
          rw [Nat.mul_comm (10 ^ acc.length) 10, ← Nat.mul_assoc, Nat.mul_comm (n / 10) 10]
        rw [this]; omega

theorem printNat_spec (n : Nat) :
    isNatLit (printNat n) = true ∧ digitsVal (printNat n) = n ∧ (printNat n).all isDigit = true := by
  obtain ⟨ds, hds, hne, hall, hhead, hval⟩ := printNatAux_spec (n + 1) n [] (by omega)
  simp only [List.append_nil] at hds hval
  unfold printNat
  rw [hds]
  refine ⟨?_, by simpa [digitsVal] using hval, hall⟩
  simp only [isNatLit, hall, Bool.and_true]
  have : ds.isEmpty = false := by cases ds <;> simp_all
  simp only [this, Bool.not_false, Bool.true_and, Bool.or_eq_true, beq_iff_eq, bne_iff_ne]
  exact hhead

end Larking.Param

namespace Larking.Param
open Larking.Base64

/-! ### parseInt -/

theorem trimLeft_id (l : Bytes) (h : ∀ c, l.head? = some c → isWS c = false) : trimLeft l = l := by
  cases l with
  | nil => rfl
  | cons c rest => simp [trimLeft, h c rfl]

theorem trimWS_id (l : Bytes) (h1 : ∀ c, l.head? = some c → isWS c = false)
    (h2 : ∀ c, l.getLast? = some c → isWS c = false) : trimWS l = l := by
  unfold trimWS
  rw [trimLeft_id l h1, trimLeft_id l.reverse (by simpa using h2)]
  simp

theorem digit_not_ws (c : UInt8) (h : isDigit c = true) : isWS c = false := by
  revert c; apply u8_forall; set_option maxRecDepth 8192 in decide

theorem all_head {p : UInt8 → Bool} {l : Bytes} {c : UInt8} (h : l.all p = true) (hc : l.head? = some c) : p c = true := by
  cases l with
  | nil => simp at hc
  | cons a r => simp at hc; subst hc; simp at h; exact h.1

theorem all_last {p : UInt8 → Bool} {l : Bytes} {c : UInt8} (h : l.all p = true) (hc : l.getLast? = some c) : p c = true := by
  have : c ∈ l := List.mem_of_getLast? hc
  simp only [List.all_eq_true] at h
  exact h c this

theorem splitSign_neg (r : Bytes) : splitSign (45 :: r) = (true, r) := rfl
theorem splitSign_pos (a : UInt8) (r : Bytes) (h : a ≠ 45) : splitSign (a :: r) = (false, a :: r) := by
  unfold splitSign
  split
  · rename_i r' heq; injection heq with h1 _; exact absurd h1 h
  · rfl
theorem splitSign_spec (core : Bytes) :
    core = (if (splitSign core).1 then 45 :: (splitSign core).2 else (splitSign core).2) := by
  unfold splitSign
  split <;> simp

/-- **every in-range integer, printed in decimal, is parsed back to itself** (all five families). -/
theorem parseInt_print (k : IntKind) (v : Int) (hmin : k.min ≤ v) (hmax : v ≤ k.max) :
    parseInt k (printInt v) = some v := by
  obtain ⟨hlit, hval, hall⟩ := printNat_spec v.natAbs
  have hne : printNat v.natAbs ≠ [] := by
    intro h; simp [isNatLit, h] at hlit
  by_cases hneg : v < 0
  · have hcore : trimWS (printInt v) = 45 :: printNat v.natAbs := by
      simp only [printInt, hneg, if_true]
      apply trimWS_id
      · intro c hc; simp at hc; subst hc; decide
      · intro c hc
        have : (45 :: printNat v.natAbs).getLast? = (printNat v.natAbs).getLast? := by
          cases hp : printNat v.natAbs with
          | nil => exact absurd hp hne
          | cons a r => simp
        rw [this] at hc
        exact digit_not_ws c (all_last hall hc)
    unfold parseInt
    simp only [hcore, splitSign_neg]
    have hnn : ((45 :: printNat v.natAbs) == nullLit) = false := by
      simp [nullLit]
    have hsg : k.signed = true := by
      cases hs : k.signed with
      | true => rfl
      | false => simp [IntKind.min, hs] at hmin; omega
    simp only [hnn, Bool.false_eq_true, if_false, hlit, Bool.not_true, hval, hsg, Bool.and_false]
    have : -(v.natAbs : Int) = v := by omega
    simp only [if_true, this]
    simp [hmin, hmax]
  · have hcore : trimWS (printInt v) = printNat v.natAbs := by
      simp only [printInt, hneg, if_false]
      apply trimWS_id
      · intro c hc; exact digit_not_ws c (all_head hall hc)
      · intro c hc; exact digit_not_ws c (all_last hall hc)
    unfold parseInt
    simp only [hcore]
    cases hp : printNat v.natAbs with
    | nil => exact absurd hp hne
    | cons a r =>
      have hda : isDigit a = true := by rw [hp] at hall; simp at hall; exact hall.1
      have ha45 : a ≠ 45 := by intro h; subst h; simp [isDigit] at hda
      have hnn : ((a :: r) == nullLit) = false := by
        have : a ≠ 110 := by intro h; subst h; simp [isDigit] at hda
        simp [nullLit, this]
      rw [hp] at hlit hval
      simp only [hnn, Bool.false_eq_true, if_false, splitSign_pos a r ha45, hlit, Bool.not_true, hval, Bool.false_and]
      have : (v.natAbs : Int) = v := by omega
      simp [this, hmin, hmax]

/-- **no coercion**: whatever is accepted is `null` (the zero value) or a canonical JSON
integer literal (optional '-', no '+', no leading zeros, no fraction or exponent, no quotes)
whose value is the result and lies in the field's range; JSON whitespace around it aside. -/
theorem parseInt_sound (k : IntKind) (raw : Bytes) (v : Int) (h : parseInt k raw = some v) :
    (trimWS raw = nullLit ∧ v = 0) ∨
    ∃ (neg : Bool) (ds : Bytes), trimWS raw = (if neg then 45 :: ds else ds) ∧ isNatLit ds = true ∧
      v = (if neg then -(digitsVal ds : Int) else (digitsVal ds : Int)) ∧ k.min ≤ v ∧ v ≤ k.max ∧
      (neg = true → k.signed = true) := by
  unfold parseInt at h
  simp only at h
  split at h
  · rename_i hn
    left; exact ⟨by simpa using hn, by injection h with h; exact h.symm⟩
  · right
    split at h
    · simp at h
    · rename_i hlit
      split at h
      · simp at h
      rename_i hsg
      generalize hv : (if (splitSign (trimWS raw)).1 = true then -(digitsVal (splitSign (trimWS raw)).2 : Int)
          else (digitsVal (splitSign (trimWS raw)).2 : Int)) = val at h
      split at h
      · rename_i hr
        injection h with h
        subst h
        refine ⟨(splitSign (trimWS raw)).1, (splitSign (trimWS raw)).2, splitSign_spec _,
          by simpa using hlit, ?_, hr.1, hr.2, ?_⟩
        · rw [← hv]
        · intro hn; simpa [hn] using hsg
      · simp at h

theorem parseBool_sound (raw : Bytes) (b : Bool) (h : parseBool raw = some b) :
    (trimWS raw = [116, 114, 117, 101] ∧ b = true) ∨ (trimWS raw = [102, 97, 108, 115, 101] ∧ b = false) ∨
    (trimWS raw = nullLit ∧ b = false) := by
  unfold parseBool at h
  simp only at h
  split at h
  · rename_i h1; left; exact ⟨by simpa using h1, by injection h with h; exact h.symm⟩
  · split at h
    · rename_i h1; right; left; exact ⟨by simpa using h1, by injection h with h; exact h.symm⟩
    · split at h
      · rename_i h1; right; right; exact ⟨by simpa using h1, by injection h with h; exact h.symm⟩
      · simp at h

/-! ### bytes -/

theorem enc_url_std : ∀ n : Fin 64,
    encChar true n.val = encChar false n.val ∨ encChar true n.val = 45 ∨ encChar true n.val = 95 := by decide

theorem enc_std_not_urlchar : ∀ n : Fin 64, (encChar false n.val == 45 || encChar false n.val == 95) = false := by
  decide

def urlChar (c : UInt8) : Bool := c == 45 || c == 95

theorem pad_not_urlchar : urlChar padByte = false := by decide

theorem enc_url_eq (n : Nat) (hn : n < 64) (h : urlChar (encChar true n) = false) :
    encChar true n = encChar false n := by
  rcases enc_url_std ⟨n, hn⟩ with h1 | h1 | h1
  · exact h1
  · simp only at h1; simp [urlChar, h1] at h
  · simp only at h1; simp [urlChar, h1] at h

/-- url-alphabet output that happens to contain neither '-' nor '_' is also the std output. -/
theorem encode_url_eq_std (pad : Bool) (bs : Bytes) (h : (encode true pad bs).any urlChar = false) :
    encode true pad bs = encode false pad bs := by
  fun_induction encode true pad bs with
  | case1 => rfl
  | case2 a =>
    simp only [encode, List.any_cons, Bool.or_eq_false_iff] at h ⊢
    rw [enc_url_eq _ (q0_lt a) h.1, enc_url_eq _ (q1_lt a 0) h.2.1]
  | case3 a b =>
    simp only [encode, List.any_cons, Bool.or_eq_false_iff] at h ⊢
    rw [enc_url_eq _ (q0_lt a) h.1, enc_url_eq _ (q1_lt a b) h.2.1, enc_url_eq _ (q2_lt b 0) h.2.2.1]
  | case4 a b c rest ih =>
    simp only [encode, List.any_cons, Bool.or_eq_false_iff] at h ⊢
    rw [enc_url_eq _ (q0_lt a) h.1, enc_url_eq _ (q1_lt a b) h.2.1, enc_url_eq _ (q2_lt b c) h.2.2.1,
      enc_url_eq _ (q3_lt c) h.2.2.2.1, ih h.2.2.2.2]

theorem encode_std_no_urlchar (pad : Bool) (bs : Bytes) : (encode false pad bs).any urlChar = false := by
  have hc : ∀ n, n < 64 → urlChar (encChar false n) = false := fun n hn => enc_std_not_urlchar ⟨n, hn⟩
  fun_induction encode false pad bs with
  | case1 => rfl
  | case2 a => cases pad <;> simp [hc _ (q0_lt a), hc _ (q1_lt a 0), pad_not_urlchar]
  | case3 a b => cases pad <;> simp [hc _ (q0_lt a), hc _ (q1_lt a b), hc _ (q2_lt b 0), pad_not_urlchar]
  | case4 a b c rest ih =>
    simp [hc _ (q0_lt a), hc _ (q1_lt a b), hc _ (q2_lt b c), hc _ (q3_lt c), ih]

/-- the decoder choice by length is right for either padding. -/
theorem decode_by_len (url pad : Bool) (bs : Bytes) :
    decode url ((encode url pad bs).length % 4 == 0) (encode url pad bs) = some bs := by
  cases pad with
  | true =>
    have : ((encode url true bs).length % 4 == 0) = true := by simp [encode_pad_len]
    rw [this]; exact decode_encode url true bs
  | false =>
    by_cases h : (encode url false bs).length % 4 = 0
    · have h' : ((encode url false bs).length % 4 == 0) = true := by simpa using h
      rw [h', encode_raw_eq_pad url bs (encode_raw_len url bs h)]
      exact decode_encode url true bs
    · have h' : ((encode url false bs).length % 4 == 0) = false := by simpa using h
      rw [h']; exact decode_encode url false bs

/-- **bytes parameters**: every byte string, in any of the four base64 forms (std / url
alphabet, padded / unpadded), is decoded back exactly. -/
theorem parseBytes_roundtrip (url pad : Bool) (bs : Bytes) :
    parseBytes (encode url pad bs) = some bs := by
  unfold parseBytes
  simp only
  have hany : ∀ l : Bytes, (l.any fun c => c == 45 || c == 95) = l.any urlChar := fun l => rfl
  rw [hany]
  cases url with
  | false =>
    rw [encode_std_no_urlchar]
    exact decode_by_len false pad bs
  | true =>
    cases hu : (encode true pad bs).any urlChar with
    | true => exact decode_by_len true pad bs
    | false =>
      rw [encode_url_eq_std pad bs hu]
      exact decode_by_len false pad bs

end Larking.Param
