import Larking.Lemmas.Commute
import Larking.Lemmas.Provenance
import Larking.Lemmas.TrieDelStable
/-
  Every trie the registration functions build holds ONE entry per segment key (`UK`), because
  the model keeps the segment maps as STRICTLY SORTED association lists (`CK`), which the sorted
  insert-or-replace `upsertKV` preserves — Go's `<` on strings is a strict total order
  (`Lemmas/Commute`).  This discharges the representation hypothesis of `Lemmas/TrieDelStable`
  for every trie reachable by accepted registrations.
-/
namespace Larking.Trie
open Larking.Lexer

def keysGt {α : Type} (k : Bytes) (l : List (Bytes × α)) : Prop := ∀ p ∈ l, bytesLt k p.1 = true

def SortedKV {α : Type} : List (Bytes × α) → Prop
  | [] => True
  | (k, _) :: rest => keysGt k rest ∧ SortedKV rest

theorem upsertKV_mem {α : Type} : ∀ (l : List (Bytes × α)) (key : Bytes) (v : α) (p : Bytes × α),
    p ∈ upsertKV l key v → p ∈ l ∨ p = (key, v)
  | [], _, _, p, h => by simp [upsertKV] at h; exact Or.inr h
  | (k', v') :: rest, key, v, p, h => by
    unfold upsertKV at h
    split at h
    · rcases List.mem_cons.mp h with h | h
      · exact Or.inr h
      · exact Or.inl (by simp [h])
    · split at h
      · rcases List.mem_cons.mp h with h | h
        · exact Or.inr h
        · exact Or.inl h
      · rcases List.mem_cons.mp h with h | h
        · exact Or.inl (by simp [h])
        · rcases upsertKV_mem rest key v p h with h | h
          · exact Or.inl (by simp [h])
          · exact Or.inr h

theorem upsertKV_sorted {α : Type} : ∀ (l : List (Bytes × α)) (key : Bytes) (v : α),
    SortedKV l → SortedKV (upsertKV l key v)
  | [], _, _, _ => by simp [upsertKV, SortedKV, keysGt]
  | (k', v') :: rest, key, v, hs => by
    simp only [SortedKV] at hs
    unfold upsertKV
    split
    · rename_i hk
      have hkk : k' = key := by simpa using hk
      simp only [SortedKV]
      exact ⟨hkk ▸ hs.1, hs.2⟩
    · rename_i hk
      split
      · rename_i hlt
        simp only [SortedKV]
        refine ⟨?_, hs.1, hs.2⟩
        intro p hp
        rcases List.mem_cons.mp hp with hp | hp
        · subst hp; exact hlt
        · exact bytesLt_trans key k' p.1 hlt (hs.1 p hp)
      · rename_i hlt
        simp only [SortedKV]
        refine ⟨?_, upsertKV_sorted rest key v hs.2⟩
        intro p hp
        rcases upsertKV_mem rest key v p hp with hp | hp
        · exact hs.1 p hp
        · subst hp
          have hne : k' ≠ key := by intro he; subst he; simp at hk
          rcases bytesLt_trichotomy k' key hne with h1 | h1
          · exact h1
          · exact absurd h1 hlt

theorem lookupSeg_none_of_gt : ∀ (rest : List (Bytes × Node)) (k : Bytes), keysGt k rest → lookupSeg rest k = none
  | [], _, _ => by simp [lookupSeg]
  | (k', c) :: rest, k, h => by
    have h1 : bytesLt k k' = true := h (k', c) (by simp)
    have hne : k' ≠ k := fun he => bytesLt_ne k k' h1 he.symm
    have hb : (k' == k) = false := by simpa using hne
    simp only [lookupSeg, hb]
    exact lookupSeg_none_of_gt rest k (fun p hp => h p (List.mem_cons_of_mem _ hp))

mutual
  /-- every segment map, at every depth, is strictly sorted by key. -/
  def CK : Node → Prop
    | .mk segs _ _ vars => SortedKV segs ∧ CKSegs segs ∧ CKVars vars
  def CKSegs : List (Bytes × Node) → Prop
    | [] => True
    | (_, c) :: rest => CK c ∧ CKSegs rest
  def CKVars : List (Var × Node) → Prop
    | [] => True
    | (_, c) :: rest => CK c ∧ CKVars rest
end

theorem CK_empty : CK .empty := by simp [Node.empty, CK, CKSegs, CKVars, SortedKV]

theorem lookupSeg_CK : ∀ (segs : List (Bytes × Node)) (key : Bytes) (c : Node),
    CKSegs segs → lookupSeg segs key = some c → CK c
  | [], _, _, _, h => by simp [lookupSeg] at h
  | (k', c') :: rest, key, c, hwf, h => by
    simp only [CKSegs] at hwf
    simp only [lookupSeg] at h
    split at h
    · injection h with h; subst h; exact hwf.1
    · exact lookupSeg_CK rest key c hwf.2 h

theorem upsertSeg_CK : ∀ (segs : List (Bytes × Node)) (key : Bytes) (c : Node),
    CKSegs segs → CK c → CKSegs (upsertSeg segs key c)
  | [], _, _, _, hc => by simp [upsertSeg, upsertKV, CKSegs, hc]
  | (k', c') :: rest, key, c, hwf, hc => by
    simp only [CKSegs] at hwf
    have ih := upsertSeg_CK rest key c hwf.2 hc
    simp only [upsertSeg] at ih ⊢
    unfold upsertKV
    split
    · simp [CKSegs, hc, hwf.2]
    · split
      · simp only [CKSegs]; exact ⟨hc, hwf.1, hwf.2⟩
      · simp only [CKSegs]; exact ⟨hwf.1, ih⟩

theorem lookupVar_CK : ∀ (vars : List (Var × Node)) (name : Bytes) (v : Var) (c : Node),
    CKVars vars → lookupVar vars name = some (v, c) → CK c
  | [], _, _, _, _, h => by simp [lookupVar] at h
  | (v', c') :: rest, name, v, c, hwf, h => by
    simp only [CKVars] at hwf
    simp only [lookupVar] at h
    split at h
    · injection h with h; injection h with h1 h2; subst h2; exact hwf.1
    · exact lookupVar_CK rest name v c hwf.2 h

theorem upsertVar_CK : ∀ (vars : List (Var × Node)) (v : Var) (c : Node),
    CKVars vars → CK c → CKVars (upsertVar vars v c)
  | [], _, _, _, hc => by simp [upsertVar, CKVars, hc]
  | (v', c') :: rest, v, c, hwf, hc => by
    simp only [CKVars] at hwf
    simp only [upsertVar]
    split
    · simp only [CKVars]; exact ⟨hc, hwf.2⟩
    · split
      · simp only [CKVars]; exact ⟨hc, hwf.1, hwf.2⟩
      · simp only [CKVars]; exact ⟨hwf.1, upsertVar_CK rest v c hwf.2 hc⟩

theorem registerCore_CK (n n' : Node) (verb : Bytes) (mid : Nat) (mk : Unit → Outcome Meth)
    (hwf : CK n) (h : registerCore n verb mid mk = .ok n') : CK n' := by
  obtain ⟨segs, methods, all, vars⟩ := n
  simp only [registerCore] at h
  simp only [CK] at hwf
  split at h
  · split at h
    · simp at h
    · injection h with h; subst h; simpa only [CK] using hwf
  · split at h
    · split at h
      · injection h with h; subst h; simpa only [CK] using hwf
      · injection h with h; subst h; simpa only [CK] using hwf
    · simp at h
    · simp at h

theorem register_CK (n n' : Node) (verb : Bytes) (mid : Nat) (mk : Unit → Outcome Meth)
    (hwf : CK n) (h : register n verb mid mk = .ok n') : CK n' := by
  obtain ⟨m, _, hc⟩ := register_ok n n' verb mid mk h
  exact registerCore_CK n n' verb mid _ hwf hc

theorem insertAt_CK : ∀ (es : List Edge) (n n' : Node) (f : Node → Outcome Node),
    CK n → (∀ node node', CK node → f node = .ok node' → CK node') →
    insertAt n es f = .ok n' → CK n'
  | [], n, n', f, hwf, hf, h => by
    simp only [insertAt] at h
    exact hf n n' hwf h
  | .seg key :: more, .mk segs methods all vars, n', f, hwf, hf, h => by
    simp only [insertAt] at h
    simp only [CK] at hwf
    obtain ⟨h1, h2, h3⟩ := hwf
    have hchild : CK ((lookupSeg segs key).getD .empty) := by
      cases hl : lookupSeg segs key with
      | none => simp [CK_empty]
      | some c => simp; exact lookupSeg_CK segs key c h2 hl
    cases hr : insertAt ((lookupSeg segs key).getD .empty) more f with
    | ok c =>
      rw [hr] at h
      simp only at h
      injection h with h; subst h
      have hc := insertAt_CK more _ c f hchild hf hr
      simp only [CK]
      exact ⟨upsertKV_sorted segs key c h1, upsertSeg_CK segs key c h2 hc, h3⟩
    | err e => rw [hr] at h; simp at h
    | panic s => rw [hr] at h; simp at h
  | .var v :: more, .mk segs methods all vars, n', f, hwf, hf, h => by
    simp only [insertAt] at h
    simp only [CK] at hwf
    obtain ⟨h1, h2, h3⟩ := hwf
    have hchild : CK (varChild vars v.name) := by
      unfold varChild
      cases hl : lookupVar vars v.name with
      | none => simp [CK_empty]
      | some p => obtain ⟨v', c⟩ := p; simp; exact lookupVar_CK vars v.name v' c h3 hl
    cases hr : insertAt (varChild vars v.name) more f with
    | ok c =>
      rw [hr] at h
      simp only at h
      injection h with h; subst h
      have hc := insertAt_CK more _ c f hchild hf hr
      simp only [CK]
      exact ⟨h1, h2, upsertVar_CK vars v c h3 hc⟩
    | err e => rw [hr] at h; simp at h
    | panic s => rw [hr] at h; simp at h

theorem addBinding_CK (cap : Nat) (resolve) (n n' : Node) (b : Binding) (mid : Nat)
    (hwf : CK n) (h : addBinding cap resolve n b mid = .ok n') : CK n' := by
  simp only [addBinding] at h
  split at h
  · simp at h
  · simp at h
  · split at h
    · simp at h
    · simp at h
    · rename_i p _
      exact insertAt_CK p.edges n n' _ hwf (fun node node' hn hreg => register_CK node node' b.verb mid _ hn hreg) h

theorem addAdditional_CK (cap : Nat) (resolve) (mid : Nat) : ∀ (adds : List (Binding × Bool)) (n n' : Node),
    CK n → addAdditional cap resolve mid n adds = .ok n' → CK n'
  | [], n, n', hwf, h => by simp only [addAdditional] at h; injection h with h; subst h; exact hwf
  | (b, nested) :: more, n, n', hwf, h => by
    simp only [addAdditional] at h
    split at h
    · simp at h
    · cases hb : addBinding cap resolve n b mid with
      | ok n1 =>
        rw [hb] at h
        exact addAdditional_CK cap resolve mid more n1 n' (addBinding_CK cap resolve n n1 b mid hwf hb) h
      | err e => rw [hb] at h; simp at h
      | panic s => rw [hb] at h; simp at h

theorem addRule_CK (cap : Nat) (resolve) (n n' : Node) (r : Rule) (mid : Nat)
    (hwf : CK n) (h : addRule cap resolve n r mid = .ok n') : CK n' := by
  simp only [addRule] at h
  cases hb : addBinding cap resolve n r.primary mid with
  | ok n1 =>
    rw [hb] at h
    exact addAdditional_CK cap resolve mid r.additional n1 n' (addBinding_CK cap resolve n n1 r.primary mid hwf hb) h
  | err e => rw [hb] at h; simp at h
  | panic s => rw [hb] at h; simp at h

theorem buildAll_CK (cap : Nat) : ∀ (rs : List (Rule × Nat × (List Bytes → Option Nat))) (n n' : Node),
    CK n → buildAll cap rs n = .ok n' → CK n'
  | [], n, n', hwf, h => by simp only [buildAll] at h; injection h with h; subst h; exact hwf
  | (r, mid, resolve) :: rest, n, n', hwf, h => by
    simp only [buildAll] at h
    cases hr : addRule cap resolve n r mid with
    | ok n1 => rw [hr] at h; exact buildAll_CK cap rest n1 n' (addRule_CK cap resolve n n1 r mid hwf hr) h
    | err e => rw [hr] at h; simp at h
    | panic s => rw [hr] at h; simp at h

/-! ### strictly sorted ⇒ one entry per key -/

theorem UKSegs_of (segs : List (Bytes × Node)) : SortedKV segs → (∀ p ∈ segs, UK p.2) → UKSegs segs := by
  induction segs with
  | nil => intro _ _; simp [UKSegs]
  | cons p rest ih =>
    obtain ⟨k, c⟩ := p
    intro hs hc
    simp only [SortedKV] at hs
    simp only [UKSegs]
    exact ⟨lookupSeg_none_of_gt rest k hs.1, hc (k, c) (by simp),
      ih hs.2 (fun q hq => hc q (List.mem_cons_of_mem _ hq))⟩

mutual
  theorem UK_of_CK : ∀ (n : Node), CK n → UK n
    | .mk segs methods all vars, h => by
      simp only [CK] at h
      simp only [UK]
      exact ⟨UKSegs_of segs h.1 (CKSegs_UK segs h.2.1), CKVars_UK vars h.2.2⟩
  theorem CKSegs_UK : ∀ (segs : List (Bytes × Node)), CKSegs segs → ∀ p ∈ segs, UK p.2
    | [], _, p, hp => by cases hp
    | (k, c) :: rest, h, p, hp => by
      simp only [CKSegs] at h
      rcases List.mem_cons.mp hp with hp | hp
      · subst hp; exact UK_of_CK c h.1
      · exact CKSegs_UK rest h.2 p hp
  theorem CKVars_UK : ∀ (vars : List (Var × Node)), CKVars vars → UKVars vars
    | [], _ => by simp [UKVars]
    | (v, c) :: rest, h => by
      simp only [CKVars] at h
      simp only [UKVars]
      exact ⟨UK_of_CK c h.1, CKVars_UK rest h.2⟩
end

/-- every trie built by accepted registrations holds one entry per segment key. -/
theorem buildAll_UK (cap : Nat) (rs : List (Rule × Nat × (List Bytes → Option Nat))) (t : Node)
    (h : buildAll cap rs .empty = .ok t) : UK t :=
  UK_of_CK t (buildAll_CK cap rs .empty t CK_empty h)

end Larking.Trie
