import Larking.Lemmas.Build
namespace Larking.Trie
open Larking.Lexer

/-- typed key of an edge: the map key of a literal / verb child, or the variable's name. -/
inductive KEdge where
  | seg (key : Bytes)
  | var (name : Bytes)
deriving Repr, DecidableEq

def keyOf : Edge → KEdge
  | .seg k => .seg k
  | .var v => .var v.name

/-- what a node binds: `vk = some verb` → `methods[verb]`, `vk = none` → `methodAll`. -/
def StoredHere (n : Node) (vk : Option Bytes) (m : Meth) : Prop :=
  match vk with
  | some verb => lookupMeth n.methods verb = some m
  | none => n.all = some m

/-- `m` is bound under `vk` at the end of the way with keys `ks` from `n`. -/
def StoredK : Node → List KEdge → Option Bytes → Meth → Prop
  | n, [], vk, m => StoredHere n vk m
  | n, .seg k :: ks, vk, m => ∃ c, lookupSeg n.segs k = some c ∧ StoredK c ks vk m
  | n, .var name :: ks, vk, m => ∃ v c, (v, c) ∈ n.vars ∧ v.name = name ∧ StoredK c ks vk m

theorem StoredK_empty : ∀ (ks : List KEdge) (vk : Option Bytes) (m : Meth), ¬ StoredK .empty ks vk m
  | [], vk, m => by cases vk <;> simp [StoredK, StoredHere, Node.empty, Node.methods, Node.all, lookupMeth]
  | .seg k :: ks, vk, m => by simp [StoredK, Node.empty, Node.segs, lookupSeg]
  | .var n :: ks, vk, m => by simp [StoredK, Node.empty, Node.vars]

theorem lookupSeg_upsert_same (cs : List (Bytes × Node)) (k : Bytes) (v : Node) :
    lookupSeg (upsertSeg cs k v) k = some v := by
  unfold upsertSeg
  induction cs with
  | nil => simp [upsertKV, lookupSeg]
  | cons p rest ih =>
    obtain ⟨k', v'⟩ := p
    unfold upsertKV
    by_cases h : (k' == k) = true
    · simp [h, lookupSeg]
    · simp only [h, Bool.false_eq_true, if_false]
      split
      · simp [lookupSeg]
      · simp [lookupSeg, h, ih]

theorem lookupSeg_upsert_other (cs : List (Bytes × Node)) (k k2 : Bytes) (v : Node) (hne : k ≠ k2) :
    lookupSeg (upsertSeg cs k v) k2 = lookupSeg cs k2 := by
  unfold upsertSeg
  have hne' : (k == k2) = false := by simpa using hne
  induction cs with
  | nil => simp [upsertKV, lookupSeg, hne']
  | cons p rest ih =>
    obtain ⟨k', v'⟩ := p
    unfold upsertKV
    by_cases h : (k' == k) = true
    · have hk : k' = k := by simpa using h
      subst hk
      simp [lookupSeg, hne']
    · simp only [h, Bool.false_eq_true, if_false]
      split
      · simp [lookupSeg, hne']
      · simp only [lookupSeg, ih]

theorem lookupVar_upsert_same (vs : List (Var × Node)) (v : Var) (c : Node) :
    ∃ v', lookupVar (upsertVar vs v c) v.name = some (v', c) ∧ v'.name = v.name := by
  induction vs with
  | nil => exact ⟨v, by simp [upsertVar, lookupVar], rfl⟩
  | cons p rest ih =>
    obtain ⟨v1, c1⟩ := p
    unfold upsertVar
    by_cases h : (v1.name == v.name) = true
    · simp only [h, if_true]
      exact ⟨v1, by simp [lookupVar, h], by simpa using h⟩
    · simp only [h, Bool.false_eq_true, if_false]
      split
      · exact ⟨v, by simp [lookupVar], rfl⟩
      · obtain ⟨v', hv', hn⟩ := ih
        exact ⟨v', by simp [lookupVar, h, hv'], hn⟩

theorem lookupVar_upsert_other (vs : List (Var × Node)) (v : Var) (c : Node) (name : Bytes)
    (hne : v.name ≠ name) : lookupVar (upsertVar vs v c) name = lookupVar vs name := by
  induction vs with
  | nil => simp [upsertVar, lookupVar, hne]
  | cons p rest ih =>
    obtain ⟨v1, c1⟩ := p
    unfold upsertVar
    by_cases h : (v1.name == v.name) = true
    · have hk : v1.name = v.name := by simpa using h
      simp only [h, if_true, lookupVar]
      have : (v1.name == name) = false := by rw [hk]; simpa using hne
      simp [this]
    · simp only [h, Bool.false_eq_true, if_false]
      split
      · simp only [lookupVar]
        have : (v.name == name) = false := by simpa using hne
        simp [this]
      · simp only [lookupVar, ih]

theorem mem_upsertVar (vs : List (Var × Node)) (v : Var) (c : Node) (p : Var × Node)
    (h : p ∈ upsertVar vs v c) : p ∈ vs ∨ (p.2 = c ∧ p.1.name = v.name) := by
  induction vs with
  | nil => simp [upsertVar] at h; subst h; exact Or.inr ⟨rfl, rfl⟩
  | cons q rest ih =>
    obtain ⟨v1, c1⟩ := q
    unfold upsertVar at h
    by_cases hk : (v1.name == v.name) = true
    · simp only [hk, if_true] at h
      rcases List.mem_cons.mp h with h | h
      · subst h; exact Or.inr ⟨rfl, by simpa using hk⟩
      · exact Or.inl (by simp [h])
    · simp only [hk, Bool.false_eq_true, if_false] at h
      split at h
      · rcases List.mem_cons.mp h with h | h
        · subst h; exact Or.inr ⟨rfl, rfl⟩
        · exact Or.inl h
      · rcases List.mem_cons.mp h with h | h
        · exact Or.inl (by simp [h])
        · rcases ih h with h | h
          · exact Or.inl (by simp [h])
          · exact Or.inr h

theorem lookupVar_mem (vs : List (Var × Node)) (name : Bytes) (v : Var) (c : Node)
    (h : lookupVar vs name = some (v, c)) : (v, c) ∈ vs ∧ v.name = name := by
  induction vs with
  | nil => simp [lookupVar] at h
  | cons q rest ih =>
    obtain ⟨v1, c1⟩ := q
    simp only [lookupVar] at h
    split at h
    · rename_i hk
      injection h with h; injection h with h1 h2; subst h1; subst h2
      exact ⟨by simp, by simpa using hk⟩
    · obtain ⟨h1, h2⟩ := ih h
      exact ⟨by simp [h1], h2⟩

theorem lookupMeth_upsert (ms : List (Bytes × Meth)) (k k2 : Bytes) (m : Meth) :
    lookupMeth (upsertMeth ms k m) k2 = if k = k2 then some m else lookupMeth ms k2 := by
  unfold upsertMeth
  induction ms with
  | nil =>
    by_cases h : k = k2 <;> simp [upsertKV, lookupMeth, h]
  | cons p rest ih =>
    obtain ⟨k', m'⟩ := p
    unfold upsertKV
    by_cases hk : (k' == k) = true
    · have : k' = k := by simpa using hk
      subst this
      by_cases h : k' = k2 <;> simp [lookupMeth, h]
    · simp only [hk, Bool.false_eq_true, if_false]
      have hkk : ¬ k = k' := by intro h; subst h; simp at hk
      split
      · by_cases h : k = k2
        · simp [lookupMeth, h]
        · have : (k == k2) = false := by simpa using h
          simp [lookupMeth, h, this]
      · simp only [lookupMeth, ih]
        by_cases h2 : (k' == k2) = true
        · have : k' = k2 := by simpa using h2
          subst this
          simp [hkk]
        · simp [h2]

def verbKey (verb : Bytes) : Option Bytes := if verb == starVerb then none else some verb

/-- `register` only ever adds the new method under the rule's own kind. -/
theorem registerCore_stored (n n' : Node) (verb : Bytes) (mid : Nat) (mk : Unit → Outcome Meth)
    (h : registerCore n verb mid mk = .ok n') (vk : Option Bytes) (m : Meth) (hs : StoredHere n' vk m) :
    StoredHere n vk m ∨ (vk = verbKey verb ∧ mk () = .ok m) := by
  obtain ⟨segs, methods, all, vars⟩ := n
  simp only [registerCore] at h
  split at h
  · split at h
    · cases h
    · injection h with h; subst h; exact Or.inl hs
  · cases hm : mk () with
    | ok m0 =>
      rw [hm] at h
      simp only at h
      split at h
      · rename_i hv
        injection h with h; subst h
        cases vk with
        | none =>
          simp only [StoredHere, Node.all] at hs
          injection hs with hs; subst hs
          exact Or.inr ⟨by simp [verbKey, hv], rfl⟩
        | some v => exact Or.inl (by simpa [StoredHere, Node.methods] using hs)
      · rename_i hv
        injection h with h; subst h
        cases vk with
        | none => exact Or.inl (by simpa [StoredHere, Node.all] using hs)
        | some v =>
          simp only [StoredHere, Node.methods, lookupMeth_upsert] at hs
          split at hs
          · rename_i hvv
            injection hs with hs; subst hs; subst hvv
            exact Or.inr ⟨by simp [verbKey, hv], rfl⟩
          · exact Or.inl (by simpa [StoredHere, Node.methods] using hs)
    | err e => rw [hm] at h; simp at h
    | panic s => rw [hm] at h; simp at h

theorem registerCore_same_structure (n n' : Node) (verb : Bytes) (mid : Nat) (mk : Unit → Outcome Meth)
    (h : registerCore n verb mid mk = .ok n') : n'.segs = n.segs ∧ n'.vars = n.vars := by
  obtain ⟨segs, methods, all, vars⟩ := n
  simp only [registerCore] at h
  split at h
  · split at h
    · cases h
    · injection h with h; subst h; exact ⟨rfl, rfl⟩
  · cases hm : mk () with
    | ok m0 =>
      rw [hm] at h
      simp only at h
      split at h <;> (injection h with h; subst h; exact ⟨rfl, rfl⟩)
    | err e => rw [hm] at h; simp at h
    | panic s => rw [hm] at h; simp at h

/-- `register` only ever adds the new method under the rule's own kind. -/
theorem register_stored (n n' : Node) (verb : Bytes) (mid : Nat) (mk : Unit → Outcome Meth)
    (h : register n verb mid mk = .ok n') (vk : Option Bytes) (m : Meth) (hs : StoredHere n' vk m) :
    StoredHere n vk m ∨ (vk = verbKey verb ∧ mk () = .ok m) := by
  obtain ⟨m0, hm, hc⟩ := register_ok n n' verb mid mk h
  rcases registerCore_stored n n' verb mid _ hc vk m hs with h1 | ⟨h1, h2⟩
  · exact Or.inl h1
  · injection h2 with h2; subst h2; exact Or.inr ⟨h1, hm⟩

theorem register_same_structure (n n' : Node) (verb : Bytes) (mid : Nat) (mk : Unit → Outcome Meth)
    (h : register n verb mid mk = .ok n') : n'.segs = n.segs ∧ n'.vars = n.vars := by
  obtain ⟨m0, _, hc⟩ := register_ok n n' verb mid mk h
  exact registerCore_same_structure n n' verb mid _ hc

/-- **provenance of one insertion**: whatever is bound in the trie afterwards was bound
before, or is the new method at exactly the way of the inserted binding. -/
theorem insertAt_stored (verb : Bytes) (mid : Nat) (mk : Unit → Outcome Meth) :
    ∀ (es : List Edge) (n n' : Node),
    insertAt n es (fun node => register node verb mid mk) = .ok n' →
    ∀ (ks : List KEdge) (vk : Option Bytes) (m : Meth), StoredK n' ks vk m →
      StoredK n ks vk m ∨ (ks = es.map keyOf ∧ vk = verbKey verb ∧ mk () = .ok m)
  | [], n, n', h, ks, vk, m, hs => by
    simp only [insertAt] at h
    cases ks with
    | nil =>
      rcases register_stored n n' verb mid mk h vk m hs with h1 | h1
      · exact Or.inl h1
      · exact Or.inr ⟨rfl, h1⟩
    | cons k ks =>
      obtain ⟨hsegs, hvars⟩ := register_same_structure n n' verb mid mk h
      left
      cases k with
      | seg key => simp only [StoredK] at hs ⊢; rw [hsegs] at hs; exact hs
      | var name => simp only [StoredK] at hs ⊢; rw [hvars] at hs; exact hs
  | .seg key :: more, .mk segs methods all vars, n', h, ks, vk, m, hs => by
    simp only [insertAt] at h
    cases hr : insertAt ((lookupSeg segs key).getD .empty) more (fun node => register node verb mid mk) with
    | ok c =>
      rw [hr] at h
      simp only at h
      injection h with h; subst h
      have ih := insertAt_stored verb mid mk more _ c hr
      cases ks with
      | nil => exact Or.inl (by cases vk <;> simpa [StoredK, StoredHere, Node.methods, Node.all] using hs)
      | cons k ks =>
        cases k with
        | var name => exact Or.inl (by simpa [StoredK, Node.vars] using hs)
        | seg key2 =>
          simp only [StoredK, Node.segs] at hs ⊢
          obtain ⟨c2, hl, hst⟩ := hs
          by_cases hk : key = key2
          · subst hk
            rw [lookupSeg_upsert_same] at hl
            injection hl with hl; subst hl
            rcases ih ks vk m hst with h1 | h1
            · cases hlk : lookupSeg segs key with
              | none => rw [hlk] at h1; simp at h1; exact absurd h1 (StoredK_empty _ _ _)
              | some c0 => rw [hlk] at h1; simp at h1; exact Or.inl ⟨c0, rfl, h1⟩
            · exact Or.inr ⟨by simp [keyOf, h1.1], h1.2⟩
          · rw [lookupSeg_upsert_other _ _ _ _ hk] at hl
            exact Or.inl ⟨c2, hl, hst⟩
    | err e => rw [hr] at h; simp at h
    | panic s => rw [hr] at h; simp at h
  | .var v :: more, .mk segs methods all vars, n', h, ks, vk, m, hs => by
    simp only [insertAt] at h
    cases hr : insertAt (varChild vars v.name) more (fun node => register node verb mid mk) with
    | ok c =>
      rw [hr] at h
      simp only at h
      injection h with h; subst h
      have ih := insertAt_stored verb mid mk more _ c hr
      cases ks with
      | nil => exact Or.inl (by cases vk <;> simpa [StoredK, StoredHere, Node.methods, Node.all] using hs)
      | cons k ks =>
        cases k with
        | seg key2 => exact Or.inl (by simpa [StoredK, Node.segs] using hs)
        | var name =>
          simp only [StoredK, Node.vars] at hs ⊢
          obtain ⟨v2, c2, hmem, hname, hst⟩ := hs
          rcases mem_upsertVar vars v c (v2, c2) hmem with hold | ⟨hc, hvn⟩
          · exact Or.inl ⟨v2, c2, hold, hname, hst⟩
          · simp only at hc hvn
            subst hc
            rcases ih ks vk m hst with h1 | h1
            · unfold varChild at h1
              cases hlk : lookupVar vars v.name with
              | none => rw [hlk] at h1; simp at h1; exact absurd h1 (StoredK_empty _ _ _)
              | some p0 =>
                obtain ⟨v0, c0⟩ := p0
                rw [hlk] at h1; simp at h1
                obtain ⟨hm0, hn0⟩ := lookupVar_mem vars v.name v0 c0 hlk
                exact Or.inl ⟨v0, c0, hm0, by rw [hn0, ← hvn, hname], h1⟩
            · exact Or.inr ⟨by simp [keyOf, h1.1, ← hname, hvn], h1.2⟩
    | err e => rw [hr] at h; simp at h
    | panic s => rw [hr] at h; simp at h

end Larking.Trie

namespace Larking.Trie
open Larking.Lexer

/-- a way found by the search ends at a node that binds the method — under the request's verb
or under '*'. -/
theorem Reach_stored (conv) (verb) : ∀ (n : Node) (toks : List Tok) (m : Meth) (caps : Caps) (es : List Edge),
    Reach conv verb n toks m caps es →
    StoredK n (es.map keyOf) (some verb) m ∨ StoredK n (es.map keyOf) none m := by
  intro n toks m caps es h
  induction h with
  | hereVerb n toks m _ hl => exact Or.inl (by simpa [StoredK, StoredHere] using hl)
  | hereAll n toks m _ _ ha => exact Or.inr (by simpa [StoredK, StoredHere] using ha)
  | seg n child t0 t1 rest m caps es hl _ ih =>
    rcases ih with h | h
    · exact Or.inl (by simp only [List.map_cons, keyOf, StoredK]; exact ⟨child, hl, h⟩)
    · exact Or.inr (by simp only [List.map_cons, keyOf, StoredK]; exact ⟨child, hl, h⟩)
  | var n child v t0 toks1 i m caps es fp _ hmem _ _ _ _ _ _ ih =>
    rcases ih with h | h
    · exact Or.inl (by simp only [List.map_cons, keyOf, StoredK]; exact ⟨v, child, hmem, rfl, h⟩)
    · exact Or.inr (by simp only [List.map_cons, keyOf, StoredK]; exact ⟨v, child, hmem, rfl, h⟩)

/-- an accepted binding, seen from the trie's side. -/
def Origin (cap : Nat) (resolve : List Bytes → Option Nat) (b : Binding) (mid : Nat)
    (ks : List KEdge) (vk : Option Bytes) (m : Meth) : Prop :=
  ∃ toks parsed, lexTemplate cap b.tmpl = .ok toks ∧
    parseToks resolve (toks.length + 1) toks = .ok parsed ∧
    ks = parsed.edges.map keyOf ∧ vk = verbKey b.verb ∧ m = ⟨mid, parsed.varfds, b.rule⟩

theorem addBinding_stored (cap : Nat) (resolve) (n n' : Node) (b : Binding) (mid : Nat)
    (h : addBinding cap resolve n b mid = .ok n') (ks : List KEdge) (vk : Option Bytes) (m : Meth)
    (hs : StoredK n' ks vk m) : StoredK n ks vk m ∨ Origin cap resolve b mid ks vk m := by
  simp only [addBinding] at h
  split at h
  · simp at h
  · simp at h
  · rename_i toks hlex
    split at h
    · simp at h
    · simp at h
    · rename_i p hp
      rcases insertAt_stored b.verb mid _ p.edges n n' h ks vk m hs with h1 | ⟨hk, hv, hm⟩
      · exact Or.inl h1
      · right
        split at hm
        · simp at hm
        · split at hm
          · simp at hm
          · injection hm with hm
            exact ⟨toks, p, hlex, hp, hk, hv, hm.symm⟩

/-- all bindings of a rule (primary first). -/
def Rule.bindings (r : Rule) : List Binding := r.primary :: r.additional.map (·.1)

theorem addAdditional_stored (cap : Nat) (resolve) (mid : Nat) :
    ∀ (adds : List (Binding × Bool)) (n n' : Node), addAdditional cap resolve mid n adds = .ok n' →
    ∀ ks vk m, StoredK n' ks vk m →
      StoredK n ks vk m ∨ ∃ b ∈ adds.map (·.1), Origin cap resolve b mid ks vk m
  | [], n, n', h, ks, vk, m, hs => by
    simp only [addAdditional] at h; injection h with h; subst h; exact Or.inl hs
  | (b, nested) :: more, n, n', h, ks, vk, m, hs => by
    simp only [addAdditional] at h
    split at h
    · simp at h
    · cases hb : addBinding cap resolve n b mid with
      | ok n1 =>
        rw [hb] at h
        rcases addAdditional_stored cap resolve mid more n1 n' h ks vk m hs with h1 | ⟨b', hb', ho⟩
        · rcases addBinding_stored cap resolve n n1 b mid hb ks vk m h1 with h2 | h2
          · exact Or.inl h2
          · exact Or.inr ⟨b, by simp, h2⟩
        · exact Or.inr ⟨b', by simp [hb'], ho⟩
      | err e => rw [hb] at h; simp at h
      | panic s => rw [hb] at h; simp at h

theorem addRule_stored (cap : Nat) (resolve) (n n' : Node) (r : Rule) (mid : Nat)
    (h : addRule cap resolve n r mid = .ok n') (ks : List KEdge) (vk : Option Bytes) (m : Meth)
    (hs : StoredK n' ks vk m) :
    StoredK n ks vk m ∨ ∃ b ∈ r.bindings, Origin cap resolve b mid ks vk m := by
  simp only [addRule] at h
  cases hb : addBinding cap resolve n r.primary mid with
  | ok n1 =>
    rw [hb] at h
    rcases addAdditional_stored cap resolve mid r.additional n1 n' h ks vk m hs with h1 | ⟨b', hb', ho⟩
    · rcases addBinding_stored cap resolve n n1 r.primary mid hb ks vk m h1 with h2 | h2
      · exact Or.inl h2
      · exact Or.inr ⟨r.primary, by simp [Rule.bindings], h2⟩
    · exact Or.inr ⟨b', by simp [Rule.bindings, hb'], ho⟩
  | err e => rw [hb] at h; simp at h
  | panic s => rw [hb] at h; simp at h

/-- registering a list of (rule, method, field resolver) in order; stops at the first error. -/
def buildAll (cap : Nat) : List (Rule × Nat × (List Bytes → Option Nat)) → Node → Outcome Node
  | [], n => .ok n
  | (r, mid, resolve) :: rest, n =>
    match addRule cap resolve n r mid with
    | .ok n' => buildAll cap rest n'
    | .err k => .err k
    | .panic s => .panic s

theorem buildAll_WF (cap : Nat) : ∀ (rs : List (Rule × Nat × (List Bytes → Option Nat))) (n n' : Node),
    WF 0 n → buildAll cap rs n = .ok n' → WF 0 n'
  | [], n, n', hwf, h => by simp only [buildAll] at h; injection h with h; subst h; exact hwf
  | (r, mid, resolve) :: rest, n, n', hwf, h => by
    simp only [buildAll] at h
    cases hr : addRule cap resolve n r mid with
    | ok n1 => rw [hr] at h; exact buildAll_WF cap rest n1 n' (addRule_WF cap resolve n n1 r mid hwf hr) h
    | err e => rw [hr] at h; simp at h
    | panic s => rw [hr] at h; simp at h

theorem buildAll_stored (cap : Nat) : ∀ (rs : List (Rule × Nat × (List Bytes → Option Nat))) (n n' : Node),
    buildAll cap rs n = .ok n' → ∀ ks vk m, StoredK n' ks vk m →
    StoredK n ks vk m ∨ ∃ e ∈ rs, ∃ b ∈ e.1.bindings, Origin cap e.2.2 b e.2.1 ks vk m
  | [], n, n', h, ks, vk, m, hs => by
    simp only [buildAll] at h; injection h with h; subst h; exact Or.inl hs
  | (r, mid, resolve) :: rest, n, n', h, ks, vk, m, hs => by
    simp only [buildAll] at h
    cases hr : addRule cap resolve n r mid with
    | ok n1 =>
      rw [hr] at h
      rcases buildAll_stored cap rest n1 n' h ks vk m hs with h1 | ⟨e, he, b, hb, ho⟩
      · rcases addRule_stored cap resolve n n1 r mid hr ks vk m h1 with h2 | ⟨b, hb, ho⟩
        · exact Or.inl h2
        · exact Or.inr ⟨(r, mid, resolve), by simp, b, hb, ho⟩
      · exact Or.inr ⟨e, by simp [he], b, hb, ho⟩
    | err e => rw [hr] at h; simp at h
    | panic s => rw [hr] at h; simp at h

/-- **Routing soundness** (C01). For every accepted list of rules, every verb and every path:
if the request is dispatched to a method then
* the path lexes into tokens and there is a way through the trie whose edges match exactly
  those tokens and yield exactly the reported captures (`Reach`), and
* the method was bound at the end of that way by one of the accepted bindings of that very
  method — same literal / verb keys, same variable-pattern texts, the binding's own field
  paths — whose kind is the request's verb or '*'.
Nothing else can be dispatched. -/
theorem route_sound (cap : Nat) (conv) (rs : List (Rule × Nat × (List Bytes → Option Nat))) (t : Node)
    (hb : buildAll cap rs .empty = .ok t) (path : List Rune) (verb : Bytes) (m : Meth) (caps : Caps)
    (hroute : matchPath cap conv t path verb = .found m caps) :
    ∃ ptoks es, lexPath cap path = .ok ptoks ∧ Reach conv verb t ptoks m caps es ∧
      ∃ e ∈ rs, ∃ b ∈ e.1.bindings, m.mid = e.2.1 ∧ (b.verb = verb ∨ b.verb = starVerb) ∧
        ∃ toks p, lexTemplate cap b.tmpl = .ok toks ∧ parseToks e.2.2 (toks.length + 1) toks = .ok p ∧
          es.map keyOf = p.edges.map keyOf ∧ m.vars = p.varfds := by
  simp only [matchPath] at hroute
  split at hroute
  · rename_i ptoks hlex
    obtain ⟨es, hre⟩ := search_sound conv verb t ptoks m caps hroute
    refine ⟨ptoks, es, hlex, hre, ?_⟩
    have hst := Reach_stored conv verb t ptoks m caps es hre
    have key : ∀ vk, StoredK t (es.map keyOf) vk m → (vk = some verb ∨ vk = none) →
        ∃ e ∈ rs, ∃ b ∈ e.1.bindings, m.mid = e.2.1 ∧ (b.verb = verb ∨ b.verb = starVerb) ∧
          ∃ toks p, lexTemplate cap b.tmpl = .ok toks ∧ parseToks e.2.2 (toks.length + 1) toks = .ok p ∧
            es.map keyOf = p.edges.map keyOf ∧ m.vars = p.varfds := by
      intro vk hs hvk
      rcases buildAll_stored cap rs .empty t hb _ vk m hs with h1 | ⟨e, he, b, hbb, ho⟩
      · exact absurd h1 (StoredK_empty _ _ _)
      · obtain ⟨otoks, oparsed, olexed, oparses, okeys, okind, ometh⟩ := ho
        refine ⟨e, he, b, hbb, by rw [ometh], ?_, otoks, oparsed, olexed, oparses, okeys, by rw [ometh]⟩
        have hk := okind
        unfold verbKey at hk
        rcases hvk with hvk | hvk
        · subst hvk
          split at hk
          · cases hk
          · injection hk with hk; exact Or.inl hk.symm
        · subst hvk
          split at hk
          · rename_i hv; exact Or.inr (by simpa using hv)
          · cases hk
    rcases hst with h | h
    · exact key _ h (Or.inl rfl)
    · exact key _ h (Or.inr rfl)
  · cases hroute
  · cases hroute

theorem emit_no_panic (cap : Nat) (toks : List Tok) (t : Tok) (s : String) : emit cap toks t ≠ .panic s := by
  unfold emit; split <;> simp

theorem fail_no_panic (cap : Nat) (toks : List Tok) (k s : String) : fail cap toks k ≠ .panic s := by
  unfold fail
  have := emit_no_panic cap toks ⟨.error, []⟩
  split <;> simp_all

theorem lexRun_no_panic (cap : Nat) (p : Rune → Bool) (ty : TokTy) (st : St) (s : String) :
    lexRun cap p ty st ≠ .panic s := by
  unfold lexRun
  simp only
  split
  · exact fail_no_panic _ _ _ _
  · have := emit_no_panic cap st.toks ⟨ty, runesBytes (span p st.rest).1⟩
    split <;> simp_all

theorem emitOne_no_panic (cap : Nat) (ty : TokTy) (r : Rune) (st : St) (rest : List Rune) (s : String) :
    emitOne cap ty r st rest ≠ .panic s := by
  unfold emitOne
  have := emit_no_panic cap st.toks ⟨ty, r.bytes⟩
  split <;> simp_all

theorem lexPathLoop_no_panic (cap : Nat) : ∀ (fuel : Nat) (st : St) (s : String),
    lexPathLoop cap fuel st ≠ .panic s := by
  intro fuel
  induction fuel with
  | zero => intro st s; simp only [lexPathLoop]; exact emit_no_panic _ _ _ _
  | succ fuel ih =>
    intro st s
    unfold lexPathLoop
    split
    · exact emit_no_panic _ _ _ _
    · rename_i r rest _
      split
      · cases he : emitOne cap (if r.ch == cSlash then TokTy.slash else TokTy.verb) r st rest with
        | ok s1 =>
          simp only
          cases hl : lexRun cap (·.path) .path s1 with
          | ok s2 => simp only; exact ih _ _
          | err k => simp
          | panic x => exact absurd hl (lexRun_no_panic _ _ _ _ _)
        | err k => simp
        | panic x => exact absurd he (emitOne_no_panic _ _ _ _ _ _)
      · have := fail_no_panic cap st.toks "unexpected"
        simp only [Outcome.map, Outcome.bind]
        split <;> simp_all

/-- no request can crash the router once the rules were accepted (C01 / C09). -/
theorem route_no_panic (cap : Nat) (conv) (rs : List (Rule × Nat × (List Bytes → Option Nat))) (t : Node)
    (hb : buildAll cap rs .empty = .ok t) (path : List Rune) (verb : Bytes) :
    ∀ s, matchPath cap conv t path verb ≠ .panic s := by
  intro s
  have hwf := buildAll_WF cap rs .empty t (WF_empty 0) hb
  simp only [matchPath]
  split
  · exact search_no_panic conv verb t _ hwf s
  · simp
  · rename_i s' hl
    exact absurd hl (lexPathLoop_no_panic cap _ _ s')

end Larking.Trie
