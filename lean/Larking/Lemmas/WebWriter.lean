import Larking.Model.WebWriter
namespace Larking.Web
open Larking.Metadata

theorem lookup_setKey_same (m : MD) (k : Bytes) (vs : List Bytes) : lookup (setKey m k vs) k = some vs := by
  unfold setKey lookup
  split
  · rename_i h
    induction m with
    | nil => simp at h
    | cons kv m ih =>
      simp only [List.map_cons, List.find?_cons]
      by_cases hk : kv.1 == k
      · simp [hk]
      · have hk' : (kv.1 == k) = false := by simpa using hk
        simp only [hk', Bool.false_eq_true, if_false]
        simp only [List.any_cons, hk', Bool.false_or] at h
        exact ih h
  · rename_i h
    have hn : ∀ kv ∈ m, (kv.1 == k) = false := by
      intro kv hkv
      cases hb : kv.1 == k with
      | false => rfl
      | true => exact absurd (List.any_eq_true.mpr ⟨kv, hkv, hb⟩) h
    rw [List.find?_append]
    have : m.find? (fun kv => kv.1 == k) = none := by
      rw [List.find?_eq_none]; intro kv hkv; simp [hn kv hkv]
    simp [this]

theorem find_map_other (m : MD) (k k' : Bytes) (vs : List Bytes) (h : k' ≠ k) :
    (m.map (fun kv => if kv.1 == k then (k, vs) else kv)).find? (fun kv => kv.1 == k')
      = m.find? (fun kv => kv.1 == k') := by
  induction m with
  | nil => rfl
  | cons kv m ih =>
    rw [List.map_cons, List.find?_cons, List.find?_cons]
    have h1 : (k == k') = false := by simp; exact fun e => h e.symm
    by_cases hk : kv.1 == k
    · have hkk : kv.1 = k := by simpa using hk
      have h2 : (kv.1 == k') = false := by rw [hkk]; exact h1
      simp only [hk, if_true, h1, h2]
      exact ih
    · have hk' : (kv.1 == k) = false := by simpa using hk
      simp only [hk', Bool.false_eq_true, if_false]
      cases hkk : kv.1 == k'
      · exact ih
      · rfl

theorem lookup_setKey_other (m : MD) (k k' : Bytes) (vs : List Bytes) (h : k' ≠ k) :
    lookup (setKey m k vs) k' = lookup m k' := by
  unfold setKey lookup
  split
  · rw [find_map_other m k k' vs h]
  · rw [List.find?_append]
    have h1 : (k == k') = false := by simp; exact fun e => h e.symm
    cases hf : m.find? (fun kv => kv.1 == k') <;> simp [h1]

/-- keys of the map are unchanged by an assignment to an existing key, extended otherwise. -/
theorem mem_keys_setKey (m : MD) (k : Bytes) (vs : List Bytes) (x : Bytes) :
    x ∈ (setKey m k vs).map (·.1) ↔ x ∈ m.map (·.1) ∨ x = k := by
  unfold setKey
  split
  · rename_i h
    obtain ⟨kv0, hkv0, hk0⟩ := List.any_eq_true.mp h
    have hk0' : kv0.1 = k := by simpa using hk0
    simp only [List.map_map, List.mem_map, Function.comp]
    constructor
    · rintro ⟨kv, hkv, rfl⟩
      by_cases hk : kv.1 == k
      · right; simp [hk]
      · left; exact ⟨kv, hkv, by simp [hk]⟩
    · rintro (⟨kv, hkv, rfl⟩ | rfl)
      · refine ⟨kv, hkv, ?_⟩
        by_cases hk : kv.1 == k
        · simp [hk]; exact (by simpa using hk : kv.1 = k).symm
        · simp [hk]
      · exact ⟨kv0, hkv0, by simp [hk0]⟩
  · simp [List.mem_append]

/-- the discipline `seeHeaders` establishes: no trailer key is ever "seen". -/
def SeenOK (w : W) : Prop := ∀ k ∈ w.seen, trailerPrefix.isPrefixOf k = false

theorem seeHeaders_ok (ct : Bytes) (w : W) : SeenOK (seeHeaders ct w) := by
  intro k hk
  simp only [seeHeaders, List.mem_filter] at hk
  simpa using hk.2

theorem step_ok (ct : Bytes) (w : W) (op : Op) (h : SeenOK w) : SeenOK (step ct w op) := by
  cases op with
  | set k vs => exact h
  | del k => exact h
  | write =>
    simp only [step]
    split
    · exact h
    · exact seeHeaders_ok ct w
  | writeHeader => exact seeHeaders_ok ct w

theorem run_ok (ct : Bytes) (ops : List Op) : SeenOK (run ct ops) := by
  unfold run
  suffices ∀ w, SeenOK w → SeenOK (ops.foldl (step ct) w) from this init (by intro k hk; simp [init] at hk)
  induction ops with
  | nil => intro w h; exact h
  | cons op ops ih => intro w h; exact ih _ (step_ok ct w op h)

/-- the fold of `writeTrailer`: the final value under a trailer key is that of the last unseen
entry mapping to it; if exactly one unseen entry maps to it, it is that entry's. -/
theorem trailerMapOf_lookup (seen : List Bytes) (order : MD) (kv : Bytes × List Bytes)
    (hmem : kv ∈ order) (hunseen : seen.contains kv.1 = false)
    (huniq : ∀ kv' ∈ order, seen.contains kv'.1 = false → trailerKey kv'.1 = trailerKey kv.1 → kv' = kv) :
    lookup (trailerMapOf seen order) (trailerKey kv.1) = some kv.2 := by
  unfold trailerMapOf
  -- generalise the accumulator: either the entry is still to come, or it is already in with the right value
  suffices ∀ (acc : MD) (rest : MD),
      (∀ kv' ∈ rest, seen.contains kv'.1 = false → trailerKey kv'.1 = trailerKey kv.1 → kv' = kv) →
      (kv ∈ rest ∨ lookup acc (trailerKey kv.1) = some kv.2) →
      lookup (rest.foldl (fun tr kv => if seen.contains kv.1 then tr else setKey tr (trailerKey kv.1) kv.2) acc)
        (trailerKey kv.1) = some kv.2 from this [] order huniq (Or.inl hmem)
  intro acc rest
  induction rest generalizing acc with
  | nil =>
    intro _ h
    rcases h with h | h
    · simp at h
    · exact h
  | cons x rest ih =>
    intro hu h
    simp only [List.foldl_cons]
    apply ih
    · intro kv' hkv'; exact hu kv' (by simp [hkv'])
    · by_cases hx : x = kv
      · right; subst hx; simp only [hunseen, Bool.false_eq_true, if_false]; exact lookup_setKey_same _ _ _
      · rcases h with h | h
        · left; simp only [List.mem_cons] at h; rcases h with h | h
          · exact absurd h.symm hx
          · exact h
        · right
          by_cases hs : seen.contains x.1
          · simp only [hs, if_true]; exact h
          · have hs' : seen.contains x.1 = false := by simpa using hs
            simp only [hs', Bool.false_eq_true, if_false]
            rw [lookup_setKey_other _ _ _ _ (by
              intro e; exact hx (hu x (by simp) hs' e.symm))]
            exact h

/-- every entry of the trailer map comes from an unseen header entry (nothing is invented). -/
theorem trailerMapOf_sound (seen : List Bytes) (order : MD) (k : Bytes) (vs : List Bytes)
    (h : lookup (trailerMapOf seen order) k = some vs) :
    ∃ kv ∈ order, seen.contains kv.1 = false ∧ trailerKey kv.1 = k ∧ kv.2 = vs := by
  unfold trailerMapOf at h
  suffices ∀ (acc rest : MD),
      lookup (rest.foldl (fun tr kv => if seen.contains kv.1 then tr else setKey tr (trailerKey kv.1) kv.2) acc) k = some vs →
      (lookup acc k = some vs ∨ ∃ kv ∈ rest, seen.contains kv.1 = false ∧ trailerKey kv.1 = k ∧ kv.2 = vs) by
    rcases this [] order h with h | h
    · simp [lookup] at h
    · exact h
  intro acc rest
  induction rest generalizing acc with
  | nil => intro h; exact Or.inl h
  | cons x rest ih =>
    intro h
    simp only [List.foldl_cons] at h
    rcases ih _ h with h1 | ⟨kv, hkv, h2⟩
    · by_cases hs : seen.contains x.1
      · simp only [hs, if_true] at h1; exact Or.inl h1
      · have hs' : seen.contains x.1 = false := by simpa using hs
        simp only [hs', Bool.false_eq_true, if_false] at h1
        by_cases hk : k = trailerKey x.1
        · subst hk
          rw [lookup_setKey_same] at h1
          exact Or.inr ⟨x, by simp, hs', rfl, by simpa using h1⟩
        · rw [lookup_setKey_other _ _ _ _ hk] at h1
          exact Or.inl h1
    · exact Or.inr ⟨kv, by simp [hkv], h2⟩

end Larking.Web
