import Larking.Model.Registry
namespace Larking.Registry

/-! ### the route table -/

theorem routeOf_append_left (a b : List (Nat × Nat)) (k m : Nat) (h : routeOf a k = some m) :
    routeOf (a ++ b) k = some m := by
  induction a with
  | nil => simp [routeOf] at h
  | cons e rest ih =>
    obtain ⟨k', m'⟩ := e
    simp only [List.cons_append, routeOf] at h ⊢
    split
    · rename_i hk; simpa [hk] using h
    · rename_i hk; simp only [hk, if_false] at h; exact ih h

theorem routeOf_append_none (a : List (Nat × Nat)) (k m : Nat) (h : routeOf a k = none) :
    routeOf (a ++ [(k, m)]) k = some m := by
  induction a with
  | nil => simp [routeOf]
  | cons e rest ih =>
    obtain ⟨k', m'⟩ := e
    simp only [List.cons_append, routeOf] at h ⊢
    split
    · rename_i hk; simp [hk] at h
    · rename_i hk; simp only [hk, if_false] at h; exact ih h

theorem addRule_old (routes r : List (Nat × Nat)) (key m k m' : Nat)
    (h : addRule routes key m = some r) (ho : routeOf routes k = some m') : routeOf r k = some m' := by
  unfold addRule at h
  split at h
  · split at h
    · injection h with h; subst h; exact ho
    · simp at h
  · injection h with h; subst h; exact routeOf_append_left _ _ _ _ ho

theorem addRule_new (routes r : List (Nat × Nat)) (key m : Nat)
    (h : addRule routes key m = some r) : routeOf r key = some m := by
  unfold addRule at h
  split at h
  · rename_i m' hm'
    split at h
    · rename_i heq; injection h with h; subst h; subst heq; exact hm'
    · simp at h
  · rename_i hn; injection h with h; subst h; exact routeOf_append_none _ _ _ hn

theorem addRules_old : ∀ (keys : List Nat) (routes r : List (Nat × Nat)) (m k m' : Nat),
    addRules routes keys m = some r → routeOf routes k = some m' → routeOf r k = some m' := by
  intro keys
  induction keys with
  | nil => intro routes r m k m' h ho; simp [addRules] at h; subst h; exact ho
  | cons key rest ih =>
    intro routes r m k m' h ho
    simp only [addRules] at h
    split at h
    · simp at h
    · rename_i r1 h1
      exact ih r1 r m k m' h (addRule_old _ _ _ _ _ _ h1 ho)

theorem addRules_new : ∀ (keys : List Nat) (routes r : List (Nat × Nat)) (m : Nat),
    addRules routes keys m = some r → ∀ k ∈ keys, routeOf r k = some m := by
  intro keys
  induction keys with
  | nil => intro routes r m _ k hk; simp at hk
  | cons key rest ih =>
    intro routes r m h k hk
    simp only [addRules] at h
    split at h
    · simp at h
    · rename_i r1 h1
      simp only [List.mem_cons] at hk
      rcases hk with hk | hk
      · subst hk; exact addRules_old rest r1 r m k m h (addRule_new _ _ _ _ h1)
      · exact ih r1 r m h k hk

theorem routeOf_eraseIdx : ∀ (routes : List (Nat × Nat)) (i : Nat) (e : Nat × Nat) (k m : Nat),
    routes[i]? = some e → e.2 ≠ m → routeOf routes k = some m →
    routeOf (routes.eraseIdx i) k = some m := by
  intro routes
  induction routes with
  | nil => intro i e k m hi; simp at hi
  | cons x rest ih =>
    intro i e k m hi hne ho
    obtain ⟨k', m'⟩ := x
    cases i with
    | zero =>
      simp only [List.getElem?_cons_zero, Option.some.injEq] at hi
      subst hi
      simp only [List.eraseIdx_cons_zero]
      simp only [routeOf] at ho
      split at ho
      · injection ho with ho; exact absurd ho hne
      · exact ho
    | succ j =>
      simp only [List.getElem?_cons_succ] at hi
      simp only [List.eraseIdx_cons_succ, routeOf] at ho ⊢
      split
      · rename_i hk; simpa [hk] using ho
      · rename_i hk; simp only [hk, if_false] at ho; exact ih j e k m hi hne ho

/-- **`delRule` never touches another method's routes**, whichever rule it finds. -/
theorem delRule_other (ch : Chooser) (routes : List (Nat × Nat)) (name k m : Nat)
    (ho : routeOf routes k = some m) (hne : m ≠ name) :
    routeOf (delRule ch routes name) k = some m := by
  unfold delRule
  cases hch : ch routes name with
  | none => exact ho
  | some i =>
    simp only
    cases he : routes[i]? with
    | none => exact ho
    | some e =>
      simp only
      split
      · rename_i hen
        exact routeOf_eraseIdx routes i e k m he (by rw [hen]; exact fun h => hne h.symm) ho
      · exact ho

/-! ### removeHandler -/

theorem removeOne_handlers (ch : Chooser) (s : St) (hd : H)
    (hmeth : ∀ m h, h ∈ s.handlers m → h.method = m) (m : Nat) :
    (removeOne ch s hd).handlers m = (s.handlers m).filter (fun h => h ≠ hd) := by
  unfold removeOne
  by_cases hm : m = hd.method
  · subst hm
    simp only
    split
    · rename_i he; rw [he]; simp [put]
    · simp [put]
  · have hnot : hd ∉ s.handlers m := fun hin => hm (hmeth m hd hin).symm
    have hid : (s.handlers m).filter (fun h => h ≠ hd) = s.handlers m := by
      rw [List.filter_eq_self]
      intro a ha
      simp only [ne_eq, decide_not, Bool.not_eq_eq_eq_not, Bool.not_true, decide_eq_false_iff_not]
      intro heq; subst heq; exact hnot ha
    rw [hid]
    simp only
    split <;> simp [put, hm]

theorem removeOne_conns (ch : Chooser) (s : St) (hd : H) : (removeOne ch s hd).conns = s.conns := by
  unfold removeOne; simp only; split <;> rfl

theorem removeOne_next (ch : Chooser) (s : St) (hd : H) : (removeOne ch s hd).next = s.next := by
  unfold removeOne; simp only; split <;> rfl

theorem foldl_removeOne_handlers (ch : Chooser) : ∀ (hds : List H) (s : St),
    (∀ m h, h ∈ s.handlers m → h.method = m) → ∀ m,
    (hds.foldl (removeOne ch) s).handlers m = (s.handlers m).filter (fun h => h ∉ hds) := by
  intro hds
  induction hds with
  | nil =>
    intro s _ m
    simp only [List.foldl_nil, List.not_mem_nil, not_false_eq_true, decide_true]
    exact (List.filter_eq_self.mpr (fun _ _ => rfl)).symm
  | cons hd rest ih =>
    intro s hmeth m
    simp only [List.foldl_cons]
    have hmeth1 : ∀ m h, h ∈ (removeOne ch s hd).handlers m → h.method = m := by
      intro m h hin
      rw [removeOne_handlers ch s hd hmeth m] at hin
      exact hmeth m h (List.mem_filter.mp hin).1
    rw [ih (removeOne ch s hd) hmeth1 m, removeOne_handlers ch s hd hmeth m, List.filter_filter]
    apply List.filter_congr
    intro a _
    by_cases h1 : a ∈ rest <;> by_cases h2 : a = hd <;> simp [h1, h2]

theorem foldl_removeOne_conns (ch : Chooser) : ∀ (hds : List H) (s : St),
    (hds.foldl (removeOne ch) s).conns = s.conns := by
  intro hds
  induction hds with
  | nil => intro s; rfl
  | cons hd rest ih => intro s; simp only [List.foldl_cons]; rw [ih, removeOne_conns]

theorem foldl_removeOne_next (ch : Chooser) : ∀ (hds : List H) (s : St),
    (hds.foldl (removeOne ch) s).next = s.next := by
  intro hds
  induction hds with
  | nil => intro s; rfl
  | cons hd rest ih => intro s; simp only [List.foldl_cons]; rw [ih, removeOne_next]

/-- routes of methods that keep a handler survive the whole removal loop. -/
theorem foldl_removeOne_routes (ch : Chooser) : ∀ (hds : List H) (s : St),
    (∀ m h, h ∈ s.handlers m → h.method = m) → ∀ m k,
    (hds.foldl (removeOne ch) s).handlers m ≠ [] → routeOf s.routes k = some m →
    routeOf (hds.foldl (removeOne ch) s).routes k = some m := by
  intro hds
  induction hds with
  | nil => intro s _ m k _ ho; exact ho
  | cons hd rest ih =>
    intro s hmeth m k hne ho
    simp only [List.foldl_cons] at hne ⊢
    have hmeth1 : ∀ m h, h ∈ (removeOne ch s hd).handlers m → h.method = m := by
      intro m h hin
      rw [removeOne_handlers ch s hd hmeth m] at hin
      exact hmeth m h (List.mem_filter.mp hin).1
    apply ih (removeOne ch s hd) hmeth1 m k hne
    -- the route survives this iteration
    have hs1 : (removeOne ch s hd).handlers m ≠ [] := by
      intro he
      rw [foldl_removeOne_handlers ch rest _ hmeth1 m, he] at hne
      simp at hne
    unfold removeOne at hs1 ⊢
    simp only at hs1 ⊢
    split
    · rename_i he
      simp only [he, if_true] at hs1
      by_cases hm : m = hd.method
      · subst hm; simp [put] at hs1
      · exact delRule_other ch s.routes hd.method k m ho hm
    · exact ho

/-! ### the invariant -/

/-- `pend`: handlers already appended by a registration in progress whose connection entry is
written at its end (`s.conns[cc] = connList{...}` is the last statement of addConnHandler). -/
structure InvW (s : St) (pend : List H) : Prop where
  meth : ∀ m h, h ∈ s.handlers m → h.method = m
  fresh : ∀ m h, h ∈ s.handlers m → h.id < s.next
  uniq : ∀ m m' h h', h ∈ s.handlers m → h' ∈ s.handlers m' → h.id = h'.id → h = h'
  trackedOwner : ∀ c cl, s.conns c = some cl → ∀ h ∈ cl.handlers, h.owner = some c
  trackedLive : ∀ c cl, s.conns c = some cl → ∀ h ∈ cl.handlers, h ∈ s.handlers h.method
  ownedTracked : ∀ m h c, h ∈ s.handlers m → h.owner = some c →
      (∃ cl, s.conns c = some cl ∧ h ∈ cl.handlers) ∨ h ∈ pend
  routed : ∀ m h k, h ∈ s.handlers m → k ∈ h.keys → routeOf s.routes k = some m

abbrev Inv (s : St) : Prop := InvW s []

theorem inv_init : Inv St.init := by
  constructor <;> simp [St.init]

theorem appendHandler_spec (s s' : St) (ms : MSpec) (owner : Option Nat) (h : H) (pend : List H)
    (hi : InvW s pend) (ha : appendHandler s ms owner = some (s', h)) :
    InvW s' (pend ++ [h]) ∧ s'.conns = s.conns ∧ h.owner = owner ∧ h.method = ms.method ∧
    s'.next = s.next + 1 ∧ h.id = s.next ∧
    (∀ m, s'.handlers m = s.handlers m ++ (if h.method = m then [h] else [])) ∧
    (∀ k m, routeOf s.routes k = some m → routeOf s'.routes k = some m) := by
  unfold appendHandler at ha
  split at ha
  · simp at ha
  · rename_i r hr
    simp only [Option.some.injEq, Prod.mk.injEq] at ha
    obtain ⟨hs', hh⟩ := ha
    subst hs'; subst hh
    have hhand : ∀ m, put s.handlers ms.method (s.handlers ms.method ++ [⟨s.next, ms.method, owner, ms.keys⟩]) m
        = s.handlers m ++ (if ms.method = m then [(⟨s.next, ms.method, owner, ms.keys⟩ : H)] else []) := by
      intro m
      by_cases hm : m = ms.method
      · subst hm; simp [put]
      · have : ¬ ms.method = m := fun h => hm h.symm
        simp [put, hm, this]
    have hmem : ∀ m x, x ∈ put s.handlers ms.method (s.handlers ms.method ++ [⟨s.next, ms.method, owner, ms.keys⟩]) m →
        x ∈ s.handlers m ∨ (x = ⟨s.next, ms.method, owner, ms.keys⟩ ∧ ms.method = m) := by
      intro m x hx
      rw [hhand m] at hx
      simp only [List.mem_append] at hx
      rcases hx with hx | hx
      · left; exact hx
      · right
        split at hx
        · rename_i hm; simp at hx; exact ⟨hx, hm⟩
        · simp at hx
    refine ⟨?_, rfl, rfl, rfl, rfl, rfl, hhand, fun k m ho => addRules_old _ _ _ _ _ _ hr ho⟩
    constructor
    · intro m x hx
      rcases hmem m x hx with hx | ⟨hx, hm⟩
      · exact hi.meth m x hx
      · subst hx; exact hm
    · intro m x hx
      rcases hmem m x hx with hx | ⟨hx, _⟩
      · exact Nat.lt_succ_of_lt (hi.fresh m x hx)
      · subst hx; exact Nat.lt_succ_self _
    · intro m m' x x' hx hx' hid
      rcases hmem m x hx with hx | ⟨hx, _⟩ <;> rcases hmem m' x' hx' with hx' | ⟨hx', _⟩
      · exact hi.uniq m m' x x' hx hx' hid
      · subst hx'; have := hi.fresh m x hx; simp at hid; omega
      · subst hx; have := hi.fresh m' x' hx'; simp at hid; omega
      · rw [hx, hx']
    · exact hi.trackedOwner
    · intro c cl hc x hx
      have := hi.trackedLive c cl hc x hx
      show x ∈ put s.handlers ms.method _ x.method
      rw [hhand]; exact List.mem_append_left _ this
    · intro m x c hx ho
      rcases hmem m x hx with hx | ⟨hx, _⟩
      · rcases hi.ownedTracked m x c hx ho with h1 | h1
        · left; exact h1
        · right; exact List.mem_append_left _ h1
      · right; rw [hx]; simp
    · intro m x k hx hk
      rcases hmem m x hx with hx | ⟨hx, hm⟩
      · exact addRules_old _ _ _ _ _ _ hr (hi.routed m x k hx hk)
      · subst hx; subst hm; exact addRules_new _ _ _ _ hr k hk

theorem processAll_spec : ∀ (mss : List MSpec) (s s' : St) (owner : Option Nat) (hs pend : List H),
    InvW s pend → processAll s owner mss = some (s', hs) →
    InvW s' (pend ++ hs) ∧ s'.conns = s.conns ∧ (∀ h ∈ hs, h.owner = owner) ∧
    (∀ h ∈ hs, s.next ≤ h.id) ∧ s.next ≤ s'.next ∧
    (∀ m, s'.handlers m = s.handlers m ++ hs.filter (fun h => h.method = m)) ∧
    hs.map (·.method) = mss.map (·.method) ∧
    (∀ k m, routeOf s.routes k = some m → routeOf s'.routes k = some m) := by
  intro mss
  induction mss with
  | nil =>
    intro s s' owner hs pend hi hp
    simp only [processAll, Option.some.injEq, Prod.mk.injEq] at hp
    obtain ⟨h1, h2⟩ := hp
    subst h1; subst h2
    simpa using hi
  | cons ms rest ih =>
    intro s s' owner hs pend hi hp
    simp only [processAll] at hp
    split at hp
    · simp at hp
    · rename_i s1 h ha
      split at hp
      · simp at hp
      · rename_i s2 hs2 hp2
        simp only [Option.some.injEq, Prod.mk.injEq] at hp
        obtain ⟨e1, e2⟩ := hp
        subst e1; subst e2
        obtain ⟨hi1, hc1, ho1, hm1, hn1, hid1, hh1, hr1⟩ := appendHandler_spec s s1 ms owner h pend hi ha
        obtain ⟨hi2, hc2, ho2, hge2, hn2, hh2, hmap2, hr2⟩ := ih s1 s2 owner hs2 (pend ++ [h]) hi1 hp2
        refine ⟨by simpa [List.append_assoc] using hi2, by rw [hc2, hc1], ?_, ?_, by omega, ?_, ?_,
          fun k m ho => hr2 k m (hr1 k m ho)⟩
        · intro x hx
          simp only [List.mem_cons] at hx
          rcases hx with hx | hx
          · subst hx; exact ho1
          · exact ho2 x hx
        · intro x hx
          simp only [List.mem_cons] at hx
          rcases hx with hx | hx
          · subst hx; omega
          · have := hge2 x hx; omega
        · intro m
          rw [hh2 m, hh1 m, List.filter_cons]
          by_cases hm : h.method = m
          · simp [hm]
          · simp [hm]
        · simp [hmap2, hm1]

/-- `removeHandler` on a tracked connection: its handlers are exactly the ones that go. -/
theorem removeHandler_spec (ch : Chooser) (s : St) (c : Nat) (cl : Conn) (hi : Inv s)
    (hc : s.conns c = some cl) :
    let s' := (removeHandler ch s c).1
    (removeHandler ch s c).2 = true ∧ Inv s' ∧ s'.conns c = none ∧
    (∀ c', c' ≠ c → s'.conns c' = s.conns c') ∧ s'.next = s.next ∧
    (∀ m, s'.handlers m = (s.handlers m).filter (fun h => h.owner ≠ some c)) ∧
    (∀ m k, s'.handlers m ≠ [] → routeOf s.routes k = some m → routeOf s'.routes k = some m) := by
  simp only [removeHandler, hc]
  have hh : ∀ m, (cl.handlers.foldl (removeOne ch) s).handlers m
      = (s.handlers m).filter (fun h => h.owner ≠ some c) := by
    intro m
    rw [foldl_removeOne_handlers ch cl.handlers s hi.meth m]
    apply List.filter_congr
    intro a ha
    have : a ∈ cl.handlers ↔ a.owner = some c := by
      constructor
      · exact hi.trackedOwner c cl hc a
      · intro ho
        rcases hi.ownedTracked m a c ha ho with ⟨cl', hc', hin⟩ | hp
        · rw [hc] at hc'; injection hc' with hc'; subst hc'; exact hin
        · simp at hp
    simp [this]
  have hcn := foldl_removeOne_conns ch cl.handlers s
  refine ⟨trivial, ?_, by simp [put], ?_, foldl_removeOne_next ch cl.handlers s, hh, ?_⟩
  · constructor
    · intro m h hin
      simp only at hin; rw [hh m] at hin
      exact hi.meth m h (List.mem_filter.mp hin).1
    · intro m h hin
      simp only at hin ⊢; rw [hh m] at hin
      rw [foldl_removeOne_next]
      exact hi.fresh m h (List.mem_filter.mp hin).1
    · intro m m' h h' hin hin' hid
      simp only at hin hin'; rw [hh m] at hin; rw [hh m'] at hin'
      exact hi.uniq m m' h h' (List.mem_filter.mp hin).1 (List.mem_filter.mp hin').1 hid
    · intro c' cl' hc' h hin
      simp only [put, hcn] at hc'
      split at hc'
      · simp at hc'
      · exact hi.trackedOwner c' cl' hc' h hin
    · intro c' cl' hc' h hin
      simp only [put, hcn] at hc'
      split at hc'
      · simp at hc'
      · rename_i hne
        simp only; rw [hh]
        apply List.mem_filter.mpr
        refine ⟨hi.trackedLive c' cl' hc' h hin, ?_⟩
        have := hi.trackedOwner c' cl' hc' h hin
        simp [this, hne]
    · intro m h c' hin ho
      simp only at hin; rw [hh m] at hin
      obtain ⟨hin, hne⟩ := List.mem_filter.mp hin
      have hcc : c' ≠ c := by
        intro he; subst he; simp [ho] at hne
      rcases hi.ownedTracked m h c' hin ho with ⟨cl', hc', hin'⟩ | hp
      · left; exact ⟨cl', by simp [put, hcn, hcc, hc'], hin'⟩
      · simp at hp
    · intro m h k hin hk
      simp only at hin ⊢
      have hne : (cl.handlers.foldl (removeOne ch) s).handlers m ≠ [] := by
        intro he; rw [he] at hin; simp at hin
      rw [hh m] at hin
      exact foldl_removeOne_routes ch cl.handlers s hi.meth m k hne
        (hi.routed m h k (List.mem_filter.mp hin).1 hk)
  · intro c' hne; simp [put, hcn, hne]
  · intro m k hne ho
    exact foldl_removeOne_routes ch cl.handlers s hi.meth m k hne ho

/-- no handler of a connection that has no entry. -/
theorem no_owner_of_unregistered (s : St) (hi : Inv s) (c : Nat) (hc : s.conns c = none) (m : Nat) :
    (s.handlers m).filter (fun h => h.owner ≠ some c) = s.handlers m := by
  rw [List.filter_eq_self]
  intro a ha
  simp only [ne_eq, decide_not, Bool.not_eq_eq_eq_not, Bool.not_true, decide_eq_false_iff_not]
  intro ho
  rcases hi.ownedTracked m a c ha ho with ⟨cl, hcl, _⟩ | hp
  · rw [hc] at hcl; simp at hcl
  · simp at hp

theorem regService_spec (s s' : St) (mss : List MSpec) (hs : List H) (hi : Inv s)
    (hp : processAll s none mss = some (s', hs)) :
    Inv s' ∧ s'.conns = s.conns ∧ (∀ h ∈ hs, h.owner = none) ∧
    (∀ m, s'.handlers m = s.handlers m ++ hs.filter (fun h => h.method = m)) ∧
    hs.map (·.method) = mss.map (·.method) := by
  obtain ⟨hi2, hc, ho, _, _, hh, hmap, _⟩ := processAll_spec mss s s' none hs [] hi hp
  refine ⟨?_, hc, ho, hh, hmap⟩
  exact { hi2 with
    ownedTracked := by
      intro m h c hin hown
      rcases hi2.ownedTracked m h c hin hown with h1 | h1
      · left; exact h1
      · simp only [List.nil_append] at h1
        rw [ho h h1] at hown; simp at hown }

/-- the tail of addConnHandler (processFile, then the connection entry) from a state in which
the connection has no entry. -/
theorem fresh_spec (s0 s2 : St) (c hash : Nat) (mss : List MSpec) (hs : List H) (hi : Inv s0)
    (hc0 : s0.conns c = none) (hp : processAll s0 (some c) mss = some (s2, hs)) :
    let s' : St := { s2 with conns := put s2.conns c (some ⟨hs, hash⟩) }
    Inv s' ∧ (∀ c', c' ≠ c → s'.conns c' = s0.conns c') ∧ (∀ h ∈ hs, h.owner = some c) ∧
    (∀ m, s'.handlers m = s0.handlers m ++ hs.filter (fun h => h.method = m)) ∧
    hs.map (·.method) = mss.map (·.method) := by
  obtain ⟨hi2, hc, ho, _, _, hh, hmap, _⟩ := processAll_spec mss s0 s2 (some c) hs [] hi hp
  simp only [List.nil_append] at hi2
  refine ⟨?_, ?_, ho, hh, hmap⟩
  · constructor
    · exact hi2.meth
    · exact hi2.fresh
    · exact hi2.uniq
    · intro c' cl hcl h hin
      simp only [put] at hcl
      split at hcl
      · rename_i he; injection hcl with hcl; subst hcl; subst he; exact ho h hin
      · exact hi2.trackedOwner c' cl hcl h hin
    · intro c' cl hcl h hin
      simp only [put] at hcl
      split at hcl
      · injection hcl with hcl; subst hcl
        show h ∈ s2.handlers h.method
        rw [hh]; apply List.mem_append_right; exact List.mem_filter.mpr ⟨hin, by simp⟩
      · exact hi2.trackedLive c' cl hcl h hin
    · intro m h c' hin hown
      left
      rcases hi2.ownedTracked m h c' hin hown with ⟨cl, hcl, hin'⟩ | hp'
      · have hne : c' ≠ c := by
          intro he; subst he; rw [hc, hc0] at hcl; simp at hcl
        exact ⟨cl, by simp [put, hne, hcl], hin'⟩
      · have : c' = c := by have := ho h hp'; rw [this] at hown; injection hown with h; exact h.symm
        subst this
        exact ⟨⟨hs, hash⟩, by simp [put], hp'⟩
    · exact hi2.routed
  · intro c' hne; simp [put, hne, hc]

/-- what a successful RegisterConn does. -/
theorem addConnHandler_spec (ch : Chooser) (s s' : St) (c hash : Nat) (mss : List MSpec) (hi : Inv s)
    (ha : addConnHandler ch s c hash mss = some s') :
    Inv s' ∧
    ((∃ cl, s.conns c = some cl ∧ cl.hash = hash ∧ s' = s) ∨
     (∃ hs, s'.conns c = some ⟨hs, hash⟩ ∧ (∀ c', c' ≠ c → s'.conns c' = s.conns c') ∧
        (∀ h ∈ hs, h.owner = some c) ∧ hs.map (·.method) = mss.map (·.method) ∧
        ∀ m, s'.handlers m = (s.handlers m).filter (fun h => h.owner ≠ some c)
                              ++ hs.filter (fun h => h.method = m))) := by
  unfold addConnHandler at ha
  simp only at ha
  cases hc : s.conns c with
  | none =>
    simp only [hc] at ha
    split at ha
    · simp at ha
    · rename_i s2 hs hp
      injection ha with ha; subst ha
      obtain ⟨h1, h2, h3, h4, h5⟩ := fresh_spec s s2 c hash mss hs hi hc hp
      refine ⟨h1, Or.inr ⟨hs, by simp [put], h2, h3, h5, ?_⟩⟩
      intro m; rw [no_owner_of_unregistered s hi c hc m]; exact h4 m
  | some cl =>
    simp only [hc] at ha
    split at ha
    · rename_i heq
      injection ha with ha; subst ha
      exact ⟨hi, Or.inl ⟨cl, rfl, heq, rfl⟩⟩
    · obtain ⟨_, hi1, hc1, hco1, _, hh1, _⟩ := removeHandler_spec ch s c cl hi hc
      split at ha
      · simp at ha
      · rename_i s2 hs hp
        injection ha with ha; subst ha
        obtain ⟨h1, h2, h3, h4, h5⟩ := fresh_spec _ s2 c hash mss hs hi1 hc1 hp
        refine ⟨h1, Or.inr ⟨hs, by simp [put], ?_, h3, h5, ?_⟩⟩
        · intro c' hne; rw [h2 c' hne, hco1 c' hne]
        · intro m; rw [h4 m, hh1 m]

/-- **every reachable published state satisfies the invariant.** -/
theorem step_inv (ch : Chooser) (s : St) (op : Op) (hi : Inv s) : Inv (step ch s op).1 := by
  cases op with
  | regService mss =>
    simp only [step]
    split
    · exact hi
    · rename_i s' hs hp; exact (regService_spec s s' mss hs hi hp).1
  | regConn c hash mss =>
    simp only [step]
    split
    · exact hi
    · rename_i s' ha; exact (addConnHandler_spec ch s s' c hash mss hi ha).1
  | dropConn c =>
    simp only [step]
    split
    · rename_i hok
      cases hc : s.conns c with
      | none => simp [removeHandler, hc] at hok
      | some cl => exact (removeHandler_spec ch s c cl hi hc).2.1
    · exact hi

theorem run_inv (ch : Chooser) (ops : List Op) : ∀ s, Inv s → Inv (run ch s ops) := by
  induction ops with
  | nil => intro s hi; exact hi
  | cons op rest ih => intro s hi; exact ih _ (step_inv ch s op hi)

end Larking.Registry
