import Larking.Model.Writers
namespace Larking.Writers
open Larking.Registry

/-- with the canonical order: the lock is held exactly by the thread between its Lock and its
Unlock; a thread that has loaded works on the currently published state; the published
state is the sequential result of the stored calls. -/
structure Inv (ch : Chooser) (s : Sys) : Prop where
  heldIff : ∀ i, (s.ths i).held = true ↔ (1 ≤ (s.ths i).pc ∧ (s.ths i).pc ≤ 4)
  mutex : ∀ i j, (s.ths i).held = true → (s.ths j).held = true → i = j
  lockedIf : ∀ i, (s.ths i).held = true → s.locked = true
  loaded : ∀ i, (s.ths i).pc = 2 → (s.ths i).loc = s.pub
  modified : ∀ i, (s.ths i).pc = 3 → (s.ths i).loc = (step ch s.pub (s.ths i).op).1
  serial : s.pub = run ch St.init s.log

theorem inv_init (ch : Chooser) (ops : Nat → Op) : Inv ch (Sys.init ops) := by
  constructor <;> simp [Sys.init, run]

theorem put_same' {α : Type} (f : Nat → α) (k : Nat) (v : α) : put f k v k = v := by simp [put]
theorem put_other' {α : Type} (f : Nat → α) (k k' : Nat) (v : α) (h : k' ≠ k) : put f k v k' = f k' := by
  simp [put, h]

theorem canon_get (pc : Nat) : canon[pc]? =
    if pc = 0 then some .lock else if pc = 1 then some .load else if pc = 2 then some .modify
    else if pc = 3 then some .store else if pc = 4 then some .unlock else none := by
  match pc with
  | 0 | 1 | 2 | 3 | 4 => rfl
  | n + 5 => simp [canon]

theorem step_inv (ch : Chooser) (s : Sys) (i : Nat) (hi : Inv ch s) : Inv ch (stepTh canon ch s i) := by
  unfold stepTh
  simp only [canon_get]
  by_cases h0 : (s.ths i).pc = 0
  · -- Lock
    simp only [h0, if_true]
    by_cases hl : s.locked = true
    · simp only [hl, if_true]; exact hi
    · have hl' : s.locked = false := by simpa using hl
      have hnone : ∀ j, (s.ths j).held = false := by
        intro j
        cases hh : (s.ths j).held with
        | false => rfl
        | true => have := hi.lockedIf j hh; rw [hl'] at this; cases this
      simp only [hl', Bool.false_eq_true, if_false]
      constructor
      · intro j
        by_cases hj : j = i
        · subst hj; simp [put_same', h0]
        · simp only [put_other' _ _ _ _ hj]; exact hi.heldIff j
      · intro j k hj hk
        by_cases hji : j = i <;> by_cases hki : k = i
        · rw [hji, hki]
        · simp only [put_other' _ _ _ _ hki] at hk; rw [hnone k] at hk; cases hk
        · simp only [put_other' _ _ _ _ hji] at hj; rw [hnone j] at hj; cases hj
        · simp only [put_other' _ _ _ _ hji] at hj; rw [hnone j] at hj; cases hj
      · intro _ _; rfl
      · intro j hj
        by_cases hji : j = i
        · subst hji; simp [put_same', h0] at hj
        · simp only [put_other' _ _ _ _ hji] at hj ⊢; exact hi.loaded j hj
      · intro j hj
        by_cases hji : j = i
        · subst hji; simp [put_same', h0] at hj
        · simp only [put_other' _ _ _ _ hji] at hj ⊢; exact hi.modified j hj
      · exact hi.serial
  · by_cases h1 : (s.ths i).pc = 1
    · -- load
      simp only [h1, if_true, show ¬ (1 = 0) by decide, if_false]
      have hheld : (s.ths i).held = true := (hi.heldIff i).mpr (by omega)
      constructor
      · intro j
        by_cases hj : j = i
        · subst hj; simp [put_same', h1, hheld]
        · simp only [put_other' _ _ _ _ hj]; exact hi.heldIff j
      · intro j k hj hk
        have hj' : (s.ths j).held = true := by
          by_cases hji : j = i
          · subst hji; exact hheld
          · simp only [put_other' _ _ _ _ hji] at hj; exact hj
        have hk' : (s.ths k).held = true := by
          by_cases hki : k = i
          · subst hki; exact hheld
          · simp only [put_other' _ _ _ _ hki] at hk; exact hk
        exact hi.mutex j k hj' hk'
      · intro j hj
        by_cases hji : j = i
        · subst hji; exact hi.lockedIf j hheld
        · simp only [put_other' _ _ _ _ hji] at hj; exact hi.lockedIf j hj
      · intro j hj
        by_cases hji : j = i
        · subst hji; simp [put_same']
        · simp only [put_other' _ _ _ _ hji] at hj ⊢; exact hi.loaded j hj
      · intro j hj
        by_cases hji : j = i
        · subst hji; simp [put_same', h1] at hj
        · simp only [put_other' _ _ _ _ hji] at hj ⊢; exact hi.modified j hj
      · exact hi.serial
    · by_cases h2 : (s.ths i).pc = 2
      · -- modify
        simp only [h2, if_true, show ¬ (2 = 0) by decide, show ¬ (2 = 1) by decide, if_false]
        have hheld : (s.ths i).held = true := (hi.heldIff i).mpr (by omega)
        have hloc := hi.loaded i h2
        constructor
        · intro j
          by_cases hj : j = i
          · subst hj; simp [put_same', h2, hheld]
          · simp only [put_other' _ _ _ _ hj]; exact hi.heldIff j
        · intro j k hj hk
          have hj' : (s.ths j).held = true := by
            by_cases hji : j = i
            · subst hji; exact hheld
            · simp only [put_other' _ _ _ _ hji] at hj; exact hj
          have hk' : (s.ths k).held = true := by
            by_cases hki : k = i
            · subst hki; exact hheld
            · simp only [put_other' _ _ _ _ hki] at hk; exact hk
          exact hi.mutex j k hj' hk'
        · intro j hj
          by_cases hji : j = i
          · subst hji; exact hi.lockedIf j hheld
          · simp only [put_other' _ _ _ _ hji] at hj; exact hi.lockedIf j hj
        · intro j hj
          by_cases hji : j = i
          · subst hji; simp [put_same', h2] at hj
          · simp only [put_other' _ _ _ _ hji] at hj ⊢; exact hi.loaded j hj
        · intro j hj
          by_cases hji : j = i
          · subst hji; simp [put_same', hloc]
          · simp only [put_other' _ _ _ _ hji] at hj ⊢; exact hi.modified j hj
        · exact hi.serial
      · by_cases h3 : (s.ths i).pc = 3
        · -- store
          simp only [h3, if_true, show ¬ (3 = 0) by decide, show ¬ (3 = 1) by decide,
            show ¬ (3 = 2) by decide, if_false]
          have hheld : (s.ths i).held = true := (hi.heldIff i).mpr (by omega)
          have hloc := hi.modified i h3
          -- nobody else is between Lock and Unlock
          have hothers : ∀ j, j ≠ i → ¬ (1 ≤ (s.ths j).pc ∧ (s.ths j).pc ≤ 4) := by
            intro j hji hpc
            exact hji (hi.mutex j i ((hi.heldIff j).mpr hpc) hheld)
          constructor
          · intro j
            by_cases hj : j = i
            · subst hj; simp [put_same', h3, hheld]
            · simp only [put_other' _ _ _ _ hj]; exact hi.heldIff j
          · intro j k hj hk
            have hj' : (s.ths j).held = true := by
              by_cases hji : j = i
              · subst hji; exact hheld
              · simp only [put_other' _ _ _ _ hji] at hj; exact hj
            have hk' : (s.ths k).held = true := by
              by_cases hki : k = i
              · subst hki; exact hheld
              · simp only [put_other' _ _ _ _ hki] at hk; exact hk
            exact hi.mutex j k hj' hk'
          · intro j hj
            by_cases hji : j = i
            · subst hji; exact hi.lockedIf j hheld
            · simp only [put_other' _ _ _ _ hji] at hj; exact hi.lockedIf j hj
          · intro j hj
            by_cases hji : j = i
            · subst hji; simp [put_same', h3] at hj
            · simp only [put_other' _ _ _ _ hji] at hj
              exact absurd ⟨by omega, by omega⟩ (hothers j hji)
          · intro j hj
            by_cases hji : j = i
            · subst hji; simp [put_same', h3] at hj
            · simp only [put_other' _ _ _ _ hji] at hj
              exact absurd ⟨by omega, by omega⟩ (hothers j hji)
          · show (s.ths i).loc = run ch St.init (s.log ++ [(s.ths i).op])
            rw [hloc, hi.serial]
            simp [run, List.foldl_append]
        · by_cases h4 : (s.ths i).pc = 4
          · -- unlock
            simp only [h4, if_true, show ¬ (4 = 0) by decide, show ¬ (4 = 1) by decide,
              show ¬ (4 = 2) by decide, show ¬ (4 = 3) by decide, if_false]
            have hheld : (s.ths i).held = true := (hi.heldIff i).mpr (by omega)
            constructor
            · intro j
              by_cases hj : j = i
              · subst hj; simp [put_same', h4]
              · simp only [put_other' _ _ _ _ hj]; exact hi.heldIff j
            · intro j k hj hk
              by_cases hji : j = i
              · subst hji; simp [put_same'] at hj
              · by_cases hki : k = i
                · subst hki; simp [put_same'] at hk
                · simp only [put_other' _ _ _ _ hji] at hj; simp only [put_other' _ _ _ _ hki] at hk
                  exact hi.mutex j k hj hk
            · intro j hj
              by_cases hji : j = i
              · subst hji; simp [put_same'] at hj
              · simp only [put_other' _ _ _ _ hji] at hj
                exact absurd (hi.mutex j i hj hheld) hji
            · intro j hj
              by_cases hji : j = i
              · subst hji; simp [put_same', h4] at hj
              · simp only [put_other' _ _ _ _ hji] at hj ⊢; exact hi.loaded j hj
            · intro j hj
              by_cases hji : j = i
              · subst hji; simp [put_same', h4] at hj
              · simp only [put_other' _ _ _ _ hji] at hj ⊢; exact hi.modified j hj
            · exact hi.serial
          · simp only [h0, h1, h2, h3, h4, if_false]; exact hi

theorem sched_inv (ch : Chooser) : ∀ (sched : List Nat) (s : Sys), Inv ch s → Inv ch (runSched canon ch s sched) := by
  intro sched
  induction sched with
  | nil => intro s hi; exact hi
  | cons i rest ih => intro s hi; exact ih _ (step_inv ch s i hi)

/-- the published state changes only by a whole call: one step of any thread either leaves
it alone or replaces it by the complete result of that thread's call on it. -/
theorem pub_atomic (ch : Chooser) (s : Sys) (i : Nat) (hi : Inv ch s) :
    (stepTh canon ch s i).pub = s.pub ∨
    (stepTh canon ch s i).pub = (step ch s.pub (s.ths i).op).1 := by
  unfold stepTh
  simp only [canon_get]
  by_cases h0 : (s.ths i).pc = 0
  · left; simp only [h0, if_true]; split <;> rfl
  · by_cases h1 : (s.ths i).pc = 1
    · left; simp only [h1, show ¬ (1 = 0) by decide, if_false, if_true]
    · by_cases h2 : (s.ths i).pc = 2
      · left; simp only [h2, show ¬ (2 = 0) by decide, show ¬ (2 = 1) by decide, if_false, if_true]
      · by_cases h3 : (s.ths i).pc = 3
        · right
          simp only [h3, show ¬ (3 = 0) by decide, show ¬ (3 = 1) by decide, show ¬ (3 = 2) by decide, if_false, if_true]
          exact hi.modified i h3
        · by_cases h4 : (s.ths i).pc = 4
          · left; simp only [h4, show ¬ (4 = 0) by decide, show ¬ (4 = 1) by decide, show ¬ (4 = 2) by decide,
              show ¬ (4 = 3) by decide, if_false, if_true]
          · left; simp only [h0, h1, h2, h3, h4, if_false]

end Larking.Writers
