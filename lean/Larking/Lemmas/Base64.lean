import Larking.Model.Base64
namespace Larking.Base64

theorem dec_enc (url : Bool) : ∀ n : Fin 64, decChar url (encChar url n.val) = some n.val := by
  cases url <;> decide

theorem enc_not_pad (url : Bool) : ∀ n : Fin 64, (encChar url n.val == padByte) = false := by
  cases url <;> decide

theorem enc_not_newline (url : Bool) : ∀ n : Fin 64, isNewline (encChar url n.val) = false := by
  cases url <;> decide

theorem q0_lt (a : UInt8) : q0 a < 64 := by have := a.toNat_lt; unfold q0; omega
theorem q1_lt (a b : UInt8) : q1 a b < 64 := by
  have := a.toNat_lt; have := b.toNat_lt; unfold q1; omega
theorem q2_lt (a b : UInt8) : q2 a b < 64 := by
  have := a.toNat_lt; have := b.toNat_lt; unfold q2; omega
theorem q3_lt (a : UInt8) : q3 a < 64 := by unfold q3; omega

theorem dec_enc' (url : Bool) {n : Nat} (h : n < 64) : decChar url (encChar url n) = some n :=
  dec_enc url ⟨n, h⟩
theorem enc_not_pad' (url : Bool) {n : Nat} (h : n < 64) : (encChar url n == padByte) = false :=
  enc_not_pad url ⟨n, h⟩
theorem enc_not_newline' (url : Bool) {n : Nat} (h : n < 64) : isNewline (encChar url n) = false :=
  enc_not_newline url ⟨n, h⟩

theorem ofNat_toNat_u8 (a : UInt8) : UInt8.ofNat a.toNat = a := by simp

theorem b0_q (a b : UInt8) : b0 (q0 a) (q1 a b) = a := by
  have := a.toNat_lt; have := b.toNat_lt
  unfold b0 q0 q1
  have : (a.toNat / 4 * 4 + ((a.toNat % 4) * 16 + b.toNat / 16) / 16) % 256 = a.toNat := by omega
  rw [this]; simp
theorem b1_q (a b c : UInt8) : b1 (q1 a b) (q2 b c) = b := by
  have := a.toNat_lt; have := b.toNat_lt; have := c.toNat_lt
  unfold b1 q1 q2
  have : ((((a.toNat % 4) * 16 + b.toNat / 16) % 16) * 16 + ((b.toNat % 16) * 4 + c.toNat / 64) / 4) % 256
      = b.toNat := by omega
  rw [this]; simp
theorem b2_q (b c : UInt8) : b2 (q2 b c) (q3 c) = c := by
  have := b.toNat_lt; have := c.toNat_lt
  unfold b2 q2 q3
  have : ((((b.toNat % 16) * 4 + c.toNat / 64) % 4) * 64 + c.toNat % 64) % 256 = c.toNat := by omega
  rw [this]; simp

theorem pad_not_newline : isNewline padByte = false := by decide

/-- Encoded output never contains '\r' / '\n'. -/
theorem encode_no_newline (url pad : Bool) (bs : Bytes) :
    (encode url pad bs).filter (fun c => !isNewline c) = encode url pad bs := by
  fun_induction encode url pad bs <;>
    simp_all [List.filter, enc_not_newline', q0_lt, q1_lt, q2_lt, q3_lt, pad_not_newline]

theorem zero_toNat : (0 : UInt8).toNat = 0 := rfl

theorem decodeCore_encode (url pad : Bool) (bs : Bytes) :
    decodeCore url pad (encode url pad bs) = some bs := by
  fun_induction encode url pad bs with
  | case1 => simp [decodeCore]
  | case2 a =>
    cases pad
    · simp [decodeCore, dec_enc', q0_lt, q1_lt, b0_q]
    · simp [decodeCore, dec_enc', q0_lt, q1_lt, b0_q]
  | case3 a b =>
    cases pad
    · simp [decodeCore, dec_enc', q0_lt, q1_lt, q2_lt, b0_q, b1_q]
    · simp [decodeCore, dec_enc', enc_not_pad', q0_lt, q1_lt, q2_lt, b0_q, b1_q]
  | case4 a b c rest ih =>
    simp [decodeCore, dec_enc', enc_not_pad', q0_lt, q1_lt, q2_lt, q3_lt, b0_q, b1_q, b2_q, ih]

/-- Round trip, all four encodings, every byte string. -/
theorem decode_encode (url pad : Bool) (bs : Bytes) :
    decode url pad (encode url pad bs) = some bs := by
  unfold decode; rw [encode_no_newline, decodeCore_encode]

end Larking.Base64
