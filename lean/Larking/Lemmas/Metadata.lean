import Larking.Model.Metadata
import Larking.Lemmas.Base64
namespace Larking.Base64

theorem encode_pad_len (url : Bool) (b : Bytes) : (encode url true b).length % 4 = 0 := by
  fun_induction encode url true b <;> simp_all <;> omega

theorem encode_raw_eq_pad (url : Bool) (b : Bytes) (h : b.length % 3 = 0) :
    encode url false b = encode url true b := by
  fun_induction encode url false b with
  | case1 => simp [encode]
  | case2 a => simp at h
  | case3 a b => simp at h
  | case4 a b c rest ih =>
    simp only [List.length_cons] at h
    simp only [encode]
    rw [ih (by omega)]

theorem encode_raw_len (url : Bool) (b : Bytes) :
    (encode url false b).length % 4 = 0 → b.length % 3 = 0 := by
  fun_induction encode url false b with
  | case1 => simp
  | case2 a => simp
  | case3 a b => simp
  | case4 a b c rest ih =>
    simp only [List.length_cons]
    intro h
    have := ih (by omega)
    omega

end Larking.Base64

namespace Larking.Metadata
open Larking.Base64

/-- with the padded decoder in the `len%4 == 0` branch, both padded and raw values decode. -/
theorem decodeBin_padded (b : Bytes) : decodeBin true (encode false true b) = some b := by
  unfold decodeBin
  simp [encode_pad_len, decode_encode]

theorem decodeBin_raw (b : Bytes) : decodeBin true (encode false false b) = some b := by
  unfold decodeBin
  by_cases h : (encode false false b).length % 4 = 0
  · simp only [h, beq_self_eq_true, if_true]
    rw [encode_raw_eq_pad false b (encode_raw_len false b h)]
    exact decode_encode false true b
  · have : ((encode false false b).length % 4 == 0) = false := by simpa using h
    simp only [this, Bool.false_eq_true, if_false]
    exact decode_encode false false b

theorem lowerByte_idem (c : UInt8) : lowerByte (lowerByte c) = lowerByte c := by
  revert c; apply u8_forall; set_option maxRecDepth 8192 in decide

theorem lower_upper (c : UInt8) : lowerByte (upperByte c) = lowerByte c := by
  revert c; apply u8_forall; set_option maxRecDepth 8192 in decide

theorem lower_canonAux (up : Bool) (k : Bytes) : lower (canonAux up k) = lower k := by
  induction k generalizing up with
  | nil => simp [canonAux, lower]
  | cons c rest ih =>
    simp only [canonAux, lower, List.map_cons] at ih ⊢
    rw [ih]
    cases up <;> simp [lower_upper, lowerByte_idem]

/-- canonicalising a key only changes letter case. -/
theorem lower_canonical (k : Bytes) : lower (canonical k) = lower k := lower_canonAux true k

theorem mem_outgoing (reserved : List Bytes) (md : MD) (e : Bytes × List Bytes)
    (h : e ∈ outgoing reserved md) :
    ∃ kv ∈ md, reserved.contains kv.1 = false ∧ e.1 = canonical kv.1 ∧
      e.2 = (if hasBinSuffix kv.1 then kv.2.map encodeBin else kv.2) := by
  simp only [outgoing, List.mem_filterMap] at h
  obtain ⟨kv, hkv, he⟩ := h
  refine ⟨kv, hkv, ?_⟩
  unfold outgoingEntry at he
  cases hr : reserved.contains kv.1 with
  | true => rw [hr] at he; simp at he
  | false =>
    rw [hr] at he
    simp only [Bool.false_eq_true, if_false] at he
    refine ⟨rfl, ?_⟩
    cases hb : hasBinSuffix kv.1 with
    | true => rw [hb] at he; simp only [if_true, Option.some.injEq] at he; subst he; simp
    | false =>
      rw [hb] at he
      simp only [Bool.false_eq_true, if_false, Option.some.injEq] at he; subst he; simp

theorem outgoing_complete (reserved : List Bytes) (md : MD) (kv : Bytes × List Bytes)
    (hkv : kv ∈ md) (hr : reserved.contains kv.1 = false) :
    (canonical kv.1, if hasBinSuffix kv.1 then kv.2.map encodeBin else kv.2) ∈ outgoing reserved md := by
  simp only [outgoing, List.mem_filterMap]
  refine ⟨kv, hkv, ?_⟩
  unfold outgoingEntry
  simp only [hr, Bool.false_eq_true, if_false]
  cases hb : hasBinSuffix kv.1 <;> simp

theorem isPrefixOf_append_self (p k : Bytes) : p.isPrefixOf (p ++ k) = true := by
  induction p with
  | nil => simp [List.isPrefixOf]
  | cons a p ih => simp [ih]

theorem delivered_prefixed (announced : List Bytes) (es : MD) :
    deliveredTrailers announced (es.map fun kv => (trailerPrefix ++ kv.1, kv.2)) = es := by
  induction es with
  | nil => simp [deliveredTrailers]
  | cons e es ih =>
    simp only [deliveredTrailers, List.map_cons, List.filterMap_cons] at ih ⊢
    simp only [isPrefixOf_append_self, if_true, List.drop_left']
    rw [ih]

end Larking.Metadata
