import Larking.Lemmas.LexerComplete
import Larking.Model.Trie
/-
  Acceptance: a binding whose template is of the documented grammar, whose field paths
  resolve and whose body / response_body selectors resolve is accepted by `addBinding` on
  ANY trie — unless its end node already belongs to another method (the conflict the
  property wants rejected).
-/
namespace Larking.Trie
open Larking.Lexer

/-! ### field paths and sub-patterns as token lists -/

def dottedKeys (d : Dotted) : List Bytes := d.map fun p => runesBytes p.2

theorem fieldKeys_complete (a : Bytes) (d : Dotted) (rest : List Tok)
    (hrest : ∀ t, rest.head? = some t → t.typ ≠ .dot) :
    fieldKeys (⟨.ident, a⟩ :: (toksDotted d ++ rest)) = (a :: dottedKeys d, rest) := by
  induction d generalizing a with
  | nil =>
    simp only [toksDotted, List.flatMap_nil, List.nil_append, dottedKeys, List.map_nil]
    cases rest with
    | nil => simp [fieldKeys]
    | cons t rest =>
      have : (t.typ == TokTy.dot) = false := by simpa using hrest t rfl
      simp [fieldKeys, this]
  | cons p d ih =>
    have : toksDotted (p :: d) ++ rest
        = ⟨.dot, p.1.bytes⟩ :: ⟨.ident, runesBytes p.2⟩ :: (toksDotted d ++ rest) := by
      simp [toksDotted]
    rw [this]
    simp only [fieldKeys, beq_self_eq_true, if_true]
    rw [ih]
    simp [dottedKeys]

theorem okPat_simple (s : Simple) : ∀ t ∈ s.toks, okPatTok t = true ∧ t.typ ≠ .varEnd := by
  intro t ht
  cases s <;> simp [Simple.toks] at ht <;> subst ht <;> simp [okPatTok]

theorem patToks_complete (ts : List Tok) (h : ∀ t ∈ ts, okPatTok t = true ∧ t.typ ≠ .varEnd) (b : Bytes) (rest : List Tok) :
    patToks (ts ++ ⟨.varEnd, b⟩ :: rest) = some (ts, rest) := by
  induction ts with
  | nil => simp [patToks]
  | cons t ts ih =>
    have ht := h t (by simp)
    have hne : (t.typ == TokTy.varEnd) = false := by simpa using ht.2
    simp only [List.cons_append, patToks, hne, Bool.false_eq_true, if_false, ht.1, if_true]
    rw [ih (fun x hx => h x (by simp [hx]))]
    rfl

theorem okPat_simples (f : Simple) (more : List (Rune × Simple)) :
    ∀ t ∈ toksSimples f more, okPatTok t = true ∧ t.typ ≠ .varEnd := by
  intro t ht
  simp only [toksSimples, List.mem_append, List.mem_flatMap] at ht
  rcases ht with ht | ⟨p, _, ht⟩
  · exact okPat_simple f t ht
  · simp only [List.mem_cons] at ht
    rcases ht with rfl | ht
    · simp [okPatTok]
    · exact okPat_simple p.2 t ht

/-! ### what `addRule` makes of a segment -/

def _root_.Larking.Lexer.VarT.keys (v : VarT) : List Bytes := runesBytes v.ident :: dottedKeys v.dotted

def _root_.Larking.Lexer.VarT.pat (v : VarT) : List Tok :=
  match v.sub with
  | none => [⟨.star, [42]⟩]
  | some (_, f, more) => toksSimples f more

def _root_.Larking.Lexer.Seg.edge : Seg → Edge
  | .simple (.lit run) => .seg (slashB ++ runesBytes run)
  | .simple (.star r) => .var ⟨r.bytes, [⟨.star, r.bytes⟩]⟩
  | .simple (.starstar r1 r2) => .var ⟨r1.bytes ++ r2.bytes, [⟨.starstar, r1.bytes ++ r2.bytes⟩]⟩
  | .var v => .var ⟨toksString v.pat, v.pat⟩

def _root_.Larking.Lexer.Seg.fds (resolve : List Bytes → Option Nat) : Seg → List (Option Nat)
  | .simple (.lit _) => []
  | .simple _ => [none]
  | .var v => [resolve v.keys]

/-- the field path of a variable segment resolves in the request type. -/
def _root_.Larking.Lexer.Seg.Resolves (resolve : List Bytes → Option Nat) : Seg → Prop
  | .simple _ => True
  | .var v => (resolve v.keys).isSome = true

/-- one `"/" Segment` step of `addRule`'s token loop. -/
theorem parseToks_seg (resolve : List Bytes → Option Nat) (g : Seg) (hr : g.Resolves resolve) (sl : Bytes)
    (fuel : Nat) (rest : List Tok) :
    parseToks resolve (fuel + 1) (⟨.slash, sl⟩ :: (g.toks ++ rest)) =
      match parseToks resolve fuel rest with
      | .ok p => .ok ⟨g.edge :: p.edges, g.fds resolve ++ p.varfds⟩
      | .err k => .err k
      | .panic s => .panic s := by
  cases g with
  | simple s =>
    cases s with
    | lit run =>
      simp only [Seg.toks, Simple.toks, List.cons_append, List.nil_append, parseToks, Seg.edge, Seg.fds]
      simp
      cases parseToks resolve fuel rest <;> simp
    | star r =>
      simp only [Seg.toks, Simple.toks, List.cons_append, List.nil_append, parseToks, Seg.edge, Seg.fds]
      simp
      cases parseToks resolve fuel rest <;> rfl
    | starstar r1 r2 =>
      simp only [Seg.toks, Simple.toks, List.cons_append, List.nil_append, parseToks, Seg.edge, Seg.fds]
      simp
      cases parseToks resolve fuel rest <;> rfl
  | var v =>
    have hres : (resolve v.keys).isSome = true := hr
    obtain ⟨fp, hfp⟩ := Option.isSome_iff_exists.mp hres
    have htoks : (Seg.var v).toks ++ rest
        = ⟨.varStart, v.lbrace.bytes⟩ :: ⟨.ident, runesBytes v.ident⟩ ::
            (toksDotted v.dotted ++ (v.subToks ++ ⟨.varEnd, v.rbrace.bytes⟩ :: rest)) := by
      simp [Seg.toks, VarT.toks, List.append_assoc]
    rw [htoks, parseToks]
    simp only [show ((⟨.slash, sl⟩ : Tok).typ == TokTy.eof) = false from rfl,
      show ((⟨.slash, sl⟩ : Tok).typ == TokTy.verb) = false from rfl,
      show ((⟨.slash, sl⟩ : Tok).typ == TokTy.slash) = true from rfl, Bool.false_eq_true, if_false, if_true]
    simp only [show ((⟨.varStart, v.lbrace.bytes⟩ : Tok).typ == TokTy.star) = false from rfl,
      show ((⟨.varStart, v.lbrace.bytes⟩ : Tok).typ == TokTy.starstar) = false from rfl,
      show ((⟨.varStart, v.lbrace.bytes⟩ : Tok).typ == TokTy.literal) = false from rfl,
      show ((⟨.varStart, v.lbrace.bytes⟩ : Tok).typ == TokTy.varStart) = true from rfl,
      Bool.or_self, Bool.false_eq_true, if_false, if_true]
    -- the field path
    have hhead : ∀ t, (v.subToks ++ ⟨.varEnd, v.rbrace.bytes⟩ :: rest).head? = some t → t.typ ≠ .dot := by
      intro t ht
      unfold VarT.subToks at ht
      cases hs : v.sub with
      | none => rw [hs] at ht; simp at ht; rw [← ht]; simp
      | some x => obtain ⟨eq, f, more⟩ := x; rw [hs] at ht; simp at ht; rw [← ht]; simp
    rw [fieldKeys_complete _ v.dotted _ hhead]
    simp only
    unfold VarT.subToks
    cases hs : v.sub with
    | none =>
      simp only [List.nil_append]
      simp only [show ((⟨.varEnd, v.rbrace.bytes⟩ : Tok).typ == TokTy.equal) = false from rfl,
        show ((⟨.varEnd, v.rbrace.bytes⟩ : Tok).typ == TokTy.varEnd) = true from rfl, Bool.false_eq_true, if_false, if_true]
      have hk : runesBytes v.ident :: dottedKeys v.dotted = v.keys := rfl
      rw [hk, hfp]
      simp only [Seg.edge, Seg.fds, VarT.pat, hs, hfp]
      cases parseToks resolve fuel rest <;> simp
    | some x =>
      obtain ⟨eq, f, more⟩ := x
      simp only [List.cons_append]
      simp only [show ((⟨.equal, eq.bytes⟩ : Tok).typ == TokTy.equal) = true from rfl, if_true]
      rw [patToks_complete _ (okPat_simples f more)]
      simp only
      have hk : runesBytes v.ident :: dottedKeys v.dotted = v.keys := rfl
      rw [hk, hfp]
      simp only [Seg.edge, Seg.fds, VarT.pat, hs, hfp]
      cases parseToks resolve fuel rest <;> simp

/-! ### the whole template -/

def segsEdges (first : Seg) (more : List (Rune × Seg)) : List Edge := first.edge :: more.map fun p => p.2.edge
def segsFds (resolve : List Bytes → Option Nat) (first : Seg) (more : List (Rune × Seg)) : List (Option Nat) :=
  first.fds resolve ++ more.flatMap fun p => p.2.fds resolve

def _root_.Larking.Lexer.Tmpl.verbEdges (t : Tmpl) : List Edge :=
  match t.verb with
  | none => []
  | some (_, run) => [.seg (colonB ++ runesBytes run)]

def _root_.Larking.Lexer.Tmpl.edges (t : Tmpl) : List Edge := segsEdges t.first t.more ++ t.verbEdges
def _root_.Larking.Lexer.Tmpl.fds (resolve : List Bytes → Option Nat) (t : Tmpl) : List (Option Nat) :=
  segsFds resolve t.first t.more

def _root_.Larking.Lexer.Tmpl.Resolves (resolve : List Bytes → Option Nat) (t : Tmpl) : Prop :=
  t.first.Resolves resolve ∧ ∀ p ∈ t.more, p.2.Resolves resolve

/-- the tail of a template: `[ ":" LITERAL ] EOF`. -/
theorem parseToks_tail (resolve : List Bytes → Option Nat) (t : Tmpl) (fuel : Nat) :
    parseToks resolve (fuel + 1) (t.verbToks ++ [⟨.eof, []⟩]) = .ok ⟨t.verbEdges, []⟩ := by
  unfold Tmpl.verbToks Tmpl.verbEdges
  cases t.verb with
  | none => simp [parseToks]
  | some x => obtain ⟨colon, run⟩ := x; simp [parseToks]

theorem parseToks_segs (resolve : List Bytes → Option Nat) (tail : List Tok) (tailEdges : List Edge)
    (more : List (Rune × Seg)) :
    ∀ (first : Seg) (sl : Bytes) (fuel : Nat), first.Resolves resolve → (∀ p ∈ more, p.2.Resolves resolve) →
      more.length + 2 ≤ fuel →
      (∀ k, parseToks resolve (k + 1) tail = .ok ⟨tailEdges, []⟩) →
      parseToks resolve fuel (⟨.slash, sl⟩ :: (toksSegs first more ++ tail))
        = .ok ⟨segsEdges first more ++ tailEdges, segsFds resolve first more⟩ := by
  induction more with
  | nil =>
    intro first sl fuel hf _ hfuel htail
    obtain ⟨fuel, rfl⟩ : ∃ k, fuel = k + 2 := ⟨fuel - 2, by simp at hfuel; omega⟩
    simp only [toksSegs, List.flatMap_nil, List.append_nil]
    rw [parseToks_seg resolve first hf sl (fuel + 1) tail, htail fuel]
    simp [segsEdges, segsFds]
  | cons p more ih =>
    intro first sl fuel hf hmore hfuel htail
    obtain ⟨sl2, g2⟩ := p
    simp only [List.length_cons] at hfuel
    obtain ⟨fuel, rfl⟩ : ∃ k, fuel = k + 1 := ⟨fuel - 1, by omega⟩
    have ht : toksSegs first ((sl2, g2) :: more) ++ tail
        = first.toks ++ (⟨.slash, sl2.bytes⟩ :: (toksSegs g2 more ++ tail)) := by
      simp [toksSegs, List.append_assoc]
    rw [ht, parseToks_seg resolve first hf sl fuel _,
      ih g2 sl2.bytes fuel (hmore (sl2, g2) (by simp)) (fun q hq => hmore q (by simp [hq])) (by omega) htail]
    simp [segsEdges, segsFds, List.append_assoc]

/-- **`addRule`'s token loop on a template of the grammar**: its way through the trie and the
field paths of its variables. -/
theorem parseToks_tmpl (resolve : List Bytes → Option Nat) (t : Tmpl) (hr : t.Resolves resolve) (fuel : Nat)
    (hfuel : t.more.length + 2 ≤ fuel) :
    parseToks resolve fuel t.toks = .ok ⟨t.edges, t.fds resolve⟩ := by
  have := parseToks_segs resolve (t.verbToks ++ [⟨.eof, []⟩]) t.verbEdges t.more t.first t.slash.bytes fuel
    hr.1 hr.2 hfuel (fun k => parseToks_tail resolve t k)
  simpa [Tmpl.toks, Tmpl.edges, Tmpl.fds] using this

/-! ### walking the trie and registering -/

/-- `insertAt` adds nothing to what can go wrong at the end of the way. -/
theorem insertAt_outcome (P : Outcome Node → Prop) (hP : ∀ e, P (.err e) → True)
    (f : Node → Outcome Node) (hf : ∀ n, (∃ n', f n = .ok n') ∨ f n = .err "duplicate-rule") :
    ∀ (edges : List Edge) (n : Node), (∃ n', insertAt n edges f = .ok n') ∨ insertAt n edges f = .err "duplicate-rule" := by
  intro edges
  induction edges with
  | nil => intro n; simpa [insertAt] using hf n
  | cons e edges ih =>
    intro n
    obtain ⟨segs, methods, all, vars⟩ := n
    cases e with
    | seg k =>
      simp only [insertAt]
      rcases ih ((lookupSeg segs k).getD .empty) with ⟨c, hc⟩ | hc
      · rw [hc]; exact Or.inl ⟨_, rfl⟩
      · rw [hc]; exact Or.inr rfl
    | var v =>
      simp only [insertAt]
      rcases ih (varChild vars v.name) with ⟨c, hc⟩ | hc
      · rw [hc]; exact Or.inl ⟨_, rfl⟩
      · rw [hc]; exact Or.inr rfl

theorem register_outcome (n : Node) (verb : Bytes) (mid : Nat) (m : Meth) :
    (∃ n', register n verb mid (fun _ => .ok m) = .ok n') ∨
      register n verb mid (fun _ => .ok m) = .err "duplicate-rule" := by
  obtain ⟨segs, methods, all, vars⟩ := n
  simp only [register, registerCore]
  split
  · split
    · exact Or.inr rfl
    · exact Or.inl ⟨_, rfl⟩
  · split <;> exact Or.inl ⟨_, rfl⟩

/-- **Acceptance.** A binding whose template is of the documented grammar (tokens fitting the
token array), whose variables' field paths resolve in the request type and whose body and
response_body selectors resolve is accepted by `addBinding` on every trie — the only other
outcome is the duplicate-rule error raised when its end node already belongs to another
method. It never panics. -/
theorem valid_binding_accepted (cap : Nat) (resolve : List Bytes → Option Nat) (n : Node) (b : Binding) (mid : Nat)
    (t : Tmpl) (ht : t.Wf) (hb : b.tmpl = t.render) (hcap : t.toks.length ≤ cap)
    (hres : t.Resolves resolve) (hbody : b.bodyOk = true) (hresp : b.respOk = true) :
    (∃ n', addBinding cap resolve n b mid = .ok n') ∨ addBinding cap resolve n b mid = .err "duplicate-rule" := by
  unfold addBinding
  rw [hb, lexTemplate_complete cap t ht hcap]
  simp only
  have hlen : t.more.length + 2 ≤ t.toks.length + 1 := by
    have : (toksSegs t.first t.more).length ≥ t.more.length := by
      induction t.more with
      | nil => simp
      | cons p more ih => simp [toksSegs] at ih ⊢; omega
    simp [Tmpl.toks]; omega
  rw [parseToks_tmpl resolve t hres _ hlen]
  simp only [hbody, hresp, Bool.not_true, Bool.false_eq_true, if_false]
  exact insertAt_outcome (fun _ => True) (fun _ _ => trivial) _
    (fun node => register_outcome node b.verb mid _) _ n

/-- a binding is *valid*: of the grammar, resolvable, within the token array. -/
def ValidBinding (cap : Nat) (resolve : List Bytes → Option Nat) (b : Binding) : Prop :=
  ∃ t : Tmpl, t.Wf ∧ b.tmpl = t.render ∧ t.toks.length ≤ cap ∧ t.Resolves resolve ∧
    b.bodyOk = true ∧ b.respOk = true

theorem addAdditional_accepted (cap : Nat) (resolve : List Bytes → Option Nat) (mid : Nat)
    (adds : List (Binding × Bool)) :
    ∀ (n : Node), (∀ p ∈ adds, p.2 = false ∧ ValidBinding cap resolve p.1) →
      (∃ n', addAdditional cap resolve mid n adds = .ok n') ∨
        addAdditional cap resolve mid n adds = .err "duplicate-rule" := by
  induction adds with
  | nil => intro n _; exact Or.inl ⟨n, rfl⟩
  | cons p adds ih =>
    intro n h
    obtain ⟨b, nested⟩ := p
    obtain ⟨hn, t, ht, hb, hcap, hres, hbody, hresp⟩ := h (b, nested) (by simp)
    simp only at hn
    subst hn
    simp only [addAdditional, Bool.false_eq_true, if_false]
    rcases valid_binding_accepted cap resolve n b mid t ht hb hcap hres hbody hresp with ⟨n', h1⟩ | h1
    · rw [h1]; exact ih n' (fun q hq => h q (by simp [hq]))
    · rw [h1]; exact Or.inr rfl

/-- **A valid rule — primary binding and additional bindings (not nested) — is accepted on
every trie unless one of its bindings conflicts with another method's.** -/
theorem valid_rule_accepted (cap : Nat) (resolve : List Bytes → Option Nat) (n : Node) (r : Rule) (mid : Nat)
    (hp : ValidBinding cap resolve r.primary)
    (ha : ∀ p ∈ r.additional, p.2 = false ∧ ValidBinding cap resolve p.1) :
    (∃ n', addRule cap resolve n r mid = .ok n') ∨ addRule cap resolve n r mid = .err "duplicate-rule" := by
  obtain ⟨t, ht, hb, hcap, hres, hbody, hresp⟩ := hp
  unfold addRule
  rcases valid_binding_accepted cap resolve n r.primary mid t ht hb hcap hres hbody hresp with ⟨n', h1⟩ | h1
  · rw [h1]; exact addAdditional_accepted cap resolve mid r.additional n' ha
  · rw [h1]; exact Or.inr rfl

theorem insertAt_empty (f : Node → Outcome Node) (hf : ∃ c, f .empty = .ok c) :
    ∀ (edges : List Edge), ∃ n', insertAt .empty edges f = .ok n' := by
  intro edges
  induction edges with
  | nil => simpa [insertAt] using hf
  | cons e edges ih =>
    obtain ⟨c, hc⟩ := ih
    cases e with
    | seg k =>
      simp only [Node.empty, insertAt, lookupSeg, Option.getD_none]
      rw [show (Node.mk [] [] none [] : Node) = Node.empty from rfl, hc]
      exact ⟨_, rfl⟩
    | var v =>
      simp only [Node.empty, insertAt, varChild, lookupVar]
      rw [show (Node.mk [] [] none [] : Node) = Node.empty from rfl, hc]
      exact ⟨_, rfl⟩

/-- on the empty trie there is nothing to conflict with: a valid binding is accepted. -/
theorem valid_binding_accepted_on_empty (cap : Nat) (resolve : List Bytes → Option Nat) (b : Binding) (mid : Nat)
    (hv : ValidBinding cap resolve b) : ∃ n', addBinding cap resolve .empty b mid = .ok n' := by
  obtain ⟨t, ht, hb, hcap, hres, hbody, hresp⟩ := hv
  unfold addBinding
  rw [hb, lexTemplate_complete cap t ht hcap]
  simp only
  have hlen : t.more.length + 2 ≤ t.toks.length + 1 := by
    have : (toksSegs t.first t.more).length ≥ t.more.length := by
      induction t.more with
      | nil => simp
      | cons p more ih => simp [toksSegs] at ih ⊢; omega
    simp [Tmpl.toks]; omega
  rw [parseToks_tmpl resolve t hres _ hlen]
  simp only [hbody, hresp, Bool.not_true, Bool.false_eq_true, if_false]
  apply insertAt_empty
  simp only [Node.empty, register, registerCore, lookupMeth, ite_self]
  split <;> exact ⟨_, rfl⟩

end Larking.Trie
