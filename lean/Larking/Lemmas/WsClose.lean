import Larking.Model.WsClose
namespace Larking.WsClose

theorem trimTail_prefix (b : Bytes) : ∃ k, trimTail b = b.take k := by
  unfold trimTail
  simp only
  split
  · split
    · exact ⟨_, rfl⟩
    · split
      · exact ⟨b.length, by simp⟩
      · split
        · split
          · exact ⟨_, rfl⟩
          · split
            · exact ⟨b.length, by simp⟩
            · split
              · split
                · exact ⟨_, rfl⟩
                · exact ⟨b.length, by simp⟩
              · exact ⟨b.length, by simp⟩
        · exact ⟨b.length, by simp⟩
  · exact ⟨b.length, by simp⟩

theorem trimTail_length (b : Bytes) : (trimTail b).length ≤ b.length := by
  obtain ⟨k, hk⟩ := trimTail_prefix b
  rw [hk]; simp; omega

theorem reason_length (max : Nat) (rs : Bool) (msg : Bytes) : (reason max rs msg).length ≤ max ∨ msg.length ≤ max := by
  unfold reason
  by_cases h : msg.length > max
  · left
    simp only [h, if_true]
    cases rs
    · simp; omega
    · have := trimTail_length (msg.take max)
      simp only [if_true]
      simp at this ⊢; omega
  · right; omega

theorem reason_prefix (max : Nat) (rs : Bool) (msg : Bytes) : ∃ k, reason max rs msg = msg.take k := by
  unfold reason
  split
  · cases rs
    · exact ⟨max, rfl⟩
    · obtain ⟨k, hk⟩ := trimTail_prefix (msg.take max)
      simp only [if_true, hk, List.take_take]
      exact ⟨_, rfl⟩
  · exact ⟨msg.length, by simp⟩

end Larking.WsClose
