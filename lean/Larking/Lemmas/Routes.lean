import Larking.Lemmas.Complete
/-
  From registration to dispatch (C02, end to end over the trie):
  * `Way verb n toks es` — a way through the trie that matches the request tokens and ends at a
    node binding something for `verb` (the declarative "some registered rule matches").
  * `insertAt_way`   — inserting a binding creates the way for every token list its edges match.
  * `insertAt_ext` … `buildAll_ext` — no later accepted registration ever removes a way.
  * `way_dispatched` — on a well-formed trie a way means the request is dispatched.
-/
namespace Larking.Trie
open Larking.Lexer

/-- the node answers a request of kind `verb`: `methods[verb]` or `methodAll` is set. -/
def Binds (verb : Bytes) (n : Node) : Prop := lookupMeth n.methods verb ≠ none ∨ n.all ≠ none

inductive Way (verb : Bytes) : Node → List Tok → List Edge → Prop
  | here (n : Node) (toks : List Tok) : toks.length ≤ 1 → Binds verb n → Way verb n toks []
  | seg (n child : Node) (t0 t1 : Tok) (rest : List Tok) (es : List Edge) :
      lookupSeg n.segs (t0.val ++ t1.val) = some child → Way verb child rest es →
      Way verb n (t0 :: t1 :: rest) (.seg (t0.val ++ t1.val) :: es)
  | var (n child : Node) (v : Var) (t0 : Tok) (toks1 : List Tok) (i : Nat) (es : List Edge) :
      t0.typ = .slash → (v, child) ∈ n.vars → 1 ≤ toks1.length →
      varIndex v.toks toks1 0 = .ok (some i) → Way verb child (toks1.drop i) es →
      Way verb n (t0 :: toks1) (.var v :: es)

theorem mem_WFVars (k : Nat) : ∀ (vs : List (Var × Node)) (v : Var) (c : Node),
    WFVars k vs → (v, c) ∈ vs → WF (k + 1) c
  | [], _, _, _, hm => by cases hm
  | (v1, c1) :: rest, v, c, hw, hm => by
    simp only [WFVars] at hw
    rcases List.mem_cons.mp hm with h | h
    · injection h with h1 h2; subst h2; exact hw.2.1
    · exact mem_WFVars k rest v c hw.2.2 h

/-- a way through a well-formed trie is a `Reach` (the relation `search_complete` speaks about). -/
theorem way_reach (conv) (hconv : ∀ f t, conv f t = true) (verb : Bytes) :
    ∀ (n : Node) (toks : List Tok) (es : List Edge), Way verb n toks es → ∀ k, WF k n →
    ∃ m caps, Reach conv verb n toks m caps es ∧ caps.length = varCount es ∧
      m.vars.length = k + varCount es := by
  intro n toks es h
  induction h with
  | here n toks hlen hb =>
    intro k hwf
    obtain ⟨segs, methods, all, vars⟩ := n
    simp only [WF] at hwf
    cases hl : lookupMeth methods verb with
    | some m =>
      obtain ⟨p, hp, hpm⟩ := lookupMeth_mem methods verb m hl
      refine ⟨m, [], .hereVerb _ _ _ hlen (by simpa [Node.methods] using hl), by simp [varCount], ?_⟩
      subst hpm; simpa [varCount] using hwf.1 p hp
    | none =>
      rcases hb with hb | hb
      · simp [Node.methods, hl] at hb
      · cases ha : all with
        | none => simp [Node.all, ha] at hb
        | some m =>
          refine ⟨m, [], .hereAll _ _ _ hlen (by simpa [Node.methods] using hl) (by simp [Node.all]),
            by simp [varCount], ?_⟩
          simpa [varCount] using hwf.2.1 m ha
  | seg n child t0 t1 rest es hl _ ih =>
    intro k hwf
    obtain ⟨segs, methods, all, vars⟩ := n
    simp only [WF] at hwf
    simp only [Node.segs] at hl
    obtain ⟨m, caps, hr, hc, hm⟩ := ih k (lookupSeg_WF k segs _ child hwf.2.2.1 hl)
    exact ⟨m, caps, .seg _ child t0 t1 rest m caps es (by simpa [Node.segs] using hl) hr,
      by rw [varCount_cons_seg]; exact hc, by rw [varCount_cons_seg]; exact hm⟩
  | var n child v t0 toks1 i es ht0 hmem hlen hidx _ ih =>
    intro k hwf
    obtain ⟨segs, methods, all, vars⟩ := n
    simp only [WF] at hwf
    simp only [Node.vars] at hmem
    obtain ⟨m, caps, hr, hc, hm⟩ := ih (k + 1) (mem_WFVars k vars v child hwf.2.2.2 hmem)
    have hidxlt : m.vars.length - caps.length - 1 < m.vars.length := by omega
    refine ⟨m, _, .var _ child v t0 toks1 i m caps es (some m.vars[m.vars.length - caps.length - 1] |>.getD none)
      ht0 (by simpa [Node.vars] using hmem) (by simp; omega) hidx hr ?_ (by omega) (fun f _ => hconv f _), ?_, ?_⟩
    · simp [List.getElem?_eq_getElem hidxlt]
    · rw [varCount_cons_var]; simp [hc]
    · rw [varCount_cons_var]; omega

/-- **a way means dispatch** on a well-formed trie (captures convertible). -/
theorem way_dispatched (conv) (hconv : ∀ f t, conv f t = true) (verb : Bytes) (n : Node)
    (toks : List Tok) (es : List Edge) (h : Way verb n toks es) (k : Nat) (hwf : WF k n) :
    ∃ m caps, search conv verb n toks = .found m caps := by
  obtain ⟨m, caps, hr, _, _⟩ := way_reach conv hconv verb n toks es h k hwf
  exact search_complete conv verb hconv n toks m caps es hr k hwf

/-- conversely, what `search` finds lies at the end of a way. -/
theorem reach_way (conv) (verb : Bytes) : ∀ (n : Node) (toks : List Tok) (m : Meth) (caps : Caps) (es : List Edge),
    Reach conv verb n toks m caps es → Way verb n toks es := by
  intro n toks m caps es h
  induction h with
  | hereVerb n toks m hlen hl => exact .here _ _ hlen (Or.inl (by simp [hl]))
  | hereAll n toks m hlen _ ha => exact .here _ _ hlen (Or.inr (by simp [ha]))
  | seg n child t0 t1 rest m caps es hl _ ih => exact .seg _ child t0 t1 rest es hl ih
  | var n child v t0 toks1 i m caps es fp ht0 hmem hlen hidx _ _ _ _ ih =>
    exact .var _ child v t0 toks1 i es ht0 hmem (by simp at hlen; omega) hidx ih

theorem way_empty (verb : Bytes) (toks : List Tok) (es : List Edge) : ¬ Way verb .empty toks es := by
  intro h
  cases h with
  | here _ _ _ hb => rcases hb with hb | hb <;> simp [Node.empty, Node.methods, Node.all, lookupMeth] at hb
  | seg _ child t0 t1 rest es hl _ => simp [Node.empty, Node.segs, lookupSeg] at hl
  | var _ child v t0 toks1 i es _ hmem _ _ _ => simp [Node.empty, Node.vars] at hmem

/-! ### later registrations never remove a way -/

def Ext (n n' : Node) : Prop := ∀ verb toks es, Way verb n toks es → Way verb n' toks es

theorem Ext.refl (n : Node) : Ext n n := fun _ _ _ h => h
theorem Ext.trans {a b c : Node} (h1 : Ext a b) (h2 : Ext b c) : Ext a c :=
  fun v t e h => h2 v t e (h1 v t e h)
theorem Ext.ofEmpty (n : Node) : Ext .empty n := fun v t e h => absurd h (way_empty v t e)

theorem registerCore_binds (n n' : Node) (verb : Bytes) (mid : Nat) (mk : Unit → Outcome Meth)
    (h : registerCore n verb mid mk = .ok n') (v : Bytes) (hb : Binds v n) : Binds v n' := by
  obtain ⟨segs, methods, all, vars⟩ := n
  simp only [registerCore] at h
  split at h
  · split at h
    · cases h
    · injection h with h; subst h; exact hb
  · cases hm : mk () with
    | ok m0 =>
      rw [hm] at h
      simp only at h
      split at h
      · injection h with h; subst h
        rcases hb with hb | hb
        · exact Or.inl hb
        · exact Or.inr (by simp [Node.all])
      · injection h with h; subst h
        rcases hb with hb | hb
        · left
          simp only [Node.methods] at hb ⊢
          rw [lookupMeth_upsert]
          split
          · simp
          · exact hb
        · exact Or.inr hb
    | err e => rw [hm] at h; simp at h
    | panic s => rw [hm] at h; simp at h

/-- after a successful `register` the node answers the rule's own kind (every kind for `*`). -/
theorem registerCore_binds_new (n n' : Node) (verb : Bytes) (mid : Nat) (mk : Unit → Outcome Meth)
    (h : registerCore n verb mid mk = .ok n') (v : Bytes) (hv : verb = starVerb ∨ v = verb) : Binds v n' := by
  obtain ⟨segs, methods, all, vars⟩ := n
  simp only [registerCore] at h
  by_cases hstar : (verb == starVerb) = true
  · simp only [hstar, if_true] at h
    cases ha : all with
    | some e =>
      rw [ha] at h
      simp only at h
      split at h
      · cases h
      · injection h with h; subst h; exact Or.inr (by simp [Node.all])
    | none =>
      rw [ha] at h
      simp only at h
      cases hm : mk () with
      | ok m0 => rw [hm] at h; simp only at h; injection h with h; subst h; exact Or.inr (by simp [Node.all])
      | err e => rw [hm] at h; simp at h
      | panic s => rw [hm] at h; simp at h
  · have hne : verb ≠ starVerb := by intro he; exact hstar (by simp [he])
    have hv' : v = verb := by rcases hv with hv | hv; exact absurd hv hne; exact hv
    subst hv'
    simp only [hstar] at h
    cases hl : lookupMeth methods v with
    | some e =>
      rw [hl] at h
      simp only [Bool.false_eq_true, if_false] at h
      split at h
      · cases h
      · injection h with h; subst h; exact Or.inl (by simp [Node.methods, hl])
    | none =>
      rw [hl] at h
      simp only [Bool.false_eq_true, if_false] at h
      cases hm : mk () with
      | ok m0 =>
        rw [hm] at h; simp only at h; injection h with h; subst h
        left; simp only [Node.methods]; rw [lookupMeth_upsert]; simp
      | err e => rw [hm] at h; simp at h
      | panic s => rw [hm] at h; simp at h

theorem register_binds (n n' : Node) (verb : Bytes) (mid : Nat) (mk : Unit → Outcome Meth)
    (h : register n verb mid mk = .ok n') (v : Bytes) (hb : Binds v n) : Binds v n' := by
  obtain ⟨m0, _, hc⟩ := register_ok n n' verb mid mk h
  exact registerCore_binds n n' verb mid _ hc v hb

/-- after a successful `register` the node answers the rule's own kind (every kind for `*`). -/
theorem register_binds_new (n n' : Node) (verb : Bytes) (mid : Nat) (mk : Unit → Outcome Meth)
    (h : register n verb mid mk = .ok n') (v : Bytes) (hv : verb = starVerb ∨ v = verb) : Binds v n' := by
  obtain ⟨m0, _, hc⟩ := register_ok n n' verb mid mk h
  exact registerCore_binds_new n n' verb mid _ hc v hv

theorem register_ext (n n' : Node) (verb : Bytes) (mid : Nat) (mk : Unit → Outcome Meth)
    (h : register n verb mid mk = .ok n') : Ext n n' := by
  obtain ⟨hs, hv⟩ := register_same_structure n n' verb mid mk h
  intro v toks es hw
  cases hw with
  | here _ _ hlen hb => exact .here _ _ hlen (register_binds n n' verb mid mk h v hb)
  | seg _ child t0 t1 rest es hl hc => exact .seg _ child t0 t1 rest es (by rw [hs]; exact hl) hc
  | var _ child w t0 toks1 i es ht0 hmem hlen hidx hc =>
    exact .var _ child w t0 toks1 i es ht0 (by rw [hv]; exact hmem) hlen hidx hc

/-- an entry of the variable list survives `upsertVar`, or it is the one whose node is replaced. -/
theorem mem_upsertVar_keep : ∀ (vs : List (Var × Node)) (v : Var) (c : Node) (p : Var × Node),
    p ∈ vs → p ∈ upsertVar vs v c ∨ (lookupVar vs v.name = some p ∧ (p.1, c) ∈ upsertVar vs v c)
  | [], _, _, _, h => by cases h
  | (w, nw) :: rest, v, c, p, h => by
    rcases List.mem_cons.mp h with hp | hp
    · subst hp
      cases hn : (w.name == v.name) with
      | true => right; simp [upsertVar, lookupVar, hn]
      | false =>
        left
        cases hlt : bytesLt v.name w.name <;> simp [upsertVar, hn, hlt]
    · cases hn : (w.name == v.name) with
      | true => left; simp [upsertVar, hn, hp]
      | false =>
        cases hlt : bytesLt v.name w.name with
        | true => left; simp [upsertVar, hn, hlt, hp]
        | false =>
          rcases mem_upsertVar_keep rest v c p hp with h1 | ⟨h1, h2⟩
          · left; simp [upsertVar, hn, hlt, h1]
          · right; simp [upsertVar, lookupVar, hn, hlt, h1, h2]

theorem insertAt_ext (f : Node → Outcome Node) (hf : ∀ x x', f x = .ok x' → Ext x x') :
    ∀ (es : List Edge) (n n' : Node), insertAt n es f = .ok n' → Ext n n'
  | [], n, n', h => hf n n' (by simpa [insertAt] using h)
  | .seg k :: more, .mk segs methods all vars, n', h => by
    simp only [insertAt] at h
    cases hc : insertAt ((lookupSeg segs k).getD .empty) more f with
    | ok c =>
      rw [hc] at h; simp only at h; injection h with h; subst h
      have ih := insertAt_ext f hf more _ c hc
      intro verb toks es hw
      cases hw with
      | here _ _ hlen hb => exact .here _ _ hlen hb
      | seg _ child t0 t1 rest es hl hw' =>
        simp only [Node.segs] at hl
        by_cases hk : k = t0.val ++ t1.val
        · subst hk
          refine .seg _ c t0 t1 rest es (by simp [Node.segs, lookupSeg_upsert_same]) ?_
          rw [hl] at ih
          exact ih verb rest es hw'
        · exact .seg _ child t0 t1 rest es
            (by simp only [Node.segs]; rw [lookupSeg_upsert_other _ _ _ _ hk]; exact hl) hw'
      | var _ child w t0 toks1 i es ht0 hmem hlen hidx hw' =>
        exact .var _ child w t0 toks1 i es ht0 hmem hlen hidx hw'
    | err e => rw [hc] at h; simp at h
    | panic s => rw [hc] at h; simp at h
  | .var v :: more, .mk segs methods all vars, n', h => by
    simp only [insertAt] at h
    cases hc : insertAt (varChild vars v.name) more f with
    | ok c =>
      rw [hc] at h; simp only at h; injection h with h; subst h
      have ih := insertAt_ext f hf more _ c hc
      intro verb toks es hw
      cases hw with
      | here _ _ hlen hb => exact .here _ _ hlen hb
      | seg _ child t0 t1 rest es hl hw' => exact .seg _ child t0 t1 rest es hl hw'
      | var _ child w t0 toks1 i es ht0 hmem hlen hidx hw' =>
        simp only [Node.vars] at hmem
        rcases mem_upsertVar_keep vars v c (w, child) hmem with h1 | ⟨h1, h2⟩
        · exact .var _ child w t0 toks1 i es ht0 (by simpa [Node.vars] using h1) hlen hidx hw'
        · have : varChild vars v.name = child := by simp [varChild, h1]
          rw [this] at ih
          exact .var _ c w t0 toks1 i es ht0 (by simpa [Node.vars] using h2) hlen hidx
            (ih verb _ es hw')
    | err e => rw [hc] at h; simp at h
    | panic s => rw [hc] at h; simp at h

theorem addBinding_ext (cap : Nat) (resolve) (n n' : Node) (b : Binding) (mid : Nat)
    (h : addBinding cap resolve n b mid = .ok n') : Ext n n' := by
  simp only [addBinding] at h
  split at h
  · cases h
  · cases h
  · split at h
    · cases h
    · cases h
    · exact insertAt_ext _ (fun x x' hx => register_ext x x' _ _ _ hx) _ n n' h

theorem addAdditional_ext (cap : Nat) (resolve) (mid : Nat) :
    ∀ (adds : List (Binding × Bool)) (n n' : Node), addAdditional cap resolve mid n adds = .ok n' → Ext n n'
  | [], n, n', h => by simp only [addAdditional] at h; injection h with h; subst h; exact Ext.refl _
  | (b, nested) :: more, n, n', h => by
    simp only [addAdditional] at h
    split at h
    · cases h
    · split at h
      · rename_i n1 h1
        exact (addBinding_ext cap resolve n n1 b mid h1).trans (addAdditional_ext cap resolve mid more n1 n' h)
      · cases h
      · cases h

theorem addRule_ext (cap : Nat) (resolve) (n n' : Node) (r : Rule) (mid : Nat)
    (h : addRule cap resolve n r mid = .ok n') : Ext n n' := by
  simp only [addRule] at h
  split at h
  · rename_i n1 h1
    exact (addBinding_ext cap resolve n n1 r.primary mid h1).trans
      (addAdditional_ext cap resolve mid r.additional n1 n' h)
  · cases h
  · cases h

theorem buildAll_ext (cap : Nat) : ∀ (rs : List (Rule × Nat × (List Bytes → Option Nat))) (n n' : Node),
    buildAll cap rs n = .ok n' → Ext n n'
  | [], n, n', h => by simp only [buildAll] at h; injection h with h; subst h; exact Ext.refl _
  | (r, mid, resolve) :: more, n, n', h => by
    simp only [buildAll] at h
    split at h
    · rename_i n1 h1
      exact (addRule_ext cap resolve n n1 r mid h1).trans (buildAll_ext cap more n1 n' h)
    · cases h
    · cases h

/-! ### the inserted binding's own way -/

/-- the request tokens `toks` are an instance of the binding's edges. -/
inductive EdgeMatch : List Edge → List Tok → Prop
  | nil (toks : List Tok) : toks.length ≤ 1 → EdgeMatch [] toks
  | seg (t0 t1 : Tok) (rest : List Tok) (es : List Edge) :
      EdgeMatch es rest → EdgeMatch (.seg (t0.val ++ t1.val) :: es) (t0 :: t1 :: rest)
  | var (v : Var) (t0 : Tok) (toks1 : List Tok) (i : Nat) (es : List Edge) :
      t0.typ = .slash → 1 ≤ toks1.length → varIndex v.toks toks1 0 = .ok (some i) →
      EdgeMatch es (toks1.drop i) → EdgeMatch (.var v :: es) (t0 :: toks1)

/-- `addVariable` finds an existing variable by the *text* of its pattern; the new binding's
pattern is matched as written only if the variable found there has the same tokens. -/
def Agree : Node → List Edge → Prop
  | _, [] => True
  | .mk segs _ _ _, .seg k :: es => Agree ((lookupSeg segs k).getD .empty) es
  | .mk _ _ _ vars, .var v :: es =>
    (∀ v' c', lookupVar vars v.name = some (v', c') → v'.toks = v.toks) ∧ Agree (varChild vars v.name) es

theorem upsertVar_stored : ∀ (vs : List (Var × Node)) (v : Var) (c : Node),
    ∃ v', (v', c) ∈ upsertVar vs v c ∧ (v' = v ∨ ∃ c0, lookupVar vs v.name = some (v', c0))
  | [], v, c => ⟨v, by simp [upsertVar], Or.inl rfl⟩
  | (w, nw) :: rest, v, c => by
    cases hn : (w.name == v.name) with
    | true => exact ⟨w, by simp [upsertVar, hn], Or.inr ⟨nw, by simp [lookupVar, hn]⟩⟩
    | false =>
      cases hlt : bytesLt v.name w.name with
      | true => exact ⟨v, by simp [upsertVar, hn, hlt], Or.inl rfl⟩
      | false =>
        obtain ⟨v', h1, h2⟩ := upsertVar_stored rest v c
        exact ⟨v', by simp [upsertVar, hn, hlt, h1], by simpa [lookupVar, hn] using h2⟩

/-- **inserting a binding creates its way**: every token list that instantiates the binding's
edges has a way through the new trie, ending at a node that answers the binding's kind. -/
theorem insertAt_way (verb : Bytes) (f : Node → Outcome Node) (hf : ∀ x x', f x = .ok x' → Binds verb x') :
    ∀ (es : List Edge) (n n' : Node), insertAt n es f = .ok n' → Agree n es →
    ∀ toks, EdgeMatch es toks → ∃ es', es'.map keyOf = es.map keyOf ∧ Way verb n' toks es'
  | [], n, n', h, _, toks, hm => by
    cases hm with
    | nil _ hlen => exact ⟨[], rfl, .here _ _ hlen (hf n n' (by simpa [insertAt] using h))⟩
  | .seg k :: more, .mk segs methods all vars, n', h, hag, toks, hm => by
    simp only [insertAt] at h
    cases hc : insertAt ((lookupSeg segs k).getD .empty) more f with
    | ok c =>
      rw [hc] at h; simp only at h; injection h with h; subst h
      cases hm with
      | seg t0 t1 rest _ hm' =>
        simp only [Agree] at hag
        obtain ⟨es', hk, hw⟩ := insertAt_way verb f hf more _ c hc hag rest hm'
        exact ⟨.seg (t0.val ++ t1.val) :: es', by simp [keyOf, hk],
          .seg _ c t0 t1 rest es' (by simp [Node.segs, lookupSeg_upsert_same]) hw⟩
    | err e => rw [hc] at h; simp at h
    | panic s => rw [hc] at h; simp at h
  | .var v :: more, .mk segs methods all vars, n', h, hag, toks, hm => by
    simp only [insertAt] at h
    cases hc : insertAt (varChild vars v.name) more f with
    | ok c =>
      rw [hc] at h; simp only at h; injection h with h; subst h
      cases hm with
      | var _ t0 toks1 i _ ht0 hlen hidx hm' =>
        simp only [Agree] at hag
        obtain ⟨es', hk, hw⟩ := insertAt_way verb f hf more _ c hc hag.2 _ hm'
        obtain ⟨v', hmem, hv'⟩ := upsertVar_stored vars v c
        have htoks : v'.toks = v.toks := by
          rcases hv' with hv' | ⟨c0, hv'⟩
          · rw [hv']
          · exact hag.1 v' c0 hv'
        have hname : v'.name = v.name := by
          rcases hv' with hv' | ⟨c0, hv'⟩
          · rw [hv']
          · exact (lookupVar_mem vars v.name v' c0 hv').2
        exact ⟨.var v' :: es', by simp [keyOf, hk, hname],
          .var _ c v' t0 toks1 i es' ht0 (by simpa [Node.vars] using hmem) hlen (by rw [htoks]; exact hidx) hw⟩
    | err e => rw [hc] at h; simp at h
    | panic s => rw [hc] at h; simp at h

/-- the edges `addBinding` walks for a binding (`none` when the template is refused). -/
def bindingEdges (cap : Nat) (resolve : List Bytes → Option Nat) (b : Binding) : Option (List Edge) :=
  match lexTemplate cap b.tmpl with
  | .ok toks => (match parseToks resolve (toks.length + 1) toks with
    | .ok p => some p.edges
    | _ => none)
  | _ => none

theorem addBinding_edges (cap : Nat) (resolve) (n n' : Node) (b : Binding) (mid : Nat)
    (h : addBinding cap resolve n b mid = .ok n') : ∃ es, bindingEdges cap resolve b = some es := by
  cases hl : lexTemplate cap b.tmpl with
  | ok ttoks =>
    cases hp : parseToks resolve (ttoks.length + 1) ttoks with
    | ok p => exact ⟨p.edges, by simp [bindingEdges, hl, hp]⟩
    | err e => simp [addBinding, hl, hp] at h
    | panic s => simp [addBinding, hl, hp] at h
  | err e => simp [addBinding, hl] at h
  | panic s => simp [addBinding, hl] at h

/-- **an accepted binding is routed**: right after `addBinding` succeeds, every request whose
tokens instantiate the binding's template has a way through the trie for the binding's kind. -/
theorem addBinding_way (cap : Nat) (resolve) (n n' : Node) (b : Binding) (mid : Nat)
    (h : addBinding cap resolve n b mid = .ok n') (es : List Edge)
    (he : bindingEdges cap resolve b = some es) (hag : Agree n es)
    (toks : List Tok) (hm : EdgeMatch es toks) (verb : Bytes) (hv : b.verb = starVerb ∨ verb = b.verb) :
    ∃ es', es'.map keyOf = es.map keyOf ∧ Way verb n' toks es' := by
  simp only [addBinding] at h
  simp only [bindingEdges] at he
  split at h
  · cases h
  · cases h
  · rename_i ttoks hl
    rw [hl] at he
    simp only at he
    split at h
    · cases h
    · cases h
    · rename_i p hp
      rw [hp] at he
      simp only at he
      injection he with he; subst he
      exact insertAt_way verb _ (fun x x' hx => register_binds_new x x' _ _ _ hx verb hv) _ n n' h hag toks hm

/-! ### discharging `Agree`: the pattern text determines the pattern tokens

`addVariable` keys a variable by the text of its pattern.  The lexer is a function of the text,
so across one rule set two variables with the same pattern text have the same pattern tokens:
`g` is that function.  While every variable of the trie satisfies `toks = g name`, a new binding
whose variables satisfy it too meets `Agree`. -/

mutual
  def NFg (g : Bytes → List Tok) : Node → Prop
    | .mk segs _ _ vars => NFgSegs g segs ∧ NFgVars g vars
  def NFgSegs (g : Bytes → List Tok) : List (Bytes × Node) → Prop
    | [] => True
    | (_, c) :: rest => NFg g c ∧ NFgSegs g rest
  def NFgVars (g : Bytes → List Tok) : List (Var × Node) → Prop
    | [] => True
    | (v, c) :: rest => v.toks = g v.name ∧ NFg g c ∧ NFgVars g rest
end

def edgeG (g : Bytes → List Tok) : Edge → Prop
  | .seg _ => True
  | .var v => v.toks = g v.name

theorem NFg_empty (g) : NFg g .empty := by simp [Node.empty, NFg, NFgSegs, NFgVars]

theorem lookupSeg_NFg (g) : ∀ (segs : List (Bytes × Node)) (key : Bytes) (c : Node),
    NFgSegs g segs → lookupSeg segs key = some c → NFg g c
  | [], _, _, _, h => by simp [lookupSeg] at h
  | (k', c') :: rest, key, c, hwf, h => by
    simp only [NFgSegs] at hwf
    simp only [lookupSeg] at h
    split at h
    · injection h with h; subst h; exact hwf.1
    · exact lookupSeg_NFg g rest key c hwf.2 h

theorem upsertSeg_NFg (g) : ∀ (segs : List (Bytes × Node)) (key : Bytes) (c : Node),
    NFgSegs g segs → NFg g c → NFgSegs g (upsertSeg segs key c)
  | [], _, _, _, hc => by simp [upsertSeg, upsertKV, NFgSegs, hc]
  | (k', c') :: rest, key, c, hwf, hc => by
    simp only [NFgSegs] at hwf
    have ih := upsertSeg_NFg g rest key c hwf.2 hc
    simp only [upsertSeg] at ih ⊢
    unfold upsertKV
    split
    · simp [NFgSegs, hc, hwf.2]
    · split
      · simp only [NFgSegs]; exact ⟨hc, hwf.1, hwf.2⟩
      · simp only [NFgSegs]; exact ⟨hwf.1, ih⟩

theorem lookupVar_NFg (g) : ∀ (vars : List (Var × Node)) (name : Bytes) (v : Var) (c : Node),
    NFgVars g vars → lookupVar vars name = some (v, c) → v.toks = g v.name ∧ NFg g c
  | [], _, _, _, _, h => by simp [lookupVar] at h
  | (v', c') :: rest, name, v, c, hwf, h => by
    simp only [NFgVars] at hwf
    simp only [lookupVar] at h
    split at h
    · injection h with h; injection h with h1 h2; subst h1; subst h2; exact ⟨hwf.1, hwf.2.1⟩
    · exact lookupVar_NFg g rest name v c hwf.2.2 h

theorem upsertVar_NFg (g) : ∀ (vars : List (Var × Node)) (v : Var) (c : Node),
    NFgVars g vars → NFg g c → v.toks = g v.name → NFgVars g (upsertVar vars v c)
  | [], _, _, _, hc, hv => by simp [upsertVar, NFgVars, hc, hv]
  | (v', c') :: rest, v, c, hwf, hc, hv => by
    simp only [NFgVars] at hwf
    simp only [upsertVar]
    split
    · simp only [NFgVars]; exact ⟨hwf.1, hc, hwf.2.2⟩
    · split
      · simp only [NFgVars]; exact ⟨hv, hc, hwf.1, hwf.2.1, hwf.2.2⟩
      · simp only [NFgVars]; exact ⟨hwf.1, hwf.2.1, upsertVar_NFg g rest v c hwf.2.2 hc hv⟩

theorem varChild_NFg (g) (vars : List (Var × Node)) (name : Bytes) (h : NFgVars g vars) :
    NFg g (varChild vars name) := by
  unfold varChild
  cases hl : lookupVar vars name with
  | none => exact NFg_empty g
  | some p => obtain ⟨v', c⟩ := p; exact (lookupVar_NFg g vars name v' c h hl).2

theorem segChild_NFg (g) (segs : List (Bytes × Node)) (key : Bytes) (h : NFgSegs g segs) :
    NFg g ((lookupSeg segs key).getD .empty) := by
  cases hl : lookupSeg segs key with
  | none => exact NFg_empty g
  | some c => exact lookupSeg_NFg g segs key c h hl

theorem register_NFg (g) (n n' : Node) (verb : Bytes) (mid : Nat) (mk : Unit → Outcome Meth)
    (h : register n verb mid mk = .ok n') (hn : NFg g n) : NFg g n' := by
  obtain ⟨hs, hv⟩ := register_same_structure n n' verb mid mk h
  obtain ⟨segs, methods, all, vars⟩ := n
  obtain ⟨segs', methods', all', vars'⟩ := n'
  simp only [Node.segs, Node.vars] at hs hv
  subst hs; subst hv
  simpa only [NFg] using hn

theorem insertAt_NFg (g) (f : Node → Outcome Node) (hf : ∀ x x', f x = .ok x' → NFg g x → NFg g x') :
    ∀ (es : List Edge) (n n' : Node), insertAt n es f = .ok n' → NFg g n → (∀ e ∈ es, edgeG g e) → NFg g n'
  | [], n, n', h, hn, _ => hf n n' (by simpa [insertAt] using h) hn
  | .seg k :: more, .mk segs methods all vars, n', h, hn, hes => by
    simp only [insertAt] at h
    simp only [NFg] at hn
    cases hc : insertAt ((lookupSeg segs k).getD .empty) more f with
    | ok c =>
      rw [hc] at h; simp only at h; injection h with h; subst h
      have := insertAt_NFg g f hf more _ c hc (segChild_NFg g segs k hn.1) (fun e he => hes e (by simp [he]))
      simp only [NFg]
      exact ⟨upsertSeg_NFg g segs k c hn.1 this, hn.2⟩
    | err e => rw [hc] at h; simp at h
    | panic s => rw [hc] at h; simp at h
  | .var v :: more, .mk segs methods all vars, n', h, hn, hes => by
    simp only [insertAt] at h
    simp only [NFg] at hn
    cases hc : insertAt (varChild vars v.name) more f with
    | ok c =>
      rw [hc] at h; simp only at h; injection h with h; subst h
      have := insertAt_NFg g f hf more _ c hc (varChild_NFg g vars v.name hn.2) (fun e he => hes e (by simp [he]))
      simp only [NFg]
      exact ⟨hn.1, upsertVar_NFg g vars v c hn.2 this (hes (.var v) (by simp))⟩
    | err e => rw [hc] at h; simp at h
    | panic s => rw [hc] at h; simp at h

/-- on a trie whose variables obey `g`, a binding whose variables obey `g` agrees with it. -/
theorem agree_of_NFg (g) : ∀ (es : List Edge) (n : Node), NFg g n → (∀ e ∈ es, edgeG g e) → Agree n es
  | [], _, _, _ => by simp [Agree]
  | .seg k :: more, .mk segs methods all vars, hn, hes => by
    simp only [NFg] at hn
    simp only [Agree]
    exact agree_of_NFg g more _ (segChild_NFg g segs k hn.1) (fun e he => hes e (by simp [he]))
  | .var v :: more, .mk segs methods all vars, hn, hes => by
    simp only [NFg] at hn
    simp only [Agree]
    refine ⟨?_, agree_of_NFg g more _ (varChild_NFg g vars v.name hn.2) (fun e he => hes e (by simp [he]))⟩
    intro v' c' hl
    have h1 := (lookupVar_NFg g vars v.name v' c' hn.2 hl).1
    have h2 := (lookupVar_mem vars v.name v' c' hl).2
    have h3 : v.toks = g v.name := hes (.var v) (by simp)
    rw [h1, h2, h3]

/-- the rule set's variables obey `g` (equal pattern text ⇒ equal pattern tokens). -/
def BindingG (cap : Nat) (g : Bytes → List Tok) (resolve : List Bytes → Option Nat) (b : Binding) : Prop :=
  ∀ es, bindingEdges cap resolve b = some es → ∀ e ∈ es, edgeG g e

theorem addBinding_NFg (cap : Nat) (g) (resolve) (n n' : Node) (b : Binding) (mid : Nat)
    (h : addBinding cap resolve n b mid = .ok n') (hn : NFg g n) (hb : BindingG cap g resolve b) : NFg g n' := by
  obtain ⟨es, he⟩ := addBinding_edges cap resolve n n' b mid h
  have hes := hb es he
  simp only [addBinding] at h
  simp only [bindingEdges] at he
  split at h
  · cases h
  · cases h
  · rename_i ttoks hl
    rw [hl] at he
    simp only at he
    split at h
    · cases h
    · cases h
    · rename_i p hp
      rw [hp] at he
      simp only at he
      injection he with he; subst he
      exact insertAt_NFg g _ (fun x x' hx hnx => register_NFg g x x' _ _ _ hx hnx) _ n n' h hn hes

/-- one binding of an accepted rule set, with what is needed to speak about it. -/
def Routed (cap : Nat) (resolve : List Bytes → Option Nat) (b : Binding) (verb : Bytes) (toks : List Tok) : Prop :=
  ∃ es, bindingEdges cap resolve b = some es ∧ EdgeMatch es toks ∧ (b.verb = starVerb ∨ verb = b.verb)

theorem addAdditional_way (cap : Nat) (g) (resolve) (mid : Nat) :
    ∀ (adds : List (Binding × Bool)) (n n' : Node), addAdditional cap resolve mid n adds = .ok n' →
    NFg g n → (∀ p ∈ adds, BindingG cap g resolve p.1) →
    NFg g n' ∧ ∀ p ∈ adds, ∀ verb toks, Routed cap resolve p.1 verb toks → ∃ es', Way verb n' toks es'
  | [], n, n', h, hn, _ => by
    simp only [addAdditional] at h; injection h with h; subst h
    exact ⟨hn, fun p hp => by cases hp⟩
  | (b, nested) :: more, n, n', h, hn, hg => by
    simp only [addAdditional] at h
    split at h
    · cases h
    · split at h
      · rename_i n1 h1
        have hn1 := addBinding_NFg cap g resolve n n1 b mid h1 hn (hg (b, nested) (by simp))
        obtain ⟨hn', hrest⟩ := addAdditional_way cap g resolve mid more n1 n' h hn1 (fun p hp => hg p (by simp [hp]))
        refine ⟨hn', ?_⟩
        intro p hp verb toks hr
        rcases List.mem_cons.mp hp with hp | hp
        · subst hp
          obtain ⟨es, hedges, hinst, hkind⟩ := hr
          obtain ⟨es', _, hw⟩ := addBinding_way cap resolve n n1 b mid h1 es hedges
            (agree_of_NFg g es n hn (hg (b, nested) (by simp) es hedges)) toks hinst verb hkind
          exact ⟨es', addAdditional_ext cap resolve mid more n1 n' h verb toks es' hw⟩
        · exact hrest p hp verb toks hr
      · cases h
      · cases h

theorem addRule_way (cap : Nat) (g) (resolve) (n n' : Node) (r : Rule) (mid : Nat)
    (h : addRule cap resolve n r mid = .ok n') (hn : NFg g n) (hg : ∀ b ∈ r.bindings, BindingG cap g resolve b) :
    NFg g n' ∧ ∀ b ∈ r.bindings, ∀ verb toks, Routed cap resolve b verb toks → ∃ es', Way verb n' toks es' := by
  simp only [addRule] at h
  split at h
  · rename_i n1 h1
    have hn1 := addBinding_NFg cap g resolve n n1 r.primary mid h1 hn (hg r.primary (by simp [Rule.bindings]))
    obtain ⟨hn', hrest⟩ := addAdditional_way cap g resolve mid r.additional n1 n' h hn1
      (fun p hp => hg p.1 (by simp only [Rule.bindings, List.mem_cons, List.mem_map]; exact Or.inr ⟨p, hp, rfl⟩))
    refine ⟨hn', ?_⟩
    intro b hb verb toks hr
    simp only [Rule.bindings, List.mem_cons, List.mem_map] at hb
    rcases hb with hb | ⟨p, hp, hb⟩
    · subst hb
      obtain ⟨es, hedges, hinst, hkind⟩ := hr
      obtain ⟨es', _, hw⟩ := addBinding_way cap resolve n n1 r.primary mid h1 es hedges
        (agree_of_NFg g es n hn (hg r.primary (by simp [Rule.bindings]) es hedges)) toks hinst verb hkind
      exact ⟨es', addAdditional_ext cap resolve mid r.additional n1 n' h verb toks es' hw⟩
    · subst hb; exact hrest p hp verb toks hr
  · cases h
  · cases h

/-- every binding of every accepted rule has its way in the final trie. -/
theorem buildAll_way (cap : Nat) (g) : ∀ (rs : List (Rule × Nat × (List Bytes → Option Nat))) (n n' : Node),
    buildAll cap rs n = .ok n' → NFg g n → (∀ e ∈ rs, ∀ b ∈ e.1.bindings, BindingG cap g e.2.2 b) →
    ∀ e ∈ rs, ∀ b ∈ e.1.bindings, ∀ verb toks, Routed cap e.2.2 b verb toks → ∃ es', Way verb n' toks es'
  | [], _, _, _, _, _, e, he => by cases he
  | (r, mid, resolve) :: more, n, n', h, hn, hg, e, he => by
    simp only [buildAll] at h
    split at h
    · rename_i n1 h1
      obtain ⟨hn1, hhead⟩ := addRule_way cap g resolve n n1 r mid h1 hn (hg (r, mid, resolve) (by simp))
      intro b hb verb toks hr
      rcases List.mem_cons.mp he with he | he
      · subst he
        obtain ⟨es', hw⟩ := hhead b hb verb toks hr
        exact ⟨es', buildAll_ext cap more n1 n' h verb toks es' hw⟩
      · exact buildAll_way cap g more n1 n' h hn1 (fun e' he' => hg e' (by simp [he'])) e he b hb verb toks hr
    · cases h
    · cases h

end Larking.Trie
