import Larking.Lemmas.Commute
import Larking.Lemmas.VarIndexComplete
/-
  Discharging `BindingG`: `addVariable` keys a variable by the TEXT of its sub-pattern.  For
  patterns in canonical form — segments `*`, `**` or a literal without '/' that does not begin
  with '*', separated by "/" tokens, every token carrying its ASCII text — the text determines
  the tokens (`toksString_inj`), so a function `g` from text to tokens exists for every rule set
  whose patterns are canonical (`bindingG_of_canon`).
-/
namespace Larking.Trie
open Larking.Lexer

def segVal (t : Tok) : Prop :=
  (t.typ = .star ∧ t.val = [42]) ∨ (t.typ = .starstar ∧ t.val = [42, 42]) ∨
  (t.typ = .literal ∧ t.val ≠ [] ∧ (∀ b ∈ t.val, b ≠ 47) ∧ t.val.head? ≠ some 42)

def slashVal (t : Tok) : Prop := t.typ = .slash ∧ t.val = [47]

/-- `Segment { "/" Segment }` -/
inductive Canon : List Tok → Prop
  | one (t : Tok) : segVal t → Canon [t]
  | cons (t s : Tok) (rest : List Tok) : segVal t → slashVal s → Canon rest → Canon (t :: s :: rest)

theorem segVal_no_slash (t : Tok) (h : segVal t) : ∀ b ∈ t.val, b ≠ 47 := by
  rcases h with ⟨_, hv⟩ | ⟨_, hv⟩ | ⟨_, _, hv, _⟩
  · rw [hv]; decide
  · rw [hv]; decide
  · exact hv

theorem tok_eq_of_val (a b : Tok) (ha : segVal a) (hb : segVal b) (h : a.val = b.val) : a = b := by
  obtain ⟨at_, av⟩ := a
  obtain ⟨bt, bv⟩ := b
  simp only at h
  subst h
  simp only [segVal] at ha hb
  rcases ha with ⟨h1, v1⟩ | ⟨h1, v1⟩ | ⟨h1, n1, _, f1⟩ <;> rcases hb with ⟨h2, v2⟩ | ⟨h2, v2⟩ | ⟨h2, n2, _, f2⟩
  · rw [h1, h2]
  · rw [v1] at v2; simp at v2
  · rw [v1] at f2; simp at f2
  · rw [v1] at v2; simp at v2
  · rw [h1, h2]
  · rw [v1] at f2; simp at f2
  · rw [v2] at f1; simp at f1
  · rw [v2] at f1; simp at f1
  · rw [h1, h2]

theorem split_at_slash : ∀ (a b x y : Bytes), (∀ c ∈ a, c ≠ 47) → (∀ c ∈ b, c ≠ 47) →
    a ++ 47 :: x = b ++ 47 :: y → a = b ∧ x = y
  | [], [], x, y, _, _, h => by simp at h; exact ⟨rfl, h⟩
  | [], c :: b, x, y, _, hb, h => by
    simp only [List.nil_append, List.cons_append, List.cons.injEq] at h
    exact absurd h.1.symm (hb c (by simp))
  | c :: a, [], x, y, ha, _, h => by
    simp only [List.nil_append, List.cons_append, List.cons.injEq] at h
    exact absurd h.1 (ha c (by simp))
  | c :: a, d :: b, x, y, ha, hb, h => by
    simp only [List.cons_append, List.cons.injEq] at h
    obtain ⟨h1, h2⟩ := split_at_slash a b x y (fun e he => ha e (by simp [he])) (fun e he => hb e (by simp [he])) h.2
    exact ⟨by rw [h.1, h1], h2⟩

theorem no_slash_ne (a b y : Bytes) (ha : ∀ c ∈ a, c ≠ 47) : a ≠ b ++ 47 :: y := by
  intro h
  exact ha 47 (by rw [h]; simp) rfl

theorem toksString_cons (t : Tok) (rest : List Tok) : toksString (t :: rest) = t.val ++ toksString rest := by
  simp [toksString]

theorem toksString_one (t : Tok) : toksString [t] = t.val := by simp [toksString]

theorem toksString_two (t s : Tok) (rest : List Tok) (hs : s.val = [47]) :
    toksString (t :: s :: rest) = t.val ++ 47 :: toksString rest := by
  simp [toksString, hs]

/-- **the text of a canonical pattern determines its tokens.** -/
theorem toksString_inj (a b : List Tok) (ha : Canon a) (hb : Canon b) (h : toksString a = toksString b) : a = b := by
  induction ha generalizing b with
  | one t ht =>
    cases hb with
    | one t' ht' =>
      rw [toksString_one, toksString_one] at h
      rw [tok_eq_of_val t t' ht ht' h]
    | cons t' s' rest' ht' hs' _ =>
      rw [toksString_one, toksString_two t' s' rest' hs'.2] at h
      exact absurd h (no_slash_ne _ _ _ (segVal_no_slash t ht))
  | cons t s rest ht hs _ ih =>
    cases hb with
    | one t' ht' =>
      rw [toksString_one, toksString_two t s rest hs.2] at h
      exact absurd h.symm (no_slash_ne _ _ _ (segVal_no_slash t' ht'))
    | cons t' s' rest' ht' hs' hr' =>
      rw [toksString_two t s rest hs.2, toksString_two t' s' rest' hs'.2] at h
      obtain ⟨h1, h2⟩ := split_at_slash _ _ _ _ (segVal_no_slash t ht) (segVal_no_slash t' ht') h
      have e1 := tok_eq_of_val t t' ht ht' h1
      have e2 : s = s' := by
        obtain ⟨st, sv⟩ := s; obtain ⟨st', sv'⟩ := s'
        simp only [slashVal] at hs hs'
        rw [hs.1, hs.2, hs'.1, hs'.2]
      rw [e1, e2, ih rest' hr' h2]

/-- every variable edge carries a canonical pattern under its own text. -/
def edgeCanon : Edge → Prop
  | .seg _ => True
  | .var v => v.name = toksString v.toks ∧ Canon v.toks

/-- the function from pattern text to pattern tokens (well defined on canonical patterns). -/
noncomputable def gCanon (name : Bytes) : List Tok :=
  open Classical in
  if h : ∃ pat, Canon pat ∧ toksString pat = name then Classical.choose h else []

theorem gCanon_spec (pat : List Tok) (hc : Canon pat) : gCanon (toksString pat) = pat := by
  unfold gCanon
  have hex : ∃ p, Canon p ∧ toksString p = toksString pat := ⟨pat, hc, rfl⟩
  rw [dif_pos hex]
  have := Classical.choose_spec hex
  exact toksString_inj _ _ this.1 hc this.2

/-- **`BindingG` holds for every binding whose variable patterns are canonical.** -/
theorem bindingG_of_canon (cap : Nat) (resolve : List Bytes → Option Nat) (b : Binding)
    (h : ∀ es, bindingEdges cap resolve b = some es → ∀ e ∈ es, edgeCanon e) :
    BindingG cap gCanon resolve b := by
  intro es he e hmem
  have := h es he e hmem
  cases e with
  | seg k => trivial
  | var v =>
    simp only [edgeCanon] at this
    simp only [edgeG]
    rw [this.1, gCanon_spec v.toks this.2]

/-! ### templates of the documented grammar have canonical patterns (runes spelled as UTF-8 spells them) -/

/-- a rune of a literal: at least one byte, none of them '/' or '*' (UTF-8: an ASCII rune is its
own byte and '/' '*' are not literal characters; the bytes of a multi-byte rune are ≥ 0x80). -/
def LitBytes (r : Rune) : Prop := r.bytes ≠ [] ∧ ∀ b ∈ r.bytes, b ≠ 47 ∧ b ≠ 42

def simpleAscii : Simple → Prop
  | .lit run => run ≠ [] ∧ ∀ r ∈ run, LitBytes r
  | .star r => r.bytes = [42]
  | .starstar r1 r2 => r1.bytes = [42] ∧ r2.bytes = [42]

def varAscii (v : VarT) : Prop :=
  match v.sub with
  | none => True
  | some (_, f, more) => simpleAscii f ∧ ∀ p ∈ more, p.1.bytes = [47] ∧ simpleAscii p.2

def segAscii : Seg → Prop
  | .simple s => simpleAscii s
  | .var v => varAscii v

def tmplAscii (t : Tmpl) : Prop := segAscii t.first ∧ ∀ p ∈ t.more, segAscii p.2

theorem runesBytes_lit (run : List Rune) (hne : run ≠ []) (h : ∀ r ∈ run, LitBytes r) :
    runesBytes run ≠ [] ∧ (∀ b ∈ runesBytes run, b ≠ 47) ∧ (runesBytes run).head? ≠ some 42 := by
  cases run with
  | nil => exact absurd rfl hne
  | cons r rest =>
    obtain ⟨hr1, hr2⟩ := h r (by simp)
    cases hb : r.bytes with
    | nil => exact absurd hb hr1
    | cons b bs =>
      refine ⟨by simp [runesBytes, hb], ?_, ?_⟩
      · intro c hc
        simp only [runesBytes, List.mem_flatMap] at hc
        obtain ⟨q, hq, hcq⟩ := hc
        exact ((h q hq).2 c hcq).1
      · have : b ≠ 42 := (hr2 b (by rw [hb]; simp)).2
        simp only [runesBytes, List.flatMap_cons, hb, List.cons_append, List.head?_cons, ne_eq, Option.some.injEq]
        exact this

theorem simple_segVal (s : Simple) (h : simpleAscii s) : ∃ t, s.toks = [t] ∧ segVal t := by
  cases s with
  | lit run =>
    obtain ⟨h1, h2, h3⟩ := runesBytes_lit run h.1 h.2
    exact ⟨⟨.literal, runesBytes run⟩, rfl, Or.inr (Or.inr ⟨rfl, h1, h2, h3⟩)⟩
  | star r =>
    simp only [simpleAscii] at h
    exact ⟨⟨.star, r.bytes⟩, rfl, Or.inl ⟨rfl, h⟩⟩
  | starstar r1 r2 =>
    simp only [simpleAscii] at h
    exact ⟨⟨.starstar, r1.bytes ++ r2.bytes⟩, rfl, Or.inr (Or.inl ⟨rfl, by rw [h.1, h.2]; rfl⟩)⟩

theorem canon_toksSimples : ∀ (more : List (Rune × Simple)) (f : Simple), simpleAscii f →
    (∀ p ∈ more, p.1.bytes = [47] ∧ simpleAscii p.2) → Canon (toksSimples f more)
  | [], f, hf, _ => by
    obtain ⟨t, ht, hs⟩ := simple_segVal f hf
    simp only [toksSimples, ht, List.flatMap_nil, List.append_nil]
    exact .one t hs
  | (sl, g) :: more, f, hf, hm => by
    obtain ⟨t, ht, hs⟩ := simple_segVal f hf
    have ih := canon_toksSimples more g (hm (sl, g) (by simp)).2 (fun p hp => hm p (by simp [hp]))
    have : toksSimples f ((sl, g) :: more) = t :: ⟨.slash, sl.bytes⟩ :: toksSimples g more := by
      simp [toksSimples, ht]
    rw [this]
    exact .cons t _ _ hs ⟨rfl, (hm (sl, g) (by simp)).1⟩ ih

theorem seg_edge_canon (g : Seg) (h : segAscii g) : edgeCanon g.edge := by
  cases g with
  | simple s =>
    cases s with
    | lit run => trivial
    | star r =>
      simp only [segAscii, simpleAscii] at h
      simp only [Seg.edge, edgeCanon, h]
      exact ⟨by simp [toksString], .one _ (Or.inl ⟨rfl, rfl⟩)⟩
    | starstar r1 r2 =>
      simp only [segAscii, simpleAscii] at h
      simp only [Seg.edge, edgeCanon, h.1, h.2]
      exact ⟨by simp [toksString], .one _ (Or.inr (Or.inl ⟨rfl, rfl⟩))⟩
  | var v =>
    simp only [segAscii, varAscii] at h
    simp only [Seg.edge, edgeCanon, true_and]
    unfold VarT.pat
    cases hs : v.sub with
    | none => exact .one _ (Or.inl ⟨rfl, rfl⟩)
    | some p =>
      obtain ⟨eq, f, more⟩ := p
      rw [hs] at h
      exact canon_toksSimples more f h.1 h.2

theorem tmpl_edges_canon (t : Tmpl) (h : tmplAscii t) : ∀ e ∈ t.edges, edgeCanon e := by
  intro e he
  simp only [Tmpl.edges, segsEdges, List.mem_append, List.mem_cons, List.mem_map] at he
  rcases he with (he | ⟨p, hp, he⟩) | he
  · rw [he]; exact seg_edge_canon _ h.1
  · rw [← he]; exact seg_edge_canon _ (h.2 p hp)
  · unfold Tmpl.verbEdges at he
    cases hv : t.verb with
    | none => rw [hv] at he; simp at he
    | some q => rw [hv] at he; simp at he; rw [he]; trivial

/-- **every binding of the documented grammar obeys `gCanon`**: `BindingG` — the one hypothesis
of the routing, order and completeness theorems about the lexer — holds for it. -/
theorem grammar_bindingG (cap : Nat) (resolve : List Bytes → Option Nat) (b : Binding) (t : Tmpl)
    (ht : t.Wf) (hb : b.tmpl = t.render) (hcap : t.toks.length ≤ cap) (hres : t.Resolves resolve)
    (ha : tmplAscii t) : BindingG cap gCanon resolve b := by
  apply bindingG_of_canon
  intro es he
  rw [bindingEdges_of_grammar cap resolve b t ht hb hcap hres] at he
  injection he with he
  subst he
  exact tmpl_edges_canon t ha

end Larking.Trie
