import Larking.Lemmas.Provenance
namespace Larking.Lexer
open Larking.Trie

theorem emit_np (cap : Nat) (toks : List Tok) (t : Tok) (s : String) : emit cap toks t ≠ .panic s :=
  Trie.emit_no_panic cap toks t s
theorem fail_np (cap : Nat) (toks : List Tok) (k s : String) : fail cap toks k ≠ .panic s :=
  Trie.fail_no_panic cap toks k s
theorem lexRun_np (cap : Nat) (p : Rune → Bool) (ty : TokTy) (st : St) (s : String) :
    lexRun cap p ty st ≠ .panic s := Trie.lexRun_no_panic cap p ty st s
theorem emitOne_np (cap : Nat) (ty : TokTy) (r : Rune) (st : St) (rest : List Rune) (s : String) :
    emitOne cap ty r st rest ≠ .panic s := Trie.emitOne_no_panic cap ty r st rest s

theorem lexFieldPathTail_np (cap : Nat) : ∀ (fuel : Nat) (st : St) (s : String),
    lexFieldPathTail cap fuel st ≠ .panic s := by
  intro fuel
  induction fuel with
  | zero => intro st s; simp [lexFieldPathTail]
  | succ fuel ih =>
    intro st s
    unfold lexFieldPathTail
    split
    · rename_i r rest _
      split
      · cases he : emitOne cap .dot r st rest with
        | ok s1 =>
          simp only
          cases hl : lexRun cap (·.ident) .ident s1 with
          | ok s2 => simp only; exact ih _ _
          | err k => simp
          | panic x => exact absurd hl (lexRun_np _ _ _ _ _)
        | err k => simp
        | panic x => exact absurd he (emitOne_np _ _ _ _ _ _)
      · simp
    · simp

theorem lexFieldPath_np (cap : Nat) (st : St) (s : String) : lexFieldPath cap st ≠ .panic s := by
  unfold lexFieldPath
  cases hl : lexRun cap (·.ident) .ident st with
  | ok s1 => simp only; exact lexFieldPathTail_np _ _ _ _
  | err k => simp
  | panic x => exact absurd hl (lexRun_np _ _ _ _ _)

/-- the three mutually recursive template lexers never panic, whatever the input. -/
theorem lexMutual_np (cap : Nat) : ∀ (fuel : Nat),
    (∀ st s, lexSegment cap fuel st ≠ .panic s) ∧
    (∀ st s, lexSegments cap fuel st ≠ .panic s) ∧
    (∀ st s, lexVariable cap fuel st ≠ .panic s) := by
  intro fuel
  induction fuel with
  | zero =>
    refine ⟨?_, ?_, ?_⟩ <;> intro st s <;> simp only [lexSegment, lexSegments, lexVariable] <;>
      exact fail_np _ _ _ _
  | succ fuel ih =>
    obtain ⟨ihSeg, ihSegs, ihVar⟩ := ih
    refine ⟨?_, ?_, ?_⟩
    · intro st s
      unfold lexSegment
      split
      · exact fail_np _ _ _ _
      · rename_i r rest _
        split
        · exact lexRun_np _ _ _ _ _
        · split
          · split
            · rename_i r2 rest2
              split
              · split
                · simp
                · simp
                · rename_i heq; exact absurd heq (emit_np _ _ _ _)
              · exact emitOne_np _ _ _ _ _ _
            · exact emitOne_np _ _ _ _ _ _
          · split
            · exact ihVar _ _
            · exact fail_np _ _ _ _
    · intro st s
      unfold lexSegments
      cases hseg : lexSegment cap fuel st with
      | ok s1 =>
        simp only
        split
        · rename_i r rest _
          split
          · cases he : emitOne cap .slash r s1 rest with
            | ok s2 => simp only; exact ihSegs _ _
            | err k => simp
            | panic x => exact absurd he (emitOne_np _ _ _ _ _ _)
          · simp
        · simp
      | err k => simp
      | panic x => exact absurd hseg (ihSeg _ _)
    · intro st s
      unfold lexVariable
      split
      · exact fail_np _ _ _ _
      · rename_i r rest _
        split
        · exact fail_np _ _ _ _
        · cases he : emitOne cap .varStart r st rest with
          | ok s1 =>
            simp only
            cases hf : lexFieldPath cap s1 with
            | ok s2 =>
              simp only
              have hclose : ∀ (s3 : St), lexClose cap s3 ≠ .panic s := by
                intro s3
                unfold lexClose
                split
                · split
                  · exact emitOne_np _ _ _ _ _ _
                  · exact fail_np _ _ _ _
                · exact fail_np _ _ _ _
              split
              · rename_i r2 rest2 _
                split
                · cases he2 : emitOne cap .equal r2 s2 rest2 with
                  | ok s3 =>
                    simp only
                    cases hs : lexSegments cap fuel s3 with
                    | ok s4 => simp only; exact hclose s4
                    | err k => simp
                    | panic x => exact absurd hs (ihSegs _ _)
                  | err k => simp
                  | panic x => exact absurd he2 (emitOne_np _ _ _ _ _ _)
                · exact hclose s2
              · exact hclose s2
            | err k => simp
            | panic x => exact absurd hf (lexFieldPath_np _ _ _)
          | err k => simp
          | panic x => exact absurd he (emitOne_np _ _ _ _ _ _)

/-- `lexTemplate` is total: every rune sequence yields tokens or an error. -/
theorem lexTemplate_no_panic (cap : Nat) (input : List Rune) (s : String) :
    lexTemplate cap input ≠ .panic s := by
  unfold lexTemplate
  have hmap : ∀ (o : Outcome St), (∀ x, o ≠ .panic x) → o.map (·.toks) ≠ .panic s := by
    intro o ho
    cases o with
    | ok a => simp [Outcome.map, Outcome.bind]
    | err k => simp [Outcome.map, Outcome.bind]
    | panic x => exact absurd rfl (ho x)
  simp only
  split
  · exact hmap _ (fun x => fail_np _ _ _ x)
  · rename_i r rest
    split
    · exact hmap _ (fun x => fail_np _ _ _ x)
    · cases he : emitOne cap .slash r ⟨[], r :: rest⟩ rest with
      | ok s1 =>
        simp only
        cases hs : lexSegments cap (2 * (r :: rest).length + 2) s1 with
        | ok s2 =>
          simp only
          split
          · exact emit_np _ _ _ _
          · rename_i r2 rest2 _
            split
            · cases he2 : emitOne cap .verb r2 s2 rest2 with
              | ok s3 =>
                simp only
                cases hl : lexRun cap (·.literal) .literal s3 with
                | ok s4 =>
                  simp only
                  split
                  · exact emit_np _ _ _ _
                  · exact hmap _ (fun x => fail_np _ _ _ x)
                | err k => simp
                | panic x => exact absurd hl (lexRun_np _ _ _ _ _)
              | err k => simp
              | panic x => exact absurd he2 (emitOne_np _ _ _ _ _ _)
            · exact hmap _ (fun x => fail_np _ _ _ x)
        | err k => simp
        | panic x => exact absurd hs ((lexMutual_np cap _).2.1 _ _)
      | err k => simp
      | panic x => exact absurd he (emitOne_np _ _ _ _ _ _)

theorem lexPath_no_panic (cap : Nat) (input : List Rune) (s : String) : lexPath cap input ≠ .panic s :=
  Trie.lexPathLoop_no_panic cap _ _ s

/-- at most `cap` tokens are ever produced (the fixed array cannot overflow). -/
theorem emit_len (cap : Nat) (toks toks' : List Tok) (t : Tok) (h : emit cap toks t = .ok toks')
    (_hl : toks.length ≤ cap) : toks'.length ≤ cap := by
  unfold emit at h
  split at h
  · cases h
  · injection h with h; subst h; simp; omega

end Larking.Lexer
