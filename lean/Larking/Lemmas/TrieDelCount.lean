import Larking.Lemmas.TrieDel
/-
  `delRule` removes EXACTLY ONE verb binding of the method per successful call (the pruning of
  dead nodes removes none), and reports false exactly when none is left: the loop
  `for p.delRule(name) {}` ends after as many calls as the method has verb bindings, with no
  verb route of the method left anywhere in the trie.
-/
namespace Larking.Trie

def countMeth (name : Nat) (ms : List (Bytes × Meth)) : Nat := (ms.filter fun p => p.2.mid == name).length

mutual
  /-- the number of verb bindings of method `name` in the trie (kind `*` bindings not counted:
  `delRule` never visits `methodAll`). -/
  def countN (name : Nat) : Node → Nat
    | .mk segs methods _ vars => countSegs name segs + countVars name vars + countMeth name methods
  def countSegs (name : Nat) : List (Bytes × Node) → Nat
    | [] => 0
    | (_, c) :: rest => countN name c + countSegs name rest
  def countVars (name : Nat) : List (Var × Node) → Nat
    | [] => 0
    | (_, c) :: rest => countN name c + countVars name rest
end

theorem delMeth_count : ∀ (ms ms' : List (Bytes × Meth)) (name : Nat), delMeth ms name = some ms' →
    countMeth name ms' + 1 = countMeth name ms
  | [], _, _, h => by simp [delMeth] at h
  | (k, m0) :: rest, ms', name, h => by
    simp only [delMeth] at h
    by_cases hm : (m0.mid == name) = true
    · simp only [hm, if_true] at h
      injection h with h; subst h
      simp [countMeth, List.filter, hm]
    · simp only [hm] at h
      cases hr : delMeth rest name with
      | none => rw [hr] at h; simp at h
      | some rest' =>
        rw [hr] at h; simp only [Option.map_some] at h; injection h with h; subst h
        have ih := delMeth_count rest rest' name hr
        simp only [countMeth] at ih ⊢
        simp only [List.filter, hm]
        exact ih

theorem delMeth_none_count : ∀ (ms : List (Bytes × Meth)) (name : Nat), delMeth ms name = none →
    countMeth name ms = 0
  | [], _, _ => by simp [countMeth]
  | (k, m0) :: rest, name, h => by
    simp only [delMeth] at h
    by_cases hm : (m0.mid == name) = true
    · simp [hm] at h
    · simp only [hm] at h
      cases hr : delMeth rest name with
      | some r => rw [hr] at h; simp at h
      | none =>
        have ih := delMeth_none_count rest name hr
        simp only [countMeth] at ih ⊢
        simp only [List.filter, hm]
        exact ih

/-- a node that is not alive binds nothing. -/
theorem dead_count (counts : List String) (hs : AliveSound counts) (name : Nat) (n : Node)
    (h : aliveWith counts n = false) : countN name n = 0 := by
  obtain ⟨segs, methods, all, vars⟩ := n
  obtain ⟨h1, h2, h3, h4⟩ := hs
  simp only [aliveWith, h1, h2, h3, h4, Bool.true_and, Bool.or_eq_false_iff] at h
  obtain ⟨⟨⟨_, hm⟩, hv⟩, hsg⟩ := h
  have e1 : methods = [] := by cases methods with | nil => rfl | cons _ _ => simp at hm
  have e2 : vars = [] := by cases vars with | nil => rfl | cons _ _ => simp at hv
  have e3 : segs = [] := by cases segs with | nil => rfl | cons _ _ => simp at hsg
  subst e1; subst e2; subst e3
  simp [countN, countSegs, countVars, countMeth]

mutual
  /-- **one successful `delRule` removes exactly one verb binding of the method.** -/
  theorem delRule_count (counts : List String) (hs : AliveSound counts) (name : Nat) :
      ∀ (n n' : Node), delRule counts name n = some n' → countN name n' + 1 = countN name n
    | .mk segs methods all vars, n', h => by
      simp only [delRule] at h
      cases hsg : delSegs counts name segs with
      | some segs' =>
        rw [hsg] at h; simp only at h; injection h with h; subst h
        have := delSegs_count counts hs name segs segs' hsg
        simp only [countN]; omega
      | none =>
        rw [hsg] at h; simp only at h
        cases hv : delVars counts name vars with
        | some vars' =>
          rw [hv] at h; simp only at h; injection h with h; subst h
          have := delVars_count counts hs name vars vars' hv
          simp only [countN]; omega
        | none =>
          rw [hv] at h; simp only at h
          cases hd : delMeth methods name with
          | none => rw [hd] at h; simp at h
          | some ms =>
            rw [hd] at h; simp only [Option.map_some] at h; injection h with h; subst h
            have := delMeth_count methods ms name hd
            simp only [countN]; omega

  theorem delSegs_count (counts : List String) (hs : AliveSound counts) (name : Nat) :
      ∀ (segs segs' : List (Bytes × Node)), delSegs counts name segs = some segs' →
      countSegs name segs' + 1 = countSegs name segs
    | [], _, h => by simp [delSegs] at h
    | (k0, c0) :: rest, segs', h => by
      simp only [delSegs] at h
      cases hd : delRule counts name c0 with
      | some c0' =>
        rw [hd] at h; simp only at h; injection h with h; subst h
        have ih := delRule_count counts hs name c0 c0' hd
        by_cases hal : aliveWith counts c0' = true
        · simp only [hal, if_true, countSegs]; omega
        · have hz := dead_count counts hs name c0' (by simpa using hal)
          simp only [Bool.not_eq_true] at hal
          simp only [hal, Bool.false_eq_true, if_false, countSegs]
          omega
      | none =>
        rw [hd] at h; simp only at h
        cases hr : delSegs counts name rest with
        | none => rw [hr] at h; simp at h
        | some rest' =>
          rw [hr] at h; simp only [Option.map_some] at h; injection h with h; subst h
          have ih := delSegs_count counts hs name rest rest' hr
          simp only [countSegs]; omega

  theorem delVars_count (counts : List String) (hs : AliveSound counts) (name : Nat) :
      ∀ (vars vars' : List (Var × Node)), delVars counts name vars = some vars' →
      countVars name vars' + 1 = countVars name vars
    | [], _, h => by simp [delVars] at h
    | (v0, c0) :: rest, vars', h => by
      simp only [delVars] at h
      cases hd : delRule counts name c0 with
      | some c0' =>
        rw [hd] at h; simp only at h; injection h with h; subst h
        have ih := delRule_count counts hs name c0 c0' hd
        by_cases hal : aliveWith counts c0' = true
        · simp only [hal, if_true, countVars]; omega
        · have hz := dead_count counts hs name c0' (by simpa using hal)
          simp only [Bool.not_eq_true] at hal
          simp only [hal, Bool.false_eq_true, if_false, countVars]
          omega
      | none =>
        rw [hd] at h; simp only at h
        cases hr : delVars counts name rest with
        | none => rw [hr] at h; simp at h
        | some rest' =>
          rw [hr] at h; simp only [Option.map_some] at h; injection h with h; subst h
          have ih := delVars_count counts hs name rest rest' hr
          simp only [countVars]; omega
end

mutual
  /-- `delRule` reports false exactly when the method has no verb binding left. -/
  theorem delRule_none_count (counts : List String) (name : Nat) :
      ∀ (n : Node), delRule counts name n = none → countN name n = 0
    | .mk segs methods all vars, h => by
      simp only [delRule] at h
      cases hsg : delSegs counts name segs with
      | some segs' => rw [hsg] at h; simp at h
      | none =>
        rw [hsg] at h; simp only at h
        cases hv : delVars counts name vars with
        | some vars' => rw [hv] at h; simp at h
        | none =>
          rw [hv] at h; simp only at h
          cases hd : delMeth methods name with
          | some ms => rw [hd] at h; simp at h
          | none =>
            simp only [countN, delSegs_none_count counts name segs hsg, delVars_none_count counts name vars hv,
              delMeth_none_count methods name hd]

  theorem delSegs_none_count (counts : List String) (name : Nat) :
      ∀ (segs : List (Bytes × Node)), delSegs counts name segs = none → countSegs name segs = 0
    | [], _ => by simp [countSegs]
    | (k0, c0) :: rest, h => by
      simp only [delSegs] at h
      cases hd : delRule counts name c0 with
      | some c0' => rw [hd] at h; simp at h
      | none =>
        rw [hd] at h; simp only at h
        cases hr : delSegs counts name rest with
        | some r => rw [hr] at h; simp at h
        | none =>
          simp only [countSegs, delRule_none_count counts name c0 hd, delSegs_none_count counts name rest hr]

  theorem delVars_none_count (counts : List String) (name : Nat) :
      ∀ (vars : List (Var × Node)), delVars counts name vars = none → countVars name vars = 0
    | [], _ => by simp [countVars]
    | (v0, c0) :: rest, h => by
      simp only [delVars] at h
      cases hd : delRule counts name c0 with
      | some c0' => rw [hd] at h; simp at h
      | none =>
        rw [hd] at h; simp only at h
        cases hr : delVars counts name rest with
        | some r => rw [hr] at h; simp at h
        | none =>
          simp only [countVars, delRule_none_count counts name c0 hd, delVars_none_count counts name rest hr]
end

/-- the loop `for p.delRule(name) {}`: after as many calls as the method has verb bindings it
has ended, and none is left. -/
theorem delAll_complete (counts : List String) (hs : AliveSound counts) (name : Nat) :
    ∀ (fuel : Nat) (n : Node), countN name n ≤ fuel →
    delRule counts name (delAll counts name fuel n) = none ∧ countN name (delAll counts name fuel n) = 0
  | 0, n, h => by
    simp only [delAll]
    have hz : countN name n = 0 := by omega
    cases hd : delRule counts name n with
    | none => exact ⟨rfl, hz⟩
    | some n' => have := delRule_count counts hs name n n' hd; omega
  | fuel + 1, n, h => by
    simp only [delAll]
    cases hd : delRule counts name n with
    | none => exact ⟨hd, delRule_none_count counts name n hd⟩
    | some n' =>
      have := delRule_count counts hs name n n' hd
      exact delAll_complete counts hs name fuel n' (by omega)

end Larking.Trie
