import Larking.Model.StreamCodec
namespace Larking.Codec

theorem ofNat_toNat_lt {k : Nat} (h : k < 256) : (UInt8.ofNat k).toNat = k := by
  simp [UInt8.toNat_ofNat']; omega

theorem pow_split (a : Nat) (h : 7 ≤ a) : 2 ^ a = 128 * 2 ^ (a - 7) := by
  have : a = 7 + (a - 7) := by omega
  rw [this, Nat.pow_add]; simp

/-- LEB128 round trip with arbitrary trailing bytes, for every value below 2^64. -/
theorem getVarintAux_put (fuel : Nat) : ∀ (v shift idx : Nat) (rest : Bytes),
    idx + fuel = 10 → 0 < fuel → v < 2 ^ (64 - 7 * idx) →
    getVarintAux fuel shift idx (putVarintAux fuel v ++ rest)
      = some (v * 2 ^ shift, idx + (putVarintAux fuel v).length) := by
  induction fuel with
  | zero => intro v shift idx rest _ h0; omega
  | succ fuel ih =>
    intro v shift idx rest hi _ hv
    unfold putVarintAux
    by_cases hlt : v < 128
    · simp only [hlt, if_true, List.cons_append, List.nil_append, getVarintAux]
      have hb : (UInt8.ofNat v).toNat = v := ofNat_toNat_lt (by omega)
      rw [hb]
      simp only [hlt, if_true]
      by_cases h9 : idx = 9
      · subst h9
        have : v < 2 := by simpa using hv
        have hle : ¬ (v > 1) := by omega
        simp [hle]
      · have : (idx == 9) = false := by simpa using h9
        simp [this]
    · simp only [hlt, if_false, List.cons_append, getVarintAux]
      have hb : (UInt8.ofNat (v % 128 + 128)).toNat = v % 128 + 128 := ofNat_toNat_lt (by omega)
      rw [hb]
      have hge : ¬ (v % 128 + 128 < 128) := by omega
      simp only [hge, if_false]
      have hidx : idx ≤ 8 := by
        by_cases h : idx ≤ 8
        · exact h
        · have : 64 - 7 * idx ≤ 1 := by omega
          have : 2 ^ (64 - 7 * idx) ≤ 2 ^ 1 := Nat.pow_le_pow_right (by omega) this
          omega
      have hv' : v / 128 < 2 ^ (64 - 7 * (idx + 1)) := by
        have h7 : 7 ≤ 64 - 7 * idx := by omega
        rw [pow_split _ h7] at hv
        have : 64 - 7 * idx - 7 = 64 - 7 * (idx + 1) := by omega
        rw [this] at hv
        exact Nat.div_lt_of_lt_mul hv
      rw [ih (v / 128) (shift + 7) (idx + 1) rest (by omega) (by omega) hv']
      simp only [Option.map_some, Option.some.injEq, Prod.mk.injEq, List.length_cons]
      constructor
      · have : v % 128 + 128 - 128 = v % 128 := by omega
        rw [this, Nat.pow_add]
        have h128 : (2:Nat) ^ 7 = 128 := by simp
        rw [h128]
        have hdm := Nat.div_add_mod v 128
        have hv2 : v * 2 ^ shift = (128 * (v / 128) + v % 128) * 2 ^ shift := by rw [hdm]
        rw [hv2, Nat.add_mul]
        generalize 2 ^ shift = p
        generalize v / 128 = d
        generalize v % 128 = a
        ac_rfl
      · omega

theorem getVarint_put (v : Nat) (hv : v < 2 ^ 64) (rest : Bytes) :
    getVarint (putVarint v ++ rest) = some (v, (putVarint v).length) := by
  have := getVarintAux_put 10 v 0 0 rest (by omega) (by omega) (by simpa using hv)
  simpa [getVarint, putVarint] using this

/-- shape of an encoded prefix: continuation bytes then one terminator. -/
theorem putVarintAux_shape (fuel : Nat) : ∀ v, v < 128 ^ fuel → 0 < fuel →
    ∃ pre last, putVarintAux fuel v = pre ++ [last] ∧ last.toNat < 128 ∧
      (∀ c ∈ pre, 128 ≤ c.toNat) ∧ pre.length < fuel := by
  induction fuel with
  | zero => intro v _ h; omega
  | succ fuel ih =>
    intro v hv _
    unfold putVarintAux
    by_cases hlt : v < 128
    · refine ⟨[], UInt8.ofNat v, by simp [hlt], ?_, by simp, by simp⟩
      rw [ofNat_toNat_lt (by omega)]; exact hlt
    · have hf : 0 < fuel := by
        cases fuel with
        | zero => simp at hv; omega
        | succ f => omega
      have hv' : v / 128 < 128 ^ fuel := by
        rw [Nat.pow_succ] at hv
        exact Nat.div_lt_of_lt_mul (by rw [Nat.mul_comm]; exact hv)
      obtain ⟨pre, last, hp, hl, hpre, hlen⟩ := ih (v / 128) hv' hf
      refine ⟨UInt8.ofNat (v % 128 + 128) :: pre, last, by simp [hlt, hp], hl, ?_, by simp; omega⟩
      intro c hc
      simp only [List.mem_cons] at hc
      rcases hc with h | h
      · subst h; rw [ofNat_toNat_lt (by omega)]; omega
      · exact hpre c h

theorem putVarint_shape (v : Nat) (hv : v < 2 ^ 64) :
    ∃ pre last, putVarint v = pre ++ [last] ∧ last.toNat < 128 ∧
      (∀ c ∈ pre, 128 ≤ c.toNat) ∧ pre.length < 10 := by
  apply putVarintAux_shape 10 v _ (by omega)
  have : (2:Nat) ^ 64 ≤ 128 ^ 10 := by simp
  omega

end Larking.Codec
