import Larking.Model.CowTrie
namespace Larking.CowTrie

mutual
  theorem clone_gens (g : Nat) : ∀ (t : GNode), ∀ x ∈ gens (clone g t), x = g
    | .mk _ segs vars _ _ => by
      intro x hx
      simp only [clone, gens, List.mem_cons, List.mem_append] at hx
      rcases hx with hx | hx | hx
      · exact hx
      · exact cloneL_gens g segs x hx
      · exact cloneL_gens g vars x hx
  theorem cloneL_gens (g : Nat) : ∀ (l : List (Nat × GNode)), ∀ x ∈ gensL (cloneL g l), x = g
    | [] => by intro x hx; simp [cloneL, gensL] at hx
    | (_, c) :: rest => by
      intro x hx
      simp only [cloneL, gensL, List.mem_append] at hx
      rcases hx with hx | hx
      · exact clone_gens g c x hx
      · exact cloneL_gens g rest x hx
end

theorem lookupL_gens : ∀ (l : List (Nat × GNode)) (k : Nat) (c : GNode),
    lookupL l k = some c → ∀ x ∈ gens c, x ∈ gensL l := by
  intro l
  induction l with
  | nil => intro k c h; simp [lookupL] at h
  | cons e rest ih =>
    intro k c h x hx
    obtain ⟨k', c'⟩ := e
    simp only [lookupL] at h
    simp only [gensL, List.mem_append]
    split at h
    · injection h with h; subst h; left; exact hx
    · right; exact ih k c h x hx

theorem setL_gens : ∀ (l : List (Nat × GNode)) (k : Nat) (c : GNode),
    ∀ x ∈ gensL (setL l k c), x ∈ gensL l ∨ x ∈ gens c := by
  intro l
  induction l with
  | nil => intro k c x hx; simp [setL, gensL] at hx; right; exact hx
  | cons e rest ih =>
    intro k c x hx
    obtain ⟨k', c'⟩ := e
    simp only [setL] at hx
    split at hx
    · simp only [gensL, List.mem_append] at hx ⊢
      rcases hx with hx | hx
      · right; exact hx
      · left; right; exact hx
    · simp only [gensL, List.mem_append] at hx ⊢
      rcases hx with hx | hx
      · left; left; exact hx
      · rcases ih k c x hx with h | h
        · left; right; exact h
        · right; exact h

/-- `addRule` writes only nodes of the trie it walks or nodes it allocates itself, and the
result consists of such nodes. -/
theorem addRoute_spec (g : Nat) : ∀ (route : List Edge) (t : GNode) (verb m : Nat),
    (∀ x ∈ (addRoute g t route verb m).2, x ∈ gens t ∨ x = g) ∧
    (∀ x ∈ gens (addRoute g t route verb m).1, x ∈ gens t ∨ x = g) := by
  intro route
  induction route with
  | nil =>
    intro t verb m
    obtain ⟨gen, segs, vars, methods, all⟩ := t
    simp only [addRoute, gens]
    exact ⟨fun x hx => Or.inl (by simp at hx; simp [hx]), fun x hx => Or.inl hx⟩
  | cons e rest ih =>
    intro t verb m
    obtain ⟨gen, segs, vars, methods, all⟩ := t
    cases e with
    | seg k =>
      simp only [addRoute]
      cases hl : lookupL segs k with
      | some c =>
        simp only
        obtain ⟨h1, h2⟩ := ih c verb m
        have hsub := lookupL_gens segs k c hl
        constructor
        · intro x hx
          rcases h1 x hx with h | h
          · left; simp only [gens, List.mem_cons, List.mem_append]; right; left; exact hsub x h
          · right; exact h
        · intro x hx
          simp only [gens, List.mem_cons, List.mem_append] at hx ⊢
          rcases hx with hx | hx | hx
          · left; left; exact hx
          · rcases setL_gens segs k _ x hx with h | h
            · left; right; left; exact h
            · rcases h2 x h with h | h
              · left; right; left; exact hsub x h
              · right; exact h
          · left; right; right; exact hx
      | none =>
        simp only
        obtain ⟨h1, h2⟩ := ih (.mk g [] [] [] none) verb m
        have hnew : ∀ x, x ∈ gens (GNode.mk g [] [] [] none) → x = g := by
          intro x hx; simpa [gens, gensL] using hx
        constructor
        · intro x hx
          simp only [List.mem_cons] at hx
          rcases hx with hx | hx
          · left; simp [gens, hx]
          · rcases h1 x hx with h | h
            · right; exact hnew x h
            · right; exact h
        · intro x hx
          simp only [gens, List.mem_cons, List.mem_append] at hx ⊢
          rcases hx with hx | hx | hx
          · left; left; exact hx
          · rcases setL_gens segs k _ x hx with h | h
            · left; right; left; exact h
            · rcases h2 x h with h | h
              · right; exact hnew x h
              · right; exact h
          · left; right; right; exact hx
    | var k =>
      simp only [addRoute]
      cases hl : lookupL vars k with
      | some c =>
        simp only
        obtain ⟨h1, h2⟩ := ih c verb m
        have hsub := lookupL_gens vars k c hl
        constructor
        · intro x hx
          rcases h1 x hx with h | h
          · left; simp only [gens, List.mem_cons, List.mem_append]; right; right; exact hsub x h
          · right; exact h
        · intro x hx
          simp only [gens, List.mem_cons, List.mem_append] at hx ⊢
          rcases hx with hx | hx | hx
          · left; left; exact hx
          · left; right; left; exact hx
          · rcases setL_gens vars k _ x hx with h | h
            · left; right; right; exact h
            · rcases h2 x h with h | h
              · left; right; right; exact hsub x h
              · right; exact h
      | none =>
        simp only
        obtain ⟨h1, h2⟩ := ih (.mk g [] [] [] none) verb m
        have hnew : ∀ x, x ∈ gens (GNode.mk g [] [] [] none) → x = g := by
          intro x hx; simpa [gens, gensL] using hx
        constructor
        · intro x hx
          simp only [List.mem_cons] at hx
          rcases hx with hx | hx
          · left; simp [gens, hx]
          · rcases h1 x hx with h | h
            · right; exact hnew x h
            · right; exact h
        · intro x hx
          simp only [gens, List.mem_cons, List.mem_append] at hx ⊢
          rcases hx with hx | hx | hx
          · left; left; exact hx
          · left; right; left; exact hx
          · rcases setL_gens vars k _ x hx with h | h
            · left; right; right; exact h
            · rcases h2 x h with h | h
              · right; exact hnew x h
              · right; exact h

/-- a registration's rules, applied one after another to the working trie. -/
def addRoutes (g : Nat) (t : GNode) : List (List Edge × Nat × Nat) → GNode × List Nat
  | [] => (t, [])
  | (route, verb, m) :: rest =>
    let r := addRoute g t route verb m
    let r2 := addRoutes g r.1 rest
    (r2.1, r.2 ++ r2.2)

theorem addRoutes_spec (g : Nat) : ∀ (rs : List (List Edge × Nat × Nat)) (t : GNode),
    (∀ x ∈ gens t, x = g) →
    (∀ x ∈ (addRoutes g t rs).2, x = g) ∧ (∀ x ∈ gens (addRoutes g t rs).1, x = g) := by
  intro rs
  induction rs with
  | nil => intro t ht; exact ⟨fun x hx => by simp [addRoutes] at hx, ht⟩
  | cons r rest ih =>
    intro t ht
    obtain ⟨route, verb, m⟩ := r
    obtain ⟨h1, h2⟩ := addRoute_spec g route t verb m
    have ht1 : ∀ x ∈ gens (addRoute g t route verb m).1, x = g := by
      intro x hx; rcases h2 x hx with h | h
      · exact ht x h
      · exact h
    obtain ⟨h3, h4⟩ := ih _ ht1
    simp only [addRoutes]
    refine ⟨fun x hx => ?_, h4⟩
    simp only [List.mem_append] at hx
    rcases hx with hx | hx
    · rcases h1 x hx with h | h
      · exact ht x h
      · exact h
    · exact h3 x hx

mutual
  /-- `delRule` writes only nodes of the trie it walks, and what is left consists of such nodes. -/
  theorem delRoute_spec (name : Nat) : ∀ (t : GNode) (r : GNode × List Nat), delRoute name t = some r →
      (∀ w ∈ r.2, w ∈ gens t) ∧ (∀ x ∈ gens r.1, x ∈ gens t)
    | .mk gen segs vars methods all, r, h => by
      simp only [delRoute] at h
      cases hs : delRouteL name segs with
      | some rs =>
        rw [hs] at h; simp only at h; injection h with h; subst h
        obtain ⟨h1, h2⟩ := delRouteL_spec name segs rs hs
        constructor
        · intro w hw
          simp only [List.mem_cons] at hw
          simp only [gens, List.mem_cons, List.mem_append]
          rcases hw with hw | hw
          · exact Or.inl hw
          · exact Or.inr (Or.inl (h1 w hw))
        · intro x hx
          simp only [gens, List.mem_cons, List.mem_append] at hx ⊢
          rcases hx with hx | hx | hx
          · exact Or.inl hx
          · exact Or.inr (Or.inl (h2 x hx))
          · exact Or.inr (Or.inr hx)
      | none =>
        rw [hs] at h; simp only at h
        cases hv : delRouteL name vars with
        | some rv =>
          rw [hv] at h; simp only at h; injection h with h; subst h
          obtain ⟨h1, h2⟩ := delRouteL_spec name vars rv hv
          constructor
          · intro w hw
            simp only [List.mem_cons] at hw
            simp only [gens, List.mem_cons, List.mem_append]
            rcases hw with hw | hw
            · exact Or.inl hw
            · exact Or.inr (Or.inr (h1 w hw))
          · intro x hx
            simp only [gens, List.mem_cons, List.mem_append] at hx ⊢
            rcases hx with hx | hx | hx
            · exact Or.inl hx
            · exact Or.inr (Or.inl hx)
            · exact Or.inr (Or.inr (h2 x hx))
        | none =>
          rw [hv] at h; simp only at h
          split at h
          · injection h with h; subst h
            constructor
            · intro w hw; simp only [List.mem_singleton] at hw; subst hw; simp [gens]
            · intro x hx; simpa [gens] using hx
          · cases h
  theorem delRouteL_spec (name : Nat) : ∀ (l : List (Nat × GNode)) (r : List (Nat × GNode) × List Nat),
      delRouteL name l = some r → (∀ w ∈ r.2, w ∈ gensL l) ∧ (∀ x ∈ gensL r.1, x ∈ gensL l)
    | [], r, h => by simp [delRouteL] at h
    | (k, c) :: rest, r, h => by
      simp only [delRouteL] at h
      cases hc : delRoute name c with
      | some rc =>
        rw [hc] at h; simp only at h; injection h with h; subst h
        obtain ⟨h1, h2⟩ := delRoute_spec name c rc hc
        constructor
        · intro w hw; simp only [gensL, List.mem_append]; exact Or.inl (h1 w hw)
        · intro x hx
          simp only [gensL, List.mem_append]
          split at hx
          · simp only [gensL, List.mem_append] at hx
            rcases hx with hx | hx
            · exact Or.inl (h2 x hx)
            · exact Or.inr hx
          · exact Or.inr hx
      | none =>
        rw [hc] at h; simp only at h
        cases hr : delRouteL name rest with
        | some rr =>
          rw [hr] at h; simp only at h; injection h with h; subst h
          obtain ⟨h1, h2⟩ := delRouteL_spec name rest rr hr
          constructor
          · intro w hw; simp only [gensL, List.mem_append]; exact Or.inr (h1 w hw)
          · intro x hx
            simp only [gensL, List.mem_append] at hx ⊢
            rcases hx with hx | hx
            · exact Or.inl hx
            · exact Or.inr (h2 x hx)
        | none => rw [hr] at h; simp at h
end

end Larking.CowTrie
