import Larking.Model.FieldPath
namespace Larking.FieldPath

theorem fieldPath_length : ∀ (names : List Bytes) (fs : List Field) (p : List Nat),
    fieldPath fs names = some p → p.length = names.length
  | [], fs, p, h => by simp [fieldPath] at h; subst h; rfl
  | [name], fs, p, h => by
    simp only [fieldPath] at h
    cases hf : findField fs name with
    | none => rw [hf] at h; simp at h
    | some f => rw [hf] at h; simp at h; subst h; rfl
  | name :: n2 :: rest, fs, p, h => by
    simp only [fieldPath] at h
    cases hf : findField fs name with
    | none => rw [hf] at h; simp at h
    | some f =>
      obtain ⟨nm, js, num, rep, sub⟩ := f
      rw [hf] at h; simp only at h
      cases sub with
      | none => simp at h
      | some d =>
        simp only at h
        cases rep with
        | true => simp at h
        | false =>
          simp only [Bool.false_eq_true, if_false] at h
          cases hr : fieldPath d.fields (n2 :: rest) with
          | none => rw [hr] at h; simp at h
          | some q =>
            rw [hr] at h; simp at h; subst h
            have := fieldPath_length (n2 :: rest) d.fields q hr
            simp [this]

/-- **walking the resolved path yields exactly the field the components name.** -/
theorem mutablePath_select : ∀ (names : List Bytes) (fs : List Field) (p : List Nat) (v : Val),
    fieldPath fs names = some p → select fs v names = some (mutablePath v p)
  | [], fs, p, v, h => by simp [fieldPath] at h; subst h; simp [select, mutablePath]
  | [name], fs, p, v, h => by
    simp only [fieldPath] at h
    cases hf : findField fs name with
    | none => rw [hf] at h; simp at h
    | some f => rw [hf] at h; simp at h; subst h; simp [select, hf, mutablePath]
  | name :: n2 :: rest, fs, p, v, h => by
    simp only [fieldPath] at h
    cases hf : findField fs name with
    | none => rw [hf] at h; simp at h
    | some f =>
      obtain ⟨nm, js, num, rep, sub⟩ := f
      rw [hf] at h; simp only at h
      cases sub with
      | none => simp at h
      | some d =>
        simp only at h
        cases rep with
        | true => simp at h
        | false =>
          simp only [Bool.false_eq_true, if_false] at h
          cases hr : fieldPath d.fields (n2 :: rest) with
          | none => rw [hr] at h; simp at h
          | some q =>
            rw [hr] at h; simp at h; subst h
            have ih := mutablePath_select (n2 :: rest) d.fields q (v.field num) hr
            simp only [select, hf]
            rw [ih]
            simp [mutablePath]

end Larking.FieldPath
