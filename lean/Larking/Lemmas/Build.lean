import Larking.Lemmas.Search
namespace Larking.Trie
open Larking.Lexer

def isVarEdge : Edge → Bool
  | .var _ => true
  | .seg _ => false

def varCount (es : List Edge) : Nat := (es.filter isVarEdge).length

def edgeOk : Edge → Prop
  | .var v => ∀ t ∈ v.toks, okPatTok t = true
  | .seg _ => True

theorem varCount_cons_var (v : Var) (es : List Edge) : varCount (.var v :: es) = varCount es + 1 := by
  simp [varCount, List.filter, isVarEdge]
theorem varCount_cons_seg (k : Bytes) (es : List Edge) : varCount (.seg k :: es) = varCount es := by
  simp [varCount, List.filter, isVarEdge]

theorem patToks_ok : ∀ (toks pat rest : List Tok), patToks toks = some (pat, rest) →
    ∀ t ∈ pat, okPatTok t = true := by
  intro toks
  induction toks with
  | nil => intro pat rest h; simp [patToks] at h
  | cons t ts ih =>
    intro pat rest h
    simp only [patToks] at h
    split at h
    · simp at h; intro x hx; rw [h.1] at hx; simp at hx
    · split at h
      · rename_i hok
        simp only [Option.map_eq_some_iff] at h
        obtain ⟨⟨p1, p2⟩, hp, heq⟩ := h
        simp only [Prod.mk.injEq] at heq
        intro x hx
        rw [← heq.1] at hx
        rcases List.mem_cons.mp hx with h1 | h1
        · subst h1; exact hok
        · exact ih p1 p2 hp x h1
      · simp at h

/-- what `addRule` derives from a template's tokens: one field entry per variable edge, and
only pattern tokens inside variables. -/
theorem parseToks_ok (resolve) : ∀ (fuel : Nat) (toks : List Tok) (p : Parsed),
    parseToks resolve fuel toks = .ok p →
    p.varfds.length = varCount p.edges ∧ ∀ e ∈ p.edges, edgeOk e := by
  intro fuel
  induction fuel with
  | zero => intro toks p h; simp [parseToks] at h
  | succ fuel ih =>
    intro toks p h
    unfold parseToks at h
    cases toks with
    | nil => simp at h
    | cons t rest =>
      simp only at h
      split at h
      · injection h with h; subst h; simp [varCount]
      · split at h
        · cases rest with
          | nil => simp at h
          | cons lit _ =>
            simp only at h
            injection h with h; subst h
            simp [varCount, isVarEdge, edgeOk]
        · split at h
          · cases rest with
            | nil => simp at h
            | cons v rest2 =>
              simp only at h
              split at h
              · -- bare wildcard
                rename_i hstar
                cases hr : parseToks resolve fuel rest2 with
                | ok p' =>
                  rw [hr] at h
                  simp only at h
                  injection h with h; subst h
                  obtain ⟨h1, h2⟩ := ih rest2 p' hr
                  constructor
                  · simp only [List.length_append, List.length_singleton, varCount_cons_var]; omega
                  · intro e he
                    rcases List.mem_cons.mp he with he | he
                    · subst he
                      simp only [edgeOk, List.mem_singleton, forall_eq, okPatTok]
                      simp only [Bool.or_eq_true, beq_iff_eq] at hstar
                      rcases hstar with h | h <;> simp [h]
                    · exact h2 e he
                | err k => rw [hr] at h; simp at h
                | panic s => rw [hr] at h; simp at h
              · split at h
                · -- literal
                  cases hr : parseToks resolve fuel rest2 with
                  | ok p' =>
                    rw [hr] at h
                    simp only at h
                    injection h with h; subst h
                    obtain ⟨h1, h2⟩ := ih rest2 p' hr
                    constructor
                    · simpa only [varCount_cons_seg] using h1
                    · intro e he
                      rcases List.mem_cons.mp he with he | he
                      · subst he; trivial
                      · exact h2 e he
                  | err k => rw [hr] at h; simp at h
                  | panic s => rw [hr] at h; simp at h
                · split at h
                  · -- variable
                    generalize hfk : fieldKeys rest2 = fk at h
                    obtain ⟨keys, after⟩ := fk
                    simp only at h
                    cases after with
                    | nil => simp at h
                    | cons nxt after2 =>
                      simp only at h
                      have key : ∀ (pat rest3 : List Tok), (∀ t ∈ pat, okPatTok t = true) →
                          (match resolve keys with
                            | none => (Outcome.err "field-not-found" : Outcome Parsed)
                            | some fp =>
                              match parseToks resolve fuel rest3 with
                              | .ok p => .ok ⟨.var ⟨toksString pat, pat⟩ :: p.edges, [some fp] ++ p.varfds⟩
                              | .err k => .err k
                              | .panic s => .panic s) = .ok p →
                          p.varfds.length = varCount p.edges ∧ ∀ e ∈ p.edges, edgeOk e := by
                        intro pat rest3 hpat hh
                        cases hres : resolve keys with
                        | none => rw [hres] at hh; simp at hh
                        | some fp =>
                          rw [hres] at hh
                          simp only at hh
                          cases hr : parseToks resolve fuel rest3 with
                          | ok p' =>
                            rw [hr] at hh
                            simp only at hh
                            injection hh with hh; subst hh
                            obtain ⟨h1, h2⟩ := ih rest3 p' hr
                            constructor
                            · simp only [List.length_append, List.length_singleton, varCount_cons_var]; omega
                            · intro e he
                              rcases List.mem_cons.mp he with he | he
                              · subst he; exact hpat
                              · exact h2 e he
                          | err k => rw [hr] at hh; simp at hh
                          | panic s => rw [hr] at hh; simp at hh
                      split at h
                      · cases hpt : patToks after2 with
                        | none => rw [hpt] at h; simp at h
                        | some pr =>
                          obtain ⟨pat, rest3⟩ := pr
                          rw [hpt] at h
                          simp only at h
                          exact key pat rest3 (patToks_ok _ _ _ hpt) h
                      · split at h
                        · exact key [⟨.star, [42]⟩] after2 (by simp [okPatTok]) h
                        · simp at h
                  · simp at h
          · simp at h

end Larking.Trie

namespace Larking.Trie
open Larking.Lexer

theorem WF_empty (k : Nat) : WF k .empty := by simp [Node.empty, WF, WFSegs, WFVars]

theorem lookupSeg_WF (k : Nat) : ∀ (segs : List (Bytes × Node)) (key : Bytes) (c : Node),
    WFSegs k segs → lookupSeg segs key = some c → WF k c
  | [], _, _, _, h => by simp [lookupSeg] at h
  | (k', c') :: rest, key, c, hwf, h => by
    simp only [WFSegs] at hwf
    simp only [lookupSeg] at h
    split at h
    · injection h with h; subst h; exact hwf.1
    · exact lookupSeg_WF k rest key c hwf.2 h

theorem upsertSeg_WF (k : Nat) : ∀ (segs : List (Bytes × Node)) (key : Bytes) (c : Node),
    WFSegs k segs → WF k c → WFSegs k (upsertSeg segs key c)
  | [], _, _, _, hc => by simp [upsertSeg, upsertKV, WFSegs, hc]
  | (k', c') :: rest, key, c, hwf, hc => by
    simp only [WFSegs] at hwf
    have ih := upsertSeg_WF k rest key c hwf.2 hc
    simp only [upsertSeg] at ih ⊢
    unfold upsertKV
    split
    · simp [WFSegs, hc, hwf.2]
    · split
      · simp only [WFSegs]; exact ⟨hc, hwf.1, hwf.2⟩
      · simp only [WFSegs]; exact ⟨hwf.1, ih⟩

theorem lookupVar_WF (k : Nat) : ∀ (vars : List (Var × Node)) (name : Bytes) (v : Var) (c : Node),
    WFVars k vars → lookupVar vars name = some (v, c) → WF (k + 1) c
  | [], _, _, _, _, h => by simp [lookupVar] at h
  | (v', c') :: rest, name, v, c, hwf, h => by
    simp only [WFVars] at hwf
    simp only [lookupVar] at h
    split at h
    · injection h with h; injection h with h1 h2; subst h2; exact hwf.2.1
    · exact lookupVar_WF k rest name v c hwf.2.2 h

theorem upsertVar_WF (k : Nat) : ∀ (vars : List (Var × Node)) (v : Var) (c : Node),
    WFVars k vars → WF (k + 1) c → (∀ t ∈ v.toks, okPatTok t = true) → WFVars k (upsertVar vars v c)
  | [], _, _, _, hc, hv => by simp [upsertVar, WFVars, hc]; exact hv
  | (v', c') :: rest, v, c, hwf, hc, hv => by
    simp only [WFVars] at hwf
    simp only [upsertVar]
    split
    · simp only [WFVars]; exact ⟨hwf.1, hc, hwf.2.2⟩
    · split
      · simp only [WFVars]; exact ⟨hv, hc, hwf.1, hwf.2.1, hwf.2.2⟩
      · simp only [WFVars]; exact ⟨hwf.1, hwf.2.1, upsertVar_WF k rest v c hwf.2.2 hc hv⟩

theorem upsertMeth_mem : ∀ (ms : List (Bytes × Meth)) (key : Bytes) (m : Meth) (p : Bytes × Meth),
    p ∈ upsertMeth ms key m → p ∈ ms ∨ p = (key, m)
  | [], _, _, p, h => by simp [upsertMeth, upsertKV] at h; exact Or.inr h
  | (k', m') :: rest, key, m, p, h => by
    simp only [upsertMeth] at h
    unfold upsertKV at h
    split at h
    · rcases List.mem_cons.mp h with h | h
      · exact Or.inr h
      · exact Or.inl (by simp [h])
    · split at h
      · rcases List.mem_cons.mp h with h | h
        · exact Or.inr h
        · exact Or.inl h
      · rcases List.mem_cons.mp h with h | h
        · exact Or.inl (by simp [h])
        · rcases upsertMeth_mem rest key m p (by simpa [upsertMeth] using h) with h | h
          · exact Or.inl (by simp [h])
          · exact Or.inr h

theorem registerCore_WF (k : Nat) (n n' : Node) (verb : Bytes) (mid : Nat) (mk : Unit → Outcome Meth)
    (hwf : WF k n) (hmk : ∀ m, mk () = .ok m → m.vars.length = k)
    (h : registerCore n verb mid mk = .ok n') : WF k n' := by
  obtain ⟨segs, methods, all, vars⟩ := n
  simp only [registerCore] at h
  split at h
  · split at h
    · cases h
    · injection h with h; subst h; exact hwf
  · cases hm : mk () with
    | ok m =>
      rw [hm] at h
      simp only at h
      simp only [WF] at hwf
      obtain ⟨h1, h2, h3, h4⟩ := hwf
      split at h
      · injection h with h; subst h
        simp only [WF]
        refine ⟨h1, ?_, h3, h4⟩
        intro m' hm'; injection hm' with hm'; subst hm'; exact hmk m hm
      · injection h with h; subst h
        simp only [WF]
        refine ⟨?_, h2, h3, h4⟩
        intro p hp
        rcases upsertMeth_mem _ _ _ p hp with hp | hp
        · exact h1 p hp
        · subst hp; exact hmk m hm
    | err e => rw [hm] at h; simp at h
    | panic s => rw [hm] at h; simp at h

theorem register_ok (n n' : Node) (verb : Bytes) (mid : Nat) (mk : Unit → Outcome Meth)
    (h : register n verb mid mk = .ok n') :
    ∃ m, mk () = .ok m ∧ registerCore n verb mid (fun _ => .ok m) = .ok n' := by
  simp only [register] at h
  cases hm : mk () with
  | ok m => rw [hm] at h; exact ⟨m, rfl, h⟩
  | err e => rw [hm] at h; simp at h
  | panic s => rw [hm] at h; simp at h

theorem register_of_mk (n : Node) (verb : Bytes) (mid : Nat) (mk : Unit → Outcome Meth) (m : Meth)
    (hm : mk () = .ok m) : register n verb mid mk = registerCore n verb mid (fun _ => .ok m) := by
  simp only [register, hm]

theorem register_WF (k : Nat) (n n' : Node) (verb : Bytes) (mid : Nat) (mk : Unit → Outcome Meth)
    (hwf : WF k n) (hmk : ∀ m, mk () = .ok m → m.vars.length = k)
    (h : register n verb mid mk = .ok n') : WF k n' := by
  obtain ⟨m, hm, hc⟩ := register_ok n n' verb mid mk h
  exact registerCore_WF k n n' verb mid _ hwf (fun m' hm' => by injection hm' with hm'; subst hm'; exact hmk m hm) hc

/-- walking / creating a way and registering at its end keeps the trie well-formed. -/
theorem insertAt_WF : ∀ (es : List Edge) (n n' : Node) (k : Nat) (f : Node → Outcome Node),
    WF k n → (∀ e ∈ es, edgeOk e) →
    (∀ node node', WF (k + varCount es) node → f node = .ok node' → WF (k + varCount es) node') →
    insertAt n es f = .ok n' → WF k n'
  | [], n, n', k, f, hwf, _, hf, h => by
    simp only [insertAt] at h
    have := hf n n' (by simpa [varCount] using hwf) h
    simpa [varCount] using this
  | .seg key :: more, .mk segs methods all vars, n', k, f, hwf, hes, hf, h => by
    simp only [insertAt] at h
    simp only [WF] at hwf
    obtain ⟨h1, h2, h3, h4⟩ := hwf
    have hchild : WF k ((lookupSeg segs key).getD .empty) := by
      cases hl : lookupSeg segs key with
      | none => simp [WF_empty]
      | some c => simp; exact lookupSeg_WF k segs key c h3 hl
    cases hr : insertAt ((lookupSeg segs key).getD .empty) more f with
    | ok c =>
      rw [hr] at h
      simp only at h
      injection h with h; subst h
      have hc := insertAt_WF more _ c k f hchild (fun e he => hes e (by simp [he]))
        (by simpa only [varCount_cons_seg] using hf) hr
      simp only [WF]
      exact ⟨h1, h2, upsertSeg_WF k segs key c h3 hc, h4⟩
    | err e => rw [hr] at h; simp at h
    | panic s => rw [hr] at h; simp at h
  | .var v :: more, .mk segs methods all vars, n', k, f, hwf, hes, hf, h => by
    simp only [insertAt] at h
    simp only [WF] at hwf
    obtain ⟨h1, h2, h3, h4⟩ := hwf
    have hchild : WF (k + 1) (varChild vars v.name) := by
      unfold varChild
      cases hl : lookupVar vars v.name with
      | none => simp [WF_empty]
      | some p => obtain ⟨v', c⟩ := p; simp; exact lookupVar_WF k vars v.name v' c h4 hl
    cases hr : insertAt (varChild vars v.name) more f with
    | ok c =>
      rw [hr] at h
      simp only at h
      injection h with h; subst h
      have hf' : ∀ node node', WF (k + 1 + varCount more) node → f node = .ok node' →
          WF (k + 1 + varCount more) node' := by
        intro node node' hn hfn
        have e1 : k + varCount (Edge.var v :: more) = k + 1 + varCount more := by
          rw [varCount_cons_var]; omega
        have := hf node node' (by rw [e1]; exact hn) hfn
        rw [e1] at this; exact this
      have hc := insertAt_WF more _ c (k + 1) f hchild (fun e he => hes e (by simp [he])) hf' hr
      simp only [WF]
      exact ⟨h1, h2, h3, upsertVar_WF k vars v c h4 hc (hes (.var v) (by simp))⟩
    | err e => rw [hr] at h; simp at h
    | panic s => rw [hr] at h; simp at h

/-- one binding keeps the trie well-formed. -/
theorem addBinding_WF (cap : Nat) (resolve) (n n' : Node) (b : Binding) (mid : Nat)
    (hwf : WF 0 n) (h : addBinding cap resolve n b mid = .ok n') : WF 0 n' := by
  simp only [addBinding] at h
  split at h
  · simp at h
  · simp at h
  · rename_i toks _
    split at h
    · simp at h
    · simp at h
    · rename_i p hp
      obtain ⟨hlen, hedges⟩ := parseToks_ok resolve _ toks p hp
      refine insertAt_WF p.edges n n' 0 _ hwf hedges ?_ h
      intro node node' hnode hreg
      refine register_WF _ node node' b.verb mid _ hnode ?_ hreg
      intro m hm
      split at hm
      · simp at hm
      · split at hm
        · simp at hm
        · injection hm with hm; subst hm; simp [hlen]

theorem addAdditional_WF (cap : Nat) (resolve) (mid : Nat) : ∀ (adds : List (Binding × Bool)) (n n' : Node),
    WF 0 n → addAdditional cap resolve mid n adds = .ok n' → WF 0 n'
  | [], n, n', hwf, h => by simp only [addAdditional] at h; injection h with h; subst h; exact hwf
  | (b, nested) :: more, n, n', hwf, h => by
    simp only [addAdditional] at h
    split at h
    · simp at h
    · cases hb : addBinding cap resolve n b mid with
      | ok n1 =>
        rw [hb] at h
        exact addAdditional_WF cap resolve mid more n1 n' (addBinding_WF cap resolve n n1 b mid hwf hb) h
      | err e => rw [hb] at h; simp at h
      | panic s => rw [hb] at h; simp at h

/-- `addRule` keeps the trie well-formed: by induction every trie the mux ever publishes is. -/
theorem addRule_WF (cap : Nat) (resolve) (n n' : Node) (r : Rule) (mid : Nat)
    (hwf : WF 0 n) (h : addRule cap resolve n r mid = .ok n') : WF 0 n' := by
  simp only [addRule] at h
  cases hb : addBinding cap resolve n r.primary mid with
  | ok n1 =>
    rw [hb] at h
    exact addAdditional_WF cap resolve mid r.additional n1 n' (addBinding_WF cap resolve n n1 r.primary mid hwf hb) h
  | err e => rw [hb] at h; simp at h
  | panic s => rw [hb] at h; simp at h

end Larking.Trie
