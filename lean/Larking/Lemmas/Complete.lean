import Larking.Lemmas.Provenance
namespace Larking.Trie
open Larking.Lexer

theorem searchSegs_eq (conv) (verb) : ∀ (segs : List (Bytes × Node)) (key : Bytes) (rest : List Tok),
    searchSegs conv verb segs key rest = (lookupSeg segs key).map fun c => search conv verb c rest
  | [], _, _ => by simp [searchSegs, lookupSeg]
  | (k, c) :: more, key, rest => by
    simp only [searchSegs, lookupSeg]
    split
    · simp
    · exact searchSegs_eq conv verb more key rest

theorem lookupSeg_WF' (k : Nat) (segs : List (Bytes × Node)) (key : Bytes) (c : Node)
    (h : WFSegs k segs) (hl : lookupSeg segs key = some c) : WF k c := lookupSeg_WF k segs key c h hl

/-- the variable loop finds *something* as soon as one variable leads to a match. -/
theorem searchVars_complete (conv) (verb) (hconv : ∀ f t, conv f t = true) (k : Nat) :
    ∀ (vars : List (Var × Node)) (toks1 : List Tok) (v : Var) (child : Node) (i : Nat) (m : Meth) (caps : Caps),
    WFVars k vars → (v, child) ∈ vars → varIndex v.toks toks1 0 = .ok (some i) →
    search conv verb child (toks1.drop i) = .found m caps →
    ∃ m' caps', searchVars conv verb vars toks1 = .found m' caps'
  | [], _, _, _, _, _, _, _, hmem, _, _ => by cases hmem
  | (v1, c1) :: more, toks1, v, child, i, m, caps, hwf, hmem, hidx, hs => by
    simp only [WFVars] at hwf
    obtain ⟨hpat, hc1, hmore⟩ := hwf
    simp only [searchVars]
    have tail : (v1, c1) ≠ (v, child) → ∃ m' caps', searchVars conv verb more toks1 = .found m' caps' := by
      intro hne
      have : (v, child) ∈ more := by
        rcases List.mem_cons.mp hmem with h | h
        · exact absurd h.symm hne
        · exact h
      exact searchVars_complete conv verb hconv k more toks1 v child i m caps hmore this hidx hs
    split
    · rename_i s hx; exact absurd hx (varIndex_no_panic _ _ _ hpat s)
    · rename_i e hx; exact absurd hx (varIndex_no_err _ _ _ e)
    · rename_i hx
      apply tail
      intro heq
      injection heq with h1 h2; subst h1
      rw [hx] at hidx; cases hidx
    · rename_i i1 hx
      have hwf1 := search_wf conv verb (k + 1) c1 (toks1.drop i1) hc1
      split
      · rename_i s hs1; exact absurd hs1 (hwf1.1 s)
      · rename_i e hs1
        apply tail
        intro heq
        injection heq with h1 h2; subst h1; subst h2
        rw [hx] at hidx; injection hidx with hidx; injection hidx with hidx; subst hidx
        rw [hs1] at hs; cases hs
      · rename_i m1 caps1 hs1
        have hlen := hwf1.2 m1 caps1 hs1
        have h1 : ¬ (m1.vars.length < caps1.length + 1) := by omega
        simp only [h1, if_false]
        cases hget : m1.vars[m1.vars.length - caps1.length - 1]? with
        | none => rw [List.getElem?_eq_none_iff] at hget; omega
        | some fp =>
          cases fp with
          | none => exact ⟨_, _, rfl⟩
          | some f => simp only [hconv, if_true]; exact ⟨_, _, rfl⟩

/-- **Completeness of the search** (C02): whenever some way through the trie matches the
request tokens — for any method — the request is dispatched (to a method at the end of a
matching way, by `search_sound`), provided captures convert. No 404/405 for a covered path. -/
theorem search_complete (conv) (verb) (hconv : ∀ f t, conv f t = true) :
    ∀ (n : Node) (toks : List Tok) (m : Meth) (caps : Caps) (es : List Edge),
    Reach conv verb n toks m caps es → ∀ k, WF k n →
    ∃ m' caps', search conv verb n toks = .found m' caps' := by
  intro n toks m caps es h
  induction h with
  | hereVerb n toks m hlen hl =>
    intro k _
    obtain ⟨segs, methods, all, vars⟩ := n
    match toks, hlen with
    | [], _ => exact ⟨m, [], by simp only [search]; simp [Node.methods] at hl; simp [hl]⟩
    | [t], _ => exact ⟨m, [], by simp only [search]; simp [Node.methods] at hl; simp [hl]⟩
  | hereAll n toks m hlen hl ha =>
    intro k _
    obtain ⟨segs, methods, all, vars⟩ := n
    simp [Node.methods] at hl
    simp [Node.all] at ha
    match toks, hlen with
    | [], _ => exact ⟨m, [], by simp only [search]; simp [hl, ha]⟩
    | [t], _ => exact ⟨m, [], by simp only [search]; simp [hl, ha]⟩
  | seg n child t0 t1 rest m caps es hl _ ih =>
    intro k hwf
    obtain ⟨segs, methods, all, vars⟩ := n
    simp only [WF] at hwf
    simp only [Node.segs] at hl
    obtain ⟨m', caps', hs⟩ := ih k (lookupSeg_WF k segs _ child hwf.2.2.1 hl)
    refine ⟨m', caps', ?_⟩
    simp only [search, searchSegs_eq, hl, Option.map_some, hs]
  | var n child v t0 toks1 i m caps es fp ht0 hmem hlen hidx _ _ _ _ ih =>
    intro k hwf
    obtain ⟨segs, methods, all, vars⟩ := n
    simp only [WF] at hwf
    obtain ⟨_, _, hsegs, hvars⟩ := hwf
    simp only [Node.vars] at hmem
    -- the child of the matching variable is well-formed one level down
    have hchildWF : WF (k + 1) child := by
      clear ih
      have : ∀ (vs : List (Var × Node)), WFVars k vs → (v, child) ∈ vs → WF (k + 1) child := by
        intro vs
        induction vs with
        | nil => intro _ hm; cases hm
        | cons p rest ihv =>
          intro hw hm
          obtain ⟨v1, c1⟩ := p
          simp only [WFVars] at hw
          rcases List.mem_cons.mp hm with h | h
          · injection h with h1 h2; subst h2; exact hw.2.1
          · exact ihv hw.2.2 h
      exact this vars hvars hmem
    obtain ⟨m1, caps1, hs1⟩ := ih (k + 1) hchildWF
    obtain ⟨mv, capsv, hv⟩ := searchVars_complete conv verb hconv k vars toks1 v child i m1 caps1 hvars hmem hidx hs1
    match toks1, hlen with
    | t1 :: rest, _ =>
      simp only [search, searchSegs_eq]
      have hws := fun c (hl : lookupSeg segs (t0.val ++ t1.val) = some c) =>
        search_wf conv verb k c rest (lookupSeg_WF k segs _ c hsegs hl)
      cases hl : lookupSeg segs (t0.val ++ t1.val) with
      | none =>
        simp only [Option.map_none]
        have : (t0.typ == TokTy.slash) = true := by simpa using ht0
        simp only [this, if_true]
        exact ⟨mv, capsv, hv⟩
      | some c =>
        simp only [Option.map_some]
        cases hsc : search conv verb c rest with
        | found m2 caps2 => exact ⟨m2, caps2, rfl⟩
        | panic s => exact absurd hsc ((hws c hl).1 s)
        | fail e =>
          simp only
          have : (t0.typ == TokTy.slash) = true := by simpa using ht0
          simp only [this, if_true]
          exact ⟨mv, capsv, hv⟩

/-- **Literal over wildcard** (C02): when the way through the literal child matches, the
result *is* that way's — variables and wildcards at this node are not even consulted. -/
theorem literal_first (conv) (verb) (segs : List (Bytes × Node)) (methods) (all) (vars)
    (t0 t1 : Tok) (rest : List Tok) (child : Node) (m : Meth) (caps : Caps)
    (hl : lookupSeg segs (t0.val ++ t1.val) = some child)
    (hs : search conv verb child rest = .found m caps) :
    search conv verb (.mk segs methods all vars) (t0 :: t1 :: rest) = .found m caps := by
  simp only [search, searchSegs_eq, hl, Option.map_some, hs]

end Larking.Trie
