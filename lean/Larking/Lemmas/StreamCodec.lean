import Larking.Lemmas.Reader
import Larking.Lemmas.Varint
namespace Larking.Codec

/-! ### growcap -/

theorem growLoop_ge (want : Nat) : ∀ fuel nc, 4 ≤ nc →
    want ≤ growLoop want fuel nc ∨ nc + fuel ≤ growLoop want fuel nc := by
  intro fuel
  induction fuel with
  | zero => intro nc _; right; simp [growLoop]
  | succ fuel ih =>
    intro nc h4
    unfold growLoop
    by_cases h : 0 < nc ∧ nc < want
    · simp only [h, and_self, if_true]
      rcases ih (nc + nc / 4) (by omega) with h1 | h1
      · left; exact h1
      · right; omega
    · simp only [h, if_false]
      left; omega

/-- the reallocation is always large enough. -/
theorem growcap_ge (old want : Nat) : want ≤ growcap old want ∨ want ≤ old := by
  unfold growcap
  by_cases h1 : want > old * 2
  · simp [h1]
  · simp only [h1, if_false]
    by_cases h2 : old < 1024
    · simp only [h2, if_true]; omega
    · simp only [h2, if_false]
      rcases growLoop_ge want want old (by omega) with h | h
      · left; exact h
      · left; omega

/-! ### CodecProto -/

theorem scanPrefix_spec (pre : Bytes) (last : UInt8) (tail : Bytes)
    (hlast : last.toNat < 128) (hpre : ∀ c ∈ pre, 128 ≤ c.toNat) :
    ∀ (fuel i : Nat) (e : Env) (b : Buf), i ≤ pre.length → pre.length < i + fuel →
      b.data ++ e.data = pre ++ [last] ++ tail →
      ∃ b1 e1, scanPrefix fuel i e b = (b1, none, e1) ∧
        b1.data ++ e1.data = pre ++ [last] ++ tail ∧ pre.length < b1.data.length := by
  intro fuel
  induction fuel with
  | zero => intro i e b h1 h2; omega
  | succ fuel ih =>
    intro i e b hi hf hW
    unfold scanPrefix
    have hs := fill_spec e b i
    generalize hfill : fill e b i = r at hs
    obtain ⟨b1, res, e1⟩ := r
    simp only at hs
    obtain ⟨hc, hok, herr⟩ := hs
    rw [hW] at hc
    have hWlen : (pre ++ [last] ++ tail).length = pre.length + 1 + tail.length := by simp; omega
    cases res with
    | some err =>
      obtain ⟨_, hemp, hle⟩ := herr err rfl
      rw [hemp, List.append_nil] at hc
      rw [hc, hWlen] at hle
      omega
    | none =>
      have hlt := hok rfl
      have hget : b1.data[i]? = (pre ++ [last] ++ tail)[i]? := by
        rw [← hc, List.getElem?_append_left hlt]
      simp only
      by_cases hip : i < pre.length
      · have hv : (pre ++ [last] ++ tail)[i]? = some pre[i] := by
          rw [List.append_assoc, List.getElem?_append_left hip]; simp [hip]
        rw [hget, hv]
        have hge := hpre pre[i] (List.getElem_mem hip)
        have : ¬ (pre[i].toNat < 128) := by omega
        simp only [this, if_false]
        exact ih (i + 1) e1 b1 (by omega) (by omega) hc
      · have hieq : i = pre.length := by omega
        have hv : (pre ++ [last] ++ tail)[i]? = some last := by
          subst hieq; simp
        rw [hget, hv]
        simp only [hlast, if_true]
        exact ⟨b1, e1, rfl, hc, by omega⟩

theorem append_take_of_le {α} (X E m rest : List α) (h : X ++ E = m ++ rest) (hl : m.length ≤ X.length) :
    X.take m.length = m ∧ X.drop m.length ++ E = rest := by
  have h1 : (X ++ E).take m.length = m := by rw [h]; simp
  have h2 : (X ++ E).drop m.length = rest := by rw [h]; simp
  rw [List.take_append_of_le_length hl] at h1
  rw [List.drop_append_of_le_length hl] at h2
  exact ⟨h1, h2⟩

theorem append_eq_of_len {α} (X E m rest : List α) (h : X ++ E = m ++ rest) (hl : X.length = m.length) :
    X = m ∧ E = rest := by
  have := append_take_of_le X E m rest h (by omega)
  rw [← hl] at this
  simpa using this

/-- **Frame law** of `CodecProto`: if the bytes still to come (look-ahead carried in `b`
followed by whatever the reader will deliver) start with `WriteNext(m)` and `m` fits the
limit, `ReadNext` returns exactly `m` and leaves exactly the rest — for every read schedule,
every EOF mode, every capacity and growth behaviour. -/
theorem proto_frame (e : Env) (b : Buf) (limit : Nat) (m rest : Bytes)
    (hW : b.data ++ e.data = protoWriteNext m ++ rest)
    (hlim : m.length ≤ limit) (hint : m.length ≤ maxInt) :
    ∃ dst e', protoReadNext e b limit = (.ok ⟨dst, m.length, none⟩, e') ∧
      dst.data.take m.length = m ∧ dst.data.drop m.length ++ e'.data = rest := by
  have hv : m.length < 2 ^ 64 := by unfold maxInt at hint; omega
  obtain ⟨pre, last, hP, hlast, hpre, hplen⟩ := putVarint_shape m.length hv
  have hW' : b.data ++ e.data = pre ++ [last] ++ (m ++ rest) := by
    rw [hW, protoWriteNext, hP]; simp
  obtain ⟨b1, e1, hscan, hc, hlen⟩ :=
    scanPrefix_spec pre last (m ++ rest) hlast hpre 10 0 e b (by omega) (by omega) hW'
  unfold protoReadNext
  rw [hscan]
  simp only
  -- b1.data = prefix ++ X
  have hPlen : (putVarint m.length).length = pre.length + 1 := by rw [hP]; simp
  have hb1 : b1.data = putVarint m.length ++ b1.data.drop (pre.length + 1) := by
    have h1 : (b1.data ++ e1.data).take (pre.length + 1) = pre ++ [last] := by
      rw [hc]
      exact List.take_left' (by simp)
    rw [List.take_append_of_le_length (by omega)] at h1
    rw [hP, ← h1, List.take_append_drop]
  have hX : b1.data.drop (pre.length + 1) ++ e1.data = m ++ rest := by
    have h2 : (b1.data ++ e1.data).drop (pre.length + 1) = m ++ rest := by
      rw [hc]
      exact List.drop_left' (by simp)
    rwa [List.drop_append_of_le_length (by omega)] at h2
  have hgv : getVarint b1.data = some (m.length, pre.length + 1) := by
    rw [hb1, getVarint_put _ hv, hPlen]
  rw [hgv]
  simp only
  have hnot : ¬ (m.length > maxInt ∨ m.length > limit) := by omega
  simp only [hnot, if_false]
  generalize hXd : b1.data.drop (pre.length + 1) = X at hX
  by_cases hshort : X.length < m.length
  · simp only [hshort, if_true]
    -- reallocation is large enough, ReadFull has enough data
    generalize hb3 : (if Buf.cap { data := X, spare := b1.spare } < m.length
        then ({ data := X, spare := growcap (Buf.cap { data := X, spare := b1.spare }) m.length - X.length } : Buf)
        else { data := X, spare := b1.spare }) = b3
    have hb3d : b3.data = X := by rw [← hb3]; split <;> rfl
    have hb3c : m.length ≤ b3.cap := by
      rw [← hb3]
      split
      · rename_i hlt
        simp only [Buf.cap] at hlt ⊢
        rcases growcap_ge (X.length + b1.spare) m.length with h | h <;> omega
      · rename_i hge; omega
    have hnp : ¬ (m.length > b3.cap) := by omega
    simp only [hnp, if_false]
    have hrf := readFull_spec e1 b3 m.length
    generalize hrfr : readFull e1 b3 m.length = rf at hrf
    obtain ⟨b4, res, e2⟩ := rf
    simp only at hrf
    cases res with
    | some err =>
      have := hrf.1 err rfl
      rw [hb3d] at this
      have hl : (X ++ e1.data).length = (m ++ rest).length := by rw [hX]
      simp only [List.length_append] at hl
      omega
    | none =>
      obtain ⟨h1, _, h3⟩ := hrf.2 rfl
      rw [hb3d] at h1 h3
      have hl4 : b4.data.length = m.length := h3 (by omega)
      have := append_eq_of_len b4.data e2.data m rest (by rw [h1, hX]) hl4
      refine ⟨b4, e2, rfl, ?_, ?_⟩
      · rw [this.1]; simp
      · rw [this.1]; simp [this.2]
  · simp only [hshort, if_false]
    have := append_take_of_le X e1.data m rest hX (by omega)
    exact ⟨_, e1, rfl, this.1, this.2⟩


/-- a prefix announcing more than the limit (or more than an `int` can hold) is an error —
for every prefix value below 2^64, whatever follows. -/
theorem proto_over_limit (e : Env) (b : Buf) (limit size : Nat) (tail : Bytes)
    (hsz : size < 2 ^ 64) (hW : b.data ++ e.data = putVarint size ++ tail)
    (hbig : size > limit ∨ size > maxInt) :
    ∃ dst e', protoReadNext e b limit = (.ok ⟨dst, 0, some .tooLarge⟩, e') := by
  obtain ⟨pre, last, hP, hlast, hpre, hplen⟩ := putVarint_shape size hsz
  have hW' : b.data ++ e.data = pre ++ [last] ++ tail := by rw [hW, hP]
  obtain ⟨b1, e1, hscan, hc, hlen⟩ :=
    scanPrefix_spec pre last tail hlast hpre 10 0 e b (by omega) (by omega) hW'
  unfold protoReadNext
  rw [hscan]
  simp only
  have hb1 : b1.data = putVarint size ++ b1.data.drop (pre.length + 1) := by
    have h1 : (b1.data ++ e1.data).take (pre.length + 1) = pre ++ [last] := by
      rw [hc]; exact List.take_left' (by simp)
    rw [List.take_append_of_le_length (by omega)] at h1
    rw [hP, ← h1, List.take_append_drop]
  have hgv : getVarint b1.data = some (size, (putVarint size).length) := by
    rw [hb1, getVarint_put _ hsz]
  rw [hgv]
  simp only
  have : size > maxInt ∨ size > limit := by omega
  simp only [this, if_true]
  exact ⟨_, _, rfl⟩

/-- `CodecProto.ReadNext` never crashes the caller and never reports a length outside the
returned buffer, whatever bytes arrive, however they are fragmented. -/
theorem proto_safe (e : Env) (b : Buf) (limit : Nat) :
    ∃ r e', protoReadNext e b limit = (.ok r, e') ∧ r.n ≤ r.dst.data.length ∧
      (r.err ≠ none → r.n = 0) ∧ (r.err = none → r.n ≤ limit) := by
  unfold protoReadNext
  generalize scanPrefix 10 0 e b = sp
  obtain ⟨b1, res, e1⟩ := sp
  cases res with
  | some err => exact ⟨_, _, rfl, by simp, by simp, by simp⟩
  | none =>
    simp only
    cases hgv : getVarint b1.data with
    | none => exact ⟨_, _, rfl, by simp, by simp, by simp⟩
    | some p =>
      obtain ⟨size, k⟩ := p
      simp only
      by_cases hbig : size > maxInt ∨ size > limit
      · simp only [hbig, if_true]; exact ⟨_, _, rfl, by simp, by simp, by simp⟩
      · simp only [hbig, if_false]
        by_cases hshort : (b1.data.drop k).length < size
        · simp only [hshort, if_true]
          generalize hb3 : (if Buf.cap { data := b1.data.drop k, spare := b1.spare } < size
            then ({ data := b1.data.drop k, spare := growcap (Buf.cap { data := b1.data.drop k, spare := b1.spare }) size - (b1.data.drop k).length } : Buf)
            else { data := b1.data.drop k, spare := b1.spare }) = b3
          have hb3d : b3.data = b1.data.drop k := by rw [← hb3]; split <;> rfl
          have hb3c : size ≤ b3.cap := by
            rw [← hb3]
            split
            · rename_i hlt
              simp only [Buf.cap] at hlt ⊢
              rcases growcap_ge ((b1.data.drop k).length + b1.spare) size with h | h <;> omega
            · rename_i hge; omega
          have hnp : ¬ (size > b3.cap) := by omega
          simp only [hnp, if_false]
          have hrf := readFull_spec e1 b3 size
          generalize readFull e1 b3 size = rf at hrf
          obtain ⟨b4, res, e2⟩ := rf
          cases res with
          | some err => exact ⟨_, _, rfl, by simp, by simp, by simp⟩
          | none =>
            have := (hrf.2 rfl).2.1
            exact ⟨_, _, rfl, this, by simp, by intro _; simp; omega⟩
        · simp only [hshort, if_false]
          exact ⟨_, _, rfl, Nat.le_of_not_lt hshort, by simp, by intro _; show size ≤ limit; omega⟩

/-- a clean end of stream is reported as io.EOF with no message. -/
theorem proto_empty (e : Env) (b : Buf) (limit : Nat) (h : b.data ++ e.data = []) :
    ∃ dst e', protoReadNext e b limit = (.ok ⟨dst, 0, some .eof⟩, e') ∧ dst.data ++ e'.data = [] := by
  have hb : b.data = [] := by cases hd : b.data <;> simp_all
  have he : e.data = [] := by cases hd : e.data <;> simp_all
  unfold protoReadNext scanPrefix
  have hs := fill_spec e b 0
  generalize fill e b 0 = r at hs
  obtain ⟨b1, res, e1⟩ := r
  simp only at hs
  cases res with
  | none =>
    have := hs.2.1 rfl
    have hc := hs.1
    rw [hb, he] at hc
    have : b1.data = [] := by cases hd : b1.data <;> simp_all
    simp_all
  | some err =>
    obtain ⟨h1, _, _⟩ := hs.2.2 err rfl
    subst h1
    refine ⟨b1, e1, rfl, ?_⟩
    rw [hs.1, hb, he]; rfl

/-! ### a stream that ends inside a message -/

/-- the prefix scan over bytes that all carry the continuation bit and then run out: io.EOF,
with everything that arrived kept in the buffer. -/
theorem scanPrefix_short (W : Bytes) (hW : ∀ c ∈ W, 128 ≤ c.toNat) :
    ∀ (fuel i : Nat) (e : Env) (b : Buf), i ≤ W.length → W.length < i + fuel →
      b.data ++ e.data = W →
      ∃ b1 e1, scanPrefix fuel i e b = (b1, some .eof, e1) ∧ b1.data = W := by
  intro fuel
  induction fuel with
  | zero => intro i e b h1 h2; omega
  | succ fuel ih =>
    intro i e b hi hf hc0
    unfold scanPrefix
    have hs := fill_spec e b i
    generalize hfill : fill e b i = r at hs
    obtain ⟨b1, res, e1⟩ := r
    simp only at hs
    obtain ⟨hc, hok, herr⟩ := hs
    rw [hc0] at hc
    cases res with
    | some err =>
      obtain ⟨h1, hemp, _⟩ := herr err rfl
      subst h1
      rw [hemp, List.append_nil] at hc
      exact ⟨b1, e1, rfl, hc⟩
    | none =>
      have hlt := hok rfl
      have hiW : i < W.length := by
        have : b1.data.length ≤ W.length := by rw [← hc]; simp
        omega
      have hget : b1.data[i]? = some W[i] := by
        have : (b1.data ++ e1.data)[i]? = W[i]? := by rw [hc]
        rw [List.getElem?_append_left hlt] at this
        rw [this]; simp [hiW]
      simp only [hget]
      have hge := hW W[i] (List.getElem_mem hiW)
      have : ¬ (W[i].toNat < 128) := by omega
      simp only [this, if_false]
      exact ih (i + 1) e1 b1 (by omega) (by omega) hc

/-- **Truncation law** of `CodecProto`: if the bytes still to come are a proper, non-empty
prefix of `WriteNext(m)` (the stream ends inside the length prefix or inside the message),
`ReadNext` reports an error with `n = 0` — io.EOF only while still inside the prefix, and
then with the partial prefix left in the buffer — never a message. -/
theorem proto_truncated (e : Env) (b : Buf) (limit : Nat) (m : Bytes) (k : Nat)
    (hk1 : 0 < k) (hk2 : k < (protoWriteNext m).length)
    (hW : b.data ++ e.data = (protoWriteNext m).take k)
    (hlim : m.length ≤ limit) (hint : m.length ≤ maxInt) :
    ∃ dst err e', protoReadNext e b limit = (.ok ⟨dst, 0, some err⟩, e') ∧
      (err = .eof → 0 < dst.data.length) := by
  have hv : m.length < 2 ^ 64 := by unfold maxInt at hint; omega
  obtain ⟨pre, last, hP, hlast, hpre, hplen⟩ := putVarint_shape m.length hv
  have hwn : protoWriteNext m = pre ++ ([last] ++ m) := by rw [protoWriteNext, hP]; simp
  have hwl : (protoWriteNext m).length = pre.length + 1 + m.length := by rw [hwn]; simp; omega
  by_cases hin : k ≤ pre.length
  · -- the stream ends inside the length prefix
    have hWk : b.data ++ e.data = pre.take k := by
      rw [hW, hwn, List.take_append_of_le_length hin]
    have hall : ∀ c ∈ pre.take k, 128 ≤ c.toNat := fun c hc => hpre c (List.mem_of_mem_take hc)
    have hl : (pre.take k).length = k := by simp; omega
    obtain ⟨b1, e1, hscan, hb1⟩ := scanPrefix_short (pre.take k) hall 10 0 e b (by omega) (by omega) hWk
    unfold protoReadNext
    rw [hscan]
    exact ⟨b1, .eof, e1, rfl, fun _ => by rw [hb1, hl]; exact hk1⟩
  · -- the prefix is complete, the message is not
    have hj : k - (pre.length + 1) < m.length := by omega
    have hW' : b.data ++ e.data = pre ++ [last] ++ m.take (k - (pre.length + 1)) := by
      rw [hW, hwn, List.take_append, List.take_of_length_le (by omega), List.take_append]
      have : k - pre.length - 1 = k - (pre.length + 1) := by omega
      simp [List.take_of_length_le (show [last].length ≤ k - pre.length by simp; omega), this]
    obtain ⟨b1, e1, hscan, hc, hlen⟩ :=
      scanPrefix_spec pre last (m.take (k - (pre.length + 1))) hlast hpre 10 0 e b (by omega) (by omega) hW'
    unfold protoReadNext
    rw [hscan]
    simp only
    have hPlen : (putVarint m.length).length = pre.length + 1 := by rw [hP]; simp
    have hb1 : b1.data = putVarint m.length ++ b1.data.drop (pre.length + 1) := by
      have h1 : (b1.data ++ e1.data).take (pre.length + 1) = pre ++ [last] := by
        rw [hc]; exact List.take_left' (by simp)
      rw [List.take_append_of_le_length (by omega)] at h1
      rw [hP, ← h1, List.take_append_drop]
    have hX : b1.data.drop (pre.length + 1) ++ e1.data = m.take (k - (pre.length + 1)) := by
      have h2 : (b1.data ++ e1.data).drop (pre.length + 1) = m.take (k - (pre.length + 1)) := by
        rw [hc]; exact List.drop_left' (by simp)
      rwa [List.drop_append_of_le_length (by omega)] at h2
    have hgv : getVarint b1.data = some (m.length, pre.length + 1) := by
      rw [hb1, getVarint_put _ hv, hPlen]
    rw [hgv]
    simp only
    have hnot : ¬ (m.length > maxInt ∨ m.length > limit) := by omega
    simp only [hnot, if_false]
    generalize hXd : b1.data.drop (pre.length + 1) = X at hX
    have hXl : X.length + e1.data.length = k - (pre.length + 1) := by
      have : (X ++ e1.data).length = (m.take (k - (pre.length + 1))).length := by rw [hX]
      simp only [List.length_append, List.length_take] at this
      omega
    have hshort : X.length < m.length := by omega
    simp only [hshort, if_true]
    generalize hb3 : (if Buf.cap { data := X, spare := b1.spare } < m.length
        then ({ data := X, spare := growcap (Buf.cap { data := X, spare := b1.spare }) m.length - X.length } : Buf)
        else { data := X, spare := b1.spare }) = b3
    have hb3d : b3.data = X := by rw [← hb3]; split <;> rfl
    have hb3c : m.length ≤ b3.cap := by
      rw [← hb3]
      split
      · rename_i hlt
        simp only [Buf.cap] at hlt ⊢
        rcases growcap_ge (X.length + b1.spare) m.length with h | h <;> omega
      · rename_i hge; omega
    have hnp : ¬ (m.length > b3.cap) := by omega
    simp only [hnp, if_false]
    have hrf := readFull_spec e1 b3 m.length
    generalize hrfr : readFull e1 b3 m.length = rf at hrf
    obtain ⟨b4, res, e2⟩ := rf
    simp only at hrf
    cases res with
    | some err =>
      refine ⟨b3, err, e2, rfl, ?_⟩
      intro he
      -- ReadFull never reports a plain io.EOF
      have := readFull_err_kind' e1 b3 m.length err (by rw [hrfr])
      rw [he] at this; cases this
    | none =>
      obtain ⟨h1, h2, _⟩ := hrf.2 rfl
      rw [hb3d] at h1
      have : (b4.data ++ e2.data).length = (X ++ e1.data).length := by rw [h1]
      simp only [List.length_append] at this
      omega

/-- reading a whole stream by repeated `ReadNext` calls, carrying `dst[n:]` over (with any
spare capacity) to the next call. -/
def protoSeq (limit : Nat) : Nat → List Nat → Env → Buf → List Bytes × Option RErr
  | 0, _, _, _ => ([], none)
  | k + 1, spares, e, b =>
    match protoReadNext e b limit with
    | (.ok ⟨dst, n, none⟩, e') =>
      let r := protoSeq limit k spares.tail e' ⟨dst.data.drop n, spares.headD 0⟩
      (dst.data.take n :: r.1, r.2)
    | (.ok ⟨_, _, some err⟩, _) => ([], some err)
    | _ => ([], some .other)

/-- **Sequence law**: what `WriteNext` wrote comes back message by message, in order, followed
by a clean io.EOF — for every fragmentation, carry-over and capacity. -/
theorem proto_sequence (limit : Nat) (ms : List Bytes) :
    ∀ (spares : List Nat) (e : Env) (b : Buf),
    (∀ m ∈ ms, m.length ≤ limit ∧ m.length ≤ maxInt) →
    b.data ++ e.data = (ms.map protoWriteNext).flatten →
    protoSeq limit (ms.length + 1) spares e b = (ms, some .eof) := by
  induction ms with
  | nil =>
    intro spares e b _ hW
    obtain ⟨dst, e', h, _⟩ := proto_empty e b limit (by simpa using hW)
    simp [protoSeq, h]
  | cons m ms ih =>
    intro spares e b hall hW
    have hm := hall m (by simp)
    obtain ⟨dst, e', h, ht, hd⟩ := proto_frame e b limit m ((ms.map protoWriteNext).flatten)
      (by simpa using hW) hm.1 hm.2
    have := ih spares.tail e' ⟨dst.data.drop m.length, spares.headD 0⟩
      (fun x hx => hall x (by simp [hx])) hd
    simp only [List.length_cons, protoSeq, h, this, ht]

end Larking.Codec
