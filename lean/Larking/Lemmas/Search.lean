import Larking.Lemmas.Trie
namespace Larking.Trie
open Larking.Lexer

/-! ### trie well-formedness (what `addRule` maintains) -/

mutual
  /-- `k` = number of variable edges between the root and this node. Every method stored here
  has exactly `k` variable entries; every stored sub-pattern only has pattern tokens. -/
  def WF : Nat → Node → Prop
    | k, .mk segs methods all vars =>
      (∀ p ∈ methods, p.2.vars.length = k) ∧ (∀ m, all = some m → m.vars.length = k) ∧
      WFSegs k segs ∧ WFVars k vars
  def WFSegs : Nat → List (Bytes × Node) → Prop
    | _, [] => True
    | k, (_, c) :: rest => WF k c ∧ WFSegs k rest
  def WFVars : Nat → List (Var × Node) → Prop
    | _, [] => True
    | k, (v, c) :: rest => (∀ t ∈ v.toks, okPatTok t = true) ∧ WF (k + 1) c ∧ WFVars k rest
end

theorem lookupMeth_mem (ms : List (Bytes × Meth)) (verb : Bytes) (m : Meth)
    (h : lookupMeth ms verb = some m) : ∃ p ∈ ms, p.2 = m := by
  induction ms with
  | nil => simp [lookupMeth] at h
  | cons p rest ih =>
    obtain ⟨k, m'⟩ := p
    simp only [lookupMeth] at h
    split at h
    · simp at h; exact ⟨(k, m'), by simp, h⟩
    · obtain ⟨q, hq, hm⟩ := ih h; exact ⟨q, by simp [hq], hm⟩

/-! ### the declarative reading of a lookup: a way through the trie whose edges match -/

/-- `Reach conv verb n toks m caps es`: following the edges `es` from `n` consumes exactly the
request tokens `toks`, ends at a node that binds `m` for `verb` (or for any verb), and
captures `caps`. -/
inductive Reach (conv : Nat → Bytes → Bool) (verb : Bytes) :
    Node → List Tok → Meth → Caps → List Edge → Prop
  | hereVerb (n : Node) (toks : List Tok) (m : Meth) :
      toks.length ≤ 1 → lookupMeth n.methods verb = some m → Reach conv verb n toks m [] []
  | hereAll (n : Node) (toks : List Tok) (m : Meth) :
      toks.length ≤ 1 → lookupMeth n.methods verb = none → n.all = some m →
      Reach conv verb n toks m [] []
  | seg (n child : Node) (t0 t1 : Tok) (rest : List Tok) (m : Meth) (caps : Caps) (es : List Edge) :
      lookupSeg n.segs (t0.val ++ t1.val) = some child → Reach conv verb child rest m caps es →
      Reach conv verb n (t0 :: t1 :: rest) m caps (.seg (t0.val ++ t1.val) :: es)
  | var (n child : Node) (v : Var) (t0 : Tok) (toks1 : List Tok) (i : Nat) (m : Meth) (caps : Caps)
      (es : List Edge) (fp : Option Nat) :
      t0.typ = .slash → (v, child) ∈ n.vars → 2 ≤ (t0 :: toks1).length →
      varIndex v.toks toks1 0 = .ok (some i) →
      Reach conv verb child (toks1.drop i) m caps es →
      m.vars[m.vars.length - caps.length - 1]? = some fp → caps.length + 1 ≤ m.vars.length →
      (∀ f, fp = some f → conv f (toksString (toks1.take i)) = true) →
      Reach conv verb n (t0 :: toks1) m
        (caps ++ [(fp, match fp with | some _ => toksString (toks1.take i) | none => [])])
        (.var v :: es)

theorem lookupSeg_of_searchSegs (conv) (verb) (segs : List (Bytes × Node)) (key : Bytes) (rest : List Tok)
    (r : SRes) (h : searchSegs conv verb segs key rest = some r) :
    ∃ child, lookupSeg segs key = some child ∧ r = search conv verb child rest := by
  induction segs with
  | nil => simp [searchSegs] at h
  | cons p more ih =>
    obtain ⟨k, c⟩ := p
    simp only [searchSegs] at h
    simp only [lookupSeg]
    split at h
    · rename_i hk
      simp only [hk, if_true]
      exact ⟨c, rfl, by simpa using h.symm⟩
    · rename_i hk
      simp only [hk]
      exact ih h

mutual
  /-- **search is sound w.r.t. the trie**: a found method is bound at the end of a way whose
  edges match the request tokens, with exactly the reported captures. -/
  theorem search_sound (conv) (verb) : ∀ (n : Node) (toks : List Tok) (m : Meth) (caps : Caps),
      search conv verb n toks = .found m caps → ∃ es, Reach conv verb n toks m caps es
    | .mk segs methods all vars, toks, m, caps, h => by
      match toks, h with
      | [], h =>
        simp only [search] at h
        split at h
        · rename_i m' hm
          injection h with h1 h2; subst h1; subst h2
          exact ⟨[], .hereVerb _ _ _ (by simp) hm⟩
        · rename_i hm
          split at h
          · rename_i m'
            injection h with h1 h2; subst h1; subst h2
            exact ⟨[], .hereAll _ _ _ (by simp) hm rfl⟩
          · cases h
      | [t], h =>
        simp only [search] at h
        split at h
        · rename_i m' hm
          injection h with h1 h2; subst h1; subst h2
          exact ⟨[], .hereVerb _ _ _ (by simp) hm⟩
        · rename_i hm
          split at h
          · rename_i m'
            injection h with h1 h2; subst h1; subst h2
            exact ⟨[], .hereAll _ _ _ (by simp) hm rfl⟩
          · cases h
      | t0 :: t1 :: rest, h =>
        simp only [search] at h
        split at h
        · -- found through a literal child
          rename_i m' caps' hs
          injection h with h1 h2; subst h1; subst h2
          obtain ⟨child, es, hl, hre⟩ := searchSegs_sound conv verb segs (t0.val ++ t1.val) rest m' caps' hs
          exact ⟨_, .seg (.mk segs methods all vars) child t0 t1 rest m' caps' es hl hre⟩
        · cases h
        · split at h
          · rename_i ht0
            obtain ⟨es, hre⟩ := searchVars_sound conv verb vars t0 (t1 :: rest) m caps
              (by simpa using ht0) (by simp) h
            exact ⟨es, hre (.mk segs methods all vars) (fun p hp => hp)⟩
          · cases h

  theorem searchSegs_sound (conv) (verb) : ∀ (segs : List (Bytes × Node)) (key : Bytes)
      (rest : List Tok) (m : Meth) (caps : Caps),
      searchSegs conv verb segs key rest = some (.found m caps) →
      ∃ child es, lookupSeg segs key = some child ∧ Reach conv verb child rest m caps es
    | [], _, _, _, _, h => by simp [searchSegs] at h
    | (k, c) :: more, key, rest, m, caps, h => by
      simp only [searchSegs] at h
      simp only [lookupSeg]
      split at h
      · rename_i hk
        simp only [hk, if_true]
        have hs : search conv verb c rest = .found m caps := by simpa using h
        obtain ⟨es, hre⟩ := search_sound conv verb c rest m caps hs
        exact ⟨c, es, rfl, hre⟩
      · rename_i hk
        simp only [hk]
        exact searchSegs_sound conv verb more key rest m caps h

  theorem searchVars_sound (conv) (verb) : ∀ (vars : List (Var × Node)) (t0 : Tok) (toks1 : List Tok)
      (m : Meth) (caps : Caps), t0.typ = .slash → 1 ≤ toks1.length →
      searchVars conv verb vars toks1 = .found m caps →
      ∃ es, ∀ (n : Node), (∀ p, p ∈ vars → p ∈ n.vars) → Reach conv verb n (t0 :: toks1) m caps es
    | [], _, _, _, _, _, _, h => by simp [searchVars] at h
    | (v, child) :: more, t0, toks1, m, caps, ht0, hlen, h => by
      simp only [searchVars] at h
      split at h
      · cases h
      · cases h
      · -- index = -1: next variable
        obtain ⟨es, hre⟩ := searchVars_sound conv verb more t0 toks1 m caps ht0 hlen h
        exact ⟨es, fun n hn => hre n (fun p hp => hn p (by simp [hp]))⟩
      · rename_i i hidx
        split at h
        · cases h
        · obtain ⟨es, hre⟩ := searchVars_sound conv verb more t0 toks1 m caps ht0 hlen h
          exact ⟨es, fun n hn => hre n (fun p hp => hn p (by simp [hp]))⟩
        · rename_i m' caps' hs
          obtain ⟨es, hre⟩ := search_sound conv verb child (toks1.drop i) m' caps' hs
          split at h
          · cases h
          · rename_i hlen2
            split at h
            · cases h
            · -- bare wildcard: nothing bound
              rename_i hfp
              injection h with h1 h2; subst h1; subst h2
              refine ⟨.var v :: es, fun n hn => ?_⟩
              have := Reach.var (conv := conv) (verb := verb) n child v t0 toks1 i m' caps' es none ht0
                (hn (v, child) (by simp)) (by simp; omega) hidx hre hfp (by omega) (by simp)
              simpa using this
            · rename_i fp hfp
              split at h
              · rename_i hconv
                injection h with h1 h2; subst h1; subst h2
                refine ⟨.var v :: es, fun n hn => ?_⟩
                have := Reach.var (conv := conv) (verb := verb) n child v t0 toks1 i m' caps' es (some fp) ht0
                  (hn (v, child) (by simp)) (by simp; omega) hidx hre hfp (by omega)
                  (by intro f hf; injection hf with hf; subst hf; exact hconv)
                simpa using this
              · cases h
end

end Larking.Trie

namespace Larking.Trie
open Larking.Lexer

mutual
  /-- over a well-formed trie `search` never panics, and a found method has one variable entry
  per variable edge on its way (so `m.vars[len(m.vars)-len(ps)-1]` is always in range). -/
  theorem search_wf (conv) (verb) : ∀ (k : Nat) (n : Node) (toks : List Tok), WF k n →
      (∀ s, search conv verb n toks ≠ .panic s) ∧
      (∀ m caps, search conv verb n toks = .found m caps → m.vars.length = k + caps.length)
    | k, .mk segs methods all vars, toks, hwf => by
      simp only [WF] at hwf
      obtain ⟨hm, ha, hsegs, hvars⟩ := hwf
      match toks with
      | [] =>
        simp only [search]
        constructor
        · intro s; split <;> (try split) <;> simp
        · intro m caps h
          split at h
          · rename_i m' hl
            injection h with h1 h2; subst h1; subst h2
            obtain ⟨p, hp, hpm⟩ := lookupMeth_mem _ _ _ hl
            simp [← hpm, hm p hp]
          · split at h
            · rename_i m'
              injection h with h1 h2; subst h1; subst h2
              simp [ha m' rfl]
            · cases h
      | [t] =>
        simp only [search]
        constructor
        · intro s; split <;> (try split) <;> simp
        · intro m caps h
          split at h
          · rename_i m' hl
            injection h with h1 h2; subst h1; subst h2
            obtain ⟨p, hp, hpm⟩ := lookupMeth_mem _ _ _ hl
            simp [← hpm, hm p hp]
          · split at h
            · rename_i m'
              injection h with h1 h2; subst h1; subst h2
              simp [ha m' rfl]
            · cases h
      | t0 :: t1 :: rest =>
        have hs := searchSegs_wf conv verb k segs (t0.val ++ t1.val) rest hsegs
        have hv := searchVars_wf conv verb k vars (t1 :: rest) hvars
        simp only [search]
        constructor
        · intro s
          split
          · simp
          · rename_i s' hs'
            exact absurd hs' (hs.1 s')
          · split
            · exact hv.1 s
            · simp
        · intro m caps h
          split at h
          · rename_i m' caps' hs'
            injection h with h1 h2; subst h1; subst h2
            exact hs.2 _ _ hs'
          · cases h
          · split at h
            · exact hv.2 _ _ h
            · cases h

  theorem searchSegs_wf (conv) (verb) : ∀ (k : Nat) (segs : List (Bytes × Node)) (key : Bytes)
      (rest : List Tok), WFSegs k segs →
      (∀ s, searchSegs conv verb segs key rest ≠ some (.panic s)) ∧
      (∀ m caps, searchSegs conv verb segs key rest = some (.found m caps) → m.vars.length = k + caps.length)
    | _, [], _, _, _ => by simp [searchSegs]
    | k, (key', c) :: more, key, rest, hwf => by
      simp only [WFSegs] at hwf
      simp only [searchSegs]
      split
      · have := search_wf conv verb k c rest hwf.1
        constructor
        · intro s h; injection h with h; exact this.1 s h
        · intro m caps h; injection h with h; exact this.2 m caps h
      · exact searchSegs_wf conv verb k more key rest hwf.2

  theorem searchVars_wf (conv) (verb) : ∀ (k : Nat) (vars : List (Var × Node)) (toks1 : List Tok),
      WFVars k vars →
      (∀ s, searchVars conv verb vars toks1 ≠ .panic s) ∧
      (∀ m caps, searchVars conv verb vars toks1 = .found m caps → m.vars.length = k + caps.length)
    | _, [], _, _ => by simp [searchVars]
    | k, (v, c) :: more, toks1, hwf => by
      simp only [WFVars] at hwf
      obtain ⟨hpat, hc, hmore⟩ := hwf
      have ihm := searchVars_wf conv verb k more toks1 hmore
      simp only [searchVars]
      split
      · rename_i s hidx
        exact absurd hidx (varIndex_no_panic _ _ _ hpat s)
      · rename_i e hidx
        exact absurd hidx (varIndex_no_err _ _ _ e)
      · exact ihm
      · rename_i i hidx
        have ihc := search_wf conv verb (k + 1) c (toks1.drop i) hc
        split
        · rename_i s hs
          exact absurd hs (ihc.1 s)
        · exact ihm
        · rename_i m' caps' hs
          have hlen := ihc.2 m' caps' hs
          have h1 : ¬ (m'.vars.length < caps'.length + 1) := by omega
          simp only [h1, if_false]
          have hidx2 : m'.vars.length - caps'.length - 1 < m'.vars.length := by omega
          cases hget : m'.vars[m'.vars.length - caps'.length - 1]? with
          | none =>
            rw [List.getElem?_eq_none_iff] at hget
            omega
          | some fp =>
            cases fp with
            | none =>
              simp only
              constructor
              · intro s; simp
              · intro m caps h
                injection h with h1 h2; subst h1; subst h2
                simp; omega
            | some f =>
              simp only
              split
              · constructor
                · intro s; simp
                · intro m caps h
                  injection h with h1 h2; subst h1; subst h2
                  simp; omega
              · constructor
                · intro s; simp
                · intro m caps h; cases h
end

/-- a request token sequence never crashes the router (any verb, any path tokens, any
conversion behaviour) once the trie is well-formed. -/
theorem search_no_panic (conv) (verb) (n : Node) (toks : List Tok) (h : WF 0 n) :
    ∀ s, search conv verb n toks ≠ .panic s := (search_wf conv verb 0 n toks h).1

end Larking.Trie
