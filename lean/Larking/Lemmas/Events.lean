import Larking.Model.Events
namespace Larking.Events

theorem ops_no_ctl (p : Proto) : ∀ (acts : List Act) (sent : Bool), ∀ e ∈ (ops p acts sent).1,
    e = .inPayload ∨ e = .outHeader ∨ e = .outPayload := by
  intro acts
  induction acts with
  | nil => intro sent e he; simp [ops] at he
  | cons a rest ih =>
    intro sent e he
    simp only [ops, List.mem_append] at he
    rcases he with he | he
    · cases p <;> cases a <;> cases sent <;> simp at he <;> simp [he]
      all_goals (rcases he with he | he <;> simp [he])
    · exact ih _ e he

theorem ops_in_count (p : Proto) : ∀ (acts : List Act) (sent : Bool),
    ((ops p acts sent).1.filter (· == .inPayload)).length = (acts.filter (· == .recvOk)).length := by
  intro acts
  induction acts with
  | nil => intro sent; simp [ops]
  | cons a rest ih =>
    intro sent
    simp only [ops, List.filter_append, List.length_append, ih]
    cases p <;> cases a <;> cases sent <;> simp [List.filter_cons] <;> omega

theorem ops_out_count (p : Proto) : ∀ (acts : List Act) (sent : Bool),
    ((ops p acts sent).1.filter (· == .outPayload)).length = (acts.filter (· == .sendOk)).length := by
  intro acts
  induction acts with
  | nil => intro sent; simp [ops]
  | cons a rest ih =>
    intro sent
    simp only [ops, List.filter_append, List.length_append, ih]
    cases p <;> cases a <;> cases sent <;> simp [List.filter_cons] <;> omega

def cntH (l : List Ev) : Nat := (l.filter (· == .outHeader)).length

theorem cntH_append (a b : List Ev) : cntH (a ++ b) = cntH a + cntH b := by
  simp [cntH, List.filter_append]

@[simp] theorem cntH_nil : cntH [] = 0 := rfl
@[simp] theorem cntH_in (l : List Ev) : cntH (.inPayload :: l) = cntH l := by simp [cntH, List.filter_cons]
@[simp] theorem cntH_out (l : List Ev) : cntH (.outPayload :: l) = cntH l := by simp [cntH, List.filter_cons]
@[simp] theorem cntH_hdr (l : List Ev) : cntH (.outHeader :: l) = cntH l + 1 := by simp [cntH, List.filter_cons]

/-- once `sentHeader` is set no out-header goes out and it stays set. -/
theorem ops_sent (p : Proto) : ∀ (acts : List Act), cntH (ops p acts true).1 = 0 ∧ (ops p acts true).2 = true := by
  intro acts
  induction acts with
  | nil => simp [ops]
  | cons a rest ih =>
    simp only [ops, cntH_append]
    cases p <;> cases a <;> simp <;> exact ih

/-- the out-header goes out at most once, and only if `sentHeader` ends up set. -/
theorem ops_header_count (p : Proto) : ∀ (acts : List Act),
    cntH (ops p acts false).1 ≤ 1 ∧ ((ops p acts false).2 = false → cntH (ops p acts false).1 = 0) := by
  intro acts
  induction acts with
  | nil => simp [ops]
  | cons a rest ih =>
    have hs := ops_sent p rest
    simp only [ops, cntH_append]
    cases p <;> cases a <;> simp <;>
      first
        | exact ih
        | simp [hs]

end Larking.Events
