import Larking.Model.TrieDel
import Larking.Lemmas.Provenance
/-
  `delRule` on the trie: what it keeps, what it can remove, when it says false.
-/
namespace Larking.Trie
open Larking.Lexer

/-- what the pruning may rely on: a node at which (or below which) something is bound is alive. -/
def AliveSound (counts : List String) : Prop :=
  counts.contains "methodAll" = true ∧ counts.contains "methods" = true ∧
  counts.contains "variables" = true ∧ counts.contains "segments" = true

theorem lookupMeth_ne_nil (ms : List (Bytes × Meth)) (verb : Bytes) (m : Meth)
    (h : lookupMeth ms verb = some m) : ms.isEmpty = false := by
  cases ms with
  | nil => simp [lookupMeth] at h
  | cons _ _ => rfl

theorem lookupSeg_ne_nil (cs : List (Bytes × Node)) (k : Bytes) (c : Node)
    (h : lookupSeg cs k = some c) : cs.isEmpty = false := by
  cases cs with
  | nil => simp [lookupSeg] at h
  | cons _ _ => rfl

/-- a node that binds anything, here or below, is alive. -/
theorem stored_alive (counts : List String) (hs : AliveSound counts) (n : Node) (ks : List KEdge)
    (vk : Option Bytes) (m : Meth) (h : StoredK n ks vk m) : aliveWith counts n = true := by
  obtain ⟨segs, methods, all, vars⟩ := n
  obtain ⟨h1, h2, h3, h4⟩ := hs
  simp only [aliveWith, h1, h2, h3, h4, Bool.true_and]
  cases ks with
  | nil =>
    cases vk with
    | some verb =>
      simp only [StoredK, StoredHere, Node.methods] at h
      simp [lookupMeth_ne_nil methods verb m h]
    | none =>
      simp only [StoredK, StoredHere, Node.all] at h
      simp [h]
  | cons e ks =>
    cases e with
    | seg k =>
      simp only [StoredK, Node.segs] at h
      obtain ⟨c, hc, _⟩ := h
      simp [lookupSeg_ne_nil segs k c hc]
    | var name =>
      simp only [StoredK, Node.vars] at h
      obtain ⟨v, c, hm, _, _⟩ := h
      have : vars.isEmpty = false := by cases vars with | nil => cases hm | cons _ _ => rfl
      simp [this]

theorem delMeth_keeps : ∀ (ms ms' : List (Bytes × Meth)) (name : Nat), delMeth ms name = some ms' →
    ∀ verb m, m.mid ≠ name → lookupMeth ms verb = some m → lookupMeth ms' verb = some m
  | [], _, _, h, _, _, _, _ => by simp [delMeth] at h
  | (k, m0) :: rest, ms', name, h, verb, m, hne, hl => by
    simp only [delMeth] at h
    simp only [lookupMeth] at hl
    split at h
    · rename_i hmid
      injection h with h; subst h
      split at hl
      · injection hl with hl; subst hl; exact absurd (by simpa using hmid) hne
      · exact hl
    · cases hd : delMeth rest name with
      | none => rw [hd] at h; simp at h
      | some rest' =>
        rw [hd] at h; simp only [Option.map_some] at h; injection h with h; subst h
        simp only [lookupMeth]
        split at hl
        · rename_i hk; simp only [hk, if_true]; exact hl
        · rename_i hk; simp only [hk]; exact delMeth_keeps rest rest' name hd verb m hne hl

theorem delMeth_only_removes : ∀ (ms ms' : List (Bytes × Meth)) (name : Nat), delMeth ms name = some ms' →
    ∀ p, p ∈ ms' → p ∈ ms
  | [], _, _, h, _, _ => by simp [delMeth] at h
  | (k, m0) :: rest, ms', name, h, p, hp => by
    simp only [delMeth] at h
    split at h
    · injection h with h; subst h; exact List.mem_cons_of_mem _ hp
    · cases hd : delMeth rest name with
      | none => rw [hd] at h; simp at h
      | some rest' =>
        rw [hd] at h; simp only [Option.map_some] at h; injection h with h; subst h
        rcases List.mem_cons.mp hp with hp | hp
        · subst hp; simp
        · exact List.mem_cons_of_mem _ (delMeth_only_removes rest rest' name hd p hp)

/-- `delMeth` says "nothing found" only when no entry belongs to the method. -/
theorem delMeth_none : ∀ (ms : List (Bytes × Meth)) (name : Nat), delMeth ms name = none →
    ∀ p ∈ ms, p.2.mid ≠ name
  | [], _, _, p, hp => by cases hp
  | (k, m0) :: rest, name, h, p, hp => by
    simp only [delMeth] at h
    split at h
    · cases h
    · rename_i hmid
      cases hd : delMeth rest name with
      | some r => rw [hd] at h; simp at h
      | none =>
        rcases List.mem_cons.mp hp with hp | hp
        · subst hp; simpa using hmid
        · exact delMeth_none rest name hd p hp

mutual
  /-- **`delRule` never touches another method's bindings** — at any depth, under any kind
  (also `*`), whichever rule of `name` its walk finds first, provided `alive` counts every
  field a binding can sit in (`AliveSound`, decided for the regenerated list). -/
  theorem delRule_keeps (counts : List String) (hs : AliveSound counts) (name : Nat) :
      ∀ (n n' : Node), delRule counts name n = some n' →
      ∀ ks vk m, m.mid ≠ name → StoredK n ks vk m → StoredK n' ks vk m
    | .mk segs methods all vars, n', h, ks, vk, m, hne, hst => by
      simp only [delRule] at h
      cases hsg : delSegs counts name segs with
      | some segs' =>
        rw [hsg] at h; simp only at h; injection h with h; subst h
        cases ks with
        | nil => exact hst
        | cons e ks =>
          cases e with
          | seg k =>
            simp only [StoredK, Node.segs] at hst ⊢
            exact delSegs_keeps counts hs name segs segs' hsg k ks vk m hne hst
          | var nm => exact hst
      | none =>
        rw [hsg] at h; simp only at h
        cases hv : delVars counts name vars with
        | some vars' =>
          rw [hv] at h; simp only at h; injection h with h; subst h
          cases ks with
          | nil => exact hst
          | cons e ks =>
            cases e with
            | seg k => exact hst
            | var nm =>
              simp only [StoredK, Node.vars] at hst ⊢
              exact delVars_keeps counts hs name vars vars' hv nm ks vk m hne hst
        | none =>
          rw [hv] at h; simp only at h
          cases hd : delMeth methods name with
          | none => rw [hd] at h; simp at h
          | some ms =>
            rw [hd] at h; simp only [Option.map_some] at h; injection h with h; subst h
            cases ks with
            | nil =>
              cases vk with
              | some verb =>
                simp only [StoredK, StoredHere, Node.methods] at hst ⊢
                exact delMeth_keeps methods ms name hd verb m hne hst
              | none => exact hst
            | cons e ks => cases e <;> exact hst

  theorem delSegs_keeps (counts : List String) (hs : AliveSound counts) (name : Nat) :
      ∀ (segs segs' : List (Bytes × Node)), delSegs counts name segs = some segs' →
      ∀ k ks vk m, m.mid ≠ name → (∃ c, lookupSeg segs k = some c ∧ StoredK c ks vk m) →
      ∃ c, lookupSeg segs' k = some c ∧ StoredK c ks vk m
    | [], _, h, _, _, _, _, _, _ => by simp [delSegs] at h
    | (k0, c0) :: rest, segs', h, k, ks, vk, m, hne, ⟨c, hl, hst⟩ => by
      simp only [delSegs] at h
      simp only [lookupSeg] at hl
      cases hd : delRule counts name c0 with
      | some c0' =>
        rw [hd] at h; simp only at h; injection h with h; subst h
        by_cases hk : (k0 == k) = true
        · simp only [hk, if_true] at hl
          injection hl with hl; subst hl
          have hst' := delRule_keeps counts hs name c0 c0' hd ks vk m hne hst
          have hal := stored_alive counts hs c0' ks vk m hst'
          simp only [hal, if_true]
          exact ⟨c0', by simp [lookupSeg, hk], hst'⟩
        · simp only [hk] at hl
          split
          · exact ⟨c, by simp only [lookupSeg, hk]; exact hl, hst⟩
          · exact ⟨c, hl, hst⟩
      | none =>
        rw [hd] at h; simp only at h
        cases hr : delSegs counts name rest with
        | none => rw [hr] at h; simp at h
        | some rest' =>
          rw [hr] at h; simp only [Option.map_some] at h; injection h with h; subst h
          by_cases hk : (k0 == k) = true
          · simp only [hk, if_true] at hl
            exact ⟨c, by simp only [lookupSeg, hk, if_true]; exact hl, hst⟩
          · simp only [hk] at hl
            obtain ⟨c', hl', hst'⟩ := delSegs_keeps counts hs name rest rest' hr k ks vk m hne ⟨c, hl, hst⟩
            exact ⟨c', by simp only [lookupSeg, hk]; exact hl', hst'⟩

  theorem delVars_keeps (counts : List String) (hs : AliveSound counts) (name : Nat) :
      ∀ (vars vars' : List (Var × Node)), delVars counts name vars = some vars' →
      ∀ nm ks vk m, m.mid ≠ name → (∃ v c, (v, c) ∈ vars ∧ v.name = nm ∧ StoredK c ks vk m) →
      ∃ v c, (v, c) ∈ vars' ∧ v.name = nm ∧ StoredK c ks vk m
    | [], _, h, _, _, _, _, _, _ => by simp [delVars] at h
    | (v0, c0) :: rest, vars', h, nm, ks, vk, m, hne, ⟨v, c, hmem, hnm, hst⟩ => by
      simp only [delVars] at h
      cases hd : delRule counts name c0 with
      | some c0' =>
        rw [hd] at h; simp only at h; injection h with h; subst h
        rcases List.mem_cons.mp hmem with hmem | hmem
        · injection hmem with h1 h2; subst h1; subst h2
          have hst' := delRule_keeps counts hs name c c0' hd ks vk m hne hst
          have hal := stored_alive counts hs c0' ks vk m hst'
          simp only [hal, if_true]
          exact ⟨v, c0', by simp, hnm, hst'⟩
        · split
          · exact ⟨v, c, by simp [hmem], hnm, hst⟩
          · exact ⟨v, c, hmem, hnm, hst⟩
      | none =>
        rw [hd] at h; simp only at h
        cases hr : delVars counts name rest with
        | none => rw [hr] at h; simp at h
        | some rest' =>
          rw [hr] at h; simp only [Option.map_some] at h; injection h with h; subst h
          rcases List.mem_cons.mp hmem with hmem | hmem
          · injection hmem with h1 h2; subst h1; subst h2
            exact ⟨v, c, by simp, hnm, hst⟩
          · obtain ⟨v', c', hm', hn', hst'⟩ :=
              delVars_keeps counts hs name rest rest' hr nm ks vk m hne ⟨v, c, hmem, hnm, hst⟩
            exact ⟨v', c', by simp [hm'], hn', hst'⟩
end

theorem lookupMeth_mem' (ms : List (Bytes × Meth)) (verb : Bytes) (m : Meth)
    (h : lookupMeth ms verb = some m) : ∃ p ∈ ms, p.2 = m := lookupMeth_mem ms verb m h

/-- the lookups a reader can make on a node; `delRule` never invents one (keys are map keys:
unique), so this is stated over list membership, the order-free reading of a Go map. -/
def BoundIn : Node → List KEdge → Option Bytes → Meth → Prop
  | n, [], some verb, m => (verb, m) ∈ n.methods
  | n, [], none, m => n.all = some m
  | n, .seg k :: ks, vk, m => ∃ c, (k, c) ∈ n.segs ∧ BoundIn c ks vk m
  | n, .var nm :: ks, vk, m => ∃ v c, (v, c) ∈ n.vars ∧ v.name = nm ∧ BoundIn c ks vk m

mutual
  /-- **`delRule` only removes**: every binding of the trie afterwards was there before. -/
  theorem delRule_only_removes (counts : List String) (name : Nat) :
      ∀ (n n' : Node), delRule counts name n = some n' →
      ∀ ks vk m, BoundIn n' ks vk m → BoundIn n ks vk m
    | .mk segs methods all vars, n', h, ks, vk, m, hb => by
      simp only [delRule] at h
      cases hsg : delSegs counts name segs with
      | some segs' =>
        rw [hsg] at h; simp only at h; injection h with h; subst h
        cases ks with
        | nil => cases vk <;> exact hb
        | cons e ks =>
          cases e with
          | seg k =>
            simp only [BoundIn, Node.segs] at hb ⊢
            obtain ⟨c, hc, hbc⟩ := hb
            exact delSegs_only_removes counts name segs segs' hsg k c hc ks vk m hbc
          | var nm => exact hb
      | none =>
        rw [hsg] at h; simp only at h
        cases hv : delVars counts name vars with
        | some vars' =>
          rw [hv] at h; simp only at h; injection h with h; subst h
          cases ks with
          | nil => cases vk <;> exact hb
          | cons e ks =>
            cases e with
            | seg k => exact hb
            | var nm =>
              simp only [BoundIn, Node.vars] at hb ⊢
              obtain ⟨v, c, hc, hn, hbc⟩ := hb
              obtain ⟨c0, h0, hb0⟩ := delVars_only_removes counts name vars vars' hv v c hc ks vk m hbc
              exact ⟨v, c0, h0, hn, hb0⟩
        | none =>
          rw [hv] at h; simp only at h
          cases hd : delMeth methods name with
          | none => rw [hd] at h; simp at h
          | some ms =>
            rw [hd] at h; simp only [Option.map_some] at h; injection h with h; subst h
            cases ks with
            | nil =>
              cases vk with
              | some verb =>
                simp only [BoundIn, Node.methods] at hb ⊢
                exact delMeth_only_removes methods ms name hd _ hb
              | none => exact hb
            | cons e ks => cases e <;> exact hb

  theorem delSegs_only_removes (counts : List String) (name : Nat) :
      ∀ (segs segs' : List (Bytes × Node)), delSegs counts name segs = some segs' →
      ∀ k c, (k, c) ∈ segs' → ∀ ks vk m, BoundIn c ks vk m → ∃ c0, (k, c0) ∈ segs ∧ BoundIn c0 ks vk m
    | [], _, h, _, _, _, _, _, _, _ => by simp [delSegs] at h
    | (k0, c0) :: rest, segs', h, k, c, hmem, ks, vk, m, hb => by
      simp only [delSegs] at h
      cases hd : delRule counts name c0 with
      | some c0' =>
        rw [hd] at h; simp only at h; injection h with h; subst h
        split at hmem
        · rcases List.mem_cons.mp hmem with hm | hm
          · injection hm with h1 h2; subst h1; subst h2
            exact ⟨c0, by simp, delRule_only_removes counts name c0 c hd ks vk m hb⟩
          · exact ⟨c, by simp [hm], hb⟩
        · exact ⟨c, by simp [hmem], hb⟩
      | none =>
        rw [hd] at h; simp only at h
        cases hr : delSegs counts name rest with
        | none => rw [hr] at h; simp at h
        | some rest' =>
          rw [hr] at h; simp only [Option.map_some] at h; injection h with h; subst h
          rcases List.mem_cons.mp hmem with hm | hm
          · injection hm with h1 h2; subst h1; subst h2; exact ⟨c, by simp, hb⟩
          · obtain ⟨c1, h1, hb1⟩ := delSegs_only_removes counts name rest rest' hr k c hm ks vk m hb
            exact ⟨c1, by simp [h1], hb1⟩

  theorem delVars_only_removes (counts : List String) (name : Nat) :
      ∀ (vars vars' : List (Var × Node)), delVars counts name vars = some vars' →
      ∀ v c, (v, c) ∈ vars' → ∀ ks vk m, BoundIn c ks vk m → ∃ c0, (v, c0) ∈ vars ∧ BoundIn c0 ks vk m
    | [], _, h, _, _, _, _, _, _, _ => by simp [delVars] at h
    | (v0, c0) :: rest, vars', h, v, c, hmem, ks, vk, m, hb => by
      simp only [delVars] at h
      cases hd : delRule counts name c0 with
      | some c0' =>
        rw [hd] at h; simp only at h; injection h with h; subst h
        split at hmem
        · rcases List.mem_cons.mp hmem with hm | hm
          · injection hm with h1 h2; subst h1; subst h2
            exact ⟨c0, by simp, delRule_only_removes counts name c0 c hd ks vk m hb⟩
          · exact ⟨c, by simp [hm], hb⟩
        · exact ⟨c, by simp [hmem], hb⟩
      | none =>
        rw [hd] at h; simp only at h
        cases hr : delVars counts name rest with
        | none => rw [hr] at h; simp at h
        | some rest' =>
          rw [hr] at h; simp only [Option.map_some] at h; injection h with h; subst h
          rcases List.mem_cons.mp hmem with hm | hm
          · injection hm with h1 h2; subst h1; subst h2; exact ⟨c, by simp, hb⟩
          · obtain ⟨c1, h1, hb1⟩ := delVars_only_removes counts name rest rest' hr v c hm ks vk m hb
            exact ⟨c1, by simp [h1], hb1⟩
end

mutual
  /-- **`delRule` reports false only when no verb binding of the method is left** anywhere in
  the trie: calling it until it says false removes every verb route of a dropped method. -/
  theorem delRule_none (counts : List String) (name : Nat) :
      ∀ (n : Node), delRule counts name n = none →
      ∀ ks verb m, BoundIn n ks (some verb) m → m.mid ≠ name
    | .mk segs methods all vars, h, ks, verb, m, hb => by
      simp only [delRule] at h
      cases hsg : delSegs counts name segs with
      | some segs' => rw [hsg] at h; simp at h
      | none =>
        rw [hsg] at h; simp only at h
        cases hv : delVars counts name vars with
        | some vars' => rw [hv] at h; simp at h
        | none =>
          rw [hv] at h; simp only at h
          cases hd : delMeth methods name with
          | some ms => rw [hd] at h; simp at h
          | none =>
            cases ks with
            | nil =>
              simp only [BoundIn, Node.methods] at hb
              exact delMeth_none methods name hd _ hb
            | cons e ks =>
              cases e with
              | seg k =>
                simp only [BoundIn, Node.segs] at hb
                obtain ⟨c, hc, hbc⟩ := hb
                exact delSegs_none counts name segs hsg k c hc ks verb m hbc
              | var nm =>
                simp only [BoundIn, Node.vars] at hb
                obtain ⟨v, c, hc, _, hbc⟩ := hb
                exact delVars_none counts name vars hv v c hc ks verb m hbc

  theorem delSegs_none (counts : List String) (name : Nat) :
      ∀ (segs : List (Bytes × Node)), delSegs counts name segs = none →
      ∀ k c, (k, c) ∈ segs → ∀ ks verb m, BoundIn c ks (some verb) m → m.mid ≠ name
    | [], _, _, _, hm, _, _, _, _ => by cases hm
    | (k0, c0) :: rest, h, k, c, hmem, ks, verb, m, hb => by
      simp only [delSegs] at h
      cases hd : delRule counts name c0 with
      | some c0' => rw [hd] at h; simp at h
      | none =>
        rw [hd] at h; simp only at h
        cases hr : delSegs counts name rest with
        | some r => rw [hr] at h; simp at h
        | none =>
          rcases List.mem_cons.mp hmem with hm | hm
          · injection hm with h1 h2; subst h1; subst h2
            exact delRule_none counts name c hd ks verb m hb
          · exact delSegs_none counts name rest hr k c hm ks verb m hb

  theorem delVars_none (counts : List String) (name : Nat) :
      ∀ (vars : List (Var × Node)), delVars counts name vars = none →
      ∀ v c, (v, c) ∈ vars → ∀ ks verb m, BoundIn c ks (some verb) m → m.mid ≠ name
    | [], _, _, _, hm, _, _, _, _ => by cases hm
    | (v0, c0) :: rest, h, v, c, hmem, ks, verb, m, hb => by
      simp only [delVars] at h
      cases hd : delRule counts name c0 with
      | some c0' => rw [hd] at h; simp at h
      | none =>
        rw [hd] at h; simp only at h
        cases hr : delVars counts name rest with
        | some r => rw [hr] at h; simp at h
        | none =>
          rcases List.mem_cons.mp hmem with hm | hm
          · injection hm with h1 h2; subst h1; subst h2
            exact delRule_none counts name c hd ks verb m hb
          · exact delVars_none counts name rest hr v c hm ks verb m hb
end

/-- what `search` can find is bound (list-membership reading). -/
theorem lookupSeg_mem : ∀ (cs : List (Bytes × Node)) (k : Bytes) (c : Node), lookupSeg cs k = some c → ∃ k', (k' == k) = true ∧ (k', c) ∈ cs
  | [], _, _, h => by simp [lookupSeg] at h
  | (k0, c0) :: rest, k, c, h => by
    simp only [lookupSeg] at h
    split at h
    · rename_i hk; injection h with h; subst h; exact ⟨k0, hk, by simp⟩
    · obtain ⟨k', hk', hm⟩ := lookupSeg_mem rest k c h; exact ⟨k', hk', by simp [hm]⟩

end Larking.Trie
