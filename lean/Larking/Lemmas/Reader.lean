import Larking.Model.Reader
namespace Larking

theorem read_conserve (e : Env) (room : Nat) :
    (e.read room).1 ++ (e.read room).2.2.data = e.data := by
  unfold Env.read
  split
  · rename_i h; simp at h; simp [h]
  · simp

theorem read_eof_flag (e : Env) (room : Nat) (h : (e.read room).2.1 = true) :
    (e.read room).2.2.data = [] := by
  unfold Env.read at *
  split at h
  · rename_i h'; simp [h']; simpa using h'
  · rename_i h'
    simp only [Bool.and_eq_true, beq_iff_eq] at h
    simp [h', h.2]

theorem read_len_le (e : Env) (room : Nat) : (e.read room).1.length ≤ room := by
  unfold Env.read Env.chunk
  split <;> simp <;> omega

theorem read_progress (e : Env) (room : Nat) (hr : 0 < room) (h : e.data.isEmpty = false) :
    0 < (e.read room).1.length := by
  have hpos : 0 < e.data.length := by
    cases hd : e.data with
    | nil => simp [hd] at h
    | cons _ _ => simp
  simp only [Env.read, h, Env.chunk]
  simp; omega

theorem growIfFull_data (e : Env) (b : Buf) : (growIfFull e b).1.data = b.data := by
  unfold growIfFull; split <;> rfl
theorem growIfFull_env (e : Env) (b : Buf) : (growIfFull e b).2 = e := by
  unfold growIfFull; split <;> rfl
theorem growIfFull_spare (e : Env) (b : Buf) : 0 < (growIfFull e b).1.spare := by
  unfold growIfFull; split
  · simp; omega
  · rename_i h; simp at h; simp; omega

theorem readMore_data (e : Env) (b : Buf) :
    (readMore e b).1.data = b.data ++ (e.read (growIfFull e b).1.spare).1 := by
  simp [readMore, growIfFull_data, growIfFull_env]

theorem readMore_env (e : Env) (b : Buf) :
    (readMore e b).2.2 = (e.read (growIfFull e b).1.spare).2.2 := by
  simp [readMore, growIfFull_env]

theorem readMore_flag (e : Env) (b : Buf) :
    (readMore e b).2.1 = (e.read (growIfFull e b).1.spare).2.1 := by
  simp [readMore, growIfFull_env]

theorem readMore_conserve (e : Env) (b : Buf) :
    (readMore e b).1.data ++ (readMore e b).2.2.data = b.data ++ e.data := by
  rw [readMore_data, readMore_env, List.append_assoc, read_conserve]

theorem readMore_progress (e : Env) (b : Buf) (h : e.data.isEmpty = false) :
    b.data.length < (readMore e b).1.data.length := by
  rw [readMore_data, List.length_append]
  have := read_progress e _ (growIfFull_spare e b) h
  omega

theorem readMore_empty (e : Env) (b : Buf) (h : e.data.isEmpty = true) :
    (readMore e b).1.data = b.data ∧ (readMore e b).2.2.data = [] := by
  have he : e.data = [] := by simpa using h
  rw [readMore_data, readMore_env]
  simp [Env.read, h, he]

theorem readMore_eof_flag (e : Env) (b : Buf) (h : (readMore e b).2.1 = true) :
    (readMore e b).2.2.data = [] := by
  rw [readMore_flag] at h; rw [readMore_env]; exact read_eof_flag _ _ h

/-- `fill`: bytes only move from the reader to the buffer; on success `len(b) > i`; the only
failure is a clean exhaustion of the reader. -/
theorem fill_spec (e : Env) (b : Buf) (i : Nat) :
    (fill e b i).1.data ++ (fill e b i).2.2.data = b.data ++ e.data ∧
    ((fill e b i).2.1 = none → i < (fill e b i).1.data.length) ∧
    (∀ err, (fill e b i).2.1 = some err →
        err = .eof ∧ (fill e b i).2.2.data = [] ∧ (fill e b i).1.data.length ≤ i) := by
  fun_induction fill e b i with
  | case1 e b h => simp [h]
  | case2 e b h hem r =>
    have := readMore_empty e b hem
    have hc := readMore_conserve e b
    refine ⟨hc, by simp, ?_⟩
    intro err herr
    simp only [Option.some.injEq] at herr
    refine ⟨herr.symm, this.2, ?_⟩
    show (readMore e b).1.data.length ≤ i
    rw [this.1]; omega
  | case3 e b h hne r ih =>
    have hc := readMore_conserve e b
    refine ⟨by rw [ih.1]; exact hc, ih.2.1, ih.2.2⟩

theorem readFull_spec (e : Env) (b : Buf) (n : Nat) :
    (∀ err, (readFull e b n).2.1 = some err → b.data.length + e.data.length < n) ∧
    ((readFull e b n).2.1 = none →
      (readFull e b n).1.data ++ (readFull e b n).2.2.data = b.data ++ e.data ∧
      n ≤ (readFull e b n).1.data.length ∧
      (b.data.length ≤ n → (readFull e b n).1.data.length = n)) := by
  fun_induction readFull e b n with
  | case1 e b hn =>
    refine ⟨by simp, ?_⟩
    intro _
    refine ⟨rfl, hn, ?_⟩
    intro h
    show b.data.length = n
    omega
  | case2 e b hn hem =>
    have he : e.data = [] := by simpa using hem
    refine ⟨?_, by simp⟩
    intro err _; simp [he]; omega
  | case3 e b hn hne r ih =>
    have hc : r.1 ++ r.2.2.data = e.data := read_conserve e (n - b.data.length)
    have hl : r.1.length ≤ n - b.data.length := read_len_le e (n - b.data.length)
    simp only [List.length_append] at ih
    have hlen : e.data.length = r.1.length + r.2.2.data.length := by
      rw [← List.length_append, hc]
    constructor
    · intro err herr
      have := ih.1 err herr
      show b.data.length + e.data.length < n
      omega
    · intro hnone
      obtain ⟨h1, h2, h3⟩ := ih.2 hnone
      refine ⟨?_, h2, ?_⟩
      · rw [h1, List.append_assoc, hc]
      · intro _; apply h3
        omega

theorem readFull_err_kind' (e : Env) (b : Buf) (n : Nat) (x : RErr) (h : (readFull e b n).2.1 = some x) :
    x = .unexpectedEOF := by
  fun_induction readFull e b n with
  | case1 e b hn => simp at h
  | case2 e b hn hem => simp at h; exact h.symm
  | case3 e b hn hne r ih => exact ih h

end Larking
