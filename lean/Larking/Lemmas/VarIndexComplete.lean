import Larking.Lemmas.Routes
import Larking.Lemmas.Accept
/-
  `variable.index` is complete for the greedy reading of a sub-pattern: `GMatch pat cap rest`
  says declaratively which request tokens `cap` a variable's pattern covers in front of `rest`
  (`*` = the maximal run of non-separator tokens, `**` = everything up to the verb), and
  `varIndex` finds exactly `cap`.  `EdgeInst` is `EdgeMatch` with that reading in place of the
  executable `varIndex`.
-/
namespace Larking.Trie
open Larking.Lexer

inductive GMatch : List Tok → List Tok → List Tok → Prop
  | nil (rest : List Tok) : GMatch [] [] rest
  | slash (p t : Tok) (ps cap rest : List Tok) : p.typ = .slash → t.typ = .slash →
      GMatch ps cap rest → GMatch (p :: ps) (t :: cap) rest
  | literal (p t : Tok) (ps cap rest : List Tok) : p.typ = .literal → t.typ = .path → p.val = t.val →
      GMatch ps cap rest → GMatch (p :: ps) (t :: cap) rest
  | star (p : Tok) (ps run cap rest : List Tok) : p.typ = .star → run ++ (cap ++ rest) ≠ [] →
      (∀ x ∈ run, isSep x = false) → (∀ y ys, cap ++ rest = y :: ys → isSep y = true) →
      GMatch ps cap rest → GMatch (p :: ps) (run ++ cap) rest
  | starstar (p : Tok) (ps run cap rest : List Tok) : p.typ = .starstar → run ++ (cap ++ rest) ≠ [] →
      (∀ x ∈ run, x.typ ≠ .verb) → (∀ y ys, cap ++ rest = y :: ys → y.typ = .verb) →
      GMatch ps cap rest → GMatch (p :: ps) (run ++ cap) rest

theorem takeWhile_append_stop {α} (f : α → Bool) : ∀ (run tail : List α), (∀ x ∈ run, f x = true) →
    (∀ y ys, tail = y :: ys → f y = false) → (run ++ tail).takeWhile f = run
  | [], tail, _, ht => by
    cases tail with
    | nil => rfl
    | cons y ys => simp [List.takeWhile, ht y ys rfl]
  | a :: run, tail, hr, ht => by
    simp only [List.cons_append, List.takeWhile, hr a (by simp)]
    rw [takeWhile_append_stop f run tail (fun x hx => hr x (by simp [hx])) ht]

/-- **`variable.index` finds every greedy instance of the pattern.** -/
theorem varIndex_complete (pat cap rest : List Tok) (h : GMatch pat cap rest) :
    ∀ i, varIndex pat (cap ++ rest) i = .ok (some (i + cap.length)) := by
  induction h with
  | nil rest => intro i; simp [varIndex]
  | slash p t ps cap rest hp ht _ ih =>
    intro i
    simp only [List.cons_append, varIndex, hp, ht, bne_self_eq_false, Bool.false_eq_true, if_false]
    rw [ih (i + 1)]; simp; omega
  | literal p t ps cap rest hp ht hv _ ih =>
    intro i
    simp only [List.cons_append, varIndex, hp, ht, hv, bne_self_eq_false, Bool.or_self, Bool.false_eq_true, if_false]
    rw [ih (i + 1)]; simp; omega
  | star p ps run cap rest hp hne hrun hstop _ ih =>
    intro i
    have htw : (run ++ (cap ++ rest)).takeWhile (fun x => !isSep x) = run :=
      takeWhile_append_stop _ run (cap ++ rest) (fun x hx => by simp [hrun x hx])
        (fun y ys hy => by simp [hstop y ys hy])
    rw [List.append_assoc]
    cases hrem : run ++ (cap ++ rest) with
    | nil => exact absurd hrem hne
    | cons t ts =>
      simp only [varIndex, hp]
      rw [← hrem, htw, List.drop_left, ih (i + run.length)]
      simp; omega
  | starstar p ps run cap rest hp hne hrun hstop _ ih =>
    intro i
    have htw : (run ++ (cap ++ rest)).takeWhile (fun x => x.typ != .verb) = run :=
      takeWhile_append_stop _ run (cap ++ rest) (fun x hx => by simpa using hrun x hx)
        (fun y ys hy => by simp [hstop y ys hy])
    rw [List.append_assoc]
    cases hrem : run ++ (cap ++ rest) with
    | nil => exact absurd hrem hne
    | cons t ts =>
      simp only [varIndex, hp]
      rw [← hrem, htw, List.drop_left, ih (i + run.length)]
      simp; omega

/-- **the capture of a variable is unique**: a request has at most one greedy instance of a
sub-pattern in front of it — what a variable captures is determined by the request alone. -/
theorem greedy_instance_unique (pat cap1 rest1 cap2 rest2 : List Tok)
    (h1 : GMatch pat cap1 rest1) (h2 : GMatch pat cap2 rest2) (he : cap1 ++ rest1 = cap2 ++ rest2) :
    cap1 = cap2 ∧ rest1 = rest2 := by
  have e1 := varIndex_complete pat cap1 rest1 h1 0
  have e2 := varIndex_complete pat cap2 rest2 h2 0
  rw [he, e2] at e1
  have hl : cap1.length = cap2.length := by
    injection e1 with e1; injection e1 with e1; omega
  have := List.append_inj he hl
  exact this

/-- the request tokens instantiate the binding's edges — declaratively. -/
inductive EdgeInst : List Edge → List Tok → Prop
  | nil (toks : List Tok) : toks.length ≤ 1 → EdgeInst [] toks
  | seg (t0 t1 : Tok) (rest : List Tok) (es : List Edge) :
      EdgeInst es rest → EdgeInst (.seg (t0.val ++ t1.val) :: es) (t0 :: t1 :: rest)
  | var (v : Var) (t0 : Tok) (cap rest : List Tok) (es : List Edge) :
      t0.typ = .slash → cap ≠ [] → GMatch v.toks cap rest → EdgeInst es rest →
      EdgeInst (.var v :: es) (t0 :: (cap ++ rest))

theorem edgeInst_edgeMatch : ∀ (es : List Edge) (toks : List Tok), EdgeInst es toks → EdgeMatch es toks := by
  intro es toks h
  induction h with
  | nil toks hlen => exact .nil toks hlen
  | seg t0 t1 rest es _ ih => exact .seg t0 t1 rest es ih
  | var v t0 cap rest es ht0 hcap hg _ ih =>
    have hidx := varIndex_complete v.toks cap rest hg 0
    refine .var v t0 (cap ++ rest) cap.length es ht0 ?_ (by simpa using hidx) (by simpa using ih)
    cases cap with
    | nil => exact absurd rfl hcap
    | cons a as => simp

/-- the edges `addRule` walks for a binding whose template is of the documented grammar are the
grammar's own reading of the template (`Tmpl.edges`). -/
theorem bindingEdges_of_grammar (cap : Nat) (resolve : List Bytes → Option Nat) (b : Binding) (t : Tmpl)
    (ht : t.Wf) (hb : b.tmpl = t.render) (hcap : t.toks.length ≤ cap) (hres : t.Resolves resolve) :
    bindingEdges cap resolve b = some t.edges := by
  have hlen : t.more.length + 2 ≤ t.toks.length + 1 := by
    have : (toksSegs t.first t.more).length ≥ t.more.length := by
      induction t.more with
      | nil => simp
      | cons p more ih => simp [toksSegs] at ih ⊢; omega
    simp [Tmpl.toks]; omega
  simp only [bindingEdges, hb, lexTemplate_complete cap t ht hcap, parseToks_tmpl resolve t hres _ hlen]

end Larking.Trie
