import Larking.Model.Cow
namespace Larking.Cow
open Larking.Registry (put)

/-- a header is well formed in a heap: within its capacity, and (unless it is a nil / zero
capacity slice) on an allocated array of exactly that capacity, allocated by method `m`'s lineage. -/
def WFS (h : Heap) (m : Nat) (s : Slice) : Prop :=
  s.len ≤ s.cap ∧ (0 < s.cap → s.arr < h.next ∧ (h.arrs s.arr).length = s.cap ∧ h.owner s.arr = m)

theorem view_nil_of_cap0 (h : Heap) (s : Slice) (hl : s.len ≤ s.cap) (hc : s.cap = 0) : view h s = [] := by
  have : s.len = 0 := by omega
  simp [view, this]

theorem put_same {α : Type} (f : Nat → α) (k : Nat) (v : α) : put f k v k = v := by simp [put]
theorem put_other {α : Type} (f : Nat → α) (k k' : Nat) (v : α) (h : k' ≠ k) : put f k v k' = f k' := by
  simp [put, h]

/-- heaps only grow: a well-formed header stays well formed across an append. -/
theorem append_mono (grow : Nat → Nat) (m : Nat) (h : Heap) (s : Slice) (x : Nat) (mt : Nat) (t : Slice)
    (ht : WFS h mt t) : WFS (append grow m h s x).1 mt t ∧ h.next ≤ (append grow m h s x).1.next := by
  unfold append
  split
  · refine ⟨⟨ht.1, fun hc => ?_⟩, Nat.le_refl _⟩
    obtain ⟨h1, h2, h3⟩ := ht.2 hc
    refine ⟨h1, ?_, h3⟩
    by_cases he : t.arr = s.arr
    · simp only [he, put_same, List.length_set]; rw [← he]; exact h2
    · show (put h.arrs s.arr ((h.arrs s.arr).set s.len x) t.arr).length = t.cap
      rw [put_other _ _ _ _ he]; exact h2
  · refine ⟨⟨ht.1, fun hc => ?_⟩, Nat.le_succ _⟩
    obtain ⟨h1, h2, h3⟩ := ht.2 hc
    have hne : t.arr ≠ h.next := by omega
    exact ⟨Nat.lt_succ_of_lt h1, by simp only; rw [put_other _ _ _ _ hne]; exact h2,
      by simp only; rw [put_other _ _ _ _ hne]; exact h3⟩

/-- **frame**: an append through `s` leaves the view of every other well-formed header `t`
alone, provided that — when it writes in place — `t` on the same array is not longer than `s`. -/
theorem append_frame (grow : Nat → Nat) (m : Nat) (h : Heap) (s : Slice) (x : Nat) (mt : Nat) (t : Slice)
    (ht : WFS h mt t) (hsep : s.len < s.cap → 0 < t.cap → t.arr = s.arr → t.len ≤ s.len) :
    view (append grow m h s x).1 t = view h t := by
  by_cases hc : t.cap = 0
  · rw [view_nil_of_cap0 _ t ht.1 hc, view_nil_of_cap0 _ t ht.1 hc]
  · have hc' : 0 < t.cap := Nat.pos_of_ne_zero hc
    obtain ⟨h1, _, _⟩ := ht.2 hc'
    unfold append
    split
    · rename_i hlt
      simp only [view]
      by_cases he : t.arr = s.arr
      · rw [he, put_same, List.take_set_of_le (hsep hlt hc' he)]
      · rw [put_other _ _ _ _ he]
    · have hne : t.arr ≠ h.next := by omega
      simp only [view]
      rw [put_other _ _ _ _ hne]

/-- what the appended slice shows, and that it is well formed. -/
theorem append_self (grow : Nat → Nat) (m : Nat) (h : Heap) (s : Slice) (x : Nat) (hs : WFS h m s) :
    view (append grow m h s x).1 (append grow m h s x).2 = view h s ++ [x] ∧
    WFS (append grow m h s x).1 m (append grow m h s x).2 ∧
    (append grow m h s x).2.len = s.len + 1 ∧
    ((s.len < s.cap ∧ (append grow m h s x).2.arr = s.arr) ∨
     (¬ s.len < s.cap ∧ (append grow m h s x).2.arr = h.next)) := by
  unfold append
  split
  · rename_i hlt
    have hc : 0 < s.cap := by omega
    obtain ⟨h1, h2, h3⟩ := hs.2 hc
    refine ⟨?_, ⟨by simp only; omega, fun _ => ⟨h1, by simp only [put_same, List.length_set]; exact h2, h3⟩⟩,
      rfl, Or.inl ⟨hlt, rfl⟩⟩
    simp only [view, put_same]
    have hlen : s.len < (h.arrs s.arr).length := by omega
    rw [List.take_add_one, List.take_set_of_le (Nat.le_refl _)]
    simp [hlen]
  · rename_i hge
    have hv : (view h s).length = s.len := by
      by_cases hc : s.cap = 0
      · have : s.len = 0 := by have := hs.1; omega
        simp [view, this]
      · obtain ⟨_, h2, _⟩ := hs.2 (Nat.pos_of_ne_zero hc)
        simp only [view, List.length_take]
        have := hs.1; omega
    refine ⟨?_, ⟨by simp only; omega, fun _ => ⟨by simp only; omega, ?_, by simp only [put_same]⟩⟩,
      rfl, Or.inr ⟨hge, rfl⟩⟩
    · have : view h s ++ x :: List.replicate (max (grow s.cap) (s.len + 1) - (s.len + 1)) 0
          = (view h s ++ [x]) ++ List.replicate (max (grow s.cap) (s.len + 1) - (s.len + 1)) 0 := by simp
      show List.take (s.len + 1) (put h.arrs h.next
        (view h s ++ x :: List.replicate (max (grow s.cap) (s.len + 1) - (s.len + 1)) 0) h.next) = view h s ++ [x]
      rw [put_same, this, List.take_left' (by simp [hv])]
    · simp only [put_same, List.length_append, List.length_cons, List.length_replicate, hv]
      omega

/-! ### building a fresh slice -/

/-- `s` lives on arrays allocated at or after `b` (or is a nil slice). -/
def PrivateFrom (b : Nat) (s : Slice) : Prop := 0 < s.cap → b ≤ s.arr

theorem build_spec (grow : Nat → Nat) (m : Nat) (b : Nat) : ∀ (xs : List Nat) (h : Heap) (s : Slice),
    WFS h m s → PrivateFrom b s → b ≤ h.next →
    WFS (build grow m h s xs).1 m (build grow m h s xs).2 ∧
    PrivateFrom b (build grow m h s xs).2 ∧ h.next ≤ (build grow m h s xs).1.next ∧
    view (build grow m h s xs).1 (build grow m h s xs).2 = view h s ++ xs ∧
    (build grow m h s xs).2.len = s.len + xs.length ∧
    (∀ mt t, WFS h mt t → (0 < t.cap → t.arr < b) →
      WFS (build grow m h s xs).1 mt t ∧ view (build grow m h s xs).1 t = view h t) := by
  intro xs
  induction xs with
  | nil =>
    intro h s hs hp hb
    exact ⟨hs, hp, Nat.le_refl _, by simp [build], by simp [build], fun mt t ht _ => ⟨ht, rfl⟩⟩
  | cons x rest ih =>
    intro h s hs hp hb
    obtain ⟨hv1, hw1, hl1, harr⟩ := append_self grow m h s x hs
    have hnext := (append_mono grow m h s x m s hs).2
    have hp1 : PrivateFrom b (append grow m h s x).2 := by
      intro _
      rcases harr with ⟨hlt, he⟩ | ⟨_, he⟩
      · rw [he]; exact hp (by omega)
      · rw [he]; exact hb
    obtain ⟨a1, a2, a3, a4, a5, a6⟩ := ih (append grow m h s x).1 (append grow m h s x).2 hw1 hp1 (by omega)
    simp only [build]
    refine ⟨a1, a2, by omega, by rw [a4, hv1]; simp, by rw [a5, hl1]; simp; omega, ?_⟩
    intro mt t ht hbelow
    have hw := (append_mono grow m h s x mt t ht).1
    have hf : view (append grow m h s x).1 t = view h t := by
      apply append_frame grow m h s x mt t ht
      intro hlt hc he
      have := hp (by omega); have := hbelow hc; omega
    obtain ⟨b1, b2⟩ := a6 mt t hw hbelow
    exact ⟨b1, by rw [b2, hf]⟩

/-! ### one writer call -/

/-- the writer's invariant while it works on its clone `W` of the latest published map. -/
structure WInv (h : Heap) (W : HMap) (pubs : List HMap) : Prop where
  wfW : ∀ m, WFS h m (W m)
  wfP : ∀ P ∈ pubs, ∀ m, WFS h m (P m)
  mono : ∀ P ∈ pubs, ∀ m, 0 < (P m).cap → 0 < (W m).cap → (P m).arr = (W m).arr → (P m).len ≤ (W m).len

theorem wfs_nil (h : Heap) (m : Nat) : WFS h m nilSlice := ⟨Nat.le_refl _, fun hc => absurd hc (by decide)⟩

theorem micro_spec (grow : Nat → Nat) (h : Heap) (W : HMap) (pubs : List HMap) (μ : Micro)
    (hi : WInv h W pubs) :
    WInv (micro grow h W μ).1 (micro grow h W μ).2 pubs ∧
    (∀ P ∈ pubs, ∀ m, view (micro grow h W μ).1 (P m) = view h (P m)) ∧
    (∀ m, view (micro grow h W μ).1 ((micro grow h W μ).2 m) =
      match μ with
      | .app m' x => if m = m' then view h (W m) ++ [x] else view h (W m)
      | .rem m' x => if m = m' then (view h (W m)).filter (fun y => y ≠ x) else view h (W m)) := by
  cases μ with
  | app m' x =>
    simp only [micro]
    obtain ⟨hv1, hw1, hl1, harr⟩ := append_self grow m' h (W m') x (hi.wfW m')
    -- every published header and every other working header keeps its view
    have hframeP : ∀ P ∈ pubs, ∀ m, view (append grow m' h (W m') x).1 (P m) = view h (P m) := by
      intro P hP m
      apply append_frame grow m' h (W m') x m (P m) (hi.wfP P hP m)
      intro hlt hc he
      have hcw : 0 < (W m').cap := by omega
      have ho1 := ((hi.wfP P hP m).2 hc).2.2
      have ho2 := ((hi.wfW m').2 hcw).2.2
      have : m = m' := by rw [← ho1, ← ho2, he]
      subst this
      exact hi.mono P hP m hc hcw he
    have hframeW : ∀ m, m ≠ m' → view (append grow m' h (W m') x).1 (W m) = view h (W m) := by
      intro m hne
      apply append_frame grow m' h (W m') x m (W m) (hi.wfW m)
      intro hlt hc he
      have hcw : 0 < (W m').cap := by omega
      have ho1 := ((hi.wfW m).2 hc).2.2
      have ho2 := ((hi.wfW m').2 hcw).2.2
      exact absurd (by rw [← ho1, ← ho2, he]) hne
    refine ⟨⟨?_, ?_, ?_⟩, hframeP, ?_⟩
    · intro m
      by_cases hm : m = m'
      · subst hm; rw [put_same]; exact hw1
      · rw [put_other _ _ _ _ hm]; exact (append_mono grow m' h (W m') x m (W m) (hi.wfW m)).1
    · intro P hP m; exact (append_mono grow m' h (W m') x m (P m) (hi.wfP P hP m)).1
    · intro P hP m hc hcw he
      by_cases hm : m = m'
      · subst hm
        rw [put_same] at hcw he ⊢
        rcases harr with ⟨hlt, ha⟩ | ⟨_, ha⟩
        · rw [ha] at he
          have := hi.mono P hP m hc (by omega) he
          rw [hl1]; omega
        · rw [ha] at he
          have := ((hi.wfP P hP m).2 hc).1
          omega
      · rw [put_other _ _ _ _ hm] at hcw he ⊢
        exact hi.mono P hP m hc hcw he
    · intro m
      by_cases hm : m = m'
      · subst hm; simp only [put_same, if_true]; exact hv1
      · simp only [put_other _ _ _ _ hm, hm, if_false]; exact hframeW m hm
  | rem m' x =>
    simp only [micro]
    obtain ⟨b1, b2, b3, b4, b5, b6⟩ := build_spec grow m' h.next
      ((view h (W m')).filter (fun y => y ≠ x)) h nilSlice (wfs_nil h m') (fun hc => absurd hc (by decide)) (Nat.le_refl _)
    have hbelowP : ∀ P ∈ pubs, ∀ m, 0 < (P m).cap → (P m).arr < h.next :=
      fun P hP m hc => ((hi.wfP P hP m).2 hc).1
    have hbelowW : ∀ m, 0 < (W m).cap → (W m).arr < h.next := fun m hc => ((hi.wfW m).2 hc).1
    refine ⟨⟨?_, ?_, ?_⟩, fun P hP m => (b6 m (P m) (hi.wfP P hP m) (hbelowP P hP m)).2, ?_⟩
    · intro m
      by_cases hm : m = m'
      · subst hm; rw [put_same]
        split
        · exact wfs_nil _ _
        · exact b1
      · rw [put_other _ _ _ _ hm]; exact (b6 m (W m) (hi.wfW m) (hbelowW m)).1
    · intro P hP m; exact (b6 m (P m) (hi.wfP P hP m) (hbelowP P hP m)).1
    · intro P hP m hc hcw he
      by_cases hm : m = m'
      · subst hm
        rw [put_same] at hcw he
        split at hcw
        · exact absurd hcw (by decide)
        · rename_i hne
          simp only [hne, if_false] at he
          have := b2 hcw
          have := hbelowP P hP m hc
          omega
      · rw [put_other _ _ _ _ hm] at hcw he ⊢
        exact hi.mono P hP m hc hcw he
    · intro m
      by_cases hm : m = m'
      · subst hm
        simp only [put_same, if_true]
        split
        · rename_i h0
          rw [view_nil_of_cap0 _ nilSlice (Nat.le_refl _) rfl]
          have : ((view h (W m)).filter (fun y => y ≠ x)).length = 0 := by
            have := b5; simp [nilSlice] at this; omega
          exact (List.eq_nil_of_length_eq_zero this).symm
        · rw [b4, view_nil_of_cap0 _ nilSlice (Nat.le_refl _) rfl]; simp
      · simp only [put_other _ _ _ _ hm, hm, if_false]
        exact (b6 m (W m) (hi.wfW m) (hbelowW m)).2

theorem micros_spec (grow : Nat → Nat) (pubs : List HMap) : ∀ (μs : List Micro) (h : Heap) (W : HMap),
    WInv h W pubs →
    WInv (micros grow h W μs).1 (micros grow h W μs).2 pubs ∧
    (∀ P ∈ pubs, ∀ m, view (micros grow h W μs).1 (P m) = view h (P m)) := by
  intro μs
  induction μs with
  | nil => intro h W hi; exact ⟨hi, fun _ _ _ => rfl⟩
  | cons μ rest ih =>
    intro h W hi
    obtain ⟨h1, h2, _⟩ := micro_spec grow h W pubs μ hi
    obtain ⟨h3, h4⟩ := ih _ _ h1
    simp only [micros]
    exact ⟨h3, fun P hP m => by rw [h4 P hP m, h2 P hP m]⟩

/-- between calls. -/
structure Inv (s : Sys) : Prop where
  wfP : ∀ P ∈ s.pubs, ∀ m, WFS s.heap m (P m)
  mono : ∀ P ∈ s.pubs, ∀ m, 0 < (P m).cap → 0 < (latest s m).cap → (P m).arr = (latest s m).arr →
    (P m).len ≤ (latest s m).len

theorem inv_init : Inv Sys.init := by constructor <;> simp [Sys.init]

theorem call_spec (grow : Nat → Nat) (s : Sys) (c : List Micro × Bool) (hi : Inv s) :
    Inv (call grow s c) ∧ ∀ P ∈ s.pubs, ∀ m, view (call grow s c).heap (P m) = view s.heap (P m) := by
  have hw : WInv s.heap (latest s) s.pubs := by
    refine ⟨?_, hi.wfP, hi.mono⟩
    intro m
    unfold latest
    cases hp : s.pubs with
    | nil => exact wfs_nil _ _
    | cons L rest => simp only [List.headD_cons]; exact hi.wfP L (by simp [hp]) m
  obtain ⟨h1, h2⟩ := micros_spec grow s.pubs c.1 s.heap (latest s) hw
  refine ⟨?_, h2⟩
  unfold call
  cases hc : c.2 with
  | false =>
    simp only [Bool.false_eq_true, if_false]
    exact ⟨h1.wfP, hi.mono⟩
  | true =>
    simp only [if_true]
    constructor
    · intro P hP m
      simp only [List.mem_cons] at hP
      rcases hP with hP | hP
      · subst hP; exact h1.wfW m
      · exact h1.wfP P hP m
    · intro P hP m hcP hcL he
      simp only [latest, List.headD_cons] at hcL he ⊢
      simp only [List.mem_cons] at hP
      rcases hP with hP | hP
      · subst hP; exact Nat.le_refl _
      · exact h1.mono P hP m hcP hcL he

theorem calls_spec (grow : Nat → Nat) : ∀ (cs : List (List Micro × Bool)) (s : Sys), Inv s →
    Inv (calls grow s cs) ∧ ∀ P ∈ s.pubs, ∀ m, view (calls grow s cs).heap (P m) = view s.heap (P m) := by
  intro cs
  induction cs with
  | nil => intro s hi; exact ⟨hi, fun _ _ _ => rfl⟩
  | cons c rest ih =>
    intro s hi
    obtain ⟨h1, h2⟩ := call_spec grow s c hi
    obtain ⟨h3, h4⟩ := ih (call grow s c) h1
    simp only [calls, List.foldl_cons] at h3 h4 ⊢
    refine ⟨h3, fun P hP m => ?_⟩
    have hP' : P ∈ (call grow s c).pubs := by
      unfold call; simp only; split
      · exact List.mem_cons_of_mem _ hP
      · exact hP
    rw [h4 P hP' m, h2 P hP m]

end Larking.Cow
