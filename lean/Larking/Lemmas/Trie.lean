import Larking.Model.Trie
namespace Larking.Trie
open Larking.Lexer

/-! ### variable.index -/

/-- declarative meaning of a variable's sub-pattern over the request tokens it consumes. -/
inductive PatMatch : List Tok → List Tok → Prop
  | nil : PatMatch [] []
  | slash (p t : Tok) (ps ts : List Tok) : p.typ = .slash → t.typ = .slash → PatMatch ps ts →
      PatMatch (p :: ps) (t :: ts)
  | literal (p t : Tok) (ps ts : List Tok) : p.typ = .literal → t.typ = .path → p.val = t.val →
      PatMatch ps ts → PatMatch (p :: ps) (t :: ts)
  | star (p : Tok) (ps run ts : List Tok) : p.typ = .star → (∀ x ∈ run, isSep x = false) →
      PatMatch ps ts → PatMatch (p :: ps) (run ++ ts)
  | starstar (p : Tok) (ps run ts : List Tok) : p.typ = .starstar → (∀ x ∈ run, x.typ ≠ .verb) →
      PatMatch ps ts → PatMatch (p :: ps) (run ++ ts)

theorem takeWhile_append_drop {α} (p : α → Bool) (l : List α) :
    l.takeWhile p ++ l.drop (l.takeWhile p).length = l := by
  induction l with
  | nil => rfl
  | cons a l ih =>
    simp only [List.takeWhile]
    split
    · simp [ih]
    · simp

theorem length_takeWhile_le' {α} (p : α → Bool) (l : List α) : (l.takeWhile p).length ≤ l.length := by
  induction l with
  | nil => simp
  | cons a l ih => simp only [List.takeWhile]; split <;> simp <;> omega

theorem mem_takeWhile_imp' {α} {p : α → Bool} {l : List α} {x : α} (h : x ∈ l.takeWhile p) : p x = true := by
  induction l with
  | nil => simp at h
  | cons a l ih =>
    simp only [List.takeWhile] at h
    split at h
    · rename_i hp
      rcases List.mem_cons.mp h with h | h
      · subst h; exact hp
      · exact ih h
    · simp at h

theorem take_add_append' {α} (A B : List α) (j r : Nat) (hj : A.length = j) :
    (A ++ B).take (j + r) = A ++ B.take r := by
  subst hj; exact List.take_length_add_append r

/-- whatever `variable.index` returns is the length of a prefix of the remaining tokens that
the sub-pattern matches. -/
theorem varIndex_sound : ∀ (pat rem : List Tok) (i k : Nat),
    varIndex pat rem i = .ok (some k) →
    ∃ consumed, consumed = rem.take (k - i) ∧ i ≤ k ∧ k - i ≤ rem.length ∧ PatMatch pat consumed := by
  intro pat
  induction pat with
  | nil =>
    intro rem i k h
    simp only [varIndex, Outcome.ok.injEq, Option.some.injEq] at h
    subst h
    exact ⟨[], by simp, by omega, by simp, .nil⟩
  | cons p ps ih =>
    intro rem i k h
    cases rem with
    | nil => simp [varIndex] at h
    | cons t ts =>
      unfold varIndex at h
      simp only at h
      split at h
      · -- slash
        rename_i hp
        split at h
        · simp at h
        · rename_i ht
          obtain ⟨c, hc, hik, hlen, hm⟩ := ih ts (i + 1) k h
          have ht' : t.typ = .slash := by simpa using ht
          refine ⟨t :: c, ?_, by omega, by simp; omega, .slash p t ps c hp ht' hm⟩
          have : k - i = (k - (i + 1)) + 1 := by omega
          rw [this, List.take_succ_cons, hc]
      · -- star
        rename_i hp
        try simp only at h
        generalize hj : ((t :: ts).takeWhile fun x => !isSep x).length = j at h
        obtain ⟨c, hc, hik, hlen, hm⟩ := ih _ _ k h
        have hsplit := takeWhile_append_drop (fun x => !isSep x) (t :: ts)
        rw [hj] at hsplit
        have hjl : j ≤ (t :: ts).length := by rw [← hj]; exact length_takeWhile_le' _ _
        have hlen' : k - (i + j) ≤ (t :: ts).length - j := by simpa using hlen
        refine ⟨(t :: ts).takeWhile (fun x => !isSep x) ++ c, ?_, by omega, by omega,
          .star p ps _ c hp ?_ hm⟩
        · rw [hc]
          have : k - i = j + (k - (i + j)) := by omega
          rw [this]
          conv => rhs; rw [← hsplit]
          rw [take_add_append' _ _ j _ hj]
        · intro x hx
          have := mem_takeWhile_imp' hx
          simpa using this
      · -- starstar
        rename_i hp
        try simp only at h
        generalize hj : ((t :: ts).takeWhile fun x => x.typ != .verb).length = j at h
        obtain ⟨c, hc, hik, hlen, hm⟩ := ih _ _ k h
        have hsplit := takeWhile_append_drop (fun x => x.typ != .verb) (t :: ts)
        rw [hj] at hsplit
        have hjl : j ≤ (t :: ts).length := by rw [← hj]; exact length_takeWhile_le' _ _
        have hlen' : k - (i + j) ≤ (t :: ts).length - j := by simpa using hlen
        refine ⟨(t :: ts).takeWhile (fun x => x.typ != .verb) ++ c, ?_, by omega, by omega,
          .starstar p ps _ c hp ?_ hm⟩
        · rw [hc]
          have : k - i = j + (k - (i + j)) := by omega
          rw [this]
          conv => rhs; rw [← hsplit]
          rw [take_add_append' _ _ j _ hj]
        · intro x hx
          have := mem_takeWhile_imp' hx
          simpa using this
      · -- literal
        rename_i hp
        split at h
        · simp at h
        · rename_i ht
          simp only [Bool.or_eq_true, not_or, Bool.not_eq_true, bne_eq_false_iff_eq] at ht
          obtain ⟨c, hc, hik, hlen, hm⟩ := ih ts (i + 1) k h
          have ht1 : t.typ = .path := by simpa using ht.1
          refine ⟨t :: c, ?_, by omega, by simp; omega, .literal p t ps c hp ht1 ht.2 hm⟩
          have : k - i = (k - (i + 1)) + 1 := by omega
          rw [this, List.take_succ_cons, hc]
      · simp at h

/-- with well-formed patterns (what `addRule` stores) `variable.index` never panics. -/
theorem varIndex_no_panic : ∀ (pat rem : List Tok) (i : Nat), (∀ t ∈ pat, okPatTok t = true) →
    ∀ s, varIndex pat rem i ≠ .panic s := by
  intro pat
  induction pat with
  | nil => intro rem i _ s; simp [varIndex]
  | cons p ps ih =>
    intro rem i hok s
    have hp := hok p (by simp)
    have hps : ∀ t ∈ ps, okPatTok t = true := fun t ht => hok t (by simp [ht])
    cases rem with
    | nil => simp [varIndex]
    | cons t ts =>
      unfold varIndex
      simp only
      split
      · split
        · simp
        · exact ih _ _ hps s
      · exact ih _ _ hps s
      · exact ih _ _ hps s
      · split
        · simp
        · exact ih _ _ hps s
      · rename_i h1 h2 h3 h4
        simp only [okPatTok, Bool.or_eq_true, beq_iff_eq] at hp
        rcases hp with ((h | h) | h) | h
        · exact absurd h h1
        · exact absurd h h2
        · exact absurd h h3
        · exact absurd h h4

theorem varIndex_no_err (pat rem : List Tok) (i : Nat) (k : String) : varIndex pat rem i ≠ .err k := by
  induction pat generalizing rem i with
  | nil => simp [varIndex]
  | cons p ps ih =>
    cases rem with
    | nil => simp [varIndex]
    | cons t ts =>
      unfold varIndex
      simp only
      split
      · split
        · simp
        · exact ih _ _
      · exact ih _ _
      · exact ih _ _
      · split
        · simp
        · exact ih _ _
      · simp

end Larking.Trie
