import Larking.Model.Timeout
import Larking.Spec.Grpc
namespace Larking.Timeout

theorem foldl_digits_bound (ds : Bytes) (acc : Nat) (h : ds.all isDigit = true) :
    ds.foldl (fun acc c => acc * 10 + (c.toNat - 48)) acc < (acc + 1) * 10 ^ ds.length := by
  induction ds generalizing acc with
  | nil => simp
  | cons c rest ih =>
    simp only [List.all_cons, Bool.and_eq_true] at h
    have hc : c.toNat - 48 ≤ 9 := by
      have := h.1; simp [isDigit] at this; omega
    have := ih (acc * 10 + (c.toNat - 48)) h.2
    simp only [List.foldl_cons, List.length_cons]
    calc _ < (acc * 10 + (c.toNat - 48) + 1) * 10 ^ rest.length := this
      _ ≤ ((acc + 1) * 10) * 10 ^ rest.length := Nat.mul_le_mul_right _ (by omega)
      _ = (acc + 1) * 10 ^ (rest.length + 1) := by rw [Nat.pow_succ]; ac_rfl

theorem digitsVal_lt (ds : Bytes) (h : ds.all isDigit = true) : digitsVal ds < 10 ^ ds.length := by
  have := foldl_digits_bound ds 0 h
  simpa [digitsVal] using this

theorem digitsVal_lt8 (ds : Bytes) (h : ds.all isDigit = true) (hl : ds.length ≤ 8) :
    digitsVal ds < 100000000 := by
  have h1 := digitsVal_lt ds h
  have h2 : 10 ^ ds.length ≤ 10 ^ 8 := Nat.pow_le_pow_right (by omega) hl
  omega

theorem parseNum_digits (ds : Bytes) (hne : ds ≠ []) (h : ds.all isDigit = true) :
    parseNum false ds = some (digitsVal ds : Int) := by
  cases ds with
  | nil => exact absurd rfl hne
  | cons c rest => simp [parseNum, h]

theorem parseNum_some (s : Bytes) (v : Int) (h : parseNum false s = some v) :
    s ≠ [] ∧ s.all isDigit = true ∧ v = (digitsVal s : Int) := by
  cases s with
  | nil => simp [parseNum] at h
  | cons c rest =>
    simp only [parseNum, Bool.false_and, Bool.false_eq_true, if_false] at h
    split at h
    · rename_i hd; simp at h; exact ⟨by simp, hd, h.symm⟩
    · simp at h

theorem wrap64_id (x : Int) (h1 : minInt64 ≤ x) (h2 : x ≤ maxInt64) : wrap64 x = x := by
  unfold wrap64 minInt64 maxInt64 at *; omega

theorem unit_cases : ∀ u : UInt8, Spec.unitNs u ≠ 0 →
    Spec.unitNs u = 3600000000000 ∨ Spec.unitNs u = 60000000000 ∨ Spec.unitNs u = 1000000000 ∨
    Spec.unitNs u = 1000000 ∨ Spec.unitNs u = 1000 ∨ Spec.unitNs u = 1 := by
  apply u8_forall
  set_option maxRecDepth 8192 in decide

theorem min_clamp (x : Int) (h : maxInt64 < x) : min x maxInt64 = maxInt64 := by
  unfold maxInt64 at *; omega
theorem min_noclamp (x : Int) (h : x ≤ maxInt64) : min x maxInt64 = x := by
  unfold maxInt64 at *; omega

theorem tail_small (d : Int) (t : Nat) (hne : (d == hourNs) = false) (h0 : 0 ≤ d * (t : Int))
    (hmax : d * (t : Int) ≤ maxInt64) (b : Bool) :
    (if (d == hourNs && b) = true then Outcome.ok maxInt64
      else Outcome.ok (wrap64 (d * (t : Int)))) = Outcome.ok (min ((t : Int) * d) maxInt64) := by
  rw [hne]; simp only [Bool.false_and, Bool.false_eq_true, if_false]
  have hw : wrap64 (d * (t : Int)) = d * (t : Int) :=
    wrap64_id _ (by unfold minInt64; omega) hmax
  rw [hw, Int.mul_comm (t : Int) d, min_noclamp _ hmax]

/-- the arithmetic tail of `decodeTimeout` for a digit value `t < 10^8` and a spec unit `d`. -/
theorem tail_value (d : Int) (t : Nat) (ht : t < 100000000)
    (hd : d = 3600000000000 ∨ d = 60000000000 ∨ d = 1000000000 ∨ d = 1000000 ∨ d = 1000 ∨ d = 1) :
    (if (d == hourNs && decide ((t : Int) > maxInt64 / hourNs)) = true then Outcome.ok maxInt64
      else Outcome.ok (wrap64 (d * (t : Int)))) = Outcome.ok (min ((t : Int) * d) maxInt64) := by
  have hdiv : maxInt64 / hourNs = 2562047 := by decide
  rw [hdiv]
  rcases hd with h | h | h | h | h | h <;> subst h
  · by_cases hb : (t : Int) > 2562047
    · have : ((3600000000000 : Int) == hourNs && decide ((t : Int) > 2562047)) = true := by
        simp [hourNs, hb]
      rw [if_pos this, min_clamp]
      unfold maxInt64; omega
    · have : ((3600000000000 : Int) == hourNs && decide ((t : Int) > 2562047)) = false := by
        simp [hourNs, hb]
      rw [this]; simp only [Bool.false_eq_true, if_false]
      have hmax : (3600000000000 : Int) * (t : Int) ≤ maxInt64 := by unfold maxInt64; omega
      have hw : wrap64 (3600000000000 * (t : Int)) = 3600000000000 * (t : Int) :=
        wrap64_id _ (by unfold minInt64; omega) hmax
      rw [hw, Int.mul_comm (t : Int) _, min_noclamp _ hmax]
  · exact tail_small _ t (by decide) (by omega) (by unfold maxInt64; omega) _
  · exact tail_small _ t (by decide) (by omega) (by unfold maxInt64; omega) _
  · exact tail_small _ t (by decide) (by omega) (by unfold maxInt64; omega) _
  · exact tail_small _ t (by decide) (by omega) (by unfold maxInt64; omega) _
  · exact tail_small _ t (by decide) (by omega) (by unfold maxInt64; omega) _

end Larking.Timeout
