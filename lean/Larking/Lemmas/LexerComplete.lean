import Larking.Model.Lexer
/-
  Completeness of the two lexers: every string of the documented shape is turned into the
  expected tokens (as long as the token array is large enough).  Runes are classified runes;
  what is assumed about the punctuation runes ('/', ':' …) is stated where it is used.
-/
namespace Larking.Lexer

theorem span_run (p : Rune → Bool) (run rest : List Rune) (hrun : ∀ r ∈ run, p r = true)
    (hrest : ∀ r, rest.head? = some r → p r = false) : span p (run ++ rest) = (run, rest) := by
  induction run with
  | nil =>
    cases rest with
    | nil => rfl
    | cons r rest => simp only [List.nil_append, span]; rw [hrest r rfl]; rfl
  | cons r run ih =>
    simp only [List.cons_append, span, hrun r (by simp), if_true]
    rw [ih (fun x hx => hrun x (by simp [hx]))]

theorem emit_ok (cap : Nat) (toks : List Tok) (t : Tok) (h : toks.length < cap) :
    emit cap toks t = .ok (toks ++ [t]) := by
  unfold emit
  have : ¬ toks.length ≥ cap := by omega
  simp [this]

theorem lexRun_ok (cap : Nat) (p : Rune → Bool) (ty : TokTy) (toks : List Tok) (run rest : List Rune)
    (hne : run ≠ []) (hrun : ∀ r ∈ run, p r = true) (hrest : ∀ r, rest.head? = some r → p r = false)
    (hcap : toks.length < cap) :
    lexRun cap p ty ⟨toks, run ++ rest⟩ = .ok ⟨toks ++ [⟨ty, runesBytes run⟩], rest⟩ := by
  unfold lexRun
  simp only [span_run p run rest hrun hrest]
  have : run.isEmpty = false := by cases run <;> simp_all
  simp only [this, Bool.false_eq_true, if_false, emit_ok cap toks _ hcap]

theorem emitOne_ok (cap : Nat) (ty : TokTy) (r : Rune) (s : St) (rest : List Rune) (hcap : s.toks.length < cap) :
    emitOne cap ty r s rest = .ok ⟨s.toks ++ [⟨ty, r.bytes⟩], rest⟩ := by
  unfold emitOne
  simp only [emit_ok cap s.toks _ hcap]

/-! ### request paths -/

/-- a request path as a list of (separator, segment): `/seg/seg:verb…`. -/
abbrev PathSegs := List (Rune × List Rune)

def renderPath (segs : PathSegs) : List Rune := segs.flatMap fun p => p.1 :: p.2

def pathToks (segs : PathSegs) : List Tok :=
  segs.flatMap fun p => [⟨if p.1.ch == cSlash then .slash else .verb, p.1.bytes⟩, ⟨.path, runesBytes p.2⟩]

/-- the documented shape: separators are '/' or ':' (neither is a path character), every
segment is a non-empty run of path characters. -/
def WfPath (segs : PathSegs) : Prop :=
  ∀ p ∈ segs, (p.1.ch = cSlash ∨ p.1.ch = cColon) ∧ p.1.path = false ∧ p.2 ≠ [] ∧ ∀ r ∈ p.2, r.path = true

theorem lexPathLoop_complete (cap : Nat) (segs : PathSegs) :
    ∀ (fuel : Nat) (toks : List Tok), WfPath segs → segs.length ≤ fuel →
      toks.length + 2 * segs.length + 1 ≤ cap →
      lexPathLoop cap fuel ⟨toks, renderPath segs⟩ = .ok (toks ++ pathToks segs ++ [⟨.eof, []⟩]) := by
  induction segs with
  | nil =>
    intro fuel toks _ _ hcap
    simp only [List.length_nil, Nat.mul_zero, Nat.add_zero] at hcap
    cases fuel <;> simp [lexPathLoop, renderPath, pathToks, emit_ok cap toks _ (by omega)]
  | cons p segs ih =>
    intro fuel toks hwf hfuel hcap
    obtain ⟨sep, body⟩ := p
    have hp := hwf (sep, body) (by simp)
    simp only at hp
    obtain ⟨hsep, hsp, hne, hall⟩ := hp
    have hwf' : WfPath segs := fun q hq => hwf q (by simp [hq])
    simp only [List.length_cons] at hfuel hcap
    obtain ⟨fuel, rfl⟩ : ∃ k, fuel = k + 1 := ⟨fuel - 1, by omega⟩
    have hrender : renderPath ((sep, body) :: segs) = sep :: (body ++ renderPath segs) := by
      simp [renderPath]
    rw [hrender, lexPathLoop]
    have hc : (sep.ch == cSlash || sep.ch == cColon) = true := by
      rcases hsep with h | h <;> simp [h]
    simp only [hc, if_true]
    rw [emitOne_ok cap _ sep ⟨toks, sep :: (body ++ renderPath segs)⟩ _ (by simp only; omega)]
    simp only
    -- the rune after the segment is a separator (not a path character) or the end
    have hrest : ∀ r, (renderPath segs).head? = some r → r.path = false := by
      intro r hr
      cases segs with
      | nil => simp [renderPath] at hr
      | cons q segs =>
        have := (hwf' q (by simp)).2.1
        simp [renderPath] at hr
        rw [← hr]; exact this
    rw [lexRun_ok cap (·.path) .path _ body (renderPath segs) hne hall hrest (by simp; omega)]
    simp only
    rw [ih fuel _ hwf' (by omega) (by simp; omega)]
    simp [pathToks, List.append_assoc]

/-- **Request paths**: every path made of '/'- or ':'-separated non-empty runs of the
characters larking documents as valid lexes to exactly its separator and segment tokens,
as long as `2 × segments + 1` tokens fit the token array. -/
theorem lexPath_complete (cap : Nat) (segs : PathSegs) (hwf : WfPath segs) (hcap : 2 * segs.length + 1 ≤ cap) :
    lexPath cap (renderPath segs) = .ok (pathToks segs ++ [⟨.eof, []⟩]) := by
  unfold lexPath
  have hl : segs.length ≤ (renderPath segs).length + 1 := by
    have : segs.length ≤ (renderPath segs).length := by
      induction segs with
      | nil => simp
      | cons p segs ih =>
        have := ih (fun q hq => hwf q (by simp [hq])) (by simp only [List.length_cons] at hcap; omega)
        simp [renderPath] at this ⊢; omega
    omega
  have := lexPathLoop_complete cap segs ((renderPath segs).length + 1) [] hwf hl (by simpa using hcap)
  simpa using this

end Larking.Lexer

namespace Larking.Lexer

/-! ### path templates (the documented grammar, variables not nested) -/

/-- a punctuation rune: its code point, and none of the run classes. -/
def Punct (c : Nat) (r : Rune) : Prop := r.ch = c ∧ r.literal = false ∧ r.ident = false ∧ r.letter = false

instance (c : Nat) (r : Rune) : Decidable (Punct c r) := by unfold Punct; infer_instance

/-- what follows a construct: the end of the input or a punctuation rune from `allowed`. -/
def After (allowed : List Nat) (rest : List Rune) : Prop :=
  rest = [] ∨ ∃ r rest', rest = r :: rest' ∧ ∃ c ∈ allowed, Punct c r

theorem After.head_not (allowed : List Nat) (rest : List Rune) (h : After allowed rest) (p : Rune → Bool)
    (hp : ∀ r c, c ∈ allowed → Punct c r → p r = false) : ∀ r, rest.head? = some r → p r = false := by
  intro r hr
  rcases h with h | ⟨r', rest', h, c, hc, hpu⟩
  · simp [h] at hr
  · simp [h] at hr; rw [← hr]; exact hp r' c hc hpu

/-- `*`, `**` or a literal. -/
inductive Simple where
  | lit (run : List Rune)
  | star (r : Rune)
  | starstar (r1 r2 : Rune)

def Simple.render : Simple → List Rune
  | .lit run => run
  | .star r => [r]
  | .starstar r1 r2 => [r1, r2]

def Simple.toks : Simple → List Tok
  | .lit run => [⟨.literal, runesBytes run⟩]
  | .star r => [⟨.star, r.bytes⟩]
  | .starstar r1 r2 => [⟨.starstar, r1.bytes ++ r2.bytes⟩]

/-- LITERAL as the code reads it: starts with a letter, continues with literal runes. -/
def Simple.Wf : Simple → Prop
  | .lit run => (∃ r rest, run = r :: rest ∧ r.letter = true) ∧ ∀ r ∈ run, r.literal = true
  | .star r => Punct cStar r
  | .starstar r1 r2 => Punct cStar r1 ∧ Punct cStar r2

theorem lexSegment_simple (cap : Nat) (s : Simple) (hs : s.Wf) (fuel : Nat) (toks : List Tok) (rest : List Rune)
    (allowed : List Nat) (hafter : After allowed rest) (hnostar : cStar ∉ allowed) (hcap : toks.length < cap) :
    lexSegment cap (fuel + 1) ⟨toks, s.render ++ rest⟩ = .ok ⟨toks ++ s.toks, rest⟩ := by
  cases s with
  | lit run =>
    obtain ⟨⟨r, run', hrun, hletter⟩, hall⟩ := hs
    subst hrun
    have hrest : ∀ x, rest.head? = some x → x.literal = false :=
      After.head_not allowed rest hafter (·.literal) (fun x c _ hp => hp.2.1)
    have := lexRun_ok cap (·.literal) .literal toks (r :: run') rest (by simp) hall hrest hcap
    simp only [Simple.render, Simple.toks, lexSegment, List.cons_append, hletter, if_true]
    simpa using this
  | star r =>
    have hs' : Punct cStar r := hs
    have hl : r.letter = false := hs'.2.2.2
    have hc : (r.ch == cStar) = true := by simp [hs'.1]
    simp only [Simple.render, Simple.toks, lexSegment, List.cons_append, List.nil_append, hl,
      Bool.false_eq_true, if_false, hc, if_true]
    rcases hafter with h | ⟨r2, rest2, h, c, hcmem, hpu⟩
    · subst h
      exact emitOne_ok cap .star r ⟨toks, [r]⟩ [] hcap
    · subst h
      have hne : (r2.ch == cStar) = false := by
        have : r2.ch ≠ cStar := by rw [hpu.1]; intro e; exact hnostar (e ▸ hcmem)
        simpa using this
      simp only [hne, Bool.false_eq_true, if_false]
      exact emitOne_ok cap .star r ⟨toks, r :: r2 :: rest2⟩ (r2 :: rest2) hcap
  | starstar r1 r2 =>
    obtain ⟨h1, h2⟩ := hs
    have hl : r1.letter = false := h1.2.2.2
    have hc1 : (r1.ch == cStar) = true := by simp [h1.1]
    have hc2 : (r2.ch == cStar) = true := by simp [h2.1]
    simp only [Simple.render, Simple.toks, lexSegment, List.cons_append, List.nil_append, hl,
      Bool.false_eq_true, if_false, hc1, hc2, if_true, emit_ok cap toks _ hcap]

/-- `Segment { "/" Segment }` over simple segments (the sub-pattern of a variable). -/
def renderSimples (first : Simple) (more : List (Rune × Simple)) : List Rune :=
  first.render ++ more.flatMap fun p => p.1 :: p.2.render

def toksSimples (first : Simple) (more : List (Rune × Simple)) : List Tok :=
  first.toks ++ more.flatMap fun p => ⟨.slash, p.1.bytes⟩ :: p.2.toks

theorem Simple.toks_length (s : Simple) : s.toks.length = 1 := by cases s <;> rfl

theorem lexSegments_simples (cap : Nat) (allowed : List Nat) (hnostar : cStar ∉ allowed) (hnoslash : cSlash ∉ allowed)
    (rest : List Rune) (hafter : After allowed rest) (more : List (Rune × Simple)) :
    ∀ (first : Simple) (fuel : Nat) (toks : List Tok), first.Wf →
      (∀ p ∈ more, Punct cSlash p.1 ∧ p.2.Wf) → more.length + 2 ≤ fuel →
      toks.length + 1 + 2 * more.length ≤ cap →
      lexSegments cap fuel ⟨toks, renderSimples first more ++ rest⟩
        = .ok ⟨toks ++ toksSimples first more, rest⟩ := by
  induction more with
  | nil =>
    intro first fuel toks hf _ hfuel hcap
    obtain ⟨fuel, rfl⟩ : ∃ k, fuel = k + 2 := ⟨fuel - 2, by simp at hfuel; omega⟩
    simp only [renderSimples, toksSimples, List.flatMap_nil, List.append_nil]
    rw [lexSegments, lexSegment_simple cap first hf fuel toks rest allowed hafter hnostar (by simp at hcap; omega)]
    simp only
    rcases hafter with h | ⟨r, rest', h, c, hc, hpu⟩
    · subst h; rfl
    · subst h
      have : (r.ch == cSlash) = false := by
        have : r.ch ≠ cSlash := by rw [hpu.1]; intro e; exact hnoslash (e ▸ hc)
        simpa using this
      simp only [this, Bool.false_eq_true, if_false]
  | cons p more ih =>
    intro first fuel toks hf hmore hfuel hcap
    obtain ⟨sl, s2⟩ := p
    obtain ⟨hsl, hs2⟩ := hmore (sl, s2) (by simp)
    simp only [List.length_cons] at hfuel hcap
    obtain ⟨fuel, rfl⟩ : ∃ k, fuel = k + 2 := ⟨fuel - 2, by omega⟩
    have hr : renderSimples first ((sl, s2) :: more) ++ rest
        = first.render ++ (sl :: (renderSimples s2 more ++ rest)) := by
      simp [renderSimples, List.append_assoc]
    have hafter1 : After (cSlash :: allowed) (sl :: (renderSimples s2 more ++ rest)) :=
      Or.inr ⟨sl, _, rfl, cSlash, by simp, hsl⟩
    have hns : cStar ∉ cSlash :: allowed := by
      simp only [List.mem_cons, not_or]; exact ⟨by decide, hnostar⟩
    rw [hr, lexSegments, lexSegment_simple cap first hf fuel toks _ (cSlash :: allowed) hafter1 hns (by omega)]
    simp only
    have hc : (sl.ch == cSlash) = true := by have := hsl.1; simp only at this; simp [this]
    simp only [hc, if_true]
    rw [emitOne_ok cap .slash sl ⟨toks ++ first.toks, _⟩ _ (by simp [Simple.toks_length]; omega)]
    simp only
    rw [ih s2 (fuel + 1) _ hs2 (fun q hq => hmore q (by simp [hq])) (by omega)
      (by simp [Simple.toks_length]; omega)]
    simp [toksSimples, List.append_assoc]

/-! #### variables -/

/-- `"." IDENT` repeated. -/
abbrev Dotted := List (Rune × List Rune)

def renderDotted (d : Dotted) : List Rune := d.flatMap fun p => p.1 :: p.2
def toksDotted (d : Dotted) : List Tok := d.flatMap fun p => [⟨.dot, p.1.bytes⟩, ⟨.ident, runesBytes p.2⟩]

def WfIdent (run : List Rune) : Prop := run ≠ [] ∧ ∀ r ∈ run, r.ident = true
def WfDotted (d : Dotted) : Prop := ∀ p ∈ d, (p.1.ch = cDot ∧ p.1.ident = false) ∧ WfIdent p.2

instance (run : List Rune) : Decidable (WfIdent run) := by unfold WfIdent; infer_instance
instance (d : Dotted) : Decidable (WfDotted d) := by unfold WfDotted; infer_instance

theorem renderDotted_length (d : Dotted) : d.length ≤ (renderDotted d).length := by
  induction d with
  | nil => simp [renderDotted]
  | cons p d ih => simp [renderDotted] at ih ⊢; omega

theorem lexFieldPathTail_complete (cap : Nat) (allowed : List Nat) (hnodot : cDot ∉ allowed)
    (rest : List Rune) (hafter : After allowed rest) (d : Dotted) :
    ∀ (fuel : Nat) (toks : List Tok), WfDotted d → d.length ≤ fuel → toks.length + 2 * d.length ≤ cap →
      lexFieldPathTail cap fuel ⟨toks, renderDotted d ++ rest⟩ = .ok ⟨toks ++ toksDotted d, rest⟩ := by
  induction d with
  | nil =>
    intro fuel toks _ _ _
    simp only [renderDotted, toksDotted, List.flatMap_nil, List.nil_append, List.append_nil]
    cases fuel with
    | zero => rfl
    | succ fuel =>
      rw [lexFieldPathTail]
      rcases hafter with h | ⟨r, rest', h, c, hc, hpu⟩
      · subst h; rfl
      · subst h
        have : (r.ch == cDot) = false := by
          have : r.ch ≠ cDot := by rw [hpu.1]; intro e; exact hnodot (e ▸ hc)
          simpa using this
        simp only [this, Bool.false_eq_true, if_false]
  | cons p d ih =>
    intro fuel toks hwf hfuel hcap
    obtain ⟨dot, run⟩ := p
    have hp := hwf (dot, run) (by simp)
    simp only at hp
    obtain ⟨⟨hdot, hdi⟩, hne, hall⟩ := hp
    simp only [List.length_cons] at hfuel hcap
    obtain ⟨fuel, rfl⟩ : ∃ k, fuel = k + 1 := ⟨fuel - 1, by omega⟩
    have hr : renderDotted ((dot, run) :: d) ++ rest = dot :: (run ++ (renderDotted d ++ rest)) := by
      simp [renderDotted, List.append_assoc]
    rw [hr, lexFieldPathTail]
    have hc : (dot.ch == cDot) = true := by simp [hdot]
    simp only [hc, if_true]
    rw [emitOne_ok cap .dot dot ⟨toks, _⟩ _ (by simp only; omega)]
    simp only
    -- what follows the identifier is another dot, or what follows the field path
    have hrest : ∀ x, (renderDotted d ++ rest).head? = some x → x.ident = false := by
      intro x hx
      cases d with
      | nil =>
        simp only [renderDotted, List.flatMap_nil, List.nil_append] at hx
        exact After.head_not allowed rest hafter (·.ident) (fun y c _ hp => hp.2.2.1) x hx
      | cons q d =>
        have := (hwf q (by simp)).1.2
        simp [renderDotted] at hx
        rw [← hx]; exact this
    rw [lexRun_ok cap (·.ident) .ident _ run _ hne hall hrest (by simp; omega)]
    simp only
    rw [ih fuel _ (fun q hq => hwf q (by simp [hq])) (by omega) (by simp; omega)]
    simp [toksDotted, List.append_assoc]

/-- `"{" FieldPath [ "=" Segments ] "}"` with simple segments in the sub-pattern. -/
structure VarT where
  lbrace : Rune
  ident : List Rune
  dotted : Dotted
  sub : Option (Rune × Simple × List (Rune × Simple))
  rbrace : Rune

def VarT.subRender (v : VarT) : List Rune :=
  match v.sub with
  | none => []
  | some (eq, f, more) => eq :: renderSimples f more

def VarT.subToks (v : VarT) : List Tok :=
  match v.sub with
  | none => []
  | some (eq, f, more) => ⟨.equal, eq.bytes⟩ :: toksSimples f more

def VarT.render (v : VarT) : List Rune :=
  v.lbrace :: (v.ident ++ (renderDotted v.dotted ++ (v.subRender ++ [v.rbrace])))

def VarT.toks (v : VarT) : List Tok :=
  ⟨.varStart, v.lbrace.bytes⟩ :: ⟨.ident, runesBytes v.ident⟩ ::
    (toksDotted v.dotted ++ (v.subToks ++ [⟨.varEnd, v.rbrace.bytes⟩]))

def VarT.subLen (v : VarT) : Nat :=
  match v.sub with
  | none => 0
  | some (_, _, more) => more.length + 1

def VarT.Wf (v : VarT) : Prop :=
  Punct cLBrace v.lbrace ∧ WfIdent v.ident ∧ WfDotted v.dotted ∧ Punct cRBrace v.rbrace ∧
  match v.sub with
  | none => True
  | some (eq, f, more) => Punct cEq eq ∧ f.Wf ∧ ∀ p ∈ more, Punct cSlash p.1 ∧ p.2.Wf

theorem toksSimples_length (f : Simple) (more : List (Rune × Simple)) :
    (toksSimples f more).length = 1 + 2 * more.length := by
  induction more with
  | nil => simp [toksSimples, Simple.toks_length]
  | cons p more ih =>
    simp only [toksSimples, List.length_append, Simple.toks_length, List.flatMap_cons, List.length_cons] at ih ⊢
    omega

theorem toksDotted_length (d : Dotted) : (toksDotted d).length = 2 * d.length := by
  induction d with
  | nil => rfl
  | cons p d ih => simp only [toksDotted, List.flatMap_cons, List.length_append, List.length_cons, List.length_nil] at ih ⊢; omega

theorem VarT.subToks_length (v : VarT) : v.subToks.length = 2 * v.subLen := by
  unfold VarT.subToks VarT.subLen
  cases v.sub with
  | none => rfl
  | some x => obtain ⟨eq, f, more⟩ := x; simp [toksSimples_length]; omega

theorem VarT.toks_length (v : VarT) : v.toks.length = 3 + 2 * v.dotted.length + 2 * v.subLen := by
  simp [VarT.toks, toksDotted_length, VarT.subToks_length]; omega

theorem lexVariable_complete (cap : Nat) (v : VarT) (hv : v.Wf) (fuel : Nat) (toks : List Tok) (rest : List Rune)
    (hfuel : v.subLen + 2 ≤ fuel) (hcap : toks.length + v.toks.length ≤ cap) :
    lexVariable cap fuel ⟨toks, v.render ++ rest⟩ = .ok ⟨toks ++ v.toks, rest⟩ := by
  obtain ⟨hlb, ⟨hine, hiall⟩, hdot, hrb, hsub⟩ := hv
  rw [VarT.toks_length] at hcap
  obtain ⟨fuel, rfl⟩ : ∃ k, fuel = k + 1 := ⟨fuel - 1, by omega⟩
  have hrender : v.render ++ rest
      = v.lbrace :: (v.ident ++ (renderDotted v.dotted ++ (v.subRender ++ (v.rbrace :: rest)))) := by
    simp [VarT.render, List.append_assoc]
  rw [hrender, lexVariable]
  have hc : (v.lbrace.ch != cLBrace) = false := by simp [hlb.1]
  simp only [hc, Bool.false_eq_true, if_false]
  rw [emitOne_ok cap .varStart v.lbrace ⟨toks, _⟩ _ (by simp only; omega)]
  simp only
  -- what follows the field path: '=' or '}'
  have hafterFP : After [cEq, cRBrace] (v.subRender ++ (v.rbrace :: rest)) := by
    unfold VarT.subRender
    cases hs : v.sub with
    | none => exact Or.inr ⟨v.rbrace, rest, by simp, cRBrace, by simp, hrb⟩
    | some x =>
      obtain ⟨eq, f, more⟩ := x
      rw [hs] at hsub
      exact Or.inr ⟨eq, renderSimples f more ++ v.rbrace :: rest, by simp, cEq, by simp, hsub.1⟩
  -- the first identifier
  have hrestI : ∀ x, (renderDotted v.dotted ++ (v.subRender ++ (v.rbrace :: rest))).head? = some x → x.ident = false := by
    intro x hx
    cases hd : v.dotted with
    | nil =>
      rw [hd] at hx
      simp only [renderDotted, List.flatMap_nil, List.nil_append] at hx
      exact After.head_not _ _ hafterFP (·.ident) (fun y c _ hp => hp.2.2.1) x hx
    | cons q d =>
      rw [hd] at hx hdot
      have := (hdot q (by simp)).1.2
      simp [renderDotted] at hx
      rw [← hx]; exact this
  unfold lexFieldPath
  rw [lexRun_ok cap (·.ident) .ident _ v.ident _ hine hiall hrestI (by simp; omega)]
  simp only
  have hnodot : cDot ∉ [cEq, cRBrace] := by decide
  rw [lexFieldPathTail_complete cap [cEq, cRBrace] hnodot _ hafterFP v.dotted _ _ hdot
    (by have := renderDotted_length v.dotted; simp; omega) (by simp; omega)]
  simp only
  -- the sub-pattern, if any, then the closing brace
  cases hs : v.sub with
  | none =>
    have hsr : v.subRender = [] := by simp [VarT.subRender, hs]
    have hsl : v.subLen = 0 := by simp [VarT.subLen, hs]
    rw [hsr]; rw [hsl] at hcap
    have hne : (v.rbrace.ch == cEq) = false := by
      have : v.rbrace.ch ≠ cEq := by rw [hrb.1]; decide
      simpa using this
    simp only [List.nil_append, hne, Bool.false_eq_true, if_false, lexClose]
    have hc2 : (v.rbrace.ch == cRBrace) = true := by simp [hrb.1]
    simp only [hc2, if_true]
    rw [emitOne_ok cap .varEnd v.rbrace ⟨_, _⟩ rest (by simp [toksDotted_length]; omega)]
    simp [VarT.toks, VarT.subToks, hs, List.append_assoc]
  | some x =>
    obtain ⟨eq, f, more⟩ := x
    have hsr : v.subRender = eq :: renderSimples f more := by simp [VarT.subRender, hs]
    have hsl : v.subLen = more.length + 1 := by simp [VarT.subLen, hs]
    rw [hsr]; rw [hsl] at hcap hfuel
    rw [hs] at hsub
    obtain ⟨heq, hf, hmore⟩ := hsub
    have hce : (eq.ch == cEq) = true := by simp [heq.1]
    simp only [List.cons_append, hce, if_true]
    rw [emitOne_ok cap .equal eq ⟨_, _⟩ _ (by simp [toksDotted_length]; omega)]
    simp only
    have hafterS : After [cRBrace] (v.rbrace :: rest) := Or.inr ⟨v.rbrace, rest, rfl, cRBrace, by simp, hrb⟩
    rw [lexSegments_simples cap [cRBrace] (by decide) (by decide) _ hafterS more f fuel _ hf hmore
      (by omega) (by simp [toksDotted_length]; omega)]
    simp only [lexClose]
    have hc2 : (v.rbrace.ch == cRBrace) = true := by simp [hrb.1]
    simp only [hc2, if_true]
    rw [emitOne_ok cap .varEnd v.rbrace ⟨_, _⟩ rest (by
      simp [toksDotted_length, toksSimples_length]; omega)]
    simp [VarT.toks, VarT.subToks, hs, List.append_assoc]

/-! #### segments and templates -/

inductive Seg where
  | simple (s : Simple)
  | var (v : VarT)

def Seg.render : Seg → List Rune
  | .simple s => s.render
  | .var v => v.render

def Seg.toks : Seg → List Tok
  | .simple s => s.toks
  | .var v => v.toks

def Seg.Wf : Seg → Prop
  | .simple s => s.Wf
  | .var v => v.Wf

/-- recursion budget one segment needs. -/
def Seg.need : Seg → Nat
  | .simple _ => 1
  | .var v => v.subLen + 3

theorem lexSegment_seg (cap : Nat) (g : Seg) (hg : g.Wf) (fuel : Nat) (hfuel : g.need ≤ fuel)
    (toks : List Tok) (rest : List Rune) (allowed : List Nat) (hafter : After allowed rest)
    (hnostar : cStar ∉ allowed) (hcap : toks.length + g.toks.length ≤ cap) :
    lexSegment cap fuel ⟨toks, g.render ++ rest⟩ = .ok ⟨toks ++ g.toks, rest⟩ := by
  cases g with
  | simple s =>
    simp only [Seg.need] at hfuel
    obtain ⟨fuel, rfl⟩ : ∃ k, fuel = k + 1 := ⟨fuel - 1, by omega⟩
    simp only [Seg.toks, Simple.toks_length] at hcap
    exact lexSegment_simple cap s hg fuel toks rest allowed hafter hnostar (by omega)
  | var v =>
    simp only [Seg.need] at hfuel
    obtain ⟨fuel, rfl⟩ : ∃ k, fuel = k + 1 := ⟨fuel - 1, by omega⟩
    have hv : v.Wf := hg
    have hlb := hv.1
    have hr : (Seg.var v).render ++ rest
        = v.lbrace :: (v.ident ++ (renderDotted v.dotted ++ (v.subRender ++ [v.rbrace]))) ++ rest := by
      simp [Seg.render, VarT.render]
    rw [hr, lexSegment]
    have hl : v.lbrace.letter = false := hlb.2.2.2
    have h1 : (v.lbrace.ch == cStar) = false := by
      have : v.lbrace.ch ≠ cStar := by rw [hlb.1]; decide
      simpa using this
    have h2 : (v.lbrace.ch == cLBrace) = true := by simp [hlb.1]
    simp only [List.cons_append, hl, Bool.false_eq_true, if_false, h1, h2, if_true]
    have := lexVariable_complete cap v hv fuel toks rest (by omega) hcap
    simpa [VarT.render, Seg.toks] using this

def renderSegs (first : Seg) (more : List (Rune × Seg)) : List Rune :=
  first.render ++ more.flatMap fun p => p.1 :: p.2.render

def toksSegs (first : Seg) (more : List (Rune × Seg)) : List Tok :=
  first.toks ++ more.flatMap fun p => ⟨.slash, p.1.bytes⟩ :: p.2.toks

theorem lexSegments_segs (cap : Nat) (allowed : List Nat) (hnostar : cStar ∉ allowed) (hnoslash : cSlash ∉ allowed)
    (rest : List Rune) (hafter : After allowed rest) (F : Nat) (more : List (Rune × Seg)) :
    ∀ (first : Seg) (fuel : Nat) (toks : List Tok), first.Wf → first.need ≤ F →
      (∀ p ∈ more, Punct cSlash p.1 ∧ p.2.Wf ∧ p.2.need ≤ F) → more.length + F + 1 ≤ fuel →
      toks.length + (toksSegs first more).length ≤ cap →
      lexSegments cap fuel ⟨toks, renderSegs first more ++ rest⟩
        = .ok ⟨toks ++ toksSegs first more, rest⟩ := by
  induction more with
  | nil =>
    intro first fuel toks hf hneed _ hfuel hcap
    obtain ⟨fuel, rfl⟩ : ∃ k, fuel = k + 1 := ⟨fuel - 1, by simp at hfuel; omega⟩
    simp only [renderSegs, toksSegs, List.flatMap_nil, List.append_nil] at hcap ⊢
    rw [lexSegments, lexSegment_seg cap first hf fuel (by simp at hfuel; omega) toks rest allowed hafter hnostar hcap]
    simp only
    rcases hafter with h | ⟨r, rest', h, c, hc, hpu⟩
    · subst h; rfl
    · subst h
      have : (r.ch == cSlash) = false := by
        have : r.ch ≠ cSlash := by rw [hpu.1]; intro e; exact hnoslash (e ▸ hc)
        simpa using this
      simp only [this, Bool.false_eq_true, if_false]
  | cons p more ih =>
    intro first fuel toks hf hneed hmore hfuel hcap
    obtain ⟨sl, g2⟩ := p
    obtain ⟨hsl, hg2, hn2⟩ := hmore (sl, g2) (by simp)
    simp only [List.length_cons] at hfuel
    obtain ⟨fuel, rfl⟩ : ∃ k, fuel = k + 1 := ⟨fuel - 1, by omega⟩
    have hr : renderSegs first ((sl, g2) :: more) ++ rest
        = first.render ++ (sl :: (renderSegs g2 more ++ rest)) := by
      simp [renderSegs, List.append_assoc]
    have ht : toksSegs first ((sl, g2) :: more) = first.toks ++ (⟨.slash, sl.bytes⟩ :: toksSegs g2 more) := by
      simp [toksSegs]
    rw [ht] at hcap
    simp only [List.length_append, List.length_cons] at hcap
    have hafter1 : After (cSlash :: allowed) (sl :: (renderSegs g2 more ++ rest)) :=
      Or.inr ⟨sl, _, rfl, cSlash, by simp, hsl⟩
    have hns : cStar ∉ cSlash :: allowed := by
      simp only [List.mem_cons, not_or]; exact ⟨by decide, hnostar⟩
    rw [hr, lexSegments, lexSegment_seg cap first hf fuel (by omega) toks _ (cSlash :: allowed) hafter1 hns (by omega)]
    simp only
    have hc : (sl.ch == cSlash) = true := by have := hsl.1; simp only at this; simp [this]
    simp only [hc, if_true]
    rw [emitOne_ok cap .slash sl ⟨toks ++ first.toks, _⟩ _ (by simp; omega)]
    simp only
    rw [ih g2 fuel _ hg2 hn2 (fun q hq => hmore q (by simp [hq])) (by omega) (by simp; omega)]
    rw [ht]; simp [List.append_assoc]

/-- `"/" Segments [ ":" LITERAL ]` -/
structure Tmpl where
  slash : Rune
  first : Seg
  more : List (Rune × Seg)
  verb : Option (Rune × List Rune)

def Tmpl.verbRender (t : Tmpl) : List Rune :=
  match t.verb with
  | none => []
  | some (colon, run) => colon :: run

def Tmpl.verbToks (t : Tmpl) : List Tok :=
  match t.verb with
  | none => []
  | some (colon, run) => [⟨.verb, colon.bytes⟩, ⟨.literal, runesBytes run⟩]

def Tmpl.render (t : Tmpl) : List Rune := t.slash :: (renderSegs t.first t.more ++ t.verbRender)

def Tmpl.toks (t : Tmpl) : List Tok :=
  ⟨.slash, t.slash.bytes⟩ :: (toksSegs t.first t.more ++ (t.verbToks ++ [⟨.eof, []⟩]))

def Tmpl.Wf (t : Tmpl) : Prop :=
  Punct cSlash t.slash ∧ t.first.Wf ∧ (∀ p ∈ t.more, Punct cSlash p.1 ∧ p.2.Wf) ∧
  match t.verb with
  | none => True
  | some (colon, run) => Punct cColon colon ∧ run ≠ [] ∧ ∀ r ∈ run, r.literal = true

theorem Simple.render_pos (s : Simple) (h : s.Wf) : 1 ≤ s.render.length := by
  cases s with
  | lit run => obtain ⟨⟨r, rest, hr, _⟩, _⟩ := h; subst hr; simp [Simple.render]
  | star r => simp [Simple.render]
  | starstar r1 r2 => simp [Simple.render]

theorem renderSimples_length (f : Simple) (more : List (Rune × Simple)) (hf : f.Wf) :
    1 + more.length ≤ (renderSimples f more).length := by
  have := Simple.render_pos f hf
  induction more with
  | nil => simpa [renderSimples] using this
  | cons p more ih => simp [renderSimples] at ih ⊢; omega

theorem Seg.need_le (g : Seg) (h : g.Wf) : g.need ≤ g.render.length := by
  cases g with
  | simple s => exact Simple.render_pos s h
  | var v =>
    have hv : v.Wf := h
    obtain ⟨_, ⟨hine, _⟩, _, _, hsub⟩ := hv
    have hi : 1 ≤ v.ident.length := by cases hx : v.ident <;> simp_all
    simp only [Seg.need, Seg.render, VarT.render, VarT.subLen, VarT.subRender, List.length_cons, List.length_append,
      List.length_nil]
    cases hs : v.sub with
    | none => simp; omega
    | some x =>
      obtain ⟨eq, f, more⟩ := x
      rw [hs] at hsub
      have := renderSimples_length f more hsub.2.1
      simp; omega

theorem renderSegs_length (first : Seg) (more : List (Rune × Seg)) :
    first.render.length + more.length ≤ (renderSegs first more).length := by
  induction more with
  | nil => simp [renderSegs]
  | cons p more ih => simp [renderSegs] at ih ⊢; omega

theorem mem_render_le (first : Seg) (more : List (Rune × Seg)) (p : Rune × Seg) (hp : p ∈ more) :
    p.2.render.length ≤ (renderSegs first more).length := by
  induction more with
  | nil => simp at hp
  | cons q more ih =>
    simp only [List.mem_cons] at hp
    rcases hp with rfl | hp
    · simp [renderSegs]; omega
    · have := ih hp; simp [renderSegs] at this ⊢; omega

/-- **Templates**: every template of the documented grammar — `"/" Segments [ ":" LITERAL ]`,
segments `*`, `**`, literals (starting with a letter) and variables `{field.path}` or
`{field.path=sub/pattern}` whose sub-pattern is made of `*`, `**` and literals — lexes to
exactly its tokens, as long as they fit the token array. -/
theorem lexTemplate_complete (cap : Nat) (t : Tmpl) (ht : t.Wf) (hcap : t.toks.length ≤ cap) :
    lexTemplate cap t.render = .ok t.toks := by
  obtain ⟨hsl, hfirst, hmore, hverb⟩ := ht
  simp only [Tmpl.toks, List.length_cons, List.length_append, List.length_nil] at hcap
  unfold lexTemplate
  simp only [Tmpl.render]
  have hc : (t.slash.ch != cSlash) = false := by simp [hsl.1]
  simp only [hc, Bool.false_eq_true, if_false]
  rw [emitOne_ok cap .slash t.slash ⟨[], _⟩ _ (by simp only [List.length_nil]; omega)]
  simp only [List.nil_append]
  -- what follows the segments: the verb's colon or the end
  have hafter : After [cColon] t.verbRender := by
    unfold Tmpl.verbRender
    cases hv : t.verb with
    | none => exact Or.inl rfl
    | some x =>
      obtain ⟨colon, run⟩ := x
      rw [hv] at hverb
      exact Or.inr ⟨colon, run, rfl, cColon, by simp, hverb.1⟩
  let L := (renderSegs t.first t.more ++ t.verbRender).length
  have hL1 : (renderSegs t.first t.more).length ≤ L := by simp [L]
  have hneed1 : t.first.need ≤ L := by
    have := Seg.need_le t.first hfirst
    have := renderSegs_length t.first t.more
    omega
  have hmore' : ∀ p ∈ t.more, Punct cSlash p.1 ∧ p.2.Wf ∧ p.2.need ≤ L := by
    intro p hp
    have := hmore p hp
    refine ⟨this.1, this.2, ?_⟩
    have h1 := Seg.need_le p.2 this.2
    have h2 := mem_render_le t.first t.more p hp
    omega
  have hlen : t.more.length ≤ L := by
    have := renderSegs_length t.first t.more
    omega
  rw [lexSegments_segs cap [cColon] (by decide) (by decide) t.verbRender hafter L t.more t.first _ _
    hfirst hneed1 hmore' (by simp [L] at hlen ⊢; omega) (by simp; omega)]
  simp only
  unfold Tmpl.verbRender Tmpl.verbToks at *
  cases hv : t.verb with
  | none =>
    rw [hv] at hcap
    simp only [List.length_nil, Nat.zero_add] at hcap
    rw [emit_ok cap _ _ (by simp; omega)]
    simp [Tmpl.toks, Tmpl.verbToks, hv]
  | some x =>
    obtain ⟨colon, run⟩ := x
    rw [hv] at hverb hcap
    obtain ⟨hcol, hne, hall⟩ := hverb
    have hcc : (colon.ch == cColon) = true := by simp [hcol.1]
    simp only [hcc, if_true]
    rw [emitOne_ok cap .verb colon ⟨_, _⟩ run (by simp at hcap ⊢; omega)]
    simp only
    have := lexRun_ok cap (·.literal) .literal (([⟨.slash, t.slash.bytes⟩] : List Tok) ++ toksSegs t.first t.more ++ [⟨.verb, colon.bytes⟩])
      run [] hne hall (by simp) (by simp at hcap ⊢; omega)
    simp only [List.append_nil] at this
    rw [this]
    simp only
    rw [emit_ok cap _ _ (by simp at hcap ⊢; omega)]
    simp [Tmpl.toks, Tmpl.verbToks, hv, List.append_assoc]

end Larking.Lexer
