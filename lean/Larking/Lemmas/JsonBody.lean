import Larking.Lemmas.StreamCodec
namespace Larking.Codec

/-! ### CodecJSON -/

def scanInit : Scan := ⟨0, false, false⟩

/-- the scanner run over a plain byte list: index just after the closing brace. -/
def scanPure : Scan → Bytes → Nat → Option Nat
  | _, [], _ => none
  | s, c :: rest, i =>
    match scanByte s c with
    | .done => some (i + 1)
    | .unbalanced => none
    | .cont s' => scanPure s' rest (i + 1)

/-- messages `CodecJSON` can frame: the scanner closes the top-level object exactly at the
last byte (protojson output has this shape). -/
def JsonFrame (m : Bytes) : Prop := scanPure scanInit m 0 = some m.length

theorem scanPure_gt (s : Scan) (bs : Bytes) (i j : Nat) (h : scanPure s bs i = some j) :
    i < j ∧ j ≤ i + bs.length := by
  induction bs generalizing s i with
  | nil => simp [scanPure] at h
  | cons c rest ih =>
    unfold scanPure at h
    split at h
    · simp at h; simp; omega
    · simp at h
    · have := ih _ _ h; simp; omega

theorem scanPure_append (s : Scan) (bs rest : Bytes) (i j : Nat) (h : scanPure s bs i = some j) :
    scanPure s (bs ++ rest) i = some j := by
  induction bs generalizing s i with
  | nil => simp [scanPure] at h
  | cons c bs ih =>
    unfold scanPure at h
    simp only [List.cons_append, scanPure]
    split at h <;> rename_i hs
    · exact h
    · simp at h
    · exact ih _ _ h

theorem jsonLoop_spec (W : Bytes) : ∀ (fuel i : Nat) (s : Scan) (e : Env) (b : Buf) (j : Nat),
    b.data ++ e.data = W → scanPure s (W.drop i) i = some j → j ≤ i + fuel →
    ∃ dst e', jsonLoop fuel i s e b = (⟨dst, j, none⟩, e') ∧ dst.data ++ e'.data = W ∧
      j ≤ dst.data.length := by
  intro fuel
  induction fuel with
  | zero =>
    intro i s e b j _ hs hj
    have := (scanPure_gt _ _ _ _ hs).1
    omega
  | succ fuel ih =>
    intro i s e b j hW hs hj
    -- W.drop i is non-empty
    cases hd : W.drop i with
    | nil => rw [hd] at hs; simp [scanPure] at hs
    | cons c rest' =>
      have hiW : i < W.length := by
        by_cases h : i < W.length
        · exact h
        · rw [List.drop_of_length_le (by omega)] at hd; simp at hd
      have hWi : W[i]? = some c := by
        have : (W.drop i)[0]? = some c := by rw [hd]; simp
        simpa using this
      have hrest : W.drop (i + 1) = rest' := by
        have : (W.drop i).drop 1 = rest' := by rw [hd]; simp
        simpa [List.drop_drop] using this
      unfold jsonLoop
      have hf := fill_spec e b i
      generalize fill e b i = r at hf
      obtain ⟨b1, res, e1⟩ := r
      simp only at hf
      obtain ⟨hc, hok, herr⟩ := hf
      rw [hW] at hc
      cases res with
      | some err =>
        obtain ⟨_, hemp, hle⟩ := herr err rfl
        rw [hemp, List.append_nil] at hc
        rw [hc] at hle; omega
      | none =>
        have hlt := hok rfl
        have hget : b1.data[i]? = some c := by
          rw [← hWi, ← hc, List.getElem?_append_left hlt]
        simp only [hget]
        rw [hd] at hs
        unfold scanPure at hs
        split at hs <;> rename_i hsb <;> simp only [hsb]
        · simp only [Option.some.injEq] at hs
          exact ⟨b1, e1, by rw [hs], hc, by omega⟩
        · simp at hs
        · rw [← hrest] at hs
          exact ih (i + 1) _ e1 b1 j hc hs (by omega)

/-- **Frame law** of `CodecJSON`. -/
theorem json_frame (e : Env) (b : Buf) (limit : Nat) (m rest : Bytes)
    (hW : b.data ++ e.data = jsonWriteNext m ++ rest) (hm : JsonFrame m) (hlim : m.length ≤ limit) :
    ∃ dst e', jsonReadNext e b limit = (⟨dst, m.length, none⟩, e') ∧
      dst.data.take m.length = m ∧ dst.data.drop m.length ++ e'.data = rest := by
  have hs : scanPure scanInit ((m ++ rest).drop 0) 0 = some m.length := by
    simpa using scanPure_append _ _ rest _ _ hm
  obtain ⟨dst, e', h, hc, hl⟩ := jsonLoop_spec (m ++ rest) limit 0 scanInit e b m.length
    (by simpa [jsonWriteNext] using hW) hs (by omega)
  refine ⟨dst, e', h, ?_⟩
  exact append_take_of_le dst.data e'.data m rest hc hl

/-- the JSON reader never reports a message longer than the limit, never a length outside
the returned buffer, and an error never comes with a message. -/
theorem jsonLoop_safe : ∀ (fuel i : Nat) (s : Scan) (e : Env) (b : Buf),
    let r := (jsonLoop fuel i s e b).1
    r.n ≤ r.dst.data.length ∧ r.n ≤ i + fuel ∧ (r.err ≠ none → r.n = 0) := by
  intro fuel
  induction fuel with
  | zero => intro i s e b; simp [jsonLoop]
  | succ fuel ih =>
    intro i s e b
    unfold jsonLoop
    have hf := fill_spec e b i
    generalize fill e b i = r at hf
    obtain ⟨b1, res, e1⟩ := r
    cases res with
    | some err => simp
    | none =>
      have hlt : i < b1.data.length := hf.2.1 rfl
      simp only
      cases hg : b1.data[i]? with
      | none => simp
      | some c =>
        simp only
        split
        · simp; omega
        · simp
        · rename_i s' _
          have := ih (i + 1) s' e1 b1
          simp only at this ⊢
          exact ⟨this.1, by omega, this.2.2⟩

theorem json_safe (e : Env) (b : Buf) (limit : Nat) :
    (jsonReadNext e b limit).1.n ≤ (jsonReadNext e b limit).1.dst.data.length ∧
    (jsonReadNext e b limit).1.n ≤ limit ∧
    ((jsonReadNext e b limit).1.err ≠ none → (jsonReadNext e b limit).1.n = 0) := by
  have := jsonLoop_safe limit 0 scanInit e b
  simpa [jsonReadNext, scanInit] using this

theorem json_empty (e : Env) (b : Buf) (limit : Nat) (hl : 0 < limit) (h : b.data ++ e.data = []) :
    ∃ dst e', jsonReadNext e b limit = (⟨dst, 0, some .eof⟩, e') := by
  have hb : b.data = [] := by cases hd : b.data <;> simp_all
  have he : e.data = [] := by cases hd : e.data <;> simp_all
  obtain ⟨k, rfl⟩ : ∃ k, limit = k + 1 := ⟨limit - 1, by omega⟩
  unfold jsonReadNext jsonLoop
  have hs := fill_spec e b 0
  generalize fill e b 0 = r at hs
  obtain ⟨b1, res, e1⟩ := r
  simp only at hs
  cases res with
  | none =>
    have := hs.2.1 rfl
    have hc := hs.1
    rw [hb, he] at hc
    have : b1.data = [] := by cases hd : b1.data <;> simp_all
    simp_all
  | some err =>
    obtain ⟨h1, _, _⟩ := hs.2.2 err rfl
    subst h1
    exact ⟨b1, e1, rfl⟩

/-! ### a JSON stream that ends inside an object -/

/-- a frame cut short never closes its top-level object. -/
theorem scanPure_prefix_none (s : Scan) (m : Bytes) (i : Nat) (h : scanPure s m i = some (i + m.length))
    (k : Nat) (hk : k < m.length) : scanPure s (m.take k) i = none := by
  induction m generalizing s i k with
  | nil => simp at hk
  | cons c rest ih =>
    cases k with
    | zero => simp [scanPure]
    | succ k =>
      simp only [List.take_succ_cons]
      unfold scanPure at h
      rw [scanPure]
      cases hsb : scanByte s c with
      | done =>
        simp only [hsb, Option.some.injEq, List.length_cons] at h
        simp only [List.length_cons] at hk
        omega
      | unbalanced => simp [hsb] at h
      | cont s' =>
        simp only [hsb] at h ⊢
        exact ih _ (i + 1) (by rw [h]; simp only [List.length_cons]; congr 1; omega) k
          (by simpa using hk)

/-- the scanner loop over bytes on which the object never closes: an error with `n = 0`
(io.EOF only with everything that arrived still in the buffer). -/
theorem jsonLoop_never (W : Bytes) : ∀ (fuel i : Nat) (s : Scan) (e : Env) (b : Buf),
    b.data ++ e.data = W → scanPure s (W.drop i) i = none →
    ∃ dst err e', jsonLoop fuel i s e b = (⟨dst, 0, some err⟩, e') ∧ (err = .eof → dst.data = W) := by
  intro fuel
  induction fuel with
  | zero => intro i s e b _ _; exact ⟨b, .tooLarge, e, rfl, by intro h; cases h⟩
  | succ fuel ih =>
    intro i s e b hW hs
    unfold jsonLoop
    have hf := fill_spec e b i
    generalize fill e b i = r at hf
    obtain ⟨b1, res, e1⟩ := r
    simp only at hf
    obtain ⟨hc, hok, herr⟩ := hf
    rw [hW] at hc
    cases res with
    | some err =>
      obtain ⟨h1, hemp, _⟩ := herr err rfl
      rw [hemp, List.append_nil] at hc
      exact ⟨b1, err, e1, rfl, fun _ => hc⟩
    | none =>
      have hlt := hok rfl
      have hiW : i < W.length := by
        have : b1.data.length ≤ W.length := by rw [← hc]; simp
        omega
      have hget : b1.data[i]? = some W[i] := by
        have : (b1.data ++ e1.data)[i]? = W[i]? := by rw [hc]
        rw [List.getElem?_append_left hlt] at this
        rw [this]; simp [hiW]
      simp only [hget]
      have hd : W.drop i = W[i] :: W.drop (i + 1) := by
        rw [List.drop_eq_getElem_cons hiW]
      rw [hd] at hs
      unfold scanPure at hs
      split at hs <;> rename_i hsb <;> simp only [hsb]
      · simp at hs
      · exact ⟨b1, .unbalanced, e1, rfl, by intro h; cases h⟩
      · exact ih (i + 1) _ e1 b1 hc hs

/-- **Truncation law** of `CodecJSON`: if the bytes still to come are a proper prefix of a
frame, `ReadNext` reports an error with `n = 0` — never a message. -/
theorem json_truncated (e : Env) (b : Buf) (limit : Nat) (m : Bytes) (k : Nat)
    (hm : JsonFrame m) (hk2 : k < m.length) (hW : b.data ++ e.data = m.take k) :
    ∃ dst err e', jsonReadNext e b limit = (⟨dst, 0, some err⟩, e') ∧
      (err = .eof → dst.data = m.take k) := by
  have hn : scanPure scanInit ((m.take k).drop 0) 0 = none := by
    simpa using scanPure_prefix_none scanInit m 0 (by simpa [JsonFrame] using hm) k hk2
  exact jsonLoop_never (m.take k) limit 0 scanInit e b hW hn

def jsonSeq (limit : Nat) : Nat → List Nat → Env → Buf → List Bytes × Option RErr
  | 0, _, _, _ => ([], none)
  | k + 1, spares, e, b =>
    match jsonReadNext e b limit with
    | (⟨dst, n, none⟩, e') =>
      let r := jsonSeq limit k spares.tail e' ⟨dst.data.drop n, spares.headD 0⟩
      (dst.data.take n :: r.1, r.2)
    | (⟨_, _, some err⟩, _) => ([], some err)

/-- **Sequence law** for JSON streams. -/
theorem json_sequence (limit : Nat) (hl : 0 < limit) (ms : List Bytes) :
    ∀ (spares : List Nat) (e : Env) (b : Buf),
    (∀ m ∈ ms, m.length ≤ limit ∧ JsonFrame m) →
    b.data ++ e.data = (ms.map jsonWriteNext).flatten →
    jsonSeq limit (ms.length + 1) spares e b = (ms, some .eof) := by
  induction ms with
  | nil =>
    intro spares e b _ hW
    obtain ⟨dst, e', h⟩ := json_empty e b limit hl (by simpa using hW)
    simp [jsonSeq, h]
  | cons m ms ih =>
    intro spares e b hall hW
    have hm := hall m (by simp)
    obtain ⟨dst, e', h, ht, hd⟩ := json_frame e b limit m ((ms.map jsonWriteNext).flatten)
      (by simpa using hW) hm.2 hm.1
    have := ih spares.tail e' ⟨dst.data.drop m.length, spares.headD 0⟩
      (fun x hx => hall x (by simp [hx])) hd
    simp only [List.length_cons, jsonSeq, h, this, ht]

/-! ### HttpBody chunker -/

/-- one call: returns `min limit (bytes available)` bytes, which are the next bytes of the
stream; nothing is lost or reordered; io.EOF only comes with the final chunk. -/
theorem body_chunk (e : Env) (b : Buf) (limit : Nat) :
    let r := bodyReadNext e b limit
    r.1.dst.data ++ r.2.data = b.data ++ e.data ∧
    r.1.n ≤ limit ∧ r.1.n ≤ r.1.dst.data.length ∧
    (r.1.err = none → r.1.n = limit) ∧
    (r.1.err ≠ none → r.1.err = some .eof ∧ r.2.data = [] ∧ r.1.n = r.1.dst.data.length) := by
  unfold bodyReadNext
  fun_induction bodyLoop e b limit with
  | case1 e b h => simp; omega
  | case2 e b h hem r =>
    have hc := readMore_conserve e b
    have hemp := readMore_empty e b hem
    refine ⟨hc, ?_, by simp, by simp, ?_⟩
    · show r.1.data.length ≤ limit
      have : r.1.data = b.data := hemp.1
      rw [this]; omega
    · intro _; exact ⟨rfl, hemp.2, rfl⟩
  | case3 e b h hne r hflag hbig =>
    have hc := readMore_conserve e b
    refine ⟨hc, by simp, ?_, by simp, by simp⟩
    show limit ≤ r.1.data.length
    omega
  | case4 e b h hne r hflag hsmall =>
    have hc := readMore_conserve e b
    have hemp := readMore_eof_flag e b hflag
    refine ⟨hc, ?_, by simp, by simp, ?_⟩
    · show r.1.data.length ≤ limit; omega
    · intro _; exact ⟨rfl, hemp, rfl⟩
  | case5 e b h hne r hflag ih =>
    have hc := readMore_conserve e b
    refine ⟨by rw [ih.1]; exact hc, ih.2⟩

end Larking.Codec

namespace Larking.Codec

/-- `readAll`: a body within the limit is returned whole; one byte more is an error. -/
theorem readAllLoop_spec (e : Env) (b : Buf) (total limit : Nat) (htot : total ≤ limit) :
    (total + e.data.length ≤ limit →
      (readAllLoop e b total limit).2.1 = none ∧
      (readAllLoop e b total limit).1.data = b.data ++ e.data ∧
      (readAllLoop e b total limit).2.2.data = []) ∧
    (total + e.data.length > limit → (readAllLoop e b total limit).2.1 = some .tooLarge) := by
  fun_induction readAllLoop e b total limit with
  | case1 e b total hem r =>
    have he : e.data = [] := by simpa using hem
    have hemp := readMore_empty e b hem
    constructor
    · intro _; refine ⟨rfl, ?_, hemp.2⟩
      show r.1.data = _
      rw [hemp.1, he]; simp
    · intro h; rw [he] at h; simp at h; omega
  | case2 e b total hne r total' hbig =>
    have hc := readMore_conserve e b
    have hl : r.1.data.length + r.2.2.data.length = b.data.length + e.data.length := by
      rw [← List.length_append, ← List.length_append, hc]
    constructor
    · intro h
      have : total' = total + (r.1.data.length - b.data.length) := rfl
      omega
    · intro _; rfl
  | case3 e b total hne r total' hsmall hflag =>
    have hc := readMore_conserve e b
    have hemp := readMore_eof_flag e b hflag
    have hl : r.1.data.length + r.2.2.data.length = b.data.length + e.data.length := by
      rw [← List.length_append, ← List.length_append, hc]
    have ht : total' = total + (r.1.data.length - b.data.length) := rfl
    have hemp' : r.2.2.data = [] := hemp
    constructor
    · intro _; refine ⟨rfl, ?_, hemp⟩
      have : r.1.data ++ r.2.2.data = b.data ++ e.data := hc
      rw [hemp', List.append_nil] at this
      exact this
    · intro h
      rw [hemp'] at hl; simp at hl
      omega
  | case4 e b total hne r total' hsmall hflag ih =>
    have hc := readMore_conserve e b
    have hp := readMore_progress e b (by simpa using hne)
    have hl : r.1.data.length + r.2.2.data.length = b.data.length + e.data.length := by
      rw [← List.length_append, ← List.length_append, hc]
    have ht : total' = total + (r.1.data.length - b.data.length) := rfl
    have hp' : b.data.length < r.1.data.length := hp
    have ih' := ih (by omega)
    constructor
    · intro h
      obtain ⟨h1, h2, h3⟩ := ih'.1 (by omega)
      refine ⟨h1, ?_, h3⟩
      rw [h2]; exact hc
    · intro h
      exact ih'.2 (by omega)

theorem readAll_within (e : Env) (limit : Nat) (spare : Nat) (h : e.data.length ≤ limit) :
    (readAll e ⟨[], spare⟩ limit).2.1 = none ∧ (readAll e ⟨[], spare⟩ limit).1.data = e.data := by
  have := (readAllLoop_spec e ⟨[], spare⟩ 0 limit (by omega)).1 (by omega)
  exact ⟨this.1, by simpa [readAll] using this.2.1⟩

theorem readAll_over (e : Env) (limit : Nat) (spare : Nat) (h : e.data.length > limit) :
    (readAll e ⟨[], spare⟩ limit).2.1 = some .tooLarge :=
  (readAllLoop_spec e ⟨[], spare⟩ 0 limit (by omega)).2 (by omega)

end Larking.Codec
