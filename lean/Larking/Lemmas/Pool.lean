import Larking.Model.Pool
namespace Larking.Pool
open Larking.Registry (put)

theorem put_s {α : Type} (f : Nat → α) (k : Nat) (v : α) : put f k v k = v := by simp [put]
theorem put_o {α : Type} (f : Nat → α) (k k' : Nat) (v : α) (h : k' ≠ k) : put f k v k' = f k' := by
  simp [put, h]
theorem put2_s {α : Type} (f : Nat → Nat → α) (i k : Nat) (v : α) : put2 f i k v i k = v := by simp [put2]
theorem put2_o {α : Type} (f : Nat → Nat → α) (i k a b : Nat) (v : α) (h : ¬ (a = i ∧ b = k)) :
    put2 f i k v a b = f a b := by simp [put2, h]

/-- the discipline state of a request's slots, read off its row of the system state. -/
def stF (sl vw : Nat → Option Nat) : Nat → Nat := fun k =>
  match sl k with
  | none => 0
  | some _ => if (vw k).isSome then 2 else 1

theorem put2_row {α : Type} (f : Nat → Nat → α) (i k j : Nat) (v : α) (h : j ≠ i) : put2 f i k v j = f j := by
  funext b; simp [put2, h]

theorem stF_get (sl vw : Nat → Nat → Option Nat) (i k o : Nat) :
    stF (put2 sl i k (some o) i) (put2 vw i k none i) = put (stF (sl i) (vw i)) k 1 := by
  funext k'
  by_cases hk : k' = k
  · subst hk; simp [stF, put2, put]
  · simp [stF, put2, put, hk]

theorem stF_write (sl vw : Nat → Nat → Option Nat) (i k o v : Nat) (hs : sl i k = some o) :
    stF (sl i) (put2 vw i k (some v) i) = put (stF (sl i) (vw i)) k 2 := by
  funext k'
  by_cases hk : k' = k
  · subst hk; simp [stF, put2, put, hs]
  · simp [stF, put2, put, hk]

theorem stF_put (sl vw : Nat → Nat → Option Nat) (i k : Nat) :
    stF (put2 sl i k none i) (vw i) = put (stF (sl i) (vw i)) k 0 := by
  funext k'
  by_cases hk : k' = k
  · subst hk; simp [stF, put2, put]
  · simp [stF, put2, put, hk]

structure Inv (s : Sys) : Prop where
  alloc : ∀ i k o, s.slot i k = some o → o < s.next ∧ s.free o = false
  excl : ∀ i k j k' o, s.slot i k = some o → s.slot j k' = some o → i = j ∧ k = k'
  agree : ∀ i k o v, s.slot i k = some o → s.view i k = some v → s.objs o = v
  disc : ∀ i, disc (s.prog i) (stF (s.slot i) (s.view i)) = true
  reads : ∀ i, ∀ p ∈ s.log i, p.2 = some p.1
  freeAlloc : ∀ o, s.free o = true → o < s.next

theorem inv_init (progs : Nat → List Ev) (h : ∀ i, disc (progs i) (fun _ => 0) = true) :
    Inv (Sys.init progs) := by
  constructor <;> simp [Sys.init]
  intro i
  have : stF (fun _ => none) (fun _ => none) = fun _ => 0 := by funext k; simp [stF]
  rw [this]; exact h i

/-- a Get that hands request `i` the object `o` (free or fresh). -/
theorem get_inv (s : Sys) (i k o : Nat) (r : List Ev) (next' : Nat) (hi : Inv s) (hp : s.prog i = .get k :: r)
    (hnew : ∀ j k', s.slot j k' ≠ some o) (ho : o < next') (hn : s.next ≤ next')
    (hfree : ∀ o', o' ≠ o → s.free o' = true → o' < next') :
    Inv { s with prog := put s.prog i r, free := put s.free o false, next := next',
                 slot := put2 s.slot i k (some o), view := put2 s.view i k none } := by
  have hd := hi.disc i
  rw [hp] at hd
  simp only [disc, Bool.and_eq_true, beq_iff_eq] at hd
  constructor
  · intro j k' o' hs
    simp only [put2] at hs
    split at hs
    · injection hs with hs; subst hs; exact ⟨ho, put_s _ _ _⟩
    · have ⟨h1, h2⟩ := hi.alloc j k' o' hs
      have hne : o' ≠ o := fun he => hnew j k' (he ▸ hs)
      exact ⟨Nat.lt_of_lt_of_le h1 hn, by simp only; rw [put_o _ _ _ _ hne]; exact h2⟩
  · intro j k' j' k'' o' h1 h2
    simp only [put2] at h1 h2
    split at h1 <;> split at h2
    · rename_i a b; exact ⟨a.1.trans b.1.symm, a.2.trans b.2.symm⟩
    · injection h1 with h1; subst h1; exact absurd h2 (hnew j' k'')
    · injection h2 with h2; subst h2; exact absurd h1 (hnew j k')
    · exact hi.excl j k' j' k'' o' h1 h2
  · intro j k' o' v hs hv
    simp only [put2] at hs hv
    split at hs
    · rename_i hc; simp [hc] at hv
    · rename_i hc; simp only [hc, if_false] at hv; exact hi.agree j k' o' v hs hv
  · intro j
    by_cases hj : j = i
    · subst hj
      simp only [put_s, stF_get]
      exact hd.2
    · simp only [put_o _ _ _ _ hj, put2_row _ _ _ _ _ hj]
      exact hi.disc j
  · exact hi.reads
  · intro o' hf
    simp only at hf
    by_cases hne : o' = o
    · subst hne; rw [put_s] at hf; cases hf
    · rw [put_o _ _ _ _ hne] at hf; exact hfree o' hne hf

theorem stOf_pos (s : Sys) (i k : Nat) (h : stF (s.slot i) (s.view i) k ≠ 0) : ∃ o, s.slot i k = some o := by
  unfold stF at h
  cases hs : s.slot i k with
  | none => simp [hs] at h
  | some o => exact ⟨o, rfl⟩

theorem stOf_two (s : Sys) (i k : Nat) (h : stF (s.slot i) (s.view i) k = 2) : ∃ o v, s.slot i k = some o ∧ s.view i k = some v := by
  unfold stF at h
  cases hs : s.slot i k with
  | none => simp [hs] at h
  | some o =>
    cases hv : s.view i k with
    | none => simp [hs, hv] at h
    | some v => exact ⟨o, v, rfl, rfl⟩

theorem step_inv (s : Sys) (i choice : Nat) (hi : Inv s) : Inv (step s i choice) := by
  unfold step
  cases hp : s.prog i with
  | nil => simpa [hp] using hi
  | cons e r =>
    cases e with
    | get k =>
      simp only
      split
      · rename_i hc
        apply get_inv s i k choice r s.next hi hp
        · intro j k' hs; have := (hi.alloc j k' choice hs).2; rw [hc.2] at this; cases this
        · exact hc.1
        · exact Nat.le_refl _
        · intro o' _ hf; exact hi.freeAlloc o' hf
      · apply get_inv s i k s.next r (s.next + 1) hi hp
        · intro j k' hs; have := (hi.alloc j k' s.next hs).1; omega
        · omega
        · omega
        · intro o' _ hf; have := hi.freeAlloc o' hf; omega
    | write k v =>
      simp only
      have hd := hi.disc i
      rw [hp] at hd
      simp only [disc, Bool.and_eq_true, bne_iff_ne, ne_eq] at hd
      obtain ⟨o, hs⟩ := stOf_pos s i k hd.1
      simp only [hs]
      constructor
      · exact hi.alloc
      · exact hi.excl
      · intro j k' o' v' hs' hv'
        simp only [put2] at hv'
        simp only
        split at hv'
        · rename_i hc
          injection hv' with hv'; subst hv'
          rw [hc.1, hc.2, hs] at hs'; injection hs' with hs'; subst hs'
          exact put_s _ _ _
        · rename_i hc
          have hne : o' ≠ o := by
            intro he; subst he
            exact hc (hi.excl j k' i k o' hs' hs)
          rw [put_o _ _ _ _ hne]
          exact hi.agree j k' o' v' hs' hv'
      · intro j
        by_cases hj : j = i
        · subst hj
          simp only [put_s, stF_write _ _ _ _ _ _ hs]
          exact hd.2
        · simp only [put_o _ _ _ _ hj, put2_row _ _ _ _ _ hj]
          exact hi.disc j
      · exact hi.reads
      · exact hi.freeAlloc
    | read k =>
      simp only
      have hd := hi.disc i
      rw [hp] at hd
      simp only [disc, Bool.and_eq_true, beq_iff_eq] at hd
      obtain ⟨o, v, hs, hv⟩ := stOf_two s i k hd.1
      simp only [hs]
      constructor
      · exact hi.alloc
      · exact hi.excl
      · exact hi.agree
      · intro j
        by_cases hj : j = i
        · subst hj; simp only [put_s]; exact hd.2
        · simp only [put_o _ _ _ _ hj]; exact hi.disc j
      · intro j p hp'
        by_cases hj : j = i
        · subst hj
          simp only [put_s, List.mem_append, List.mem_singleton] at hp'
          rcases hp' with hp' | hp'
          · exact hi.reads j p hp'
          · subst hp'; simp only; rw [hv, hi.agree j k o v hs hv]
        · simp only [put_o _ _ _ _ hj] at hp'; exact hi.reads j p hp'
      · exact hi.freeAlloc
    | put k =>
      simp only
      have hd := hi.disc i
      rw [hp] at hd
      simp only [disc, Bool.and_eq_true, bne_iff_ne, ne_eq] at hd
      obtain ⟨o, hs⟩ := stOf_pos s i k hd.1
      simp only [hs]
      constructor
      · intro j k' o' hs'
        simp only [put2] at hs'
        split at hs'
        · cases hs'
        · rename_i hc
          have ⟨h1, h2⟩ := hi.alloc j k' o' hs'
          have hne : o' ≠ o := by
            intro he; subst he; exact hc (hi.excl j k' i k o' hs' hs)
          exact ⟨h1, by simp only; rw [put_o _ _ _ _ hne]; exact h2⟩
      · intro j k' j' k'' o' h1 h2
        simp only [put2] at h1 h2
        split at h1
        · cases h1
        · split at h2
          · cases h2
          · exact hi.excl j k' j' k'' o' h1 h2
      · intro j k' o' v hs' hv
        simp only [put2] at hs'
        split at hs'
        · cases hs'
        · exact hi.agree j k' o' v hs' hv
      · intro j
        by_cases hj : j = i
        · subst hj
          simp only [put_s, stF_put]
          exact hd.2
        · simp only [put_o _ _ _ _ hj, put2_row _ _ _ _ _ hj]
          exact hi.disc j
      · exact hi.reads
      · intro o' hf
        simp only at hf
        by_cases hne : o' = o
        · subst hne; exact (hi.alloc i k o' hs).1
        · rw [put_o _ _ _ _ hne] at hf; exact hi.freeAlloc o' hf
    | putKeep k =>
      have hd := hi.disc i
      rw [hp] at hd
      simp [disc] at hd
    | drop k =>
      simp only
      have hd := hi.disc i
      rw [hp] at hd
      simp only [disc, Bool.and_eq_true, bne_iff_ne, ne_eq] at hd
      constructor
      · intro j k' o' hs'
        simp only [put2] at hs'
        split at hs'
        · cases hs'
        · exact hi.alloc j k' o' hs'
      · intro j k' j' k'' o' h1 h2
        simp only [put2] at h1 h2
        split at h1
        · cases h1
        · split at h2
          · cases h2
          · exact hi.excl j k' j' k'' o' h1 h2
      · intro j k' o' v hs' hv
        simp only [put2] at hs'
        split at hs'
        · cases hs'
        · exact hi.agree j k' o' v hs' hv
      · intro j
        by_cases hj : j = i
        · subst hj
          simp only [put_s, stF_put]
          exact hd.2
        · simp only [put_o _ _ _ _ hj, put2_row _ _ _ _ _ hj]
          exact hi.disc j
      · exact hi.reads
      · exact hi.freeAlloc

/-- paths compose: a request is a sequence of calls. -/
theorem disc_append : ∀ (a b : List Ev) (st : Nat → Nat),
    disc (a ++ b) st = (disc a st && disc b (final a st)) := by
  intro a
  induction a with
  | nil => intro b st; simp [disc, final]
  | cons e r ih =>
    intro b st
    cases e <;> simp [disc, final, ih, Bool.and_assoc]

theorem disc_flatten (paths : List (List Ev)) (z : Nat → Nat)
    (h : ∀ p ∈ paths, disc p z = true ∧ final p z = z) : disc paths.flatten z = true := by
  induction paths with
  | nil => simp [disc]
  | cons p rest ih =>
    simp only [List.flatten_cons, disc_append, Bool.and_eq_true]
    obtain ⟨h1, h2⟩ := h p (by simp)
    refine ⟨h1, ?_⟩
    rw [h2]; exact ih (fun q hq => h q (by simp [hq]))

/-- gzipReader: whatever sequence of Reads follows (any number after io.EOF included), the
pooled reader is used only while held and returned at most once. -/
theorem gz_disciplined : ∀ (eofs : List Bool) (st : Nat → Nat), st 0 = 2 →
    disc (gzReads true eofs) st = true := by
  have hfalse : ∀ (eofs : List Bool) (st : Nat → Nat), disc (gzReads false eofs) st = true := by
    intro eofs
    induction eofs with
    | nil => intro st; simp [gzReads, disc]
    | cons e r ih => intro st; simp [gzReads, gzRead, ih]
  intro eofs
  induction eofs with
  | nil => intro st _; simp [gzReads, disc]
  | cons e r ih =>
    intro st h2
    cases e with
    | true =>
      simp only [gzReads, gzRead, Bool.not_true, Bool.false_eq_true, if_false, if_true, List.cons_append, List.nil_append,
        disc, h2, beq_self_eq_true, Bool.true_and, bne_iff_ne, ne_eq]
      simp [hfalse]
    | false =>
      simp only [gzReads, gzRead, Bool.not_true, Bool.false_eq_true, if_false, List.cons_append, List.nil_append,
        disc, h2, beq_self_eq_true, Bool.true_and]
      exact ih st h2

theorem run_inv : ∀ (sched : List (Nat × Nat)) (s : Sys), Inv s → Inv (run s sched) := by
  intro sched
  induction sched with
  | nil => intro s hi; exact hi
  | cons p rest ih => intro s hi; exact ih _ (step_inv s p.1 p.2 hi)

end Larking.Pool
