import Larking.Model.Streams
import Larking.Lemmas.JsonBody
namespace Larking.Streams
open Larking.Codec Larking.Status

/-! ### readExactly (io.ReadFull into a fresh buffer) -/

theorem readExactly_enough (e : Env) (n : Nat) (h : n ≤ e.data.length) :
    ∃ e', readExactly e n = (some (e.data.take n), none, e') ∧ e'.data = e.data.drop n := by
  unfold readExactly
  by_cases hn : n = 0
  · subst hn; exact ⟨e, by simp, by simp⟩
  · have hn' : (n == 0) = false := by simpa using hn
    simp only [hn', Bool.false_eq_true, if_false]
    have hne : e.data.isEmpty = false := by
      cases hd : e.data with
      | nil => simp [hd] at h; omega
      | cons _ _ => simp
    simp only [hne, Bool.false_eq_true, if_false]
    have hs := readFull_spec e ⟨[], n⟩ n
    generalize readFull e ⟨[], n⟩ n = r at hs
    obtain ⟨b, res, e'⟩ := r
    cases res with
    | some x => have := hs.1 x rfl; simp at this; omega
    | none =>
      obtain ⟨hc, _, hl⟩ := hs.2 rfl
      simp only [List.nil_append] at hc
      have hlen : b.data.length = n := hl (by simp)
      have := append_take_of_le b.data e'.data (e.data.take n) (e.data.drop n)
        (by rw [hc, List.take_append_drop]) (by simp; omega)
      simp only [List.length_take, Nat.min_eq_left h] at this
      refine ⟨e', ?_, ?_⟩
      · simp only
        rw [← this.1, ← hlen, List.take_length]
      · rw [← this.2, ← hlen, List.drop_length]; simp

theorem readExactly_empty (e : Env) (n : Nat) (hn : 0 < n) (he : e.data = []) :
    ∃ e', readExactly e n = (none, some .eof, e') ∧ e'.data = [] := by
  unfold readExactly
  have hn' : (n == 0) = false := by simp; omega
  simp [hn', he]

theorem readFull_err_kind (e : Env) (b : Buf) (n : Nat) (x : RErr) (h : (readFull e b n).2.1 = some x) :
    x = .unexpectedEOF := by
  fun_induction readFull e b n with
  | case1 e b hn => simp at h
  | case2 e b hn hem => simp at h; exact h.symm
  | case3 e b hn hne r ih => exact ih h

theorem readExactly_short (e : Env) (n : Nat) (h1 : 0 < e.data.length) (h2 : e.data.length < n) :
    ∃ e', readExactly e n = (none, some .unexpectedEOF, e') := by
  unfold readExactly
  have hn' : (n == 0) = false := by simp; omega
  have hne : e.data.isEmpty = false := by
    cases hd : e.data with
    | nil => simp [hd] at h1
    | cons _ _ => simp
  simp only [hn', hne, Bool.false_eq_true, if_false]
  have hs := readFull_spec e ⟨[], n⟩ n
  have hk := readFull_err_kind e ⟨[], n⟩ n
  generalize readFull e ⟨[], n⟩ n = r at hs hk
  obtain ⟨b, res, e'⟩ := r
  cases res with
  | some x => have := hk x rfl; subst this; exact ⟨e', rfl⟩
  | none =>
    obtain ⟨hc, hl, _⟩ := hs.2 rfl
    have : (b.data ++ e'.data).length = e.data.length := by rw [hc]; simp
    simp at this hl; omega

/-! ### gRPC frames -/

theorem be32_size (n : Nat) (h : n < 4294967296) :
    (UInt8.ofNat (n / 16777216 % 256)).toNat * 16777216 + (UInt8.ofNat (n / 65536 % 256)).toNat * 65536 +
      (UInt8.ofNat (n / 256 % 256)).toNat * 256 + (UInt8.ofNat (n % 256)).toNat = n := by
  rw [ofNat_toNat_lt (by omega), ofNat_toNat_lt (by omega), ofNat_toNat_lt (by omega), ofNat_toNat_lt (by omega)]
  omega

/-- **gRPC frame law**: a complete uncompressed frame within the limit is delivered exactly and
the reader is left at the next frame — for every read schedule. -/
theorem grpc_frame (gunzip) (maxRecv : Nat) (e : Env) (flag : UInt8) (m rest : Bytes)
    (hflag : flag ≠ 1) (hW : e.data = frame flag m ++ rest) (hlim : m.length ≤ maxRecv)
    (h32 : m.length < 4294967296) :
    ∃ e', grpcRecv gunzip maxRecv e = (.msg m, e') ∧ e'.data = rest := by
  unfold grpcRecv
  have hlen5 : 5 ≤ e.data.length := by rw [hW]; simp [frame, be32]
  obtain ⟨e1, h1, hd1⟩ := readExactly_enough e 5 hlen5
  rw [h1]
  have htake : e.data.take 5 = flag :: be32 m.length := by rw [hW]; simp [frame, be32]
  have hdrop : e.data.drop 5 = m ++ rest := by rw [hW]; simp [frame, be32]
  simp only [htake, be32]
  rw [be32_size m.length h32]
  have hnot : ¬ (m.length > maxRecv) := by omega
  simp only [hnot, if_false]
  obtain ⟨e2, h2, hd2⟩ := readExactly_enough e1 m.length (by rw [hd1, hdrop]; simp)
  rw [h2]
  have hf : (flag == 1) = false := by simpa using hflag
  simp only [hf, Bool.false_eq_true, if_false]
  refine ⟨e2, ?_, ?_⟩
  · rw [hd1, hdrop]; simp
  · rw [hd2, hd1, hdrop]; simp

/-- a compressed frame: the decompressed message is delivered iff it is within the limit. -/
theorem grpc_frame_compressed (gz : Bytes → Option Bytes) (maxRecv : Nat) (e : Env) (z plain rest : Bytes)
    (hW : e.data = frame 1 z ++ rest) (hz : z.length ≤ maxRecv) (h32 : z.length < 4294967296)
    (hgz : gz z = some plain) :
    ∃ e', grpcRecv (some gz) maxRecv e =
        (if plain.length > maxRecv then .err .tooLarge else .msg plain, e') ∧ e'.data = rest := by
  unfold grpcRecv
  have hlen5 : 5 ≤ e.data.length := by rw [hW]; simp [frame, be32]
  obtain ⟨e1, h1, hd1⟩ := readExactly_enough e 5 hlen5
  rw [h1]
  have htake : e.data.take 5 = 1 :: be32 z.length := by rw [hW]; simp [frame, be32]
  have hdrop : e.data.drop 5 = z ++ rest := by rw [hW]; simp [frame, be32]
  simp only [htake, be32]
  rw [be32_size z.length h32]
  have hnot : ¬ (z.length > maxRecv) := by omega
  simp only [hnot, if_false]
  obtain ⟨e2, h2, hd2⟩ := readExactly_enough e1 z.length (by rw [hd1, hdrop]; simp)
  rw [h2]
  have htz : (e1.data.take z.length) = z := by rw [hd1, hdrop]; simp
  simp only [htz, beq_self_eq_true, if_true, hgz]
  refine ⟨e2, ?_, ?_⟩
  · split <;> rfl
  · rw [hd2, hd1, hdrop]; simp

/-- a frame announcing more than the limit is refused before its payload is read. -/
theorem grpc_over_limit (gunzip) (maxRecv : Nat) (e : Env) (flag : UInt8) (size : Nat) (tail : Bytes)
    (hW : e.data = flag :: be32 size ++ tail) (h32 : size < 4294967296) (hbig : size > maxRecv) :
    ∃ e', grpcRecv gunzip maxRecv e = (.err .tooLarge, e') := by
  unfold grpcRecv
  have hlen5 : 5 ≤ e.data.length := by rw [hW]; simp [be32]
  obtain ⟨e1, h1, hd1⟩ := readExactly_enough e 5 hlen5
  rw [h1]
  have htake : e.data.take 5 = flag :: be32 size := by rw [hW]; simp [be32]
  simp only [htake, be32]
  rw [be32_size size h32]
  simp only [hbig, if_true]
  exact ⟨e1, rfl⟩

/-- clean end of a gRPC stream. -/
theorem grpc_empty (gunzip) (maxRecv : Nat) (e : Env) (h : e.data = []) :
    ∃ e', grpcRecv gunzip maxRecv e = (.eof, e') ∧ e'.data = [] := by
  unfold grpcRecv
  obtain ⟨e1, h1, hd1⟩ := readExactly_empty e 5 (by omega) h
  rw [h1]; exact ⟨e1, rfl, hd1⟩

/-- **gRPC sequence law**: frames written one after the other are delivered one by one, in
order, followed by a clean end. -/
theorem grpc_sequence (gunzip) (maxRecv : Nat) (ms : List Bytes) :
    ∀ (e : Env), (∀ m ∈ ms, m.length ≤ maxRecv ∧ m.length < 4294967296) →
    e.data = (ms.map (frame 0)).flatten →
    grpcRecvAll gunzip maxRecv (ms.length + 1) e = ms.map .msg ++ [.eof] := by
  induction ms with
  | nil =>
    intro e _ hW
    obtain ⟨e', h, _⟩ := grpc_empty gunzip maxRecv e (by simpa using hW)
    simp [grpcRecvAll, h]
  | cons m ms ih =>
    intro e hall hW
    have hm := hall m (by simp)
    obtain ⟨e', h, hd⟩ := grpc_frame gunzip maxRecv e 0 m ((ms.map (frame 0)).flatten) (by decide)
      (by simpa using hW) hm.1 hm.2
    have := ih e' (fun x hx => hall x (by simp [hx])) hd
    simp only [List.length_cons, grpcRecvAll, h, this, List.map_cons, List.cons_append]

/-- a stream that ends inside a frame (after ≥ 1 byte of it) never yields that frame: the
result is an error, not a message and not a clean end. -/
theorem grpc_truncated (gunzip) (maxRecv : Nat) (e : Env) (flag : UInt8) (m : Bytes) (k : Nat)
    (hk1 : 0 < k) (hk2 : k < (frame flag m).length) (hW : e.data = (frame flag m).take k)
    (hlim : m.length ≤ maxRecv) (h32 : m.length < 4294967296) :
    ∃ x e', grpcRecv gunzip maxRecv e = (.err x, e') := by
  unfold grpcRecv
  have hfl : (frame flag m).length = 5 + m.length := by simp [frame, be32]; omega
  have hel : e.data.length = k := by rw [hW]; simp; omega
  by_cases h5 : k < 5
  · obtain ⟨e1, h1⟩ := readExactly_short e 5 (by omega) (by omega)
    rw [h1]
    exact ⟨_, e1, rfl⟩
  · obtain ⟨e1, h1, hd1⟩ := readExactly_enough e 5 (by omega)
    rw [h1]
    have htake : e.data.take 5 = flag :: be32 m.length := by
      rw [hW, List.take_take]
      have : min 5 k = 5 := by omega
      rw [this]; simp [frame, be32]
    simp only [htake, be32]
    rw [be32_size m.length h32]
    have hnot : ¬ (m.length > maxRecv) := by omega
    simp only [hnot, if_false]
    have hl1 : e1.data.length = k - 5 := by rw [hd1]; simp; omega
    by_cases he : e1.data.length = 0
    · have hm : 0 < m.length := by omega
      obtain ⟨e2, h2, _⟩ := readExactly_empty e1 m.length hm (by
        cases hd : e1.data with
        | nil => rfl
        | cons _ _ => simp [hd] at he)
      rw [h2]; exact ⟨_, e2, rfl⟩
    · obtain ⟨e2, h2⟩ := readExactly_short e1 m.length (by omega) (by omega)
      rw [h2]; exact ⟨_, e2, rfl⟩

/-- **gRPC truncation law**: complete frames followed by a frame cut short (inside its header or
its payload) are delivered as exactly the complete messages, in order, followed by an error —
never a partial or fabricated message, never a clean end. -/
theorem grpc_sequence_truncated (gunzip) (maxRecv : Nat) (flag : UInt8) (m : Bytes) (k : Nat)
    (hk1 : 0 < k) (hk2 : k < (frame flag m).length) (hlim : m.length ≤ maxRecv)
    (h32 : m.length < 4294967296) (ms : List Bytes) :
    ∀ (e : Env), (∀ m ∈ ms, m.length ≤ maxRecv ∧ m.length < 4294967296) →
    e.data = (ms.map (frame 0)).flatten ++ (frame flag m).take k →
    ∃ x, grpcRecvAll gunzip maxRecv (ms.length + 1) e = ms.map .msg ++ [.err x] := by
  induction ms with
  | nil =>
    intro e _ hW
    obtain ⟨x, e', h⟩ := grpc_truncated gunzip maxRecv e flag m k hk1 hk2 (by simpa using hW) hlim h32
    exact ⟨x, by simp [grpcRecvAll, h]⟩
  | cons m0 ms ih =>
    intro e hall hW
    have hm := hall m0 (by simp)
    obtain ⟨e', h, hd⟩ := grpc_frame gunzip maxRecv e 0 m0
      ((ms.map (frame 0)).flatten ++ (frame flag m).take k) (by decide)
      (by simpa using hW) hm.1 hm.2
    obtain ⟨x, hx⟩ := ih e' (fun y hy => hall y (by simp [hy])) hd
    exact ⟨x, by simp only [List.length_cons, grpcRecvAll, h, hx, List.map_cons, List.cons_append]⟩

/-- what `SendMsg` writes for a list of replies (those over the send limit are refused and
write nothing). -/
def grpcSendAll (maxSend : Nat) (ms : List Bytes) : Bytes :=
  (ms.filterMap (grpcSend none maxSend)).flatten

theorem grpcSendAll_within (maxSend : Nat) (ms : List Bytes) (h : ∀ m ∈ ms, m.length ≤ maxSend) :
    grpcSendAll maxSend ms = (ms.map (frame 0)).flatten := by
  unfold grpcSendAll
  congr 1
  induction ms with
  | nil => rfl
  | cons m ms ih =>
    have hm : ¬ m.length > maxSend := by have := h m (by simp); omega
    simp only [List.filterMap_cons, grpcSend, hm, if_false, List.map_cons]
    rw [ih (fun x hx => h x (by simp [hx]))]

/-- **gRPC reply sequence**: a peer reading what `SendMsg` wrote for the handler's replies with
the same frame reader receives exactly those replies, in order, then the end of the data
(where the trailers / trailer frame carry the final status). -/
theorem grpc_reply_sequence (maxSend clientMax : Nat) (ms : List Bytes) (e : Env)
    (hall : ∀ m ∈ ms, m.length ≤ maxSend ∧ m.length ≤ clientMax ∧ m.length < 4294967296)
    (hW : e.data = grpcSendAll maxSend ms) :
    grpcRecvAll none clientMax (ms.length + 1) e = ms.map .msg ++ [.eof] := by
  rw [grpcSendAll_within maxSend ms (fun m hm => (hall m hm).1)] at hW
  exact grpc_sequence none clientMax ms e (fun m hm => ⟨(hall m hm).2.1, (hall m hm).2.2⟩) hW

/-! ### the client's view of a reply body -/

theorem unbe32_be32 (n : Nat) (h : n < 4294967296) : unbe32 (be32 n) = some n := by
  simp only [be32, unbe32]
  rw [be32_size n h]

theorem deframe_step (fuel : Nat) (flag : UInt8) (p rest : Bytes) (h : p.length < 4294967296) :
    deframe (fuel + 1) (frame flag p ++ rest) = (deframe fuel rest).map (fun fs => (flag, p) :: fs) := by
  have e : frame flag p ++ rest = flag :: (be32 p.length ++ (p ++ rest)) := by simp [frame]
  rw [e, deframe]
  have h4 : (be32 p.length ++ (p ++ rest)).take 4 = be32 p.length := by simp [be32]
  have hd4 : (be32 p.length ++ (p ++ rest)).drop 4 = p ++ rest := by simp [be32]
  simp only [h4, hd4, unbe32_be32 _ h]
  simp
  intro hh; omega

/-- **frame stream law**: frames written one after the other split back into exactly those
frames (flag and payload), for payloads below 2^32 bytes. -/
theorem deframe_frames (fs : List (UInt8 × Bytes)) (h : ∀ f ∈ fs, f.2.length < 4294967296) :
    deframe fs.length (fs.map (fun f => frame f.1 f.2)).flatten = some fs := by
  induction fs with
  | nil => simp [deframe]
  | cons f fs ih =>
    have hf := h f (by simp)
    have ih' := ih (fun g hg => h g (by simp [hg]))
    simp only [List.map_cons, List.flatten_cons, List.length_cons]
    rw [deframe_step _ _ _ _ hf, ih']; rfl

/-- **gRPC-web reply**: the body written for the handler's replies followed by the trailer
frame (flag 0x80) splits, on the client, into exactly those replies in order and then the
trailer block that carries the final status. -/
theorem web_reply_sequence (maxSend : Nat) (ms : List Bytes) (trailer : Bytes)
    (hall : ∀ m ∈ ms, m.length ≤ maxSend ∧ m.length < 4294967296) (ht : trailer.length < 4294967296) :
    deframe (ms.length + 1) (grpcSendAll maxSend ms ++ frame 128 trailer)
      = some (ms.map (fun m => (0, m)) ++ [(128, trailer)]) := by
  rw [grpcSendAll_within maxSend ms (fun m hm => (hall m hm).1)]
  have := deframe_frames (ms.map (fun m => ((0 : UInt8), m)) ++ [(128, trailer)]) (by
    intro f hf
    simp only [List.mem_append, List.mem_map, List.mem_singleton] at hf
    rcases hf with ⟨m, hm, rfl⟩ | rfl
    · exact (hall m hm).2
    · exact ht)
  simpa [List.map_append, List.flatten_append, Function.comp_def] using this

/-! ### sending -/

/-- a reply within the send limit is framed (never refused on size grounds), one over it is
refused. -/
theorem grpc_send_limit (maxSend : Nat) (payload : Bytes) :
    (payload.length ≤ maxSend → grpcSend none maxSend payload = some (frame 0 payload)) ∧
    (payload.length > maxSend → grpcSend none maxSend payload = none) := by
  unfold grpcSend
  constructor
  · intro h; have : ¬ payload.length > maxSend := by omega
    simp [this]
  · intro h; simp [h]

end Larking.Streams

namespace Larking.Streams
open Larking.Codec

/-! ### HTTP client streams (`readMsg` over the stream codecs) -/

theorem take_len_le {α} (l m : List α) (k : Nat) (h : l.take k = m) (hk : m.length = k) : k ≤ l.length := by
  have : (l.take k).length = k := by rw [h, hk]
  simp at this; omega

/-- one message off a length-delimited protobuf stream. -/
theorem readMsg_proto_frame (limit spare : Nat) (s : HS) (m rest : Bytes)
    (hE : s.rEOF = false) (hW : s.rbuf ++ s.env.data = protoWriteNext m ++ rest)
    (hlim : m.length ≤ limit) (hint : m.length ≤ maxInt) :
    ∃ s', readMsg .proto limit spare s = (.msg m, s') ∧ s'.rEOF = false ∧
      s'.rbuf ++ s'.env.data = rest ∧ s'.recvCount = s.recvCount + 1 := by
  obtain ⟨dst, e', h, ht, hd⟩ := proto_frame s.env ⟨s.rbuf, spare⟩ limit m rest hW hlim hint
  have hle : m.length ≤ dst.data.length := take_len_le _ _ _ ht rfl
  unfold readMsg
  simp only [hE, Bool.false_eq_true, if_false, readNextK, h, finishRead]
  have : ¬ (m.length > dst.data.length) := by omega
  simp only [this, if_false, ht]
  exact ⟨_, rfl, rfl, hd, rfl⟩

theorem readMsg_proto_end (limit spare : Nat) (s : HS) (hE : s.rEOF = false)
    (hW : s.rbuf ++ s.env.data = []) :
    ∃ s', readMsg .proto limit spare s = (.eof, s') ∧ s'.rEOF = true := by
  obtain ⟨dst, e', h, hd⟩ := proto_empty s.env ⟨s.rbuf, spare⟩ limit hW
  have hdst : dst.data = [] := by cases hx : dst.data <;> simp_all
  unfold readMsg
  simp only [hE, Bool.false_eq_true, if_false, readNextK, h, finishRead, hdst]
  simp

/-- **HTTP length-delimited protobuf stream**: the handler receives exactly the client's
messages, in order, then a clean end of stream — for every fragmentation of the body. -/
theorem http_recv_sequence_proto (limit : Nat) (ms : List Bytes) :
    ∀ (spares : List Nat) (s : HS), s.rEOF = false →
    (∀ m ∈ ms, m.length ≤ limit ∧ m.length ≤ maxInt) →
    s.rbuf ++ s.env.data = (ms.map protoWriteNext).flatten →
    recvAll .proto limit (ms.length + 1) spares s = ms.map .msg ++ [.eof] := by
  induction ms with
  | nil =>
    intro spares s hE _ hW
    obtain ⟨s', h, _⟩ := readMsg_proto_end limit (spares.headD 0) s hE (by simpa using hW)
    simp only [List.length_nil, Nat.zero_add, recvAll, recvMsgHttp, h]
    simp
  | cons m ms ih =>
    intro spares s hE hall hW
    have hm := hall m (by simp)
    obtain ⟨s', h, hE', hW', _⟩ := readMsg_proto_frame limit (spares.headD 0) s m
      ((ms.map protoWriteNext).flatten) hE (by simpa using hW) hm.1 hm.2
    have := ih spares.tail s' hE' (fun x hx => hall x (by simp [hx])) hW'
    simp only [List.length_cons, recvAll, recvMsgHttp, h, this, List.map_cons, List.cons_append]

/-- a length-delimited protobuf stream that ends inside a message: an error, not a message
and not a clean end. -/
theorem readMsg_proto_truncated (limit spare : Nat) (s : HS) (m : Bytes) (k : Nat)
    (hE : s.rEOF = false) (hk1 : 0 < k) (hk2 : k < (protoWriteNext m).length)
    (hW : s.rbuf ++ s.env.data = (protoWriteNext m).take k)
    (hlim : m.length ≤ limit) (hint : m.length ≤ maxInt) :
    ∃ x s', readMsg .proto limit spare s = (.err x, s') := by
  obtain ⟨dst, err, e', h, hne⟩ := proto_truncated s.env ⟨s.rbuf, spare⟩ limit m k hk1 hk2 hW hlim hint
  unfold readMsg
  simp only [hE, Bool.false_eq_true, if_false, readNextK, h, finishRead]
  have h0 : ¬ (0 > dst.data.length) := by omega
  simp only [h0, if_false]
  cases err with
  | eof =>
    have := hne rfl
    have h1 : ¬ ((0:Nat) > 0) := by omega
    simp only [h1, if_false, this, if_true]
    exact ⟨_, _, rfl⟩
  | unexpectedEOF => exact ⟨_, _, rfl⟩
  | tooLarge => exact ⟨_, _, rfl⟩
  | parse => exact ⟨_, _, rfl⟩
  | unbalanced => exact ⟨_, _, rfl⟩
  | other => exact ⟨_, _, rfl⟩

/-- **HTTP truncation law** (length-delimited protobuf): a body that ends in the middle of a
message yields the preceding complete messages, in order, followed by an error — never a
fabricated or partial message, never a clean end — for every fragmentation of the body. -/
theorem http_recv_truncated_proto (limit : Nat) (m : Bytes) (k : Nat)
    (hk1 : 0 < k) (hk2 : k < (protoWriteNext m).length)
    (hlim : m.length ≤ limit) (hint : m.length ≤ maxInt) (ms : List Bytes) :
    ∀ (spares : List Nat) (s : HS), s.rEOF = false →
    (∀ m ∈ ms, m.length ≤ limit ∧ m.length ≤ maxInt) →
    s.rbuf ++ s.env.data = (ms.map protoWriteNext).flatten ++ (protoWriteNext m).take k →
    ∃ x, recvAll .proto limit (ms.length + 1) spares s = ms.map .msg ++ [.err x] := by
  induction ms with
  | nil =>
    intro spares s hE _ hW
    obtain ⟨x, s', h⟩ := readMsg_proto_truncated limit (spares.headD 0) s m k hE hk1 hk2
      (by simpa using hW) hlim hint
    exact ⟨x, by simp only [List.length_nil, Nat.zero_add, recvAll, recvMsgHttp, h]; simp⟩
  | cons m0 ms ih =>
    intro spares s hE hall hW
    have hm := hall m0 (by simp)
    obtain ⟨s', h, hE', hW', _⟩ := readMsg_proto_frame limit (spares.headD 0) s m0
      ((ms.map protoWriteNext).flatten ++ (protoWriteNext m).take k) hE (by simpa using hW) hm.1 hm.2
    obtain ⟨x, hx⟩ := ih spares.tail s' hE' (fun y hy => hall y (by simp [hy])) hW'
    exact ⟨x, by simp only [List.length_cons, recvAll, recvMsgHttp, h, hx, List.map_cons, List.cons_append]⟩

theorem readMsg_json_frame (limit spare : Nat) (s : HS) (m rest : Bytes)
    (hE : s.rEOF = false) (hW : s.rbuf ++ s.env.data = jsonWriteNext m ++ rest)
    (hm : JsonFrame m) (hlim : m.length ≤ limit) :
    ∃ s', readMsg .json limit spare s = (.msg m, s') ∧ s'.rEOF = false ∧
      s'.rbuf ++ s'.env.data = rest ∧ s'.recvCount = s.recvCount + 1 := by
  obtain ⟨dst, e', h, ht, hd⟩ := json_frame s.env ⟨s.rbuf, spare⟩ limit m rest hW hm hlim
  have hle : m.length ≤ dst.data.length := take_len_le _ _ _ ht rfl
  unfold readMsg
  simp only [hE, Bool.false_eq_true, if_false, readNextK, h, finishRead]
  have : ¬ (m.length > dst.data.length) := by omega
  simp only [this, if_false, ht]
  exact ⟨_, rfl, rfl, hd, rfl⟩

theorem json_empty' (e : Env) (b : Buf) (limit : Nat) (hl : 0 < limit) (h : b.data ++ e.data = []) :
    ∃ dst e', jsonReadNext e b limit = (⟨dst, 0, some .eof⟩, e') ∧ dst.data = [] := by
  obtain ⟨dst, e', hj⟩ := json_empty e b limit hl h
  refine ⟨dst, e', hj, ?_⟩
  have hb : b.data = [] := by cases hd : b.data <;> simp_all
  have he : e.data = [] := by cases hd : e.data <;> simp_all
  -- nothing was read
  obtain ⟨k, rfl⟩ : ∃ k, limit = k + 1 := ⟨limit - 1, by omega⟩
  unfold jsonReadNext jsonLoop at hj
  have hs := fill_spec e b 0
  generalize fill e b 0 = r at hs hj
  obtain ⟨b1, res, e1⟩ := r
  simp only at hs
  cases res with
  | none =>
    have := hs.2.1 rfl
    have hc := hs.1
    rw [hb, he] at hc
    have : b1.data = [] := by cases hd : b1.data <;> simp_all
    simp_all
  | some err =>
    simp only at hj
    injection hj with h1 h2
    injection h1 with hdst _ _
    have hc := hs.1
    rw [hb, he] at hc
    rw [← hdst]
    cases hd : b1.data <;> simp_all

theorem readMsg_json_end (limit spare : Nat) (s : HS) (hl : 0 < limit) (hE : s.rEOF = false)
    (hW : s.rbuf ++ s.env.data = []) :
    ∃ s', readMsg .json limit spare s = (.eof, s') ∧ s'.rEOF = true := by
  obtain ⟨dst, e', h, hdst⟩ := json_empty' s.env ⟨s.rbuf, spare⟩ limit hl hW
  unfold readMsg
  simp only [hE, Bool.false_eq_true, if_false, readNextK, h, finishRead, hdst]
  simp

/-- **HTTP JSON stream**: same law for concatenated JSON objects. -/
theorem http_recv_sequence_json (limit : Nat) (hl : 0 < limit) (ms : List Bytes) :
    ∀ (spares : List Nat) (s : HS), s.rEOF = false →
    (∀ m ∈ ms, m.length ≤ limit ∧ JsonFrame m) →
    s.rbuf ++ s.env.data = (ms.map jsonWriteNext).flatten →
    recvAll .json limit (ms.length + 1) spares s = ms.map .msg ++ [.eof] := by
  induction ms with
  | nil =>
    intro spares s hE _ hW
    obtain ⟨s', h, _⟩ := readMsg_json_end limit (spares.headD 0) s hl hE (by simpa using hW)
    simp only [List.length_nil, Nat.zero_add, recvAll, recvMsgHttp, h]
    simp
  | cons m ms ih =>
    intro spares s hE hall hW
    have hm := hall m (by simp)
    obtain ⟨s', h, hE', hW', _⟩ := readMsg_json_frame limit (spares.headD 0) s m
      ((ms.map jsonWriteNext).flatten) hE (by simpa using hW) hm.2 hm.1
    have := ih spares.tail s' hE' (fun x hx => hall x (by simp [hx])) hW'
    simp only [List.length_cons, recvAll, recvMsgHttp, h, this, List.map_cons, List.cons_append]

/-- a JSON stream that ends inside an object: an error, not a message and not a clean end. -/
theorem readMsg_json_truncated (limit spare : Nat) (s : HS) (m : Bytes) (k : Nat)
    (hE : s.rEOF = false) (hm : JsonFrame m) (hk1 : 0 < k) (hk2 : k < m.length)
    (hW : s.rbuf ++ s.env.data = (jsonWriteNext m).take k) :
    ∃ x s', readMsg .json limit spare s = (.err x, s') := by
  obtain ⟨dst, err, e', h, hne⟩ := json_truncated s.env ⟨s.rbuf, spare⟩ limit m k hm hk2 hW
  unfold readMsg
  simp only [hE, Bool.false_eq_true, if_false, readNextK, h, finishRead]
  have h0 : ¬ (0 > dst.data.length) := by omega
  simp only [h0, if_false]
  cases err with
  | eof =>
    have hl : 0 < dst.data.length := by rw [hne rfl]; simp; omega
    have h1 : ¬ ((0:Nat) > 0) := by omega
    simp only [h1, if_false, hl, if_true]
    exact ⟨_, _, rfl⟩
  | unexpectedEOF => exact ⟨_, _, rfl⟩
  | tooLarge => exact ⟨_, _, rfl⟩
  | parse => exact ⟨_, _, rfl⟩
  | unbalanced => exact ⟨_, _, rfl⟩
  | other => exact ⟨_, _, rfl⟩

/-- **HTTP truncation law** (JSON): complete objects followed by one cut short are delivered
as exactly the complete messages followed by an error. -/
theorem http_recv_truncated_json (limit : Nat) (m : Bytes) (k : Nat)
    (hm : JsonFrame m) (hk1 : 0 < k) (hk2 : k < m.length) (ms : List Bytes) :
    ∀ (spares : List Nat) (s : HS), s.rEOF = false →
    (∀ m ∈ ms, m.length ≤ limit ∧ JsonFrame m) →
    s.rbuf ++ s.env.data = (ms.map jsonWriteNext).flatten ++ (jsonWriteNext m).take k →
    ∃ x, recvAll .json limit (ms.length + 1) spares s = ms.map .msg ++ [.err x] := by
  induction ms with
  | nil =>
    intro spares s hE _ hW
    obtain ⟨x, s', h⟩ := readMsg_json_truncated limit (spares.headD 0) s m k hE hm hk1 hk2
      (by simpa using hW)
    exact ⟨x, by simp only [List.length_nil, Nat.zero_add, recvAll, recvMsgHttp, h]; simp⟩
  | cons m0 ms ih =>
    intro spares s hE hall hW
    have hm0 := hall m0 (by simp)
    obtain ⟨s', h, hE', hW', _⟩ := readMsg_json_frame limit (spares.headD 0) s m0
      ((ms.map jsonWriteNext).flatten ++ (jsonWriteNext m).take k) hE (by simpa using hW) hm0.2 hm0.1
    obtain ⟨x, hx⟩ := ih spares.tail s' hE' (fun y hy => hall y (by simp [hy])) hW'
    exact ⟨x, by simp only [List.length_cons, recvAll, recvMsgHttp, h, hx, List.map_cons, List.cons_append]⟩

theorem finishRead_safe (s1 : HS) (r : Result) (e' : Env) (limit : Nat)
    (h1 : r.n ≤ r.dst.data.length) (h2 : r.n ≤ limit) :
    (finishRead s1 r e').1 ≠ .panic ∧ ∀ b, (finishRead s1 r e').1 = .msg b → b.length ≤ limit := by
  unfold finishRead
  have hnot : ¬ (r.n > r.dst.data.length) := by omega
  simp only [hnot, if_false]
  cases hre : r.err with
  | none =>
    simp only
    refine ⟨by simp, ?_⟩
    intro b hb; injection hb with hb; subst hb; simp; omega
  | some x =>
    cases x with
    | eof =>
      simp only
      split
      · refine ⟨by simp, ?_⟩
        intro b hb; injection hb with hb; subst hb; simp; omega
      · split <;> simp
    | unexpectedEOF => simp
    | tooLarge => simp
    | parse => simp
    | unbalanced => simp
    | other => simp

/-- `readMsg` never hands the handler more than `limit` bytes as one message (C08), never
panics (C09), and after io.EOF was seen it only ever reports the end of the stream. -/
theorem readMsg_safe (k : CodecK) (limit spare : Nat) (s : HS) :
    (readMsg k limit spare s).1 ≠ .panic ∧
    (∀ b, (readMsg k limit spare s).1 = .msg b → b.length ≤ limit) ∧
    (s.rEOF = true → (readMsg k limit spare s).1 = .eof) := by
  unfold readMsg
  by_cases hE : s.rEOF = true
  · simp [hE]
  · have hE' : s.rEOF = false := by simpa using hE
    simp only [hE', Bool.false_eq_true, if_false]
    refine ⟨?_, ?_, by simp⟩
    all_goals
      cases k
      · obtain ⟨r, e', h, hn, herr, hlim⟩ := proto_safe s.env ⟨s.rbuf, spare⟩ limit
        simp only [readNextK, h]
        have h2 : r.n ≤ limit := by
          cases hre : r.err with
          | none => exact hlim hre
          | some x => have := herr (by simp [hre]); omega
        first
        | exact (finishRead_safe _ r e' limit hn h2).1
        | exact (finishRead_safe _ r e' limit hn h2).2
      · have hs := json_safe s.env ⟨s.rbuf, spare⟩ limit
        simp only [readNextK]
        first
        | exact (finishRead_safe _ _ _ limit hs.1 hs.2.1).1
        | exact (finishRead_safe _ _ _ limit hs.1 hs.2.1).2
      · have hs := body_chunk s.env ⟨s.rbuf, spare⟩ limit
        simp only [readNextK]
        first
        | exact (finishRead_safe _ _ _ limit hs.2.2.1 hs.2.1).1
        | exact (finishRead_safe _ _ _ limit hs.2.2.1 hs.2.1).2

end Larking.Streams
