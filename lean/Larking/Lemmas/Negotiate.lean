import Larking.Model.Negotiate
namespace Larking.Negotiate

def pairs (offers : List Bytes) (specs : List Spec) : List (Bytes × Spec) :=
  offers.flatMap fun o => specs.map fun s => (o, s)

theorem fold_pairs {β} (f : β → Bytes → Spec → β) (offers : List Bytes) (specs : List Spec) (b0 : β) :
    offers.foldl (fun b o => specs.foldl (fun b s => f b o s) b) b0
      = (pairs offers specs).foldl (fun b p => f b p.1 p.2) b0 := by
  induction offers generalizing b0 with
  | nil => rfl
  | cons o rest ih =>
    simp only [List.foldl_cons, pairs, List.flatMap_cons, List.foldl_append]
    rw [ih]
    congr 1
    simp [List.foldl_map]

theorem mem_pairs {offers : List Bytes} {specs : List Spec} {p : Bytes × Spec} :
    p ∈ pairs offers specs ↔ p.1 ∈ offers ∧ p.2 ∈ specs := by
  simp only [pairs, List.mem_flatMap, List.mem_map]
  constructor
  · rintro ⟨o, ho, s, hs, rfl⟩; exact ⟨ho, hs⟩
  · rintro ⟨h1, h2⟩; exact ⟨p.1, h1, p.2, h2, rfl⟩

theorem foldl_inv {α β} (f : β → α → β) (P : β → Prop) (l : List α) (b0 : β)
    (h0 : P b0) (hstep : ∀ b a, a ∈ l → P b → P (f b a)) : P (l.foldl f b0) := by
  induction l generalizing b0 with
  | nil => exact h0
  | cons a rest ih =>
    simp only [List.foldl_cons]
    exact ih _ (hstep b0 a (by simp) h0) (fun b x hx hb => hstep b x (by simp [hx]) hb)

/-- state invariant: either still the default (never set) or an offered type that some
Accept range with non-zero q admits. -/
def Good (offers : List Bytes) (specs : List Spec) (dflt : Bytes) (b : Best) : Prop :=
  (b.offer = dflt ∧ b.wild = 3 ∧ b.q = ⟨-1, 1⟩) ∨
  (b.wild < 3 ∧ b.offer ∈ offers ∧ ∃ s ∈ specs, s.q.isZero = false ∧ rangeMatches s.value b.offer = true)

theorem wildOf_le (v : Bytes) : wildOf v ≤ 2 := by
  unfold wildOf; split <;> (try split) <;> omega

theorem stepType_good (offers : List Bytes) (specs : List Spec) (dflt : Bytes) (b : Best)
    (o : Bytes) (s : Spec) (ho : o ∈ offers) (hs : s ∈ specs) (hb : Good offers specs dflt b) :
    Good offers specs dflt (stepType b o s) := by
  unfold stepType
  split
  · exact hb
  · rename_i hz
    split
    · exact hb
    · split
      · rename_i hm
        simp only [Bool.and_eq_true] at hm
        right
        refine ⟨?_, ho, s, hs, by simpa using hz, hm.1⟩
        have := wildOf_le s.value
        show wildOf s.value < 3
        omega
      · exact hb

/-- **Soundness**: the negotiated type is the default, or an offered type that an Accept
range with q ≠ 0 admits — for every header, every q-ordering. -/
theorem negotiate_sound (specs : List Spec) (offers : List Bytes) (dflt : Bytes) :
    let r := negotiateContentType specs offers dflt
    r = dflt ∨ (r ∈ offers ∧ ∃ s ∈ specs, s.q.isZero = false ∧ rangeMatches s.value r = true) := by
  simp only [negotiateContentType]
  rw [fold_pairs (fun b o s => stepType b o s)]
  have := foldl_inv (fun (b : Best) (p : Bytes × Spec) => stepType b p.1 p.2)
    (Good offers specs dflt) (pairs offers specs) ⟨dflt, ⟨-1, 1⟩, 3⟩
    (Or.inl ⟨rfl, rfl, rfl⟩)
    (fun b p hp hb => stepType_good offers specs dflt b p.1 p.2 (mem_pairs.mp hp).1 (mem_pairs.mp hp).2 hb)
  rcases this with h | h
  · exact Or.inl h.1
  · exact Or.inr ⟨h.2.1, h.2.2⟩

theorem stepType_set_mono (b : Best)
    (o : Bytes) (s : Spec) (hb : b.wild < 3) : (stepType b o s).wild < 3 := by
  unfold stepType
  split
  · exact hb
  · split
    · exact hb
    · split
      · have := wildOf_le s.value
        show wildOf s.value < 3
        omega
      · exact hb

/-- processing a pair that matches with q > 0 leaves the state *set*. -/
theorem stepType_sets (offers : List Bytes) (specs : List Spec) (dflt : Bytes) (b : Best)
    (o : Bytes) (s : Spec) (hb : Good offers specs dflt b)
    (hq : 0 < s.q.num) (hd : 0 < s.q.den) (hm : rangeMatches s.value o = true) :
    (stepType b o s).wild < 3 := by
  have hz : s.q.isZero = false := by simp [Q.isZero]; omega
  unfold stepType
  simp only [hz, Bool.false_eq_true, if_false]
  rcases hb with ⟨_, hw, hbq⟩ | ⟨hw, _⟩
  · -- never set: b.q = -1 < s.q, so the pair is taken
    have hlt : s.q.lt b.q = false := by
      rw [hbq]; simp only [Q.lt]
      have : (0:Int) < s.q.num * 1 := by omega
      have h2 : (-1 : Int) * (s.q.den : Int) < 0 := by
        have : (0:Int) < (s.q.den : Int) := by exact_mod_cast hd
        omega
      simp; omega
    have hgt : b.q.lt s.q = true := by
      rw [hbq]; simp only [Q.lt]
      have h2 : (-1 : Int) * (s.q.den : Int) < 0 := by
        have : (0:Int) < (s.q.den : Int) := by exact_mod_cast hd
        omega
      simp; omega
    simp only [hlt, Bool.false_eq_true, if_false, hm, hgt, Bool.true_or, Bool.and_self, if_true]
    have := wildOf_le s.value
    show wildOf s.value < 3
    omega
  · split
    · exact hw
    · split
      · have := wildOf_le s.value
        show wildOf s.value < 3
        omega
      · exact hw

theorem foldl_eventually {α β} (f : β → α → β) (I S : β → Prop) (l : List α) (b0 : β) (a0 : α)
    (ha : a0 ∈ l) (h0 : I b0)
    (hI : ∀ b a, a ∈ l → I b → I (f b a))
    (hset : ∀ b, I b → S (f b a0))
    (hmono : ∀ b a, S b → S (f b a)) : S (l.foldl f b0) := by
  induction l generalizing b0 with
  | nil => cases ha
  | cons a rest ih =>
    simp only [List.foldl_cons]
    rcases List.mem_cons.mp ha with h | h
    · subst h
      have hs := hset b0 h0
      clear ih
      induction rest generalizing b0 with
      | nil => exact hs
      | cons x xs ih2 =>
        simp only [List.foldl_cons]
        -- S is preserved by every further step
        have : ∀ (l : List α) (b : β), S b → S (l.foldl f b) := by
          intro l
          induction l with
          | nil => intro b hb; exact hb
          | cons y ys ihy => intro b hb; exact ihy _ (hmono b y hb)
        exact this xs _ (hmono _ x hs)
    · exact ih _ h (hI b0 a (by simp) h0) (fun b x hx hb => hI b x (by simp [hx]) hb)

/-- **Completeness**: whenever some offered (registered) type is admitted by an Accept range
with q > 0, the result is an offered type admitted by Accept — never the fallback. -/
theorem negotiate_complete (specs : List Spec) (offers : List Bytes) (dflt : Bytes)
    (hden : ∀ s ∈ specs, 0 < s.q.den)
    (hex : ∃ o ∈ offers, ∃ s ∈ specs, 0 < s.q.num ∧ rangeMatches s.value o = true) :
    let r := negotiateContentType specs offers dflt
    r ∈ offers ∧ ∃ s ∈ specs, s.q.isZero = false ∧ rangeMatches s.value r = true := by
  obtain ⟨o, ho, s, hs, hq, hm⟩ := hex
  simp only [negotiateContentType]
  rw [fold_pairs (fun b o s => stepType b o s)]
  let f := fun (b : Best) (p : Bytes × Spec) => stepType b p.1 p.2
  have hgood := foldl_inv f (Good offers specs dflt) (pairs offers specs) ⟨dflt, ⟨-1, 1⟩, 3⟩
    (Or.inl ⟨rfl, rfl, rfl⟩)
    (fun b p hp hb => stepType_good offers specs dflt b p.1 p.2 (mem_pairs.mp hp).1 (mem_pairs.mp hp).2 hb)
  have hset := foldl_eventually f (Good offers specs dflt) (fun b => b.wild < 3) (pairs offers specs)
    ⟨dflt, ⟨-1, 1⟩, 3⟩ (o, s) (mem_pairs.mpr ⟨ho, hs⟩) (Or.inl ⟨rfl, rfl, rfl⟩)
    (fun b p hp hb => stepType_good offers specs dflt b p.1 p.2 (mem_pairs.mp hp).1 (mem_pairs.mp hp).2 hb)
    (fun b hb => stepType_sets offers specs dflt b o s hb hq (hden s hs) hm)
    (fun b p hb => stepType_set_mono b p.1 p.2 hb)
  rcases hgood with h | h
  · have : (List.foldl f ⟨dflt, ⟨-1, 1⟩, 3⟩ (pairs offers specs)).wild < 3 := hset
    rw [h.2.1] at this
    omega
  · exact ⟨h.2.1, h.2.2⟩

/-- every q-value `parseAccept` produces has a positive denominator. -/
theorem fracDigits_den (s : Bytes) (n d : Nat) (hd : 0 < d) : 0 < (fracDigits s n d).2.1 := by
  induction s generalizing n d with
  | nil => simpa [fracDigits]
  | cons c rest ih =>
    unfold fracDigits
    split
    · exact ih _ _ (by omega)
    · simpa

theorem expectQuality_den (s : Bytes) (q : Q) (rest : Bytes) (h : expectQuality s = some (q, rest)) :
    0 < q.den := by
  unfold expectQuality at h
  repeat' split at h
  all_goals
    first
    | (simp at h; done)
    | (injection h with h; injection h with h1 _; rw [← h1]
       first
       | exact fracDigits_den _ 0 1 (by omega)
       | simp)

end Larking.Negotiate

namespace Larking.Negotiate

theorem parseLine_den : ∀ (fuel : Nat) (s : Bytes), ∀ sp ∈ parseLine fuel s, 0 < sp.q.den := by
  intro fuel
  induction fuel with
  | zero => intro s sp h; simp [parseLine] at h
  | succ fuel ih =>
    intro s sp h
    unfold parseLine at h
    simp only at h
    repeat' split at h
    all_goals (try (simp at h; done))
    all_goals
      simp only [List.mem_cons, List.not_mem_nil, or_false] at h
      first
      | (rcases h with h | h
         · subst h
           first
           | exact expectQuality_den _ _ _ ‹expectQuality _ = some (_, _)›
           | simp
         · exact ih _ sp h)
      | (subst h
         first
         | exact expectQuality_den _ _ _ ‹expectQuality _ = some (_, _)›
         | simp)

theorem parseAccept_den (values : List Bytes) : ∀ sp ∈ parseAccept values, 0 < sp.q.den := by
  intro sp h
  simp only [parseAccept, List.mem_flatMap] at h
  obtain ⟨v, _, hv⟩ := h
  exact parseLine_den _ _ sp hv

end Larking.Negotiate
