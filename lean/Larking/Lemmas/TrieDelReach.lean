import Larking.Lemmas.TrieDel
import Larking.Lemmas.Search
/-
  Routing completeness ACROSS a deletion: whatever way a request had to a binding of a method
  other than the deleted one, it still has afterwards (`delRule_keeps_reach`), and the trie stays
  well formed (`delRule_wf`), so `search_complete` applies to the trie after the deletion.
-/
namespace Larking.Trie
open Larking.Lexer

theorem delMeth_lookup_none : ∀ (ms ms' : List (Bytes × Meth)) (name : Nat), delMeth ms name = some ms' →
    ∀ verb, lookupMeth ms verb = none → lookupMeth ms' verb = none
  | [], _, _, h, _, _ => by simp [delMeth] at h
  | (k, m0) :: rest, ms', name, h, verb, hl => by
    simp only [delMeth] at h
    simp only [lookupMeth] at hl
    by_cases hk : (k == verb) = true
    · simp [hk] at hl
    · simp only [hk] at hl
      split at h
      · injection h with h; subst h; exact hl
      · cases hr : delMeth rest name with
        | none => rw [hr] at h; simp at h
        | some rest' =>
          rw [hr] at h; simp only [Option.map_some] at h; injection h with h; subst h
          simp only [lookupMeth, hk]
          exact delMeth_lookup_none rest rest' name hr verb hl

/-- a node from which a request reaches a binding is alive. -/
theorem reach_alive (counts : List String) (hs : AliveSound counts) (conv) (verb : Bytes) (n : Node)
    (toks : List Tok) (m : Meth) (caps : Caps) (es : List Edge)
    (h : Reach conv verb n toks m caps es) : aliveWith counts n = true := by
  obtain ⟨h1, h2, h3, h4⟩ := hs
  cases h with
  | hereVerb _ _ _ _ hl =>
    obtain ⟨segs, methods, all, vars⟩ := n
    simp only [Node.methods] at hl
    simp only [aliveWith, h1, h2, h3, h4, Bool.true_and]
    simp [lookupMeth_ne_nil methods verb m hl]
  | hereAll _ _ _ _ _ ha =>
    obtain ⟨segs, methods, all, vars⟩ := n
    simp only [Node.all] at ha
    simp only [aliveWith, h1, h2, h3, h4, Bool.true_and]
    simp [ha]
  | seg _ child _ _ _ _ _ _ hl _ =>
    obtain ⟨segs, methods, all, vars⟩ := n
    simp only [Node.segs] at hl
    simp only [aliveWith, h1, h2, h3, h4, Bool.true_and]
    simp [lookupSeg_ne_nil segs _ child hl]
  | var _ child v _ _ _ _ _ _ _ _ hmem _ _ _ _ _ _ =>
    obtain ⟨segs, methods, all, vars⟩ := n
    simp only [Node.vars] at hmem
    have : vars.isEmpty = false := by cases vars with | nil => cases hmem | cons _ _ => rfl
    simp only [aliveWith, h1, h2, h3, h4, Bool.true_and]
    simp [this]

/-- what `delSegs` does to ONE lookup: the child found for `k` is untouched, or it is the child
the deletion went into — still found under `k` when it is alive. -/
theorem delSegs_lookup (counts : List String) (name : Nat) :
    ∀ (segs segs' : List (Bytes × Node)), delSegs counts name segs = some segs' →
    ∀ k child, lookupSeg segs k = some child →
      lookupSeg segs' k = some child ∨
      ∃ child', delRule counts name child = some child' ∧
        (aliveWith counts child' = true → lookupSeg segs' k = some child')
  | [], _, h, _, _, _ => by simp [delSegs] at h
  | (k0, c0) :: rest, segs', h, k, child, hl => by
    simp only [delSegs] at h
    simp only [lookupSeg] at hl
    cases hd : delRule counts name c0 with
    | some c0' =>
      rw [hd] at h; simp only at h; injection h with h; subst h
      by_cases hk : (k0 == k) = true
      · simp only [hk, if_true] at hl
        injection hl with hl; subst hl
        exact Or.inr ⟨c0', hd, fun hal => by simp [hal, lookupSeg, hk]⟩
      · simp only [hk] at hl
        refine Or.inl ?_
        split
        · simp only [lookupSeg, hk]; exact hl
        · exact hl
    | none =>
      rw [hd] at h; simp only at h
      cases hr : delSegs counts name rest with
      | none => rw [hr] at h; simp at h
      | some rest' =>
        rw [hr] at h; simp only [Option.map_some] at h; injection h with h; subst h
        by_cases hk : (k0 == k) = true
        · simp only [hk, if_true] at hl
          exact Or.inl (by simp only [lookupSeg, hk, if_true]; exact hl)
        · simp only [hk] at hl
          rcases delSegs_lookup counts name rest rest' hr k child hl with h1 | ⟨c', h1, h2⟩
          · exact Or.inl (by simp only [lookupSeg, hk]; exact h1)
          · exact Or.inr ⟨c', h1, fun hal => by simp only [lookupSeg, hk]; exact h2 hal⟩

theorem delVars_mem (counts : List String) (name : Nat) :
    ∀ (vars vars' : List (Var × Node)), delVars counts name vars = some vars' →
    ∀ v child, (v, child) ∈ vars →
      (v, child) ∈ vars' ∨
      ∃ child', delRule counts name child = some child' ∧
        (aliveWith counts child' = true → (v, child') ∈ vars')
  | [], _, h, _, _, _ => by simp [delVars] at h
  | (v0, c0) :: rest, vars', h, v, child, hmem => by
    simp only [delVars] at h
    cases hd : delRule counts name c0 with
    | some c0' =>
      rw [hd] at h; simp only at h; injection h with h; subst h
      rcases List.mem_cons.mp hmem with hm | hm
      · injection hm with h1 h2; subst h1; subst h2
        exact Or.inr ⟨c0', hd, fun hal => by simp [hal]⟩
      · refine Or.inl ?_
        split
        · exact List.mem_cons_of_mem _ hm
        · exact hm
    | none =>
      rw [hd] at h; simp only at h
      cases hr : delVars counts name rest with
      | none => rw [hr] at h; simp at h
      | some rest' =>
        rw [hr] at h; simp only [Option.map_some] at h; injection h with h; subst h
        rcases List.mem_cons.mp hmem with hm | hm
        · injection hm with h1 h2; subst h1; subst h2
          exact Or.inl (by simp)
        · rcases delVars_mem counts name rest rest' hr v child hm with h1 | ⟨c', h1, h2⟩
          · exact Or.inl (List.mem_cons_of_mem _ h1)
          · exact Or.inr ⟨c', h1, fun hal => List.mem_cons_of_mem _ (h2 hal)⟩

/-- **a deletion keeps every way to another method's binding**: the same request tokens, the same
edges, the same captures. -/
theorem delRule_keeps_reach (counts : List String) (hs : AliveSound counts) (conv) (verb : Bytes)
    (name : Nat) : ∀ (n : Node) (toks : List Tok) (m : Meth) (caps : Caps) (es : List Edge),
    Reach conv verb n toks m caps es → m.mid ≠ name →
    ∀ n', delRule counts name n = some n' → Reach conv verb n' toks m caps es := by
  intro n toks m caps es h
  induction h with
  | hereVerb n toks m hlen hl =>
    intro hne n' hd
    obtain ⟨segs, methods, all, vars⟩ := n
    simp only [Node.methods] at hl
    simp only [delRule] at hd
    cases hsg : delSegs counts name segs with
    | some segs' =>
      rw [hsg] at hd; simp only at hd; injection hd with hd; subst hd
      exact .hereVerb _ _ _ hlen hl
    | none =>
      rw [hsg] at hd; simp only at hd
      cases hv : delVars counts name vars with
      | some vars' =>
        rw [hv] at hd; simp only at hd; injection hd with hd; subst hd
        exact .hereVerb _ _ _ hlen hl
      | none =>
        rw [hv] at hd; simp only at hd
        cases hdm : delMeth methods name with
        | none => rw [hdm] at hd; simp at hd
        | some ms =>
          rw [hdm] at hd; simp only [Option.map_some] at hd; injection hd with hd; subst hd
          exact .hereVerb _ _ _ hlen (delMeth_keeps methods ms name hdm verb m hne hl)
  | hereAll n toks m hlen hl ha =>
    intro hne n' hd
    obtain ⟨segs, methods, all, vars⟩ := n
    simp only [Node.methods] at hl
    simp only [Node.all] at ha
    simp only [delRule] at hd
    cases hsg : delSegs counts name segs with
    | some segs' =>
      rw [hsg] at hd; simp only at hd; injection hd with hd; subst hd
      exact .hereAll _ _ _ hlen hl ha
    | none =>
      rw [hsg] at hd; simp only at hd
      cases hv : delVars counts name vars with
      | some vars' =>
        rw [hv] at hd; simp only at hd; injection hd with hd; subst hd
        exact .hereAll _ _ _ hlen hl ha
      | none =>
        rw [hv] at hd; simp only at hd
        cases hdm : delMeth methods name with
        | none => rw [hdm] at hd; simp at hd
        | some ms =>
          rw [hdm] at hd; simp only [Option.map_some] at hd; injection hd with hd; subst hd
          exact .hereAll _ _ _ hlen (delMeth_lookup_none methods ms name hdm verb hl) ha
  | seg n child t0 t1 rest m caps es hl hr ih =>
    intro hne n' hd
    obtain ⟨segs, methods, all, vars⟩ := n
    simp only [Node.segs] at hl
    simp only [delRule] at hd
    cases hsg : delSegs counts name segs with
    | some segs' =>
      rw [hsg] at hd; simp only at hd; injection hd with hd; subst hd
      rcases delSegs_lookup counts name segs segs' hsg _ child hl with h1 | ⟨c', h1, h2⟩
      · exact .seg _ child _ _ _ _ _ _ h1 hr
      · have hr' := ih hne c' h1
        exact .seg _ c' _ _ _ _ _ _ (h2 (reach_alive counts hs conv verb c' _ _ _ _ hr')) hr'
    | none =>
      rw [hsg] at hd; simp only at hd
      cases hv : delVars counts name vars with
      | some vars' =>
        rw [hv] at hd; simp only at hd; injection hd with hd; subst hd
        exact .seg _ child _ _ _ _ _ _ hl hr
      | none =>
        rw [hv] at hd; simp only at hd
        cases hdm : delMeth methods name with
        | none => rw [hdm] at hd; simp at hd
        | some ms =>
          rw [hdm] at hd; simp only [Option.map_some] at hd; injection hd with hd; subst hd
          exact .seg _ child _ _ _ _ _ _ hl hr
  | var n child v t0 toks1 i m caps es fp hsl hmem hlen hvi hr hfp hcl hcv ih =>
    intro hne n' hd
    obtain ⟨segs, methods, all, vars⟩ := n
    simp only [Node.vars] at hmem
    simp only [delRule] at hd
    cases hsg : delSegs counts name segs with
    | some segs' =>
      rw [hsg] at hd; simp only at hd; injection hd with hd; subst hd
      exact .var _ child v _ _ i _ _ _ fp hsl hmem hlen hvi hr hfp hcl hcv
    | none =>
      rw [hsg] at hd; simp only at hd
      cases hv : delVars counts name vars with
      | some vars' =>
        rw [hv] at hd; simp only at hd; injection hd with hd; subst hd
        rcases delVars_mem counts name vars vars' hv v child hmem with h1 | ⟨c', h1, h2⟩
        · exact .var _ child v _ _ i _ _ _ fp hsl h1 hlen hvi hr hfp hcl hcv
        · have hr' := ih hne c' h1
          exact .var _ c' v _ _ i _ _ _ fp hsl (h2 (reach_alive counts hs conv verb c' _ _ _ _ hr')) hlen hvi hr' hfp hcl hcv
      | none =>
        rw [hv] at hd; simp only at hd
        cases hdm : delMeth methods name with
        | none => rw [hdm] at hd; simp at hd
        | some ms =>
          rw [hdm] at hd; simp only [Option.map_some] at hd; injection hd with hd; subst hd
          exact .var _ child v _ _ i _ _ _ fp hsl hmem hlen hvi hr hfp hcl hcv

/-! ### the trie stays well formed -/

theorem WFSegs_of_forall (k : Nat) : ∀ (segs : List (Bytes × Node)), (∀ p ∈ segs, WF k p.2) → WFSegs k segs
  | [], _ => by simp [WFSegs]
  | (k0, c) :: rest, h => by
    simp only [WFSegs]
    exact ⟨h (k0, c) (by simp), WFSegs_of_forall k rest (fun p hp => h p (List.mem_cons_of_mem _ hp))⟩

mutual
  theorem delRule_wf (counts : List String) (name : Nat) :
      ∀ (k : Nat) (n n' : Node), WF k n → delRule counts name n = some n' → WF k n'
    | k, .mk segs methods all vars, n', hw, h => by
      simp only [delRule] at h
      simp only [WF] at hw
      obtain ⟨hm, ha, hsw, hvw⟩ := hw
      cases hsg : delSegs counts name segs with
      | some segs' =>
        rw [hsg] at h; simp only at h; injection h with h; subst h
        simp only [WF]
        exact ⟨hm, ha, delSegs_wf counts name k segs segs' hsw hsg, hvw⟩
      | none =>
        rw [hsg] at h; simp only at h
        cases hv : delVars counts name vars with
        | some vars' =>
          rw [hv] at h; simp only at h; injection h with h; subst h
          simp only [WF]
          exact ⟨hm, ha, hsw, delVars_wf counts name k vars vars' hvw hv⟩
        | none =>
          rw [hv] at h; simp only at h
          cases hd : delMeth methods name with
          | none => rw [hd] at h; simp at h
          | some ms =>
            rw [hd] at h; simp only [Option.map_some] at h; injection h with h; subst h
            simp only [WF]
            exact ⟨fun p hp => hm p (delMeth_only_removes methods ms name hd p hp), ha, hsw, hvw⟩

  theorem delSegs_wf (counts : List String) (name : Nat) :
      ∀ (k : Nat) (segs segs' : List (Bytes × Node)), WFSegs k segs → delSegs counts name segs = some segs' →
      WFSegs k segs'
    | _, [], _, _, h => by simp [delSegs] at h
    | k, (k0, c0) :: rest, segs', hw, h => by
      simp only [delSegs] at h
      simp only [WFSegs] at hw
      cases hd : delRule counts name c0 with
      | some c0' =>
        rw [hd] at h; simp only at h; injection h with h; subst h
        split
        · simp only [WFSegs]; exact ⟨delRule_wf counts name k c0 c0' hw.1 hd, hw.2⟩
        · exact hw.2
      | none =>
        rw [hd] at h; simp only at h
        cases hr : delSegs counts name rest with
        | none => rw [hr] at h; simp at h
        | some rest' =>
          rw [hr] at h; simp only [Option.map_some] at h; injection h with h; subst h
          simp only [WFSegs]
          exact ⟨hw.1, delSegs_wf counts name k rest rest' hw.2 hr⟩

  theorem delVars_wf (counts : List String) (name : Nat) :
      ∀ (k : Nat) (vars vars' : List (Var × Node)), WFVars k vars → delVars counts name vars = some vars' →
      WFVars k vars'
    | _, [], _, _, h => by simp [delVars] at h
    | k, (v0, c0) :: rest, vars', hw, h => by
      simp only [delVars] at h
      simp only [WFVars] at hw
      cases hd : delRule counts name c0 with
      | some c0' =>
        rw [hd] at h; simp only at h; injection h with h; subst h
        split
        · simp only [WFVars]; exact ⟨hw.1, delRule_wf counts name (k + 1) c0 c0' hw.2.1 hd, hw.2.2⟩
        · exact hw.2.2
      | none =>
        rw [hd] at h; simp only at h
        cases hr : delVars counts name rest with
        | none => rw [hr] at h; simp at h
        | some rest' =>
          rw [hr] at h; simp only [Option.map_some] at h; injection h with h; subst h
          simp only [WFVars]
          exact ⟨hw.1, hw.2.1, delVars_wf counts name k rest rest' hw.2.2 hr⟩
end

/-- any number of deletions. -/
theorem delAll_keeps_reach (counts : List String) (hs : AliveSound counts) (conv) (verb : Bytes)
    (name : Nat) : ∀ (fuel : Nat) (n : Node) (toks : List Tok) (m : Meth) (caps : Caps) (es : List Edge),
    Reach conv verb n toks m caps es → m.mid ≠ name →
    Reach conv verb (delAll counts name fuel n) toks m caps es
  | 0, _, _, _, _, _, h, _ => h
  | fuel + 1, n, toks, m, caps, es, h, hne => by
    simp only [delAll]
    cases hd : delRule counts name n with
    | none => exact h
    | some n' =>
      exact delAll_keeps_reach counts hs conv verb name fuel n' toks m caps es
        (delRule_keeps_reach counts hs conv verb name n toks m caps es h hne n' hd) hne

theorem delAll_wf (counts : List String) (name : Nat) : ∀ (fuel k : Nat) (n : Node), WF k n →
    WF k (delAll counts name fuel n)
  | 0, _, _, h => h
  | fuel + 1, k, n, h => by
    simp only [delAll]
    cases hd : delRule counts name n with
    | none => exact h
    | some n' => exact delAll_wf counts name fuel k n' (delRule_wf counts name k n n' h hd)

end Larking.Trie
