import Larking.Model.Status
import Larking.Lemmas.Base64
namespace Larking.Status

/-- the mathematical content of `encodeGrpcMessage`: escape byte by byte. -/
def encSimple (needsEsc : UInt8 → Bool) (msg : Bytes) : Bytes :=
  msg.flatMap (fun c => if needsEsc c then pct c else [c])

theorem encLoop_spec (ne : UInt8 → Bool) (rest pending sb : Bytes) (escaped : Bool) :
    let r := encLoop ne rest pending sb escaped
    r.2.1 ++ r.1 = sb ++ pending ++ encSimple ne rest ∧
    r.2.2 = (escaped || rest.any ne) := by
  induction rest generalizing pending sb escaped with
  | nil => simp [encLoop, encSimple]
  | cons c rest ih =>
    unfold encLoop
    by_cases h : ne c
    · simp only [h, if_true]
      have := ih [] (sb ++ pending ++ pct c) true
      simp only [encSimple, List.flatMap_cons, h, if_true, List.any_cons] at this ⊢
      simp_all
    · simp only [h]
      have := ih (pending ++ [c]) sb escaped
      simp only [encSimple, List.flatMap_cons, h, List.any_cons] at this ⊢
      simp_all

theorem encSimple_id (ne : UInt8 → Bool) (msg : Bytes) (h : msg.any ne = false) :
    encSimple ne msg = msg := by
  induction msg with
  | nil => rfl
  | cons c rest ih =>
    simp only [List.any_cons, Bool.or_eq_false_iff] at h
    have := ih h.2
    simp only [encSimple] at this
    simp [encSimple, h.1, this]

theorem encode_eq_simple (ne : UInt8 → Bool) (msg : Bytes) :
    encodeGrpcMessage ne msg = encSimple ne msg := by
  unfold encodeGrpcMessage
  have := encLoop_spec ne msg [] [] false
  generalize encLoop ne msg [] [] false = r at this
  obtain ⟨p, sb, e⟩ := r
  simp only [List.nil_append, Bool.false_or] at this
  obtain ⟨h1, h2⟩ := this
  simp only
  cases e with
  | true => simp [h1]
  | false => simp; exact (encSimple_id ne msg h2.symm).symm

theorem unhex_hexDigit : ∀ n : Fin 16, unhex (hexDigit n.val) = some n.val := by decide

theorem decode_cons_ne (a : UInt8) (l : Bytes) (h : (a == 37) = false) :
    decodeGrpcMessage (a :: l) = a :: decodeGrpcMessage l := by
  match l with
  | [] => simp [decodeGrpcMessage]
  | [b] => simp [decodeGrpcMessage]
  | b :: c :: rest => simp [decodeGrpcMessage, h]

theorem decode_pct (c : UInt8) (l : Bytes) :
    decodeGrpcMessage (pct c ++ l) = c :: decodeGrpcMessage l := by
  have hc := c.toNat_lt
  have h1 := unhex_hexDigit ⟨c.toNat / 16, by omega⟩
  have h2 := unhex_hexDigit ⟨c.toNat % 16, by omega⟩
  simp only at h1 h2
  simp only [pct, List.cons_append, List.nil_append, decodeGrpcMessage, h1, h2]
  have : c.toNat / 16 * 16 + c.toNat % 16 = c.toNat := by omega
  simp [this]

/-- grpc-message round trip for every predicate that escapes '%'. -/
theorem decode_encSimple (ne : UInt8 → Bool) (hpct : ne 37 = true) (msg : Bytes) :
    decodeGrpcMessage (encSimple ne msg) = msg := by
  induction msg with
  | nil => simp [encSimple, decodeGrpcMessage]
  | cons c rest ih =>
    simp only [encSimple, List.flatMap_cons] at ih ⊢
    by_cases h : ne c
    · simp only [h, if_true]; rw [decode_pct, ih]
    · simp only [h]
      have hne : (c == 37) = false := by
        cases hc : (c == 37) with
        | false => rfl
        | true =>
          have : c = 37 := by simpa using hc
          simp [this, hpct] at h
      simp only [Bool.false_eq_true, if_false, List.cons_append, List.nil_append]
      rw [decode_cons_ne _ _ hne, ih]

def printable (b : UInt8) : Bool := decide (0x20 ≤ b.toNat ∧ b.toNat ≤ 0x7E)

theorem hexDigit_printable : ∀ n : Fin 16, printable (hexDigit n.val) = true := by decide

theorem pct_printable (c : UInt8) : ∀ b ∈ pct c, printable b = true := by
  have hc := c.toNat_lt
  intro b hb
  simp only [pct, List.mem_cons, List.mem_nil_iff, or_false] at hb
  rcases hb with h | h | h
  · subst h; decide
  · subst h; exact hexDigit_printable ⟨c.toNat / 16, by omega⟩
  · subst h; exact hexDigit_printable ⟨c.toNat % 16, by omega⟩

theorem encSimple_printable (ne : UInt8 → Bool) (hcov : ∀ c, printable c = false → ne c = true)
    (msg : Bytes) : ∀ b ∈ encSimple ne msg, printable b = true := by
  intro b hb
  simp only [encSimple, List.mem_flatMap] at hb
  obtain ⟨c, _, hb⟩ := hb
  by_cases h : ne c
  · simp only [h, if_true] at hb; exact pct_printable c b hb
  · simp only [h, Bool.false_eq_true, if_false, List.mem_singleton] at hb
    subst hb
    cases hp : printable b with
    | true => rfl
    | false => exact absurd (hcov b hp) h

/-! ### streaming base64 writer -/

theorem encGroups_spec (l : Bytes) :
    (encGroups l).2.length < 3 ∧
    (encGroups l).1 ++ Base64.encode false true (encGroups l).2 = Base64.encode false true l := by
  fun_induction encGroups l with
  | case1 a b c rest o l' h ih =>
    simp only [h] at ih
    refine ⟨ih.1, ?_⟩
    simp only [List.append_assoc, ih.2]
    simp [Base64.encode]
  | case2 l hl =>
    constructor
    · match l, hl with
      | [], _ => simp
      | [_], _ => simp
      | [_, _], _ => simp
      | a :: b :: c :: r, hl => exact absurd rfl (hl a b c r)
    · simp

/-- groups consumed by one `Write` depend only on the concatenation. -/
theorem encGroups_append (l p : Bytes) :
    (encGroups ((encGroups l).2 ++ p)).2 = (encGroups (l ++ p)).2 ∧
    (encGroups l).1 ++ (encGroups ((encGroups l).2 ++ p)).1 = (encGroups (l ++ p)).1 := by
  fun_induction encGroups l with
  | case1 a b c rest o l' h ih =>
    simp only [h] at ih
    simp only [List.cons_append, encGroups]
    constructor
    · exact ih.1
    · simp only [List.append_assoc]; rw [ih.2]
  | case2 l hl => simp

theorem foldl_write (ws : List Bytes) (w : B64Writer) (acc : Bytes)
    (hp : w.pending = (encGroups acc).2) (ho : w.out = (encGroups acc).1) :
    (ws.foldl B64Writer.write w).pending = (encGroups (acc ++ ws.flatten)).2 ∧
    (ws.foldl B64Writer.write w).out = (encGroups (acc ++ ws.flatten)).1 := by
  induction ws generalizing w acc with
  | nil => simp [hp, ho]
  | cons p ws ih =>
    simp only [List.foldl_cons, List.flatten_cons]
    have := ih (w.write p) (acc ++ p)
      (by simp only [B64Writer.write, hp]; exact (encGroups_append acc p).1)
      (by simp only [B64Writer.write, hp, ho]; exact (encGroups_append acc p).2)
    simpa [List.append_assoc] using this

/-- With the encoder closed, the client decodes exactly the bytes written, however
they were split into writes. -/
theorem textMode_closed (ws : List Bytes) :
    Base64.decode false true (textModeOutput true ws) = some ws.flatten := by
  unfold textModeOutput
  have := foldl_write ws { pending := [], out := [] } [] (by simp [encGroups]) (by simp [encGroups])
  simp only [List.nil_append, if_true, B64Writer.close] at this ⊢
  rw [this.1, this.2, (encGroups_spec ws.flatten).2]
  exact Base64.decode_encode false true _

end Larking.Status
