import Larking.Model.Mount
namespace Larking.Mount

/-- what `pick` returns is a matching entry of the table that no matching entry beats. -/
theorem pick_some : ∀ (t : List (Path × Target)) (path : Path) (e : Path × Target),
    pick t path = some e → e ∈ t ∧ patMatches e.1 path = true ∧
      ∀ e' ∈ t, patMatches e'.1 path = true → e'.1.length ≤ e.1.length := by
  intro t
  induction t with
  | nil => intro path e h; simp [pick] at h
  | cons x rest ih =>
    intro path e h
    simp only [pick] at h
    by_cases hm : patMatches x.1 path = true
    · simp only [hm, if_true] at h
      cases hr : pick rest path with
      | none =>
        simp only [hr] at h
        injection h with h; subst h
        refine ⟨by simp, hm, ?_⟩
        intro e' he' hm'
        simp only [List.mem_cons] at he'
        rcases he' with he' | he'
        · subst he'; exact Nat.le_refl _
        · -- nothing in the rest matches
          exfalso
          have : ∀ (t : List (Path × Target)), pick t path = none → ∀ y ∈ t, patMatches y.1 path = false := by
            intro t
            induction t with
            | nil => intro _ y hy; simp at hy
            | cons z zs ihz =>
              intro hn y hy
              simp only [pick] at hn
              by_cases hz : patMatches z.1 path = true
              · simp only [hz, if_true] at hn
                cases hzs : pick zs path with
                | none => simp [hzs] at hn
                | some w => simp only [hzs] at hn; split at hn <;> simp at hn
              · simp only [hz] at hn
                simp only [List.mem_cons] at hy
                rcases hy with hy | hy
                · subst hy; simpa using hz
                · exact ihz hn y hy
          have := this rest hr e' he'
          rw [this] at hm'; cases hm'
      | some w =>
        simp only [hr] at h
        obtain ⟨hw1, hw2, hw3⟩ := ih path w hr
        split at h
        · rename_i hlt
          injection h with h; subst h
          refine ⟨by simp [hw1], hw2, ?_⟩
          intro e' he' hm'
          simp only [List.mem_cons] at he'
          rcases he' with he' | he'
          · subst he'; omega
          · exact hw3 e' he' hm'
        · rename_i hlt
          injection h with h; subst h
          refine ⟨by simp, hm, ?_⟩
          intro e' he' hm'
          simp only [List.mem_cons] at he'
          rcases he' with he' | he'
          · subst he'; exact Nat.le_refl _
          · have := hw3 e' he' hm'; omega
    · simp only [hm] at h
      obtain ⟨h1, h2, h3⟩ := ih path e h
      refine ⟨by simp [h1], h2, ?_⟩
      intro e' he' hm'
      simp only [List.mem_cons] at he'
      rcases he' with he' | he'
      · subst he'; exact absurd hm' hm
      · exact h3 e' he' hm'

theorem pick_none (t : List (Path × Target)) (path : Path)
    (h : ∀ e ∈ t, patMatches e.1 path = false) : pick t path = none := by
  induction t with
  | nil => rfl
  | cons x rest ih =>
    simp only [pick, h x (by simp), Bool.false_eq_true, if_false]
    exact ih (fun e he => h e (by simp [he]))

/-- a matching entry that strictly beats every other matching entry is the one picked. -/
theorem pick_unique_best (t : List (Path × Target)) (path : Path) (m : Path × Target)
    (hm : m ∈ t) (hmm : patMatches m.1 path = true)
    (hbest : ∀ e ∈ t, patMatches e.1 path = true → e = m ∨ e.1.length < m.1.length) :
    pick t path = some m := by
  cases hp : pick t path with
  | none =>
    exfalso
    have : ∀ (t : List (Path × Target)), pick t path = none → ∀ y ∈ t, patMatches y.1 path = false := by
      intro t
      induction t with
      | nil => intro _ y hy; simp at hy
      | cons z zs ihz =>
        intro hn y hy
        simp only [pick] at hn
        by_cases hz : patMatches z.1 path = true
        · simp only [hz, if_true] at hn
          cases hzs : pick zs path with
          | none => simp [hzs] at hn
          | some w => simp only [hzs] at hn; split at hn <;> simp at hn
        · simp only [hz] at hn
          simp only [List.mem_cons] at hy
          rcases hy with hy | hy
          · subst hy; simpa using hz
          · exact ihz hn y hy
    have := this t hp m hm
    rw [this] at hmm; cases hmm
  | some e =>
    obtain ⟨h1, h2, h3⟩ := pick_some t path e hp
    rcases hbest e h1 h2 with h | h
    · rw [h]
    · have := h3 m hm hmm; omega

theorem isPrefixOf_append (a b : Path) : a.isPrefixOf (a ++ b) = true := by
  induction a with
  | nil => simp
  | cons x xs ih => simp [List.isPrefixOf, ih]

end Larking.Mount
