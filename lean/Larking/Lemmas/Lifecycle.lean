import Larking.Model.Lifecycle
namespace Larking.Lifecycle

/-- once `close` has returned the stream is closed and no call is in flight. -/
def Inv (s : St) : Prop := s.waited = true → s.closed = true ∧ s.count = 0

theorem step_inv (s : St) (st : Step) (h : Inv s) : Inv (step true s st) := by
  unfold Inv at *
  cases st with
  | begin =>
    simp only [step, Bool.true_and]
    split
    · intro hw; exact h hw
    · rename_i hc
      intro hw
      have := h hw
      simp [this.1] at hc
  | done =>
    simp only [step]
    split
    · intro hw; have := h hw; simp only at *; omega
    · exact h
  | mark => intro hw; exact ⟨rfl, (h hw).2⟩
  | wait =>
    simp only [step]
    split
    · rename_i hc
      intro _
      simp only [Bool.and_eq_true, beq_iff_eq] at hc
      exact hc
    · exact h

theorem run_inv (steps : List Step) (s : St) (h : Inv s) : Inv (run true steps s) := by
  unfold run
  induction steps generalizing s with
  | nil => exact h
  | cons st steps ih => exact ih _ (step_inv s st h)

theorem waited_stays (g : Bool) (s : St) (st : Step) (h : s.waited = true) : (step g s st).waited = true := by
  cases st <;> simp only [step] <;> (try split) <;> simp [h]

theorem run_waited_stays (g : Bool) (steps : List Step) (s : St) (h : s.waited = true) :
    (run g steps s).waited = true := by
  unfold run
  induction steps generalizing s with
  | nil => exact h
  | cons st steps ih => exact ih _ (waited_stays g s st h)

end Larking.Lifecycle
