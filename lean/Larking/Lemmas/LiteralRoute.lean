import Larking.Lemmas.VarIndexComplete
/-
  String level, for literal templates (every method's implicit `/pkg.Service/Method` route is
  one): the request path that spells a registered literal template IS dispatched.  Composes
  lexTemplate (grammar) → parseToks → insertAt → … → lexPath → search.
-/
namespace Larking.Trie
open Larking.Lexer

/-- `"/" LITERAL { "/" LITERAL } [ ":" LITERAL ]` -/
structure LitTmpl where
  slash : Rune
  first : List Rune
  more : List (Rune × List Rune)
  verb : Option (Rune × List Rune)

def LitTmpl.toTmpl (l : LitTmpl) : Tmpl :=
  { slash := l.slash, first := .simple (.lit l.first),
    more := l.more.map fun p => (p.1, .simple (.lit p.2)), verb := l.verb }

/-- the same runes read as a request path: separators and segments. -/
def LitTmpl.segs (l : LitTmpl) : PathSegs :=
  (l.slash, l.first) :: (l.more ++ l.verb.toList)

/-- '/' and ':' are spelled in ASCII (what UTF-8 does; the model's runes carry their bytes). -/
def LitTmpl.Ascii (l : LitTmpl) : Prop :=
  l.slash.bytes = slashB ∧ (∀ p ∈ l.more, p.1.bytes = slashB) ∧ ∀ p, l.verb = some p → p.1.bytes = colonB

theorem LitTmpl.render_eq (l : LitTmpl) : l.toTmpl.render = renderPath l.segs := by
  obtain ⟨slash, first, more, verb⟩ := l
  simp only [LitTmpl.toTmpl, Tmpl.render, renderSegs, Seg.render, Simple.render, LitTmpl.segs, renderPath,
    List.flatMap_cons, List.flatMap_append, List.cons_append, List.flatMap_map]
  congr 1
  rw [List.append_assoc]
  congr 1
  cases verb with
  | none => simp [Tmpl.verbRender]
  | some p => simp [Tmpl.verbRender]

theorem litEdges_more (more : List (Rune × List Rune)) :
    (more.map fun p => (p.1, Seg.simple (.lit p.2))).map (fun p => p.2.edge) =
      more.map fun p => Edge.seg (slashB ++ runesBytes p.2) := by
  induction more with
  | nil => rfl
  | cons p more ih => simp [Seg.edge]

theorem LitTmpl.edges_eq (l : LitTmpl) :
    l.toTmpl.edges = Edge.seg (slashB ++ runesBytes l.first) ::
      ((l.more.map fun p => Edge.seg (slashB ++ runesBytes p.2)) ++
        (l.verb.toList.map fun p => Edge.seg (colonB ++ runesBytes p.2))) := by
  obtain ⟨slash, first, more, verb⟩ := l
  have hm := litEdges_more more
  cases verb with
  | none => simp [LitTmpl.toTmpl, Tmpl.edges, segsEdges, Seg.edge, Tmpl.verbEdges, hm]
  | some q => simp [LitTmpl.toTmpl, Tmpl.edges, segsEdges, Seg.edge, Tmpl.verbEdges, hm]

theorem pathToks_append (a b : PathSegs) : pathToks (a ++ b) = pathToks a ++ pathToks b := by
  simp [pathToks]

theorem pathToks_sep (ty : TokTy) : ∀ (ps : PathSegs),
    (∀ p ∈ ps, (if (p.1.ch == cSlash) = true then TokTy.slash else TokTy.verb) = ty) →
    pathToks ps = ps.flatMap fun p => [⟨ty, p.1.bytes⟩, ⟨.path, runesBytes p.2⟩]
  | [], _ => rfl
  | p :: ps, h => by
    have ih := pathToks_sep ty ps (fun q hq => h q (by simp [hq]))
    simp only [pathToks, List.flatMap_cons] at ih ⊢
    rw [ih, h p (by simp)]

/-- tokens of literal segments behind ASCII separators instantiate the literal edges. -/
theorem edgeInst_lits (sepB : Bytes) (ty : TokTy) : ∀ (ps : List (Rune × List Rune)) (tailE : List Edge) (tailT : List Tok),
    (∀ p ∈ ps, p.1.bytes = sepB) → EdgeInst tailE tailT →
    EdgeInst ((ps.map fun p => Edge.seg (sepB ++ runesBytes p.2)) ++ tailE)
      ((ps.flatMap fun p => [⟨ty, p.1.bytes⟩, ⟨.path, runesBytes p.2⟩]) ++ tailT)
  | [], _, _, _, ht => by simpa using ht
  | p :: ps, tailE, tailT, hb, ht => by
    have ih := edgeInst_lits sepB ty ps tailE tailT (fun q hq => hb q (by simp [hq])) ht
    have := EdgeInst.seg ⟨ty, p.1.bytes⟩ ⟨.path, runesBytes p.2⟩ _ _ ih
    simpa [hb p (by simp)] using this

/-- the request tokens of the template's own text instantiate the template's edges. -/
theorem LitTmpl.edgeInst (l : LitTmpl) (ha : l.Ascii)
    (hch : l.slash.ch = cSlash ∧ (∀ p ∈ l.more, p.1.ch = cSlash) ∧ ∀ p, l.verb = some p → p.1.ch ≠ cSlash) :
    EdgeInst l.toTmpl.edges (pathToks l.segs ++ [⟨.eof, []⟩]) := by
  rw [LitTmpl.edges_eq]
  obtain ⟨slash, first, more, verb⟩ := l
  obtain ⟨ha1, ha2, ha3⟩ := ha
  obtain ⟨hc1, hc2, hc3⟩ := hch
  simp only at ha1 ha2 ha3 hc1 hc2 hc3
  -- the verb part
  have hverb : EdgeInst (verb.toList.map fun p => Edge.seg (colonB ++ runesBytes p.2))
      ((verb.toList.flatMap fun p => [⟨.verb, p.1.bytes⟩, ⟨.path, runesBytes p.2⟩]) ++ [⟨.eof, []⟩]) := by
    have := edgeInst_lits colonB .verb verb.toList [] [⟨.eof, []⟩]
      (by intro p hp; cases verb with
          | none => simp at hp
          | some q => simp at hp; exact hp ▸ ha3 q rfl)
      (.nil _ (by simp))
    simpa using this
  have hmore := edgeInst_lits slashB .slash more _ _ ha2 hverb
  have hfirst := EdgeInst.seg ⟨.slash, slash.bytes⟩ ⟨.path, runesBytes first⟩ _ _ hmore
  -- bring the request tokens into that shape
  have h1 : pathToks [(slash, first)] = [⟨.slash, slash.bytes⟩, ⟨.path, runesBytes first⟩] := by
    simp [pathToks, hc1]
  have h2 := pathToks_sep .slash more (fun p hp => by simp [hc2 p hp])
  have h3 := pathToks_sep .verb verb.toList (fun p hp => by
    cases verb with
    | none => simp at hp
    | some q =>
      simp at hp
      have : (q.1.ch == cSlash) = false := by simpa using hc3 q rfl
      simp [hp, this])
  have htoks : pathToks ((slash, first) :: (more ++ verb.toList)) =
      pathToks [(slash, first)] ++ (pathToks more ++ pathToks verb.toList) := by
    rw [← pathToks_append, ← pathToks_append]; rfl
  simp only [LitTmpl.segs]
  rw [htoks, h1, h2, h3]
  simpa [ha1] using hfirst

theorem LitTmpl.resolves (l : LitTmpl) (resolve : List Bytes → Option Nat) : l.toTmpl.Resolves resolve := by
  refine ⟨trivial, ?_⟩
  intro p hp
  simp only [LitTmpl.toTmpl, List.mem_map] at hp
  obtain ⟨q, _, hq⟩ := hp
  subst hq
  trivial

theorem LitTmpl.seps_of_wf (l : LitTmpl) (h : l.toTmpl.Wf) :
    l.slash.ch = cSlash ∧ (∀ p ∈ l.more, p.1.ch = cSlash) ∧ ∀ p, l.verb = some p → p.1.ch ≠ cSlash := by
  obtain ⟨h1, _, h3, h4⟩ := h
  refine ⟨h1.1, ?_, ?_⟩
  · intro p hp
    have := h3 (p.1, .simple (.lit p.2)) (by simp only [LitTmpl.toTmpl, List.mem_map]; exact ⟨p, hp, rfl⟩)
    exact this.1.1
  · intro p hp
    simp only [LitTmpl.toTmpl, hp] at h4
    rw [h4.1.1]; decide

